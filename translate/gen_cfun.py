#!/usr/bin/env python3
"""C -> Lean translator for small pure scalar functions of /repo (run by translate/gen.py on every check run).

For every function listed in FUNCS it asks clang-14 for the fully typed JSON AST of the CURRENT source and writes
  lean/Carquet/Gen/CFun.lean        one `def f` (value, two's-complement wrap-around) and one `def f_defined`
                                    (no undefined behaviour reached) per function, over `BitVec`/`Bool`
                                    (semantics: lean/Carquet/Impl/CSem.lean), plus a table for the driver;
  harness/gen_cfun_shim_*.c         one translation unit per C file that `#include`s it (its external symbols
  harness/gen_cfun_table.h          renamed) and exposes each (static) function as `uint64_t cfunx_<name>(const
                                    uint64_t*)`, so that harness/ops_cfun.c can call the REAL compiled function.
The theorems in lean/Carquet/Properties/Cnn/CFun.lean link the generated definitions to the hand-written Impl
models; they are re-checked by the Lean kernel against what the C code says now.

Everything the translator does not understand is a hard error (non-zero exit): an untranslatable function is a
broken tie, never silently skipped.  The translator follows the AST's own implicit conversions (ImplicitCastExpr) and
operand types; it does not re-derive C's promotion rules.  The only folding it does itself: a cast or unary minus
applied to a literal, a literal shift count, and `(c != 0)` of a comparison result `c`.

Supported subset: see NOTES_cfun.md.
"""
import hashlib, json, os, re, subprocess, sys, tempfile

sys.path.insert(0, os.path.dirname(os.path.abspath(__file__)))
import gen

REPO = gen.REPO
HARNESS = os.path.join(gen.VERIF, "harness")
# generated harness sources go to the build directory of THIS run (VERIF_BUILD_DIR, default /verif/build), not into
# harness/: runs against different trees (VERIF_REPO, e.g. seeded trials in parallel) must not see one another's shims
GENH = os.path.join(os.environ.get("VERIF_BUILD_DIR") or os.path.join(gen.VERIF, "build"), "genh")
CLANG = os.environ.get("VERIF_CLANG", "clang-14")
CFLAGS = ["-std=gnu11", f"-I{REPO}/include", f"-I{REPO}/src", "-DCARQUET_ARCH_X86", "-DCARQUET_ENABLE_SSE",
          "-DCARQUET_ENABLE_AVX2", "-DCARQUET_ENABLE_AVX512"]
SPILL = 72          # a bound local whose Lean expression is longer than this becomes a helper definition


def F(lean, file, cname=None, fuel=None):
    return dict(lean=lean, file=file, cname=cname or lean, fuel=fuel or [])


# Order matters only in that a callee must come before its callers.  `fuel`: one number per loop of the function
# (in source order); the `_defined` predicate is false if a loop runs out of fuel, and the link theorems prove it
# does not.
FUNCS = [
    F("carquet_zigzag_encode32", "src/core/endian.h"),
    F("carquet_zigzag_encode64", "src/core/endian.h"),
    F("carquet_zigzag_decode32", "src/core/endian.h"),
    F("carquet_zigzag_decode64", "src/core/endian.h"),
    F("delta_zigzag_decode64", "src/encoding/delta.c", "zigzag_decode64"),
    F("delta_zigzag_encode64", "src/encoding/delta.c", "zigzag_encode64"),
    F("bit_width_required", "src/encoding/delta.c", fuel=[65]),
    F("carquet_clz32", "src/core/bitpack.h"),
    F("carquet_clz64", "src/core/bitpack.h"),
    F("carquet_ctz32", "src/core/bitpack.h"),
    F("carquet_popcount32", "src/core/bitpack.h"),
    F("carquet_popcount64", "src/core/bitpack.h"),
    F("carquet_bit_width32", "src/core/bitpack.h"),
    F("carquet_bit_width64", "src/core/bitpack.h"),
    F("carquet_packed_size", "src/core/bitpack.h"),
    F("bit_width_for_count", "src/encoding/dictionary.c", fuel=[33]),
    F("page_reader_bit_width_for_max", "src/reader/page_reader.c", "bit_width_for_max", fuel=[32]),
    F("page_reader_get_value_size", "src/reader/page_reader.c", "get_value_size"),
    F("page_header_sizes_valid", "src/reader/page_reader.c"),
    F("mmap_header_window", "src/reader/page_reader.c"),
    F("mmap_body_in_file", "src/reader/page_reader.c"),
    F("carquet_page_is_zero_copy_eligible", "src/reader/mmap_reader.c"),
    F("page_writer_bit_width_for_max", "src/writer/page_writer.c", "bit_width_for_max", fuel=[16]),
    F("get_type_size", "src/reader/batch_reader.c"),
    F("statistics_get_value_size", "src/metadata/statistics.c", "get_value_size"),
    F("get_compare_width", "src/reader/statistics.c"),
    F("fixed_width", "src/metadata/page_index.c"),
    F("bloom_filter_block_index", "src/metadata/bloom_filter.c"),
    F("xxh64_rotl", "src/util/xxhash.c"),
    F("xxh64_round", "src/util/xxhash.c"),
    F("xxh64_merge_round", "src/util/xxhash.c"),
    F("snappy_hash", "src/compression/snappy.c"),
    F("carquet_snappy_compress_bound", "src/compression/snappy.c"),
    F("lz4_hash", "src/compression/lz4.c"),
    F("carquet_lz4_compress_bound", "src/compression/lz4.c"),
    F("next_power_of_two", "src/core/buffer.c"),
    F("align_up", "src/core/arena.c"),
    F("carquet_buffer_reader_remaining", "src/core/buffer.h"),
    F("carquet_buffer_reader_has", "src/core/buffer.h"),
    F("has_bytes", "src/thrift/thrift_decode.c"),
]

# Not carquet code: synthetic functions (harness/cfun_synth.h) that exercise the constructs of the supported subset the
# functions above do not use, so that the translator self-check (component cfun) covers them on every run.
SYNTH = "@harness/cfun_synth.h"
FUNCS += [
    F("syn_sdiv", SYNTH), F("syn_smod", SYNTH), F("syn_smul", SYNTH), F("syn_neg", SYNTH), F("syn_shl", SYNTH),
    F("syn_shr", SYNTH), F("syn_ushl", SYNTH), F("syn_udivmod", SYNTH), F("syn_guard", SYNTH),
    F("syn_for", SYNTH, fuel=[6]), F("syn_switch", SYNTH), F("syn_bools", SYNTH),
    F("syn_rec_inner", SYNTH), F("syn_rec", SYNTH), F("syn_collatz", SYNTH, fuel=[202]), F("syn_mix", SYNTH),
]


class Untranslatable(Exception):
    pass


def die(msg):
    sys.stderr.write("gen_cfun: " + msg + "\n")
    sys.exit(1)


# ------------------------------------------------------------------------------------------------ clang

def run_clang(args, what, soft=False):
    r = subprocess.run([CLANG] + CFLAGS + args, stdout=subprocess.PIPE, stderr=subprocess.PIPE, text=True)
    if r.returncode != 0:
        if soft:
            raise Untranslatable(f"clang rejects {what}")
        die(f"clang failed ({what}):\n{r.stderr[-2000:]}")
    return r.stdout


def json_docs(s):
    dec, i, docs = json.JSONDecoder(), 0, []
    while True:
        while i < len(s) and s[i].isspace():
            i += 1
        if i >= len(s):
            return docs
        o, i = dec.raw_decode(s, i)
        docs.append(o)


def ast_of(tu, name):
    """the FunctionDecl named exactly `name` that has a body"""
    out = run_clang(["-fsyntax-only", "-Xclang", "-ast-dump=json", "-Xclang", "-ast-dump-filter=" + name, tu],
                    "AST of " + name)
    for d in json_docs(out):
        if d.get("kind") == "FunctionDecl" and d.get("name") == name and \
                any(c.get("kind") == "CompoundStmt" for c in d.get("inner", [])):
            return d
    die(f"no definition of function `{name}` found in {tu}")


def first_value(n):
    if "value" in n:
        return int(n["value"])
    for c in n.get("inner", []):
        v = first_value(c)
        if v is not None:
            return v
    return None


def const_query(tu_text, tmpdir, exprs, soft=False):
    """evaluate integer constant expressions in the context of a translation unit (clang does the work)"""
    if not exprs:
        return {}
    p = os.path.join(tmpdir, "query.c")
    with open(p, "w") as f:
        f.write(tu_text)
        for i, e in enumerate(exprs):
            f.write(f"enum {{ cfun__q{i}_ = ({e}) }};\n")
    out = run_clang(["-fsyntax-only", "-Xclang", "-ast-dump=json", "-Xclang", "-ast-dump-filter=cfun__q", p],
                    "constant query " + "; ".join(exprs), soft)
    res = {}
    for d in json_docs(out):
        m = re.fullmatch(r"cfun__q(\d+)_", d.get("name", ""))
        if m and d.get("kind") == "EnumConstantDecl":
            v = first_value(d)
            if v is None:
                die(f"clang gave no value for constant expression `{exprs[int(m.group(1))]}`")
            res[exprs[int(m.group(1))]] = v
    for e in exprs:
        if e not in res:
            die(f"constant expression `{e}` was not evaluated")
    return res


# ------------------------------------------------------------------------------------------------ types

class T:
    def __init__(self, w, signed, is_bool=False):
        self.w, self.signed, self.is_bool = w, signed, is_bool

    def lean(self):
        return "Bool" if self.is_bool else f"BitVec {self.w}"

    def __eq__(self, o):
        return (self.w, self.signed, self.is_bool) == (o.w, o.signed, o.is_bool)

    def __repr__(self):
        return "bool" if self.is_bool else ("i" if self.signed else "u") + str(self.w)


BOOL = T(1, False, True)
BASE = {
    "_Bool": BOOL, "bool": BOOL,
    "char": T(8, True), "signed char": T(8, True), "unsigned char": T(8, False),
    "short": T(16, True), "unsigned short": T(16, False),
    "int": T(32, True), "unsigned int": T(32, False),
    "long": T(64, True), "unsigned long": T(64, False),
    "long long": T(64, True), "unsigned long long": T(64, False),
}
# what the table above assumes; checked against clang for every translation unit
HOST_ASSUMPTIONS = ["sizeof(char) == 1", "sizeof(short) == 2", "sizeof(int) == 4", "sizeof(long) == 8",
                    "sizeof(long long) == 8", "sizeof(_Bool) == 1", "((char)-1 < 0)", "((-1) >> 1) == -1",
                    "((int)4294967295u) == -1", "((-7) / 2) == -3", "((-7) % 2) == -1"]


def strip_quals(q):
    return " ".join(t for t in q.replace("*", " * ").split() if t not in ("const", "volatile", "restrict", "__restrict"))


def type_key(tj):
    return strip_quals(tj.get("desugaredQualType", tj["qualType"]))


KEYWORDS = set("""end at from in do then else if let have show fun match with open local instance prefix where by
deriving def theorem example namespace section variable universe import export macro syntax notation infix infixl
infixr postfix mutual structure class inductive extends for unless return try catch finally break continue mut
using calc suffices obtain fuel__ Type Prop Sort""".split())


def ident(s):
    return s + "_" if s in KEYWORDS else s


# ------------------------------------------------------------------------------------------------ expressions

class E:
    """a translated expression: Lean term `v` of type `t`; `d` = conjuncts of its definedness; `b` = Lean Bool term
    when the (integer) value is known to be `ofBoolW _ b`; `lit` = its mathematical value when it is a literal"""
    def __init__(self, v, t, d=None, b=None, lit=None):
        self.v, self.t, self.d, self.b, self.lit = v, t, list(d or []), b, lit


def dand(ds):
    ds = [d for d in ds if d != "true"]
    if not ds:
        return "true"
    if "false" in ds:
        return "false"
    return ds[0] if len(ds) == 1 else "(" + " && ".join(ds) + ")"


def lit_e(value, t, d=None):
    if t.is_bool:
        return E("true" if value else "false", t, d, lit=int(bool(value)))
    lo, hi = (-(1 << (t.w - 1)), (1 << (t.w - 1)) - 1) if t.signed else (0, (1 << t.w) - 1)
    if not (lo <= value <= hi):
        raise Untranslatable(f"literal {value} does not fit its type {t}")
    return E(f"{value % (1 << t.w)}#{t.w}", t, d, lit=value)


def ite(c, a, b):
    if a == b:
        return a
    return f"(if {c} then {a} else {b})"


class Fn:
    """translation of one function"""

    def __init__(self, cfg, ast, unit):
        self.cfg, self.ast, self.unit = cfg, ast, unit
        self.name = cfg["lean"]
        self.defs = []                 # emitted helper definitions (text)
        self.nv = 0
        self.nloop = 0
        self.paths = []                # [(path tuple, T)] in order of first appearance
        self.scope = []                # dynamic: parameters [(lean name, T)] of the definition being generated
        self.in_loop_body = False

    # ---- types
    def ctype(self, tj):
        k = type_key(tj)
        if k in BASE:
            return BASE[k]
        if k.startswith("enum "):
            return self.unit.enum_type(k)
        if re.fullmatch(r"\w+", k):
            # a typedef clang does not desugar (typedef of an anonymous enum): ask clang for its size and signedness;
            # it is an integer type iff the three constant expressions compile
            try:
                return self.unit.typedef_type(self, k, soft=True)
            except Untranslatable:
                pass
        raise Untranslatable(f"type `{tj.get('qualType')}` (= `{k}`) is outside the supported scalar types")

    def struct_ptr(self, tj):
        """C spelling of the pointee if `tj` is a pointer to something that is not a scalar (a struct: it can only be
        used through `->`, which clang has type-checked), else None"""
        k = type_key(tj)
        if k.endswith(" *") and k.count("*") == 1:
            base = k[:-2].strip()
            if base not in BASE and not base.startswith("enum ") and base != "void":
                return strip_quals(tj["qualType"]).replace(" *", "").strip()
        return None

    # ---- struct access paths
    def path_of(self, n):
        """access path of an lvalue expression `p->a.b` (list of names), through parentheses"""
        k = n.get("kind")
        if k == "ParenExpr":
            return self.path_of(n["inner"][0])
        if k == "MemberExpr":
            base = n["inner"][0]
            if n.get("isArrow"):
                while base.get("kind") in ("ParenExpr",) or (base.get("kind") == "ImplicitCastExpr" and
                                                            base.get("castKind") in ("LValueToRValue", "NoOp")):
                    base = base["inner"][0]
                if base.get("kind") == "DeclRefExpr" and base["referencedDecl"].get("kind") == "ParmVarDecl" \
                        and base["referencedDecl"]["name"] in self.ptr_params:
                    return [base["referencedDecl"]["name"], n["name"]]
                raise Untranslatable("`->` is only supported on a pointer-to-struct parameter")
            return self.path_of(base) + [n["name"]]
        raise Untranslatable(f"unsupported lvalue {k} in a member access")

    def ptr_arg_path(self, n):
        """a call argument of pointer-to-struct type: `p` or `&p->a.b`"""
        while n.get("kind") == "ParenExpr" or (n.get("kind") in ("ImplicitCastExpr", "CStyleCastExpr") and
                                               n.get("castKind") in ("LValueToRValue", "NoOp")):
            n = n["inner"][0]
        if n.get("kind") == "DeclRefExpr" and n["referencedDecl"].get("kind") == "ParmVarDecl" and \
                n["referencedDecl"]["name"] in self.ptr_params:
            return [n["referencedDecl"]["name"]]
        if n.get("kind") == "UnaryOperator" and n.get("opcode") == "&":
            return self.path_of(n["inner"][0])
        raise Untranslatable("a struct pointer passed to a callee must be a pointer parameter or `&p->field`")

    def use_path(self, path, t):
        path = tuple(path)
        for p, pt in self.paths:
            if p == path:
                if not pt == t:
                    raise Untranslatable(f"access path {'.'.join(path)} used at two types")
                return ident("_".join(path))
        self.paths.append((path, t))
        return ident("_".join(path))

    def collect_paths(self, n):
        k = n.get("kind")
        if k == "MemberExpr":
            try:
                t = self.ctype(n["type"])
            except Untranslatable:
                t = None
            if t is not None:
                self.use_path(self.path_of(n), t)
                return
        if k == "CallExpr":
            callee = self.callee_of(n)
            if isinstance(callee, dict):
                args = n["inner"][1:]
                for (pname, pt, origin) in callee["lean_params"]:
                    if origin[0] == "path":
                        self.use_path(self.ptr_arg_path(args[origin[1]]) + list(origin[2]), pt)
                for i, a in enumerate(args):
                    if callee["cparams"][i]["struct"] is None:
                        self.collect_paths(a)
                return
        for c in n.get("inner", []):
            if isinstance(c, dict) and c:
                self.collect_paths(c)

    # ---- calls
    BUILTINS = {
        "__builtin_clz": ("Carquet.Impl.CSem.builtinClz", "Carquet.Impl.CSem.builtinNonZero"),
        "__builtin_clzl": ("Carquet.Impl.CSem.builtinClz", "Carquet.Impl.CSem.builtinNonZero"),
        "__builtin_clzll": ("Carquet.Impl.CSem.builtinClz", "Carquet.Impl.CSem.builtinNonZero"),
        "__builtin_ctz": ("Carquet.Impl.CSem.builtinCtz", "Carquet.Impl.CSem.builtinNonZero"),
        "__builtin_ctzl": ("Carquet.Impl.CSem.builtinCtz", "Carquet.Impl.CSem.builtinNonZero"),
        "__builtin_ctzll": ("Carquet.Impl.CSem.builtinCtz", "Carquet.Impl.CSem.builtinNonZero"),
        "__builtin_popcount": ("Carquet.Impl.CSem.builtinPopcount", None),
        "__builtin_popcountl": ("Carquet.Impl.CSem.builtinPopcount", None),
        "__builtin_popcountll": ("Carquet.Impl.CSem.builtinPopcount", None),
    }

    def callee_of(self, n):
        f = n["inner"][0]
        while f.get("kind") in ("ImplicitCastExpr", "ParenExpr"):
            f = f["inner"][0]
        if f.get("kind") != "DeclRefExpr" or f["referencedDecl"].get("kind") != "FunctionDecl":
            raise Untranslatable("call through something that is not a function name")
        name = f["referencedDecl"]["name"]
        if name in self.BUILTINS:
            return name
        cands = [r for r in self.unit.registry if r["cname"] == name]
        same = [r for r in cands if r["file"] == self.cfg["file"]]
        hdr = [r for r in cands if r["file"].endswith(".h")]
        ext = [r for r in cands if not r["static"]]
        pick = same or (hdr if len(hdr) == 1 else []) or (ext if len(ext) == 1 else [])
        if len(pick) != 1:
            raise Untranslatable(f"call to `{name}`, which is not (yet) a translated function "
                                 f"(list it in FUNCS before `{self.name}`)")
        return pick[0]

    # ---- expressions
    def cond(self, e):
        if e.t.is_bool:
            return e.v
        if e.b is not None:
            return e.b
        if e.lit is not None:
            return "true" if e.lit != 0 else "false"
        return f"({e.v} != 0#{e.t.w})"

    def from_bool(self, b, t, d):
        if t.is_bool:
            return E(b, t, d)
        v = f"(Carquet.Impl.CSem.ofBool {b})" if t.w == 32 else f"(Carquet.Impl.CSem.ofBoolW {t.w} {b})"
        return E(v, t, d, b=b)

    def cast(self, e, t):
        if t.is_bool:
            return E(self.cond(e), t, e.d, lit=(None if e.lit is None else int(e.lit != 0)))
        if e.lit is not None:
            v = e.lit % (1 << t.w)
            if t.signed and v >= (1 << (t.w - 1)):
                v -= 1 << t.w
            return lit_e(v, t, e.d)
        if e.t.is_bool:
            return self.from_bool(e.v, t, e.d)
        if e.b is not None:
            return self.from_bool(e.b, t, e.d)
        if t.w == e.t.w:
            return E(e.v, t, e.d)
        if t.w < e.t.w or not e.t.signed:
            return E(f"(BitVec.setWidth {t.w} {e.v})", t, e.d)
        return E(f"(BitVec.signExtend {t.w} {e.v})", t, e.d)

    def expr(self, n, env):
        k = n.get("kind")
        if k in ("ParenExpr", "ConstantExpr"):
            return self.expr(n["inner"][0], env)
        if k == "IntegerLiteral":
            return lit_e(int(n["value"]), self.ctype(n["type"]))
        if k == "CharacterLiteral":
            return lit_e(int(n["value"]), self.ctype(n["type"]))
        if k in ("ImplicitCastExpr", "CStyleCastExpr"):
            ck = n.get("castKind")
            inner = n["inner"][0]
            if ck in ("LValueToRValue", "NoOp"):
                e = self.expr(inner, env)
                if not e.t == self.ctype(n["type"]):
                    raise Untranslatable(f"{ck} cast changes the type")
                return e
            if ck == "IntegralCast":
                return self.cast(self.expr(inner, env), self.ctype(n["type"]))
            if ck == "IntegralToBoolean":
                return self.cast(self.expr(inner, env), BOOL)
            raise Untranslatable(f"cast kind {ck} is outside the supported subset")
        if k == "DeclRefExpr":
            rd = n["referencedDecl"]
            if rd.get("kind") == "EnumConstantDecl":
                return lit_e(self.unit.consts[rd["name"]], self.ctype(n["type"]))
            if rd.get("kind") in ("ParmVarDecl", "VarDecl"):
                nm = rd["name"]
                if nm not in env:
                    raise Untranslatable(f"`{nm}` is not a scalar local or parameter (global or pointer?)")
                if env[nm] is None:
                    raise Untranslatable(f"local `{nm}` is read before it is assigned")
                v, t = env[nm]
                return E(v, t)
            raise Untranslatable(f"reference to a {rd.get('kind')}")
        if k == "MemberExpr":
            t = self.ctype(n["type"])
            return E(self.use_path(self.path_of(n), t), t)
        if k == "UnaryExprOrTypeTraitExpr":
            if n.get("name") != "sizeof" or "argType" not in n:
                raise Untranslatable("only sizeof(type) is supported")
            return lit_e(self.unit.consts["sizeof(" + n["argType"]["qualType"] + ")"], self.ctype(n["type"]))
        if k == "UnaryOperator":
            op = n["opcode"]
            t = self.ctype(n["type"])
            a = self.expr(n["inner"][0], env)
            if op == "+":
                return a
            if op == "-":
                if a.lit is not None and a.t == t:
                    try:
                        return lit_e(-a.lit, t, a.d)
                    except Untranslatable:
                        pass
                return E(f"(-{a.v})", t, a.d + ([f"(Carquet.Impl.CSem.sNegOk {a.v})"] if t.signed else []))
            if op == "~":
                return E(f"(~~~{a.v})", t, a.d)
            if op == "!":
                return self.from_bool(f"(!{self.cond(a)})", t, a.d)
            raise Untranslatable(f"unary operator `{op}` in an expression")
        if k == "BinaryOperator":
            return self.binop(n, env)
        if k == "ConditionalOperator":
            c, x, y = (self.expr(c, env) for c in n["inner"])
            t = self.ctype(n["type"])
            cb = self.cond(c)
            if not (x.t == t and y.t == t):
                raise Untranslatable("arms of ?: are not of the result type")
            d = list(c.d)
            if x.d or y.d:
                d.append(ite(cb, dand(x.d), dand(y.d)))
            if x.b is not None and y.b is not None and not t.is_bool:
                return self.from_bool(ite(cb, x.b, y.b), t, d)
            return E(ite(cb, x.v, y.v), t, d)
        if k == "CallExpr":
            return self.call(n, env)
        raise Untranslatable(f"expression kind {k} is outside the supported subset")

    def binop(self, n, env):
        op = n["opcode"]
        t = self.ctype(n["type"])
        a = self.expr(n["inner"][0], env)
        if op in ("&&", "||"):
            b = self.expr(n["inner"][1], env)
            ca, cb = self.cond(a), self.cond(b)
            d = list(a.d)
            if b.d:
                d.append(f"({'!' if op == '&&' else ''}{ca} || {dand(b.d)})")
            return self.from_bool(f"({ca} {op} {cb})", t, d)
        b = self.expr(n["inner"][1], env)
        if a.t.is_bool or b.t.is_bool:
            raise Untranslatable(f"`{op}` on an unpromoted _Bool")
        d = a.d + b.d
        if op in ("<<", ">>"):
            if not a.t == t:
                raise Untranslatable("shift result type differs from its left operand")
            if b.lit is not None:
                cnt = str(b.lit)
                if not (0 <= b.lit < t.w):
                    d.append("false")
                    cnt = str(b.lit % (1 << b.t.w))
            else:
                cnt = f"{b.v}.toNat"
                d.append(f"(Carquet.Impl.CSem.shCountOk {'true' if b.t.signed else 'false'} {t.w} {b.v})")
            if op == "<<":
                if t.signed:
                    d.append(f"(Carquet.Impl.CSem.sShlOk {a.v} {cnt})")
                return E(f"({a.v} <<< {cnt})", t, d)
            if t.signed:
                return E(f"(BitVec.sshiftRight {a.v} {cnt})", t, d)
            return E(f"({a.v} >>> {cnt})", t, d)
        if not a.t == b.t:
            raise Untranslatable(f"operands of `{op}` have different types {a.t} and {b.t} (missing conversion in the AST?)")
        s = a.t.signed
        if op in ("<", ">", "<=", ">=", "==", "!="):
            x, y = (a.v, b.v) if op in ("<", "<=", "==", "!=") else (b.v, a.v)
            if op in ("==", "!="):
                r = f"({x} {op} {y})"
            elif op in ("<", ">"):
                r = f"(BitVec.slt {x} {y})" if s else f"(decide ({x} < {y}))"
            else:
                r = f"(BitVec.sle {x} {y})" if s else f"(decide ({x} ≤ {y}))"
            return self.from_bool(r, t, d)
        if not a.t == t:
            raise Untranslatable(f"result type of `{op}` differs from its operands")
        if op in ("+", "-", "*"):
            if s:
                d.append(f"(Carquet.Impl.CSem.{ {'+': 'sAddOk', '-': 'sSubOk', '*': 'sMulOk'}[op]} {a.v} {b.v})")
            return E(f"({a.v} {op} {b.v})", t, d)
        if op in ("/", "%"):
            if s:
                if b.lit is None or b.lit in (0, -1):      # a literal divisor other than 0, -1 is always fine
                    d.append(f"(Carquet.Impl.CSem.sDivOk {a.v} {b.v})")
                return E(f"(BitVec.{'sdiv' if op == '/' else 'srem'} {a.v} {b.v})", t, d)
            if b.lit is None or b.lit == 0:
                d.append(f"(Carquet.Impl.CSem.uDivOk {b.v})")
            return E(f"({a.v} {op} {b.v})", t, d)
        if op in ("&", "|", "^"):
            return E(f"({a.v} { {'&': '&&&', '|': '|||', '^': '^^^'}[op]} {b.v})", t, d)
        raise Untranslatable(f"binary operator `{op}` in an expression")

    def call(self, n, env):
        callee = self.callee_of(n)
        args = n["inner"][1:]
        t = self.ctype(n["type"])
        if isinstance(callee, str):
            vf, df = self.BUILTINS[callee]
            if len(args) != 1:
                raise Untranslatable(f"{callee} with {len(args)} arguments")
            a = self.expr(args[0], env)
            if not t == BASE["int"]:
                raise Untranslatable(f"{callee} not returning int")
            return E(f"({vf} {a.v})", t, a.d + ([f"({df} {a.v})"] if df else []))
        if not t == callee["ret"]:
            raise Untranslatable(f"call to {callee['cname']}: result type mismatch")
        if len(args) != len(callee["cparams"]):
            raise Untranslatable(f"call to {callee['cname']}: wrong number of arguments")
        d, actual = [], []
        scalar = {}
        for i, a in enumerate(args):
            if callee["cparams"][i]["struct"] is None:
                e = self.expr(a, env)
                if not e.t == callee["cparams"][i]["t"]:
                    raise Untranslatable(f"call to {callee['cname']}: argument {i} has type {e.t}")
                scalar[i] = e
                d += e.d
        for (pname, pt, origin) in callee["lean_params"]:
            if origin[0] == "scalar":
                actual.append(scalar[origin[1]].v)
            else:
                actual.append(self.use_path(self.ptr_arg_path(args[origin[1]]) + list(origin[2]), pt))
        app = " ".join(actual)
        d.append(f"({callee['lean']}_defined {app})")
        return E(f"({callee['lean']} {app})", t, d)

    # ---- helpers
    def atomic(self, v):
        return re.fullmatch(r"[\w.']+|\d+#\d+|true|false", v) is not None

    def spill(self, e_v, t):
        if len(e_v) <= SPILL or self.atomic(e_v):
            return e_v
        self.nv += 1
        nm = f"{self.name}_v{self.nv}"
        ps = " ".join(f"({p} : {pt.lean()})" for p, pt in self.scope)
        self.defs.append(f"@[simp] def {nm} {ps} : {t.lean()} :=\n  {e_v}\n")
        return "(" + " ".join([nm] + [p for p, _ in self.scope]) + ")"

    def bind(self, env, name, e, t):
        if not e.t == t:
            raise Untranslatable(f"value of type {e.t} stored into `{name}` of type {t}")
        env = dict(env)
        env[name] = (self.spill(e.v, t), t)
        return env

    # ---- statements (continuation passing: `k env` = what happens after the statement list falls through)
    def contains(self, n, kinds):
        if n.get("kind") in kinds:
            return True
        return any(self.contains(c, kinds) for c in n.get("inner", []) if isinstance(c, dict))

    def falls(self, s):
        k = s.get("kind")
        if k == "ReturnStmt":
            return False
        if k == "CompoundStmt":
            inner = s.get("inner", [])
            return self.falls(inner[-1]) if inner else True
        if k == "IfStmt" and s.get("hasElse"):
            return self.falls(s["inner"][1]) or self.falls(s["inner"][2])
        return True

    def assign(self, s, env):
        """an expression statement that updates one local: returns (env', definedness conjuncts)"""
        k = s.get("kind")
        if k == "ParenExpr":
            return self.assign(s["inner"][0], env)
        if k in ("BinaryOperator", "CompoundAssignOperator", "UnaryOperator"):
            lhs = s["inner"][0]
            while lhs.get("kind") == "ParenExpr":
                lhs = lhs["inner"][0]
            if lhs.get("kind") != "DeclRefExpr" or lhs["referencedDecl"].get("kind") not in ("ParmVarDecl", "VarDecl"):
                raise Untranslatable("assignment to something that is not a local variable or parameter")
            nm = lhs["referencedDecl"]["name"]
            if nm not in env:
                raise Untranslatable(f"assignment to `{nm}`, which is not a scalar local")
            lt = self.ctype(lhs["type"])
        if k == "BinaryOperator" and s["opcode"] == "=":
            e = self.expr(s["inner"][1], env)
            return self.bind(env, nm, e, lt), e.d
        if k == "CompoundAssignOperator":
            if env[nm] is None:
                raise Untranslatable(f"local `{nm}` is read before it is assigned")
            op = s["opcode"][:-1]
            clt, crt = self.ctype(s["computeLHSType"]), self.ctype(s["computeResultType"])
            a = self.cast(E(env[nm][0], lt), clt)
            fake = dict(kind="BinaryOperator", opcode=op, type=s["computeResultType"], inner=[None, s["inner"][1]])
            r = self.binop_with(fake, a, env)
            if not r.t == crt:
                raise Untranslatable("compound assignment: unexpected computation type")
            r = self.cast(r, lt)
            return self.bind(env, nm, r, lt), r.d
        if k == "UnaryOperator" and s["opcode"] in ("++", "--"):
            if env[nm] is None:
                raise Untranslatable(f"local `{nm}` is read before it is assigned")
            if lt.is_bool:
                raise Untranslatable("++/-- on _Bool")
            v = env[nm][0]
            op = "+" if s["opcode"] == "++" else "-"
            d = []
            if lt.signed and lt.w >= 32:     # narrower types are computed in int and converted back: no overflow
                d.append(f"(Carquet.Impl.CSem.{'sAddOk' if op == '+' else 'sSubOk'} {v} 1#{lt.w})")
            return self.bind(env, nm, E(f"({v} {op} 1#{lt.w})", lt), lt), d
        raise Untranslatable(f"statement expression of kind {k} (only assignments to locals and ++/-- are supported)")

    def binop_with(self, n, a, env):
        """binop where the left operand is already translated"""
        saved = self.expr

        def patched(node, env2):
            if node is None:
                return a
            return saved(node, env2)
        self.expr = patched
        try:
            return self.binop(n, env)
        finally:
            self.expr = saved

    def stmts(self, lst, env, k):
        lst = [s for s in lst if s and s.get("kind") != "NullStmt"]
        if not lst:
            return k(env)
        s, rest = lst[0], lst[1:]

        def cont(env2):
            return self.stmts(rest, env2, k)
        kind = s.get("kind")
        if kind == "CompoundStmt":
            return self.stmts(s.get("inner", []) + rest, env, k)
        if kind == "ReturnStmt":
            if not s.get("inner"):
                raise Untranslatable("return without a value")
            e = self.expr(s["inner"][0], env)
            if not e.t == self.ret:
                raise Untranslatable("returned value is not of the return type")
            return e.v, dand(e.d)
        if kind == "DeclStmt":
            d = []
            for v in s["inner"]:
                if v.get("kind") != "VarDecl":
                    raise Untranslatable(f"declaration of a {v.get('kind')}")
                nm = v["name"]
                if nm in env or nm in self.ptr_params:
                    raise Untranslatable(f"local `{nm}` shadows another variable")
                t = self.ctype(v["type"])
                if v.get("storageClass") in ("static", "extern"):
                    raise Untranslatable(f"static/extern local `{nm}`")
                if "init" in v:
                    e = self.expr(v["inner"][0], env)
                    d += e.d
                    env = self.bind(env, nm, e, t)
                else:
                    env = dict(env)
                    env[nm] = None
                    self.local_types[nm] = t
                self.local_types[nm] = t
            V, D = cont(env)
            return V, dand(d + [D])
        if kind in ("BinaryOperator", "CompoundAssignOperator", "UnaryOperator", "ParenExpr"):
            env2, d = self.assign(s, env)
            V, D = cont(env2)
            return V, dand(d + [D])
        if kind == "IfStmt":
            if s.get("hasInit") or s.get("hasVar"):
                raise Untranslatable("if with a declaration")
            c = self.expr(s["inner"][0], env)
            cb = self.cond(c)
            then = s["inner"][1]
            els = s["inner"][2] if s.get("hasElse") else None
            impure = ("ReturnStmt", "WhileStmt", "ForStmt", "DoStmt", "SwitchStmt", "BreakStmt", "ContinueStmt", "GotoStmt")
            if not self.contains(then, impure) and (els is None or not self.contains(els, impure)):
                cap = {}

                def capture(tag):
                    def kk(e2):
                        cap[tag] = e2
                        return "FALL", "true"
                    return kk
                _, D1 = self.stmts([then], env, capture(1))
                _, D2 = self.stmts([els] if els else [], env, capture(2))
                d = list(c.d)
                if D1 != "true" or D2 != "true":
                    d.append(ite(cb, D1, D2))
                env2 = dict(env)
                for nm in env:
                    v1, v2 = cap[1].get(nm), cap[2].get(nm)
                    if v1 == v2:
                        env2[nm] = v1
                    elif v1 is None or v2 is None:
                        env2[nm] = None          # assigned on one path only and never before: still unusable
                    else:
                        env2[nm] = (self.spill(ite(cb, v1[0], v2[0]), v1[1]), v1[1])
                V, D = cont(env2)
                return V, dand(d + [D])
            V1, D1 = self.stmts([then], env, cont)
            V2, D2 = self.stmts([els] if els else [], env, cont)
            return ite(cb, V1, V2), dand(c.d + [ite(cb, D1, D2)])
        if kind == "WhileStmt":
            if len(s["inner"]) != 2:
                raise Untranslatable("while with a declaration")
            return self.loop(s["inner"][0], [s["inner"][1]], env, cont)
        if kind == "ForStmt":
            init, condvar, cnd, inc, body = s["inner"]
            if condvar:
                raise Untranslatable("for with a condition declaration")
            if not cnd:
                raise Untranslatable("for without a condition")
            if self.contains(body, ("ContinueStmt",)):
                raise Untranslatable("continue in a for loop")

            def after_init(env2):
                return self.loop(cnd, [body] + ([inc] if inc else []), env2, cont)
            return self.stmts([init] if init else [], env, after_init)
        if kind == "SwitchStmt":
            return self.switch(s, env, cont)
        raise Untranslatable(f"statement kind {kind} is outside the supported subset")

    def loop(self, cnd, body, env, k):
        for b in body:
            if self.contains(b, ("BreakStmt", "ContinueStmt", "GotoStmt")):
                raise Untranslatable("break/continue/goto inside a loop")
        if self.in_loop_body:
            raise Untranslatable("a loop inside a loop body (nested loops are outside the supported subset)")
        if self.nloop >= len(self.cfg["fuel"]):
            raise Untranslatable(f"loop #{self.nloop + 1} has no fuel constant in FUNCS")
        fuel = self.cfg["fuel"][self.nloop]
        self.nloop += 1
        nm = f"{self.name}_loop{self.nloop}"
        live = [x for x in env if env[x] is not None]
        ro = [(ident("_".join(p)), t) for p, t in self.all_paths]
        params = ro + [(ident(x), env[x][1]) for x in live]
        outer_scope = self.scope
        self.scope = params
        inner_env = {x: (None if env[x] is None else (ident(x), env[x][1])) for x in env}
        c = self.expr(cnd, inner_env)
        cb = self.cond(c)

        def again(env2):
            for x in env:
                if env[x] is None and env2.get(x) is not None:
                    raise Untranslatable(f"`{x}` is first assigned inside a loop")
            a = " ".join([p for p, _ in ro] + [env2[x][0] for x in live])
            return f"({nm} fuel__ {a})", f"({nm}_defined fuel__ {a})"
        self.in_loop_body = True
        try:
            Vb, Db = self.stmts(body, inner_env, again)
        finally:
            self.in_loop_body = False
        Vk, Dk = k(inner_env)
        self.scope = outer_scope
        tys = " → ".join(["Nat"] + [t.lean() for _, t in params])
        pat = ", ".join(p for p, _ in params)
        self.defs.append(
            f"/-- loop #{self.nloop} of `{self.cfg['cname']}` (and what follows it); `fuel__` bounds the number of condition tests -/\n"
            f"def {nm} : {tys} → {self.ret.lean()}\n"
            f"  | 0, {pat} => {Vk}\n"
            f"  | fuel__ + 1, {pat} =>\n    if {cb} then {Vb}\n    else {Vk}\n")
        self.defs.append(
            f"def {nm}_defined : {tys} → Bool\n"
            f"  | 0, {pat} => false\n"
            f"  | fuel__ + 1, {pat} =>\n    {dand(c.d + [ite(cb, Db, Dk)])}\n")
        a = " ".join([p for p, _ in ro] + [env[x][0] for x in live])
        return f"({nm} {fuel} {a})", f"({nm}_defined {fuel} {a})"

    def switch(self, s, env, k):
        if len(s["inner"]) != 2 or s["inner"][1].get("kind") != "CompoundStmt":
            raise Untranslatable("switch whose body is not a block")
        c = self.expr(s["inner"][0], env)
        if c.t.is_bool:
            raise Untranslatable("switch on _Bool")
        sv = self.spill(c.v, c.t) if not self.atomic(c.v) and len(c.v) > 24 else c.v
        sections = []          # [labels (E or "default"), stmts]

        def add(node):
            kk = node.get("kind")
            if kk == "CaseStmt":
                if len(node["inner"]) != 2:
                    raise Untranslatable("case range")
                lab = self.expr(node["inner"][0], env)
                if lab.lit is None or not lab.t == c.t:
                    raise Untranslatable("case label is not a literal of the switch type")
                if not sections or sections[-1][1]:
                    sections.append([[], []])
                sections[-1][0].append(lab)
                add(node["inner"][1])
            elif kk == "DefaultStmt":
                if not sections or sections[-1][1]:
                    sections.append([[], []])
                sections[-1][0].append("default")
                add(node["inner"][0])
            else:
                if not sections:
                    raise Untranslatable("statement before the first case label")
                sections[-1][1].append(node)
        for node in s["inner"][1].get("inner", []):
            add(node)
        default, chain = None, []
        for labels, body in sections:
            if not body:
                raise Untranslatable("case label without statements at the end of a switch")
            brk = body[-1].get("kind") == "BreakStmt"
            core = body[:-1] if brk else body
            if any(self.contains(b, ("BreakStmt", "ContinueStmt", "GotoStmt", "CaseStmt", "DefaultStmt")) for b in core):
                raise Untranslatable("break/continue/nested label inside a switch section")
            if not brk and self.falls(dict(kind="CompoundStmt", inner=core)):
                raise Untranslatable("switch section falls through into the next one")
            if "default" in labels:
                default = core
            else:
                chain.append((labels, core))
        V, D = self.stmts(default, env, k) if default is not None else k(env)
        for labels, core in reversed(chain):
            test = " || ".join(f"({sv} == {l.v})" for l in labels)
            test = f"({test})" if len(labels) > 1 else test
            V1, D1 = self.stmts(core, env, k)
            V, D = ite(test, V1, V), ite(test, D1, D)
        return V, dand(c.d + [D])

    # ---- the whole function
    def translate(self):
        a = self.ast
        self.cparams, env, self.ptr_params = [], {}, {}
        self.local_types = {}
        body = None
        for c in a.get("inner", []):
            if c.get("kind") == "ParmVarDecl":
                if "name" not in c:
                    raise Untranslatable("unnamed parameter")
                st = self.struct_ptr(c["type"])
                if st is not None:
                    self.ptr_params[c["name"]] = st
                    self.cparams.append(dict(name=c["name"], struct=st, t=None, ctype=c["type"]["qualType"]))
                else:
                    t = self.ctype(c["type"])
                    self.cparams.append(dict(name=c["name"], struct=None, t=t, ctype=c["type"]["qualType"]))
                    env[c["name"]] = (ident(c["name"]), t)
            elif c.get("kind") == "CompoundStmt":
                body = c
        if a.get("variadic"):
            raise Untranslatable("variadic function")
        rt = a["type"]["qualType"].split("(")[0].strip()
        self.ret = self.ctype(dict(qualType=rt)) if strip_quals(rt) in BASE else self.unit.typedef_type(self, rt)
        self.collect_paths(body)
        self.all_paths = list(self.paths)
        self.lean_params = []
        for i, p in enumerate(self.cparams):
            if p["struct"] is None:
                self.lean_params.append((ident(p["name"]), p["t"], ("scalar", i)))
            else:
                # the access paths of one pointer parameter in alphabetical order: the Lean signature then does not
                # depend on the order in which the C expression happens to mention the fields
                for path, t in sorted(self.all_paths, key=lambda pt: pt[0]):
                    if path[0] == p["name"]:
                        self.lean_params.append((ident("_".join(path)), t, ("path", i, path[1:])))
        names = [p for p, _, _ in self.lean_params]
        if len(set(names)) != len(names):
            raise Untranslatable("parameter / access-path names collide: " + " ".join(names))
        self.scope = [(p, t) for p, t, _ in self.lean_params]

        def fell_off(env2):
            raise Untranslatable("control reaches the end of the function without a return")
        V, D = self.stmts([body], env, fell_off)
        if [p for p, _ in self.all_paths] != [p for p, _ in self.paths]:
            raise Untranslatable("internal: access paths found late")
        ps = " ".join(f"({p} : {t.lean()})" for p, t, _ in self.lean_params)
        text = "".join(self.defs)
        text += (f"/-- `{self.cfg['cname']}` — {self.cfg['file']}:{self.line}, sha256(source text)[:16] = {self.sha} -/\n"
                 f"def {self.name} {ps} : {self.ret.lean()} :=\n  {V}\n\n"
                 f"/-- no undefined behaviour is reached by `{self.cfg['cname']}` on these arguments -/\n"
                 f"def {self.name}_defined {ps} : Bool :=\n  {D}\n")
        return text


class Unit:
    """all functions of one C file"""
    registry = []      # translated functions so far (all files)

    def __init__(self, file, tmpdir):
        self.file, self.tmpdir = file, tmpdir
        self.path = os.path.join(gen.VERIF, file[1:]) if file.startswith("@") else os.path.join(REPO, file)
        if not os.path.exists(self.path):
            die(f"{file} does not exist in {REPO}")
        self.tu_text = f'#include "{self.path}"\n'
        self.tu = os.path.join(tmpdir, "tu_" + re.sub(r"\W", "_", file) + ".c")
        with open(self.tu, "w") as f:
            f.write(self.tu_text)
        self.consts = {}
        self.enum_types = {}
        self.typedefs = {}

    def enum_type(self, key):
        if key not in self.enum_types:
            r = const_query(self.tu_text, self.tmpdir, [f"sizeof({key})", f"(({key})-1 < 0)"])
            self.enum_types[key] = T(8 * r[f"sizeof({key})"], bool(r[f"(({key})-1 < 0)"]))
        return self.enum_types[key]

    def typedef_type(self, fn, spelled, soft=False):
        """type of a typedef name that appears only as text (a function's return type)"""
        if spelled not in self.typedefs:
            q = strip_quals(spelled)
            r = const_query(self.tu_text, self.tmpdir,
                            [f"sizeof({q})", f"(({q})-1 < 0)", f"(({q})2 == 1)", f"(({q})1 / 2 == 0)"], soft)
            if r[f"(({q})1 / 2 == 0)"] != 1:
                raise Untranslatable(f"`{q}` is not an integer type")
            if r[f"(({q})2 == 1)"]:
                self.typedefs[spelled] = BOOL
            else:
                self.typedefs[spelled] = T(8 * r[f"sizeof({q})"], bool(r[f"(({q})-1 < 0)"]))
        return self.typedefs[spelled]

    def prepare(self, asts):
        """one clang call for every enum constant and sizeof the functions of this file mention"""
        need = []

        def walk(n):
            if n.get("kind") == "DeclRefExpr" and n.get("referencedDecl", {}).get("kind") == "EnumConstantDecl":
                need.append(n["referencedDecl"]["name"])
            if n.get("kind") == "UnaryExprOrTypeTraitExpr" and n.get("name") == "sizeof" and "argType" in n:
                need.append("sizeof(" + n["argType"]["qualType"] + ")")
            for c in n.get("inner", []):
                if isinstance(c, dict):
                    walk(c)
        for a in asts:
            walk(a)
        need = sorted(set(need))
        r = const_query(self.tu_text, self.tmpdir, need + HOST_ASSUMPTIONS)
        for h in HOST_ASSUMPTIONS:
            if r[h] != 1:
                die(f"host assumption `{h}` does not hold for this compiler")
        self.consts = {k: r[k] for k in need}


def source_text(path, ast):
    rng = ast.get("range", {})
    b, e = rng.get("begin", {}), rng.get("end", {})
    b = b.get("expansionLoc", b)       # e.g. a return type spelled with the macro `bool`
    e = e.get("expansionLoc", e)
    if "offset" not in b or "offset" not in e:
        die(f"{ast.get('name')}: function comes out of a macro expansion; cannot locate its source text")
    data = open(path, "rb").read()
    txt = data[b["offset"]: e["offset"] + e.get("tokLen", 1)]
    if ast["name"].encode() not in txt:
        die(f"{ast.get('name')}: source range reported by clang does not contain the function name "
            f"(is it defined in another file than FUNCS says?)")
    return txt, data[:b["offset"]].count(b"\n") + 1


def c_int_type(t):
    return "bool" if t.is_bool else f"{'' if t.signed else 'u'}int{t.w}_t"


def emit_shims(fns, externals):
    """harness/gen_cfun_shim_<file>.c and harness/gen_cfun_table.h"""
    wanted = {}
    by_file = {}
    for fn in fns:
        by_file.setdefault(fn.cfg["file"], []).append(fn)
    for file, group in by_file.items():
        stem = re.sub(r"\W", "_", file[4:] if file.startswith("src/") else file.lstrip("@"))
        L = ["/* GENERATED by translate/gen_cfun.py on every check run. Do not edit.",
             f" * Exposes (static) functions of {file} to harness/ops_cfun.c: the file itself is included, its external",
             " * symbols renamed so that this copy does not clash with the library proper. */"]
        for sym in externals.get(file, []):
            L.append(f"#define {sym} cfunshim_{stem}__{sym}")
        L += ["#include <stdint.h>", "#include <stddef.h>", "#include <stdbool.h>", "#include <string.h>",
              f'#include "{file[4:] if file.startswith("src/") else os.path.basename(file)}"', ""]
        for fn in group:
            L.append(f"uint64_t cfunx_{fn.name}(const uint64_t* a) {{")
            args, idx = [], 0
            slot = {}
            for (pname, pt, origin) in fn.lean_params:
                slot[pname] = idx
                idx += 1
            for i, p in enumerate(fn.cparams):
                if p["struct"] is None:
                    j = slot[ident(p["name"])]
                    if p["t"].is_bool:
                        args.append(f"(a[{j}] != 0)")
                    else:
                        args.append(f"({p['ctype']})({c_int_type(p['t'])})a[{j}]")
                else:
                    L.append(f"    static {p['struct']} s{i}; memset(&s{i}, 0, sizeof s{i});")
                    for (pname, pt, origin) in fn.lean_params:
                        if origin[0] == "path" and origin[1] == i:
                            rhs = f"(a[{slot[pname]}] != 0)" if pt.is_bool else f"({c_int_type(pt)})a[{slot[pname]}]"
                            L.append(f"    s{i}.{'.'.join(origin[2])} = {rhs};")
                    args.append(f"&s{i}")
            call = f"{fn.cfg['cname']}({', '.join(args)})"
            if fn.ret.is_bool:
                L.append(f"    return {call} ? 1u : 0u;")
            else:
                L.append(f"    return (uint64_t)(uint{fn.ret.w}_t){call};")
            L.append("}")
        wanted[os.path.join(GENH, f"gen_cfun_shim_{stem}.c")] = "\n".join(L) + "\n"
    T_ = ["/* GENERATED by translate/gen_cfun.py on every check run. Do not edit. */",
          "#ifndef VERIF_GEN_CFUN_TABLE_H", "#define VERIF_GEN_CFUN_TABLE_H", "#include <stdint.h>",
          "typedef struct { const char* name; int nargs; uint64_t (*call)(const uint64_t*); } cfun_entry;"]
    for fn in fns:
        T_.append(f"uint64_t cfunx_{fn.name}(const uint64_t* a);")
    T_.append("static const cfun_entry cfun_table[] = {")
    for fn in fns:
        T_.append(f'    {{"{fn.name}", {len(fn.lean_params)}, cfunx_{fn.name}}},')
    T_ += ["};", f"#define CFUN_TABLE_N {len(fns)}", "#endif"]
    wanted[os.path.join(GENH, "gen_cfun_table.h")] = "\n".join(T_) + "\n"
    os.makedirs(GENH, exist_ok=True)
    for old in os.listdir(GENH):
        p = os.path.join(GENH, old)
        if old.startswith("gen_cfun_") and p not in wanted:
            os.remove(p)
    for p, text in wanted.items():
        if not os.path.exists(p) or open(p).read() != text:
            with open(p, "w") as f:
                f.write(text)


def external_symbols(path, tmpdir):
    """external definitions of a .c file (they must be renamed in the shim copy)"""
    o = os.path.join(tmpdir, "ext.o")
    r = subprocess.run([CLANG] + CFLAGS + ["-DCARQUET_VERIF", "-w", "-c", path, "-o", o], stdout=subprocess.PIPE,
                       stderr=subprocess.PIPE, text=True)
    if r.returncode != 0:
        die(f"clang -c {path} failed:\n{r.stderr[-1500:]}")
    nm = subprocess.run(["nm", "-g", "--defined-only", o], stdout=subprocess.PIPE, text=True)
    if nm.returncode != 0:
        die("nm failed")
    return sorted({l.split()[-1] for l in nm.stdout.split("\n") if l.strip()})


def lean_table(fns):
    L = ["", "/-! ### table for the driver (translator self-check, `lean/Driver/Ops/CFun.lean`) -/", "",
         "/-- one translated function: argument kinds `(width, signed)` (`width = 0`: `_Bool`), result kind, and the",
         "evaluation of value and definedness on bit patterns -/",
         "structure Entry where",
         "  name : String",
         "  cname : String",
         "  file : String",
         "  args : List (String × Nat × Bool)",
         "  ret : Nat × Bool",
         "  eval : List Nat → Option (Nat × Bool)",
         "", "def table : List Entry := ["]
    rows = []
    for fn in fns:
        names = [f"a{i}" for i in range(len(fn.lean_params))]
        conv = []
        for nme, (pn, pt, _) in zip(names, fn.lean_params):
            conv.append(f"(decide ({nme} ≠ 0))" if pt.is_bool else f"(BitVec.ofNat {pt.w} {nme})")
        app = " ".join(conv)
        val = f"(if {fn.name} {app} then 1 else 0)" if fn.ret.is_bool else f"({fn.name} {app}).toNat"
        args = ", ".join(f'("{pn}", {0 if pt.is_bool else pt.w}, {"true" if pt.signed else "false"})'
                         for pn, pt, _ in fn.lean_params)
        rows.append(
            f'  {{ name := "{fn.name}", cname := "{fn.cfg["cname"]}", file := "{fn.cfg["file"]}",\n'
            f'    args := [{args}],\n'
            f'    ret := ({0 if fn.ret.is_bool else fn.ret.w}, {"true" if fn.ret.signed else "false"}),\n'
            f'    eval := fun a => match a with\n'
            f'      | [{", ".join(names)}] =>\n'
            f'        -- the value is only evaluated where it means something (a wild shift count would build a huge number)\n'
            f'        if {fn.name}_defined {app} then some ({val}, true) else some (0, false)\n'
            f'      | _ => none }}')
    L.append(",\n".join(rows) + " ]")
    return "\n".join(L) + "\n"


def main():
    fns = []
    externals = {}
    with tempfile.TemporaryDirectory(prefix="cfun") as tmp:
        files = []
        for cfg in FUNCS:
            if cfg["file"] not in files:
                files.append(cfg["file"])
        # callees first: keep FUNCS order inside a file, files in order of first mention; a call to a function of a
        # later file is reported as "not yet translated"
        done = {}
        units = {f: Unit(f, tmp) for f in files}
        asts = {}
        for cfg in FUNCS:
            asts[cfg["lean"]] = ast_of(units[cfg["file"]].tu, cfg["cname"])
        for f in files:
            units[f].prepare([asts[c["lean"]] for c in FUNCS if c["file"] == f])
            if f.endswith(".c") and not f.startswith("@"):
                externals[f] = external_symbols(units[f].path, tmp)
        for cfg in FUNCS:
            u = units[cfg["file"]]
            a = asts[cfg["lean"]]
            fn = Fn(cfg, a, u)
            txt, line = source_text(u.path, a)
            fn.sha, fn.line = hashlib.sha256(txt).hexdigest()[:16], line
            try:
                fn.text = fn.translate()
            except Untranslatable as e:
                die(f"cannot translate `{cfg['cname']}` ({cfg['file']}:{line}): {e}")
            except (KeyError, IndexError, TypeError) as e:
                die(f"cannot translate `{cfg['cname']}` ({cfg['file']}:{line}): unexpected AST shape ({e!r})")
            Unit.registry.append(dict(lean=fn.name, cname=cfg["cname"], file=cfg["file"], ret=fn.ret,
                                      cparams=fn.cparams, lean_params=fn.lean_params,
                                      static=a.get("storageClass") == "static"))
            fn.static = a.get("storageClass") == "static"
            fns.append(fn)
    L = ["import Carquet.Impl.CSem",
         "/-",
         "Lean definitions of pure scalar C functions of /repo, translated from clang-14's typed AST of the CURRENT source by",
         "translate/gen_cfun.py.  Integer values are `BitVec w` (two's-complement object representation), `_Bool` is `Bool`;",
         "`f_defined` is false exactly when executing `f` would reach undefined behaviour (see Carquet/Impl/CSem.lean).",
         "A pointer-to-struct parameter `p` is replaced by one scalar parameter per field path read through it (`p_a_b`).",
         "Helper definitions: `f_vN` (a local's value, kept out of line to avoid duplication) and `f_loopN` (a loop and what",
         "follows it, recursion on a fuel argument).",
         "-/",
         "set_option linter.unusedVariables false",
         "namespace Carquet.Gen.CFun", ""]
    for fn in fns:
        L.append(fn.text)
    L.append(lean_table(fns))
    L += ["end Carquet.Gen.CFun", ""]
    gen.emit("CFun.lean", "\n".join(L))
    emit_shims(fns, externals)


if __name__ == "__main__":
    main()
