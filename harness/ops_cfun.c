/* cfun: self-check of the C -> Lean function translator (translate/gen_cfun.py).
 *
 * The Lean side generates the inputs (`driver --gen cfun <seed> <tier>`), because only it can evaluate the generated
 * `<f>_defined` predicate:  cfun f=<name> a=<u64 bit pattern>,... d=<0|1>
 * For d=1 the REAL compiled C function is called through its generated wrapper (harness/gen_cfun_shim_*.c, which
 * #include the C file itself, so static functions are reachable) and the line is completed with `| r=<bit pattern>`;
 * for d=0 (the translated definition says the call would be undefined behaviour) nothing is executed and the line
 * is completed with `| triv=1`.  The driver re-evaluates the generated Lean definition and compares.
 * UBSan is on for the wrappers too: if `_defined` wrongly says 1, the sanitizer's report is counted (`ub=<n>`). */
#include "common.h"
#include "gen_cfun_table.h"
#include <errno.h>

static long n_called, n_skipped;

/* The sanitizer runtime calls this (weak) hook with every message it prints.  A UBSan report ("runtime error: ...")
 * while a translated function runs on arguments for which the generated `_defined` predicate is true means the
 * predicate is wrong: the line gets `ub=<n>` and the driver flags it.  (`__ubsan_on_report` would do as well, but
 * another component of the harness already defines it.) */
static volatile long n_ub_reports;
void __sanitizer_on_print(const char* s) { if (s && strstr(s, "runtime error:")) n_ub_reports++; }

static const cfun_entry* find_entry(const char* name) {
    for (int i = 0; i < CFUN_TABLE_N; i++)
        if (!strcmp(cfun_table[i].name, name)) return &cfun_table[i];
    return NULL;
}

static int run_line(hctx* h, const h_line* l) {
    const char* f = h_in(l, "f");
    const char* av = h_in(l, "a");
    const char* dv = h_in(l, "d");
    if (!f || !av || !dv) return 0;
    const cfun_entry* e = find_entry(f);
    uint64_t a[16]; int n = 0;
    if (strcmp(av, "-") != 0) {
        const char* c = av;
        while (*c && n < 16) {
            char* end; errno = 0;
            a[n++] = strtoull(c, &end, 10);
            if (end == c) break;
            c = (*end == ',') ? end + 1 : end;
            if (*end != ',') break;
        }
    }
    fprintf(h->out, "cfun f=%s a=%s d=%s", f, av, dv);
    h_call(h);
    h->n_lines++;
    if (!e || e->nargs != n) {
        /* a function the Lean table has but the C table has not (or with another arity): broken translator output */
        fprintf(h->out, " | missing=1\n");
        return 1;
    }
    if (strcmp(dv, "1") != 0) {
        n_skipped++;
        fprintf(h->out, " | triv=1\n");
        return 1;
    }
    long ub0 = n_ub_reports;
    uint64_t r = e->call(a);
    n_called++;
    fprintf(h->out, " | r=%llu ub=%ld\n", (unsigned long long)r, n_ub_reports - ub0);
    return 1;
}

static void gen_cfun(hctx* h) {
    if (!h->in_path) {
        /* only the Lean side knows which argument tuples are free of undefined behaviour; without its input lines
         * (search phase of an orchestrator that does not run the generator) there is nothing safe to execute */
        fprintf(h->out, "#stat no_input 1\n");
        return;
    }
    FILE* in = fopen(h->in_path, "r");
    if (!in) { perror("cfun in"); exit(2); }
    char* line = NULL; size_t cap = 0;
    while (getline(&line, &cap, in) > 0) {
        if (line[0] == '#' || line[0] == '\n') { fputs(line, h->out); continue; }
        h_line l;
        if (h_parse_line(line, &l)) { fprintf(stderr, "cfun: bad input line\n"); exit(2); }
        if (!strcmp(l.op, "cfun")) run_line(h, &l);
        h_free_line(&l);
    }
    free(line); fclose(in);
    fprintf(h->out, "#stat functions %d\n#stat called %ld\n#stat skipped_undefined %ld\n", CFUN_TABLE_N, n_called, n_skipped);
}

static int replay_cfun(hctx* h, const h_line* l) {
    if (strcmp(l->op, "cfun") != 0) return 0;
    return run_line(h, l);
}

const h_component comp_cfun = { "cfun", gen_cfun, replay_cfun };
