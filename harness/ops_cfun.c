/* cfun: self-check of the C -> Lean function translator (translate/gen_cfun.py).
 *
 * The Lean side generates the inputs (`driver --gen cfun <seed> <tier>`), because only it can evaluate the generated
 * `<f>_defined` predicate:  cfun f=<name> a=<u64 bit pattern>,... d=<0|1>
 * For d=1 the REAL compiled C function is called through its generated wrapper (harness/gen_cfun_shim_*.c, which
 * #include the C file itself, so static functions are reachable) and the line is completed with `| r=<bit pattern>`;
 * for d=0 (the translated definition says the call would be undefined behaviour) nothing is executed and the line
 * is completed with `| triv=1`.  The driver re-evaluates the generated Lean definition and compares.
 * UBSan is on for the wrappers too: if `_defined` wrongly says 1, the sanitizer's report is counted (`ub=<n>`). */
#include "common.h"
#include "gen_cfun_table.h"
#include <errno.h>

static long n_called, n_skipped;

/* The sanitizer runtime calls this (weak) hook with every message it prints.  A UBSan report ("runtime error: ...")
 * while a translated function runs on arguments for which the generated `_defined` predicate is true means the
 * predicate is wrong: the line gets `ub=<n>` and the driver flags it.  (`__ubsan_on_report` would do as well, but
 * another component of the harness already defines it.) */
static volatile long n_ub_reports;
void __sanitizer_on_print(const char* s) { if (s && strstr(s, "runtime error:")) n_ub_reports++; }

static const cfun_entry* find_entry(const char* name) {
    for (int i = 0; i < CFUN_TABLE_N; i++)
        if (!strcmp(cfun_table[i].name, name)) return &cfun_table[i];
    return NULL;
}

static int run_line(hctx* h, const h_line* l) {
    const char* f = h_in(l, "f");
    const char* av = h_in(l, "a");
    const char* dv = h_in(l, "d");
    if (!f || !av || !dv) return 0;
    const cfun_entry* e = find_entry(f);
    uint64_t a[16]; int n = 0;
    if (strcmp(av, "-") != 0) {
        const char* c = av;
        while (*c && n < 16) {
            char* end; errno = 0;
            a[n++] = strtoull(c, &end, 10);
            if (end == c) break;
            c = (*end == ',') ? end + 1 : end;
            if (*end != ',') break;
        }
    }
    fprintf(h->out, "cfun f=%s a=%s d=%s", f, av, dv);
    h_call(h);
    h->n_lines++;
    if (!e || e->nargs != n) {
        /* a function the Lean table has but the C table has not (or with another arity): broken translator output */
        fprintf(h->out, " | missing=1\n");
        return 1;
    }
    if (strcmp(dv, "1") != 0) {
        n_skipped++;
        fprintf(h->out, " | triv=1\n");
        return 1;
    }
    long ub0 = n_ub_reports;
    uint64_t r = e->call(a);
    n_called++;
    fprintf(h->out, " | r=%llu ub=%ld\n", (unsigned long long)r, n_ub_reports - ub0);
    return 1;
}

/* ---- stage 2: functions with array arguments / out-results
 *   cfun2 f=<name> a0=<v> a1=<v> ... d=<0|1>     <v> = decimal | x<hex> (byte array) | <n>,<n>,.. or - (wider elements)
 * Every array is copied into a heap buffer of EXACTLY its size (malloc under ASan: a read or write one element outside
 * [0, length) aborts, and the unfinished line names the input).  The real function is called only for d=1 (the
 * generated `_defined` predicate, which includes "every access is inside its array"). */
static const cfun2_entry* find_entry2(const char* name) {
    for (int i = 0; i < CFUN2_TABLE_N; i++)
        if (!strcmp(cfun2_table[i].name, name)) return &cfun2_table[i];
    return NULL;
}

static int parse_array(const char* v, int esize, void** out, size_t* len) {
    size_t n = 0;
    if (esize == 1) {
        if (v[0] != 'x') return -1;
        size_t hl = strlen(v + 1);
        if (hl % 2) return -1;
        n = hl / 2;
        uint8_t* p = (uint8_t*)malloc(n);           /* exact size, also for n = 0 */
        if (!p && n) return -1;
        for (size_t i = 0; i < n; i++) {
            unsigned b; if (sscanf(v + 1 + 2 * i, "%2x", &b) != 1) return -1;
            p[i] = (uint8_t)b;
        }
        *out = p; *len = n; return 0;
    }
    if (strcmp(v, "-") != 0) { n = 1; for (const char* c = v; *c; c++) if (*c == ',') n++; }
    uint8_t* p = (uint8_t*)malloc(n * (size_t)esize);
    if (!p && n) return -1;
    const char* c = v;
    for (size_t i = 0; i < n; i++) {
        char* end; uint64_t x = strtoull(c, &end, 10);
        if (end == c) return -1;
        if (esize == 2) ((uint16_t*)p)[i] = (uint16_t)x; else if (esize == 4) ((uint32_t*)p)[i] = (uint32_t)x; else ((uint64_t*)p)[i] = x;
        c = (*end == ',') ? end + 1 : end;
    }
    *out = p; *len = n; return 0;
}

static void print_array(FILE* f, const void* p, size_t n, int esize) {
    if (esize == 1) { h_hex(f, (const uint8_t*)p, n); return; }
    if (n == 0) { fputc('-', f); return; }
    for (size_t i = 0; i < n; i++) {
        uint64_t x = esize == 2 ? ((const uint16_t*)p)[i] : esize == 4 ? ((const uint32_t*)p)[i] : ((const uint64_t*)p)[i];
        fprintf(f, i ? ",%llu" : "%llu", (unsigned long long)x);
    }
}

/* ---- stage 3 (op `cfun3`): functions that take structs by pointer.  Same protocol and same wrapper type as stage 2: a
 * struct argument travels FIELD BY FIELD as the comma-separated list of its leaf values (kind 8: uint64_t each, fixed
 * length = number of leaves; array fields element by element; a pointer field as the offset into the array argument it
 * points into).  The generated wrapper (cfunx3_*) builds the C struct in static storage with the pointer fields aimed
 * into the exact-size heap copies of the array arguments, calls the REAL function (only for d=1), and writes every leaf of
 * the struct back, so that every field after the call and every buffer is compared by the driver. */
static const cfun2_entry* find_entry3(const char* name) {
    for (int i = 0; i < CFUN3_TABLE_N; i++)
        if (!strcmp(cfun3_table[i].name, name)) return &cfun3_table[i];
    return NULL;
}

static int run_line23(hctx* h, const h_line* l, const char* op, const cfun2_entry* e);

static int run_line3(hctx* h, const h_line* l) {
    const char* f = h_in(l, "f");
    if (!f) return 0;
    return run_line23(h, l, "cfun3", find_entry3(f));
}

static int run_line2(hctx* h, const h_line* l) {
    const char* f = h_in(l, "f");
    if (!f) return 0;
    return run_line23(h, l, "cfun2", find_entry2(f));
}

static int run_line23(hctx* h, const h_line* l, const char* op, const cfun2_entry* e) {
    const char* f = h_in(l, "f");
    const char* dv = h_in(l, "d");
    if (!f || !dv) return 0;
    fprintf(h->out, "%s f=%s", op, f);
    for (int i = 0; i < l->n_in; i++)
        if (l->in[i].key[0] == 'a' && l->in[i].key[1] >= '0' && l->in[i].key[1] <= '9')
            fprintf(h->out, " %s=%s", l->in[i].key, l->in[i].val);
    fprintf(h->out, " d=%s", dv);
    h_call(h);
    h->n_lines++;
    if (!e) { fprintf(h->out, " | missing=1\n"); return 1; }
    if (strcmp(dv, "1") != 0) { n_skipped++; fprintf(h->out, " | triv=1\n"); return 1; }
    cfun_val a[24], o[24];
    memset(a, 0, sizeof a); memset(o, 0, sizeof o);
    int bad = 0;
    for (int i = 0; i < e->nargs; i++) {
        char key[8]; snprintf(key, sizeof key, "a%d", i);
        const char* v = h_in(l, key);
        if (!v) { bad = 1; break; }
        if (e->akind[i] == 0) a[i].n = strtoull(v, NULL, 10);
        else if (parse_array(v, e->akind[i], &a[i].p, &a[i].len)) { bad = 1; break; }
        else if (e->fixed[i] && a[i].len != e->fixed[i]) { bad = 1; break; }
    }
    if (bad) {
        /* arity / kind / fixed length differs from what the Lean table says: broken translator output */
        fprintf(h->out, " | missing=1\n");
        for (int i = 0; i < e->nargs; i++) free(a[i].p);
        return 1;
    }
    long ub0 = n_ub_reports;
    e->call(a, o);
    n_called++;
    fprintf(h->out, " |");
    for (int k = 0; k < e->nouts; k++) {
        fprintf(h->out, " r%d=", k);
        if (e->okind[k] == 0) fprintf(h->out, "%llu", (unsigned long long)o[k].n);
        else print_array(h->out, o[k].p, o[k].len, e->okind[k]);
    }
    fprintf(h->out, " ub=%ld\n", n_ub_reports - ub0);
    for (int i = 0; i < e->nargs; i++) free(a[i].p);
    return 1;
}

static void gen_cfun(hctx* h) {
    if (!h->in_path) {
        /* only the Lean side knows which argument tuples are free of undefined behaviour; without its input lines
         * (search phase of an orchestrator that does not run the generator) there is nothing safe to execute */
        fprintf(h->out, "#stat no_input 1\n");
        return;
    }
    FILE* in = fopen(h->in_path, "r");
    if (!in) { perror("cfun in"); exit(2); }
    char* line = NULL; size_t cap = 0;
    while (getline(&line, &cap, in) > 0) {
        if (line[0] == '#' || line[0] == '\n') { fputs(line, h->out); continue; }
        h_line l;
        if (h_parse_line(line, &l)) { fprintf(stderr, "cfun: bad input line\n"); exit(2); }
        if (!strcmp(l.op, "cfun")) run_line(h, &l);
        else if (!strcmp(l.op, "cfun2")) run_line2(h, &l);
        else if (!strcmp(l.op, "cfun3")) run_line3(h, &l);
        h_free_line(&l);
    }
    free(line); fclose(in);
    fprintf(h->out, "#stat functions %d\n#stat called %ld\n#stat skipped_undefined %ld\n", CFUN_TABLE_N + CFUN2_TABLE_N + CFUN3_TABLE_N, n_called, n_skipped);
}

static int replay_cfun(hctx* h, const h_line* l) {
    if (!strcmp(l->op, "cfun2")) return run_line2(h, l);
    if (!strcmp(l->op, "cfun3")) return run_line3(h, l);
    if (strcmp(l->op, "cfun") != 0) return 0;
    return run_line(h, l);
}

const h_component comp_cfun = { "cfun", gen_cfun, replay_cfun };
