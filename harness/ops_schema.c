/* C17: schema trees -> leaves and levels (build_schema on in-memory FileMetaData), column lookup
 * by name, element accessors, and the builder API.
 *   schema_build els=<name.rep.ptype.tlen.nchild,...> | n=<num_leaves> leaves=<idx.def.rep,...>
 *   schema_find  els=... name=<s> | r=<column index or -1>
 *   schema_builder cols=<name.rep.ptype.tlen,...> | nel=.. n=.. leaves=.. els=<as above, read back via accessors>
 * rep: -1 absent, 0 required, 1 optional, 2 repeated; ptype -1 absent. */
#include "common.h"
#include <signal.h>
#include <unistd.h>
#include <carquet/carquet.h>
#include "reader/reader_internal.h"
#include "thrift/parquet_types.h"
#include "core/arena.h"

typedef struct { char name[24]; int rep, ptype, tlen; long long nchild; } el_t;

static void on_alarm(int sig) { (void)sig; _exit(77); }

static void print_els(hctx* h, const el_t* e, int n) {
    if (n == 0) { fputc('-', h->out); return; }
    for (int i = 0; i < n; i++)
        fprintf(h->out, "%s%s.%d.%d.%d.%lld", i ? "," : "", e[i].name, e[i].rep, e[i].ptype, e[i].tlen, e[i].nchild);
}

static parquet_schema_element_t* to_c(const el_t* e, int n) {
    parquet_schema_element_t* c = (parquet_schema_element_t*)h_alloc((size_t)n * sizeof *c);
    memset(c, 0, (size_t)n * sizeof *c);
    for (int i = 0; i < n; i++) {
        c[i].name = strdup(e[i].name);
        if (e[i].rep >= 0) { c[i].has_repetition = true; c[i].repetition_type = (carquet_field_repetition_t)e[i].rep; }
        if (e[i].ptype >= 0) { c[i].has_type = true; c[i].type = (carquet_physical_type_t)e[i].ptype; }
        c[i].type_length = e[i].tlen;
        c[i].num_children = (int32_t)e[i].nchild;
    }
    return c;
}
static void free_c(parquet_schema_element_t* c, int n) { for (int i = 0; i < n; i++) free(c[i].name); free(c); }

static void do_build(hctx* h, const el_t* e, int n, const char* find) {
    fprintf(h->out, find ? "schema_find els=" : "schema_build els=");
    print_els(h, e, n);
    if (find) fprintf(h->out, " name=%s", find);
    h_call(h);
    parquet_schema_element_t* c = to_c(e, n);
    parquet_file_metadata_t md; memset(&md, 0, sizeof md);
    md.schema = c; md.num_schema_elements = n;
    carquet_arena_t arena; carquet_arena_init(&arena);
    carquet_error_t err; memset(&err, 0, sizeof err);
    h_cpu_alarm(10, on_alarm);
    carquet_schema_t* s = build_schema(&arena, &md, &err);
    h_cpu_alarm_off();
    if (!s) { fprintf(h->out, " | err=1\n"); }
    else if (find) {
        fprintf(h->out, " | r=%d\n", carquet_schema_find_column(s, find));
    } else {
        fprintf(h->out, " | n=%d leaves=", s->num_leaves);
        if (s->num_leaves == 0) fputc('-', h->out);
        for (int i = 0; i < s->num_leaves; i++)
            fprintf(h->out, "%s%d.%d.%d", i ? "," : "", s->leaf_indices[i], s->max_def_levels[i], s->max_rep_levels[i]);
        fputc('\n', h->out);
    }
    h->n_lines++;
    carquet_arena_destroy(&arena);
    free_c(c, n);
}

/* the element list as the schema of a FILE (footer written with carquet's own Thrift writer, no row groups), opened through
 * carquet_reader_open_buffer: what the reader exposes after the footer parser, its limits and build_schema */
#include "core/buffer.h"
static void do_schema_file(hctx* h, const el_t* e, int n) {
    fprintf(h->out, "schema_file els="); print_els(h, e, n); h_call(h);
    parquet_schema_element_t* c = to_c(e, n);
    parquet_file_metadata_t md; memset(&md, 0, sizeof md);
    md.version = 1; md.schema = c; md.num_schema_elements = n; md.num_rows = 0; md.row_groups = NULL; md.num_row_groups = 0;
    carquet_buffer_t fb; carquet_buffer_init(&fb);
    carquet_error_t err; memset(&err, 0, sizeof err);
    if (parquet_write_file_metadata(&md, &fb, &err) != CARQUET_OK) { fprintf(h->out, " | skipped=1 triv=1\n"); h->n_lines++; carquet_buffer_destroy(&fb); free_c(c, n); return; }
    size_t fn = 4 + fb.size + 8; uint8_t* file = h_alloc(fn);
    memcpy(file, "PAR1", 4); memcpy(file + 4, fb.data, fb.size);
    uint32_t L = (uint32_t)fb.size; file[fn - 8] = (uint8_t)L; file[fn - 7] = (uint8_t)(L >> 8); file[fn - 6] = (uint8_t)(L >> 16); file[fn - 5] = (uint8_t)(L >> 24);
    memcpy(file + fn - 4, "PAR1", 4);
    carquet_reader_options_t ro; carquet_reader_options_init(&ro);
    h_cpu_alarm(10, on_alarm);
    carquet_reader_t* rd = carquet_reader_open_buffer(file, fn, &ro, &err);
    h_cpu_alarm_off();
    const carquet_schema_t* s = rd ? carquet_reader_schema(rd) : NULL;
    if (!s) fprintf(h->out, " | err=1\n");
    else {
        fprintf(h->out, " | n=%d leaves=", s->num_leaves);
        if (s->num_leaves == 0) fputc('-', h->out);
        for (int i = 0; i < s->num_leaves; i++)
            fprintf(h->out, "%s%d.%d.%d", i ? "," : "", s->leaf_indices[i], s->max_def_levels[i], s->max_rep_levels[i]);
        /* what the file states comes back through the element accessors: every name byte for byte (names are UTF-8 strings
         * of any length), and the type length of every leaf (an i32: 65536 and more are legal) */
        int kept = carquet_schema_num_elements(s) == n;
        for (int i = 0; kept && i < n; i++) {
            const carquet_schema_node_t* nd = carquet_schema_get_element(s, i);
            const char* nm = nd ? carquet_schema_node_name(nd) : NULL;
            if (!nm || strcmp(nm, e[i].name) != 0) kept = 0;
            else if (e[i].ptype >= 0 && (!carquet_schema_node_is_leaf(nd) || (int)carquet_schema_node_physical_type(nd) != e[i].ptype)) kept = 0;
            else if (e[i].ptype == 7 && carquet_schema_node_type_length(nd) != e[i].tlen) kept = 0;
        }
        fprintf(h->out, " p_names_types_kept=%d\n", kept);
    }
    if (rd) carquet_reader_close(rd);
    h->n_lines++; carquet_buffer_destroy(&fb); free(file); free_c(c, n);
}

static void do_builder(hctx* h, const el_t* cols, int ncols) {
    fprintf(h->out, "schema_builder cols=");
    for (int i = 0; i < ncols; i++)
        fprintf(h->out, "%s%s.%d.%d.%d", i ? "," : "", cols[i].name, cols[i].rep, cols[i].ptype, cols[i].tlen);
    if (ncols == 0) fputc('-', h->out);
    h_call(h);
    carquet_error_t err; memset(&err, 0, sizeof err);
    carquet_schema_t* s = carquet_schema_create(&err);
    int okc = 1;
    for (int i = 0; i < ncols && s; i++) {
        if (cols[i].ptype < 0) {       /* a group under the root: carquet_schema_add_group returns its element index */
            if (carquet_schema_add_group(s, cols[i].name, (carquet_field_repetition_t)cols[i].rep, i % 2 ? 0 : -1) != carquet_schema_num_elements(s) - 1) okc = 0;
        } else if (carquet_schema_add_column(s, cols[i].name, (carquet_physical_type_t)cols[i].ptype, NULL,
                                      (carquet_field_repetition_t)cols[i].rep, cols[i].tlen) != CARQUET_OK) okc = 0;
    }
    if (!s || !okc) fprintf(h->out, " | err=1\n");
    else {
        fprintf(h->out, " | nel=%d n=%d leaves=", carquet_schema_num_elements(s), carquet_schema_num_columns(s));
        if (s->num_leaves == 0) fputc('-', h->out);
        for (int i = 0; i < s->num_leaves; i++)
            fprintf(h->out, "%s%d.%d.%d", i ? "," : "", s->leaf_indices[i], s->max_def_levels[i], s->max_rep_levels[i]);
        fprintf(h->out, " els=");
        for (int i = 0; i < carquet_schema_num_elements(s); i++) {
            const carquet_schema_node_t* nd = carquet_schema_get_element(s, i);
            const parquet_schema_element_t* pe = (const parquet_schema_element_t*)nd;
            fprintf(h->out, "%s%s.%d.%d.%d.%d", i ? "," : "", carquet_schema_node_name(nd),
                    pe->has_repetition ? (int)carquet_schema_node_repetition(nd) : -1,
                    carquet_schema_node_is_leaf(nd) ? (int)carquet_schema_node_physical_type(nd) : -1,
                    carquet_schema_node_type_length(nd), pe->num_children);
        }
        fputc('\n', h->out);
    }
    if (s) carquet_schema_free(s);
    h->n_lines++;
}

/* The builder under allocation failure: names of `namelen` bytes, so that the arena behind the builder needs a fresh block
 * every few dozen columns; EVERY add call is first made with the next allocation request failing (a call that allocates
 * nothing simply succeeds) and repeated if it reported an error.  Afterwards the schema must be exactly the columns that were
 * added, once each, in order: a failed call leaves nothing behind.  Judged on the C side. */
extern void h_alloc_arm(long fail_at);
extern long h_alloc_disarm(void);
extern long h_alloc_fired;
static void do_builder_faults(hctx* h, int ncols, int namelen, uint64_t seed) {
    fprintf(h->out, "schema_builder_faults ncols=%d namelen=%d seed=%llu", ncols, namelen, (unsigned long long)seed); h_call(h);
    carquet_error_t err; memset(&err, 0, sizeof err);
    carquet_schema_t* s = carquet_schema_create(&err);
    char* name = (char*)h_alloc((size_t)namelen + 32);
    long fired0 = h_alloc_fired; int failed_calls = 0, ok = s != NULL, stuck = 0;
    uint64_t x = seed | 1;
    for (int i = 0; i < ncols && s; i++) {
        x ^= x << 13; x ^= x >> 7; x ^= x << 17;
        int k = snprintf(name, 32, "c%d_", i); memset(name + k, 'a' + (int)(x % 26), (size_t)namelen); name[k + namelen] = 0;
        int pt = (int)((x >> 8) % 7); if (pt == 3) pt = 2;
        int rep = (int)((x >> 16) % 3);
        h_alloc_arm(1);
        carquet_status_t st = carquet_schema_add_column(s, name, (carquet_physical_type_t)pt, NULL, (carquet_field_repetition_t)rep, 0);
        (void)h_alloc_disarm();
        if (st != CARQUET_OK) { failed_calls++; st = carquet_schema_add_column(s, name, (carquet_physical_type_t)pt, NULL, (carquet_field_repetition_t)rep, 0); if (st != CARQUET_OK) stuck = 1; }
    }
    long fired = h_alloc_fired - fired0;
    if (s) {
        if (carquet_schema_num_elements(s) != ncols + 1 || carquet_schema_num_columns(s) != ncols) ok = 0;
        x = seed | 1;
        for (int i = 0; i < ncols && ok; i++) {
            x ^= x << 13; x ^= x >> 7; x ^= x << 17;
            int k = snprintf(name, 32, "c%d_", i); memset(name + k, 'a' + (int)(x % 26), (size_t)namelen); name[k + namelen] = 0;
            int pt = (int)((x >> 8) % 7); if (pt == 3) pt = 2;
            const carquet_schema_node_t* nd = carquet_schema_get_element(s, i + 1);
            if (!nd || !carquet_schema_node_name(nd) || strcmp(carquet_schema_node_name(nd), name) != 0) ok = 0;
            else if (!carquet_schema_node_is_leaf(nd) || (int)carquet_schema_node_physical_type(nd) != pt) ok = 0;
            else if ((int)carquet_schema_node_repetition(nd) != (int)((x >> 16) % 3)) ok = 0;
            if (ok && carquet_schema_find_column(s, name) != i) ok = 0;
        }
    }
    fprintf(h->out, " | nel=%d n=%d failed_calls=%d fired=%ld p_failed_calls_leave_nothing=%d p_retry_succeeds=%d\n",
            s ? carquet_schema_num_elements(s) : -1, s ? carquet_schema_num_columns(s) : -1, failed_calls, fired, ok, !stuck);
    if (s) carquet_schema_free(s);
    free(name); h->n_lines++;
}

/* random well-formed subtree appended at e[*n]; returns nothing, fills nchild */
static void gen_tree(hctx* h, el_t* e, int* n, int cap, int depth, int is_root) {
    int me = (*n)++;
    /* names: a small pool with repeats, including names that are proper prefixes of other names */
    /* ... and names that are not ASCII (Parquet names are UTF-8 strings: bytes >= 0x80 are ordinary name bytes) */
    static const char* const prefix_pool[] = { "p", "pr", "price", "price_usd", "id", "idx", "i", "col_1", "col_10",
                                               "gr\xc3\xb6\xc3\x9f" "e", "\xe5\x90\x8d\xe5\x89\x8d", "temp\xc3\xa9rature" };
    if (h_chance(h, 1, 3)) snprintf(e[me].name, sizeof e[me].name, "%s", prefix_pool[h_below(h, 12)]);
    else snprintf(e[me].name, sizeof e[me].name, "%c%d", 'a' + (int)h_below(h, 4), (int)h_below(h, 5));
    e[me].rep = is_root ? (int)h_below(h, 4) - 1 : (int)h_below(h, 3);   /* the root may state any repetition (older writers do): it must not count */
    if (!is_root && h_chance(h, 1, 12)) e[me].rep = -1;
    e[me].tlen = 0; e[me].ptype = -1; e[me].nchild = 0;
    int want_group = is_root || (depth < 6 && *n + 2 < cap && h_chance(h, 2, 5));
    if (!want_group) {
        e[me].ptype = (int)h_below(h, 8);
        if (e[me].ptype == 7) e[me].tlen = 1 + (int)h_below(h, 20);
        return;
    }
    int k = 1 + (int)h_below(h, is_root ? 5 : 3);
    int made = 0;
    for (int i = 0; i < k && *n + 1 < cap; i++) { gen_tree(h, e, n, cap, depth + 1, 0); made++; }
    if (made == 0 && *n < cap) { gen_tree(h, e, n, cap, 99, 0); made++; }
    e[me].nchild = made;
}

static void gen_schema(hctx* h) {
    enum { CAP = 40 };
    el_t e[CAP + 4];
    long trees = h->thorough ? 20000 : 1500;
    long wf = 0, mal = 0;
    for (long t = 0; t < trees; t++) {
        int n = 0;
        int cap = 2 + (int)h_below(h, (t % 7 == 0) ? CAP - 2 : 10);
        gen_tree(h, e, &n, cap, 0, 1);
        do_build(h, e, n, NULL); wf++; if (t % 4 == 1) do_schema_file(h, e, n);
        if (t % 3 == 0) {
            char nm[24]; snprintf(nm, sizeof nm, "%c%d", 'a' + (int)h_below(h, 4), (int)h_below(h, 5));
            if (h_chance(h, 1, 2)) snprintf(nm, sizeof nm, "%s", e[h_below(h, (uint64_t)n)].name);      /* a name that occurs */
            else if (h_chance(h, 1, 3)) { static const char* const pp[] = { "p", "pr", "price", "price_usd", "id", "idx", "i", "col_1", "col_10" }; snprintf(nm, sizeof nm, "%s", pp[h_below(h, 9)]); }
            do_build(h, e, n, nm);
        }
        if (t % 4 == 0) {
            /* malformed: perturb one child count (too many, too few, zero for a group, negative, huge) */
            el_t m[CAP + 4]; memcpy(m, e, sizeof m);
            int i = (int)h_below(h, (uint64_t)n);
            switch (h_below(h, 6)) {
            case 0: m[i].nchild += 1 + (long long)h_below(h, 3); break;
            case 1: m[i].nchild = m[i].nchild > 0 ? m[i].nchild - 1 : 1; break;
            case 2: m[i].nchild = 0; break;
            case 3: m[i].nchild = -1 - (long long)h_below(h, 3); break;
            case 4: m[i].nchild = 1000 + (long long)h_below(h, 100000); break;
            default: m[i].nchild = 2147483647; break;
            }
            do_build(h, m, n, NULL); mal++;
        }
    }
    /* boundary: nested groups each claiming a huge number of children (time must stay linear) */
    for (int depth = 1; depth <= 8; depth++) {
        int n = 0;
        for (int i = 0; i < depth; i++) { snprintf(e[n].name, sizeof e[n].name, "g%d", i); e[n].rep = i ? 1 : -1; e[n].ptype = -1; e[n].tlen = 0; e[n].nchild = 2147483647; n++; }
        snprintf(e[n].name, sizeof e[n].name, "leaf"); e[n].rep = 1; e[n].ptype = 1; e[n].tlen = 0; e[n].nchild = 0; n++;
        do_build(h, e, n, NULL); mal++;
    }
    /* many nested columns of small depth: LIST columns (optional group { repeated group { leaf } }), MAP-like columns
     * (two leaves under the repeated group) and chains a{b{c{d{x}}}} - the depth of the tree stays 3..5 however many there are */
    for (int kind = 0; kind < 3; kind++) {
        int cols_n = kind == 2 ? 45 : 130, per = kind == 0 ? 3 : kind == 1 ? 4 : 5, nn = 0;
        el_t* q = (el_t*)h_alloc(sizeof(el_t) * (size_t)(1 + cols_n * per));
        snprintf(q[nn].name, sizeof q[nn].name, "schema"); q[nn].rep = -1; q[nn].ptype = -1; q[nn].tlen = 0; q[nn].nchild = cols_n; nn++;
        for (int i = 0; i < cols_n; i++) {
            if (kind < 2) {
                snprintf(q[nn].name, sizeof q[nn].name, "l%d", i); q[nn].rep = 1; q[nn].ptype = -1; q[nn].tlen = 0; q[nn].nchild = 1; nn++;
                snprintf(q[nn].name, sizeof q[nn].name, "list"); q[nn].rep = 2; q[nn].ptype = -1; q[nn].tlen = 0; q[nn].nchild = kind == 0 ? 1 : 2; nn++;
                snprintf(q[nn].name, sizeof q[nn].name, "element"); q[nn].rep = 1; q[nn].ptype = 1 + i % 2; q[nn].tlen = 0; q[nn].nchild = 0; nn++;
                if (kind == 1) { snprintf(q[nn].name, sizeof q[nn].name, "value"); q[nn].rep = 0; q[nn].ptype = 6; q[nn].tlen = 0; q[nn].nchild = 0; nn++; }
            } else {
                for (int d = 0; d < 4; d++) { snprintf(q[nn].name, sizeof q[nn].name, "%c%d", 'a' + d, i); q[nn].rep = d % 3; q[nn].ptype = -1; q[nn].tlen = 0; q[nn].nchild = 1; nn++; }
                snprintf(q[nn].name, sizeof q[nn].name, "x%d", i); q[nn].rep = 1; q[nn].ptype = 2; q[nn].tlen = 0; q[nn].nchild = 0; nn++;
            }
        }
        do_build(h, q, nn, NULL); do_schema_file(h, q, nn); wf++;
        free(q);
    }
    { static const int tls[] = { 65535, 65536, 65552, 100000, 1 << 20 };
      el_t q[8]; int nn = 0;
      snprintf(q[nn].name, sizeof q[nn].name, "schema"); q[nn].rep = -1; q[nn].ptype = -1; q[nn].tlen = 0; q[nn].nchild = 7; nn++;
      for (int i = 0; i < 5; i++) { snprintf(q[nn].name, sizeof q[nn].name, "f%d", tls[i]); q[nn].rep = i % 3; q[nn].ptype = 7; q[nn].tlen = tls[i]; q[nn].nchild = 0; nn++; }
      snprintf(q[nn].name, sizeof q[nn].name, "temp\xc3\xa9rature_c"); q[nn].rep = 1; q[nn].ptype = 5; q[nn].tlen = 0; q[nn].nchild = 0; nn++;
      snprintf(q[nn].name, sizeof q[nn].name, "pr\xc3\xa9nom_\xe2\x82\xac_total"); q[nn].rep = 0; q[nn].ptype = 6; q[nn].tlen = 0; q[nn].nchild = 0; nn++;
      do_build(h, q, nn, NULL); do_schema_file(h, q, nn); wf++; }
    /* root only / empty */
    { int n = 1; snprintf(e[0].name, sizeof e[0].name, "schema"); e[0].rep = -1; e[0].ptype = -1; e[0].tlen = 0; e[0].nchild = 0; do_build(h, e, n, NULL); do_build(h, e, 0, NULL); }

    /* builder: flat shapes, lengths past the initial capacity of 64 */
    long seqs = h->thorough ? 300 : 40;
    for (long t = 0; t < seqs; t++) {
        int ncols = (t < 6) ? (int[]){0, 1, 63, 64, 65, 130}[t] : (int)h_below(h, h->thorough ? 1100 : 200);
        el_t* cols = (el_t*)h_alloc((size_t)(ncols + 1) * sizeof(el_t));
        for (int i = 0; i < ncols; i++) {
            snprintf(cols[i].name, sizeof cols[i].name, "c%d", h_chance(h, 1, 10) ? (int)h_below(h, 5) : i);
            cols[i].rep = (int)h_below(h, 3); cols[i].ptype = (int)h_below(h, 8);
            cols[i].tlen = cols[i].ptype == 7 ? 1 + (int)h_below(h, 16) : 0;
            /* groups: in every second sequence a tenth of the entries, and always the entries that land exactly at a
             * capacity boundary (element index 64, 128, 256, ... = entry 63, 127, 255, ...) */
            if (t % 2 == 1 && (h_chance(h, 1, 10) || i == 63 || i == 127 || i == 255 || i == 511 || i == 1023)) { cols[i].ptype = -1; cols[i].tlen = 0; snprintf(cols[i].name, sizeof cols[i].name, "g%d", i); }
        }
        do_builder(h, cols, ncols);
        free(cols);
    }
    for (int t = 0; t < (h->thorough ? 8 : 2); t++)
        do_builder_faults(h, 150 + (int)h_below(h, 200), t % 2 ? 1000 : 300 + (int)h_below(h, 700), h_next(h));
    fprintf(h->out, "#stat wellformed_trees %ld\n#stat malformed_trees %ld\n#stat builder_seqs %ld\n", wf, mal, seqs);
}

static int parse_els(const char* v, el_t** out) {
    *out = NULL;
    if (!v || !strcmp(v, "-")) { *out = (el_t*)h_alloc(sizeof(el_t)); return 0; }
    int n = 1; for (const char* c = v; *c; c++) if (*c == ',') n++;
    el_t* e = (el_t*)h_alloc((size_t)n * sizeof(el_t));
    const char* c = v;
    for (int i = 0; i < n; i++) {
        int k = 0; while (*c && *c != '.' && k < 23) e[i].name[k++] = *c++;
        e[i].name[k] = 0; if (*c == '.') c++;
        e[i].rep = (int)strtol(c, (char**)&c, 10); if (*c == '.') c++;
        e[i].ptype = (int)strtol(c, (char**)&c, 10); if (*c == '.') c++;
        e[i].tlen = (int)strtol(c, (char**)&c, 10);
        e[i].nchild = 0;
        if (*c == '.') { c++; e[i].nchild = strtoll(c, (char**)&c, 10); }
        if (*c == ',') c++;
    }
    *out = e; return n;
}

static int replay_schema(hctx* h, const h_line* l) {
    if (!strcmp(l->op, "schema_file")) { el_t* e; int n = parse_els(h_in(l, "els"), &e); do_schema_file(h, e, n); free(e); return 1; }
    if (!strcmp(l->op, "schema_build") || !strcmp(l->op, "schema_find")) {
        el_t* e; int n = parse_els(h_in(l, "els"), &e);
        do_build(h, e, n, !strcmp(l->op, "schema_find") ? h_in(l, "name") : NULL);
        free(e); return 1;
    }
    if (!strcmp(l->op, "schema_builder_faults")) { do_builder_faults(h, (int)h_ll(h_in(l, "ncols")), (int)h_ll(h_in(l, "namelen")), (uint64_t)strtoull(h_in(l, "seed"), NULL, 10)); return 1; }
    if (!strcmp(l->op, "schema_builder")) {
        el_t* e; int n = parse_els(h_in(l, "cols"), &e);
        do_builder(h, e, n); free(e); return 1;
    }
    return 0;
}

const h_component comp_schema = { "schema", gen_schema, replay_schema };
