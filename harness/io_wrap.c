/* Link-time interposition of fclose and mmap (gcc -Wl,--wrap=fclose,--wrap=mmap): faults the OS can deliver at the LAST
 * moment of writing (close(2) reporting a deferred EIO / ENOSPC / EDQUOT, as on NFS or quota file systems) and at the
 * FIRST moment of mapped reading (mmap refusing the file: ENOMEM, RLIMIT_AS, a file system without mmap support).
 * Only references from the linked objects are redirected; the sanitizer runtime's own mappings are not affected. */
#include <stdio.h>
#include <errno.h>
#include <sys/mman.h>

int h_fail_fclose;   /* > 0: the next fclose really closes the stream, then reports EOF / EIO */
int h_fail_mmap;     /* != 0: file-backed mappings are refused with ENOMEM */
long h_n_fclose_failed, h_n_mmap_failed;

int __real_fclose(FILE* f);
int __wrap_fclose(FILE* f) {
    int r = __real_fclose(f);
    if (h_fail_fclose > 0) { h_fail_fclose--; h_n_fclose_failed++; errno = EIO; return EOF; }
    return r;
}

void* __real_mmap(void* a, size_t n, int prot, int flags, int fd, off_t off);
void* __wrap_mmap(void* a, size_t n, int prot, int flags, int fd, off_t off) {
    if (h_fail_mmap && fd >= 0 && !(flags & MAP_ANONYMOUS)) { h_n_mmap_failed++; errno = ENOMEM; return MAP_FAILED; }
    return __real_mmap(a, n, prot, flags, fd, off);
}
