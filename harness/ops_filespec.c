/* C05 (and C16, page-header statistics): every file the real writer reports complete is handed,
 * byte for byte, to the independent reader of the Lean Spec (Spec.File.read, strict tiling).
 *
 *   wrspec cols=<name.rep.ptype.tlen,...> codec=<n> page=<bytes> ns=<k> s0=<step> ... (case syntax of `wr`,
 *          see ops_file.c / filecase.h)
 *      | st=<status of each call incl. close> file=x<bytes>
 *        oracle=<c1:u1,c2:u2,...>   every GZIP member / ZSTD frame found in the file, decompressed by zlib /
 *                                   libzstd called DIRECTLY (not through carquet): x<compressed>:x<uncompressed>
 *        p_same_twice=0/1           a second write of the same history is byte-identical
 *
 * The driver (lean/Driver/Ops/FileSpec.lean) computes the intended table from the history and checks
 * Spec.File.read(strictTiling := true) file oracle = ok table.
 *
 * The oracle is built without any carquet code: the file is scanned for the gzip magic 1f 8b 08 and the
 * zstd magic 28 b5 2f fd; at every hit the library is asked to decompress a stream starting there.  Hits
 * inside data that are not streams simply fail; hits that decode give a pair.  The Spec reader looks a
 * page body up by its exact bytes, so a spurious pair is harmless and a missing pair is a rejection. */
#include "filecase.h"
#include <zlib.h>
#include <zstd.h>

static uint8_t* fs_slurp(const char* path, size_t* n) {
    FILE* f = fopen(path, "rb"); *n = 0;
    if (!f) return h_alloc(0);
    fseek(f, 0, SEEK_END); long sz = ftell(f); fseek(f, 0, SEEK_SET);
    uint8_t* p = h_alloc((size_t)(sz > 0 ? sz : 0));
    if (sz > 0 && fread(p, 1, (size_t)sz, f) != (size_t)sz) sz = 0;
    fclose(f); *n = (size_t)(sz > 0 ? sz : 0);
    return p;
}

/* try to inflate a gzip member starting at p (n bytes available): returns compressed length or 0 */
static size_t try_gzip(const uint8_t* p, size_t n, uint8_t** out, size_t* outn) {
    z_stream s; memset(&s, 0, sizeof s);
    if (inflateInit2(&s, 31) != Z_OK) return 0;
    size_t cap = 256 + n * 4; uint8_t* o = (uint8_t*)malloc(cap);
    s.next_in = (Bytef*)p; s.avail_in = (uInt)n; s.next_out = o; s.avail_out = (uInt)cap;
    int r;
    for (;;) {
        r = inflate(&s, Z_NO_FLUSH);
        if (r == Z_STREAM_END) break;
        if (r != Z_OK) { inflateEnd(&s); free(o); return 0; }
        if (s.avail_out == 0) {
            size_t used = cap; cap *= 2; o = (uint8_t*)realloc(o, cap);
            s.next_out = o + used; s.avail_out = (uInt)(cap - used);
        } else if (s.avail_in == 0) { inflateEnd(&s); free(o); return 0; }
    }
    size_t used_in = (size_t)s.total_in; *outn = (size_t)s.total_out; *out = o;
    inflateEnd(&s);
    return used_in;
}

static size_t try_zstd(const uint8_t* p, size_t n, uint8_t** out, size_t* outn) {
    size_t fs = ZSTD_findFrameCompressedSize(p, n);
    if (ZSTD_isError(fs)) return 0;
    unsigned long long cs = ZSTD_getFrameContentSize(p, fs);
    size_t cap = (cs == ZSTD_CONTENTSIZE_UNKNOWN || cs == ZSTD_CONTENTSIZE_ERROR) ? fs * 64 + 1024 : (size_t)cs;
    if (cap > (1u << 28)) return 0;
    uint8_t* o = (uint8_t*)malloc(cap ? cap : 1);
    size_t r = ZSTD_decompress(o, cap, p, fs);
    if (ZSTD_isError(r)) { free(o); return 0; }
    *out = o; *outn = r;
    return fs;
}

void fs_print_oracle(FILE* f, const uint8_t* fb, size_t fn) {
    int first = 1;
    fprintf(f, " oracle=");
    for (size_t i = 0; i + 4 <= fn; i++) {
        uint8_t* o = NULL; size_t on = 0, used = 0;
        if (fb[i] == 0x1f && fb[i + 1] == 0x8b && fb[i + 2] == 8) used = try_gzip(fb + i, fn - i, &o, &on);
        else if (fb[i] == 0x28 && fb[i + 1] == 0xb5 && fb[i + 2] == 0x2f && fb[i + 3] == 0xfd) used = try_zstd(fb + i, fn - i, &o, &on);
        if (!used) continue;
        if (!first) fputc(',', f);
        first = 0;
        h_hex(f, fb + i, used); fputc(':', f); h_hex(f, o, on);
        free(o);
    }
    if (first) fputc('-', f);
}

/* classifier of known finding F51: within one row group the columns were given different numbers of
 * rows (the writer takes RowGroup.num_rows from column 0 and checks nothing) */
static int is_ragged(const fcase* fc) {
    long rows[MAXC]; int open = 0, ragged = 0;
    memset(rows, 0, sizeof rows);
    for (int i = 0; i <= fc->nsteps; i++) {
        if (i == fc->nsteps || fc->steps[i].kind == 1) {
            if (open) for (int c = 1; c < fc->ncols; c++) if (rows[c] != rows[0]) ragged = 1;
            memset(rows, 0, sizeof rows); open = 0;
            continue;
        }
        open = 1; rows[fc->steps[i].col] += fc->steps[i].nrows;
    }
    return ragged;
}

static void run_spec_case(hctx* h, fcase* fc) {
    char path[128], path2[128];
    snprintf(path, sizeof path, "/tmp/verif_fs_%d_a.parquet", (int)getpid());
    snprintf(path2, sizeof path2, "/tmp/verif_fs_%d_b.parquet", (int)getpid());
    fprintf(h->out, "wrspec");
    { FILE* save = h->out; char* mem = NULL; size_t msz = 0; FILE* ms = open_memstream(&mem, &msz);
      h->out = ms; print_case(h, fc); fclose(ms); h->out = save; fputs(mem + 2, h->out); free(mem); }
    h_call(h);
    int st[MAXSTEP + 2], nst = 0, st2[MAXSTEP + 2], nst2 = 0;
    if (write_file(fc, path, st, &nst) != 0) { fprintf(h->out, " | err=create\n"); h->n_lines++; return; }
    write_file(fc, path2, st2, &nst2);
    size_t fn, fn2; uint8_t* fb = fs_slurp(path, &fn); uint8_t* fb2 = fs_slurp(path2, &fn2);
    int same_twice = (fn == fn2 && memcmp(fb, fb2, fn) == 0 && nst == nst2 && memcmp(st, st2, (size_t)nst * sizeof(int)) == 0);
    fprintf(h->out, " | st=");
    for (int i = 0; i < nst; i++) fprintf(h->out, "%s%d", i ? "," : "", st[i]);
    fprintf(h->out, " file="); h_hex(h->out, fb, fn);
    fs_print_oracle(h->out, fb, fn);
    fprintf(h->out, " p_same_twice=%d", same_twice);
    if (is_ragged(fc)) fprintf(h->out, " kf=ragged");
    fputc('\n', h->out);
    h->n_lines++;
    free(fb); free(fb2);
    unlink(path); unlink(path2);
}

/* directed: several pages per chunk with nulls in every page (page statistics must be those of the
 * page, not of the chunk so far), all types */
static void gen_multipage(hctx* h, fcase* fc, int ptype, int codec) {
    memset(fc, 0, sizeof *fc);
    fc->ncols = 2;
    snprintf(fc->cols[0].name, sizeof fc->cols[0].name, "n");
    fc->cols[0].rep = 1; fc->cols[0].ptype = ptype; fc->cols[0].tlen = ptype == 7 ? 3 : 0;
    snprintf(fc->cols[1].name, sizeof fc->cols[1].name, "r");
    fc->cols[1].rep = 0; fc->cols[1].ptype = 1; fc->cols[1].tlen = 0;
    fc->codec = codec; fc->page = 1;          /* page_size 1: every batch closes a page */
    int nb = 2 + (int)h_below(h, 3), ns = 0;
    for (int c = 0; c < 2; c++)
        for (int b = 0; b < nb; b++) {
            fstep* s = &fc->steps[ns++];
            s->kind = 0; s->col = c; s->nrows = 3 + b; s->has_defs = c == 0;
            s->defs = h_alloc((size_t)s->nrows);
            int nn = 0;
            for (int r = 0; r < s->nrows; r++) { int d = c == 0 ? (r % (b + 2) != 0) : 1; s->defs[r] = (uint8_t)d; nn += d; }
            s->nvals = nn;
            s->vals = (uint8_t**)h_alloc((size_t)(nn ? nn : 1) * sizeof(uint8_t*));
            s->vlen = (int*)h_alloc((size_t)(nn ? nn : 1) * sizeof(int));
            for (int j = 0; j < nn; j++) gen_value(h, &fc->cols[c], &s->vals[j], &s->vlen[j]);
        }
    fc->nsteps = ns;
}

/* directed: the columns of a row group are given different numbers of rows.  Whatever the writer does
 * with that, a close that returns OK must have produced a valid file. */
static void gen_ragged(hctx* h, fcase* fc) {
    gen_case(h, fc, 1);
    if (fc->ncols < 2) { fc->ncols = 2; fc->cols[1] = fc->cols[0]; snprintf(fc->cols[1].name, sizeof fc->cols[1].name, "c1"); }
    /* append one more batch for the last column only */
    if (fc->nsteps < MAXSTEP - 1) {
        int c = fc->ncols - 1;
        fstep* s = &fc->steps[fc->nsteps++];
        memset(s, 0, sizeof *s);
        s->kind = 0; s->col = c; s->nrows = 2; s->has_defs = 0;
        s->defs = h_alloc(2); s->defs[0] = s->defs[1] = 1;
        s->nvals = 2;
        s->vals = (uint8_t**)h_alloc(2 * sizeof(uint8_t*)); s->vlen = (int*)h_alloc(2 * sizeof(int));
        for (int j = 0; j < 2; j++) gen_value(h, &fc->cols[c], &s->vals[j], &s->vlen[j]);
    }
}

static void gen_filespec(hctx* h) {
    static const int codecs[] = { 0, 1, 2, 5, 6, 7 };
    static const int types[] = { 0, 1, 2, 4, 5, 6, 7 };
    long n = h->thorough ? 4000 : 260;
    for (int t = 0; t < 7; t++) {
        fcase fc; gen_multipage(h, &fc, types[t], codecs[(t + (int)h_below(h, 6)) % 6]);
        run_spec_case(h, &fc); free_case(&fc);
    }
    for (long i = 0; i < n; i++) {
        fcase fc; gen_case(h, &fc, i % 3 == 0);
        run_spec_case(h, &fc);
        free_case(&fc);
    }
}

static int replay_none_fs(hctx* h, const h_line* l) { (void)h; (void)l; return 0; }
/* The same history under ONE allocation failure inside a row-group flush or the close: the k-th allocation request made by
 * carquet_writer_new_row_group / carquet_writer_close calls fails once (write_batch calls run without faults: what a failed
 * write_batch leaves behind is C19's business, and retrying it would change the table).  A failed new_row_group is called
 * again, as a caller would; whatever happens, if every call in the end - and close - said OK, the file must be the valid file of
 * the history (`wrspec` line; st = the final status of each call). */
extern void h_alloc_arm(long fail_at);
extern long h_alloc_disarm(void);
extern int h_alloc_counting;
extern long h_alloc_fired;
/* wb = 1: the fault may also land inside a write_batch call (a page that fills up is finished there, the chunk buffer grows);
 * the caller hands the refused batch in again and carries on.  If every call in the end said OK the file must hold the table of
 * the history; if some call kept failing, a close that says OK must still have produced a structurally valid file.
 * wb = 2: the fault is delivered inside carquet_writer_close only. */
static long spec_case_allocfault(hctx* h, fcase* fc, long k, int wb) {
    char path[128]; snprintf(path, sizeof path, "/tmp/verif_fs_%d_f.parquet", (int)getpid());
    fprintf(h->out, "wrspec");
    { FILE* save = h->out; char* mem = NULL; size_t msz = 0; FILE* ms = open_memstream(&mem, &msz);
      h->out = ms; print_case(h, fc); fclose(ms); h->out = save; fputs(mem + 2, h->out); free(mem); }
    fprintf(h->out, " afault=%ld", k);
    if (wb) fprintf(h->out, " wb=%d", wb);
    h_call(h);
    carquet_error_t err; memset(&err, 0, sizeof err);
    carquet_schema_t* sc = carquet_schema_create(&err);
    for (int i = 0; sc && i < fc->ncols; i++) (void)!add_case_column(sc, &fc->cols[i]);
    carquet_writer_options_t wo; carquet_writer_options_init(&wo);
    wo.compression = (carquet_compression_t)fc->codec; wo.page_size = fc->page;
    carquet_writer_t* w = sc ? carquet_writer_create(path, sc, &wo, &err) : NULL;
    if (!w) { fprintf(h->out, " | err=create\n"); h->n_lines++; if (sc) carquet_schema_free(sc); return 0; }
    int st[MAXSTEP + 2], nst = 0; long fired0 = h_alloc_fired;
    h_alloc_arm(k); h_alloc_counting = 0;
    for (int i = 0; i < fc->nsteps; i++) {
        const fstep* s = &fc->steps[i];
        if (s->kind == 1) {
            h_alloc_counting = wb != 2; int r = (int)carquet_writer_new_row_group(w); h_alloc_counting = 0;
            if (r != 0) { h_alloc_counting = wb != 2; r = (int)carquet_writer_new_row_group(w); h_alloc_counting = 0; }   /* the caller tries again */
            st[nst++] = r; continue;
        }
        void* v = batch_values(&fc->cols[s->col], s);
        int16_t* d = NULL;
        if (s->has_defs) { d = (int16_t*)h_alloc((size_t)(s->nrows ? s->nrows : 1) * 2); for (int r = 0; r < s->nrows; r++) d[r] = s->defs[r]; }
        int16_t* rl = batch_reps(s);
        h_alloc_counting = wb == 1;
        int rb = (int)carquet_writer_write_batch(w, s->col, v, s->nrows, d, rl);
        /* a batch that was refused is handed in again, as a caller would (leaving it out would make the history ragged, which
         * is the caller's fault and not judged); whether the first attempt had taken part of it is the writer's business */
        if (rb != 0) rb = (int)carquet_writer_write_batch(w, s->col, v, s->nrows, d, rl);
        st[nst++] = rb;
        h_alloc_counting = 0;
        free(v); free(d); free(rl);
    }
    h_alloc_counting = 1; st[nst++] = (int)carquet_writer_close(w); h_alloc_counting = 0;
    long seen = h_alloc_disarm(); long fired = h_alloc_fired - fired0;
    carquet_schema_free(sc);
    size_t fn; uint8_t* fb = fs_slurp(path, &fn);
    fprintf(h->out, " | st=");
    for (int i = 0; i < nst; i++) fprintf(h->out, "%s%d", i ? "," : "", st[i]);
    fprintf(h->out, " file="); h_hex(h->out, fb, fn);
    fs_print_oracle(h->out, fb, fn);
    fprintf(h->out, " fired=%ld p_same_twice=1\n", fired);
    h->n_lines++;
    free(fb); unlink(path);
    return seen;
}

/* a footer of 8-10 KiB (18 columns x 10 row groups, names of varying length so that what is being appended when the footer
 * buffer has to grow differs from layout to layout): wb = 2 delivers the fault inside carquet_writer_close only, at EVERY
 * request of the close */
static void gen_wide_footer_case(hctx* h, fcase* fc, int layout) {
    memset(fc, 0, sizeof *fc);
    fc->ncols = 18; fc->codec = 0; fc->page = 1024 * 1024;
    for (int i = 0; i < fc->ncols; i++) {
        int len = 3 + (layout * 7 + i * 3) % 12, k = snprintf(fc->cols[i].name, sizeof fc->cols[i].name, "c%d", i);
        while (k < len && k < 15) fc->cols[i].name[k++] = 'x';
        fc->cols[i].name[k] = 0; fc->cols[i].rep = 0; fc->cols[i].ptype = 1 + (i + layout) % 2; fc->cols[i].tlen = 0;
    }
    int ns = 0;
    for (int g = 0; g < 10; g++) {
        for (int c = 0; c < fc->ncols; c++) {
            fstep* t = &fc->steps[ns++]; t->kind = 0; t->col = c; t->nrows = 1; t->nvals = 1; t->has_defs = 0; t->has_reps = 0;
            t->defs = (uint8_t*)h_alloc(1); t->defs[0] = 1;
            t->vals = (uint8_t**)h_alloc(sizeof(uint8_t*)); t->vlen = (int*)h_alloc(sizeof(int));
            gen_value(h, &fc->cols[c], &t->vals[0], &t->vlen[0]);
        }
        if (g + 1 < 10) fc->steps[ns++].kind = 1;
    }
    fc->nsteps = ns;
}

static void gen_c05alloc(hctx* h) {
    for (int layout = 0; layout < (h->thorough ? 32 : 6); layout++) {
        fcase fc; gen_wide_footer_case(h, &fc, layout + (int)h_below(h, 32));
        long K = spec_case_allocfault(h, &fc, 0, 2);
        for (long k = 1; k <= K; k++) (void)spec_case_allocfault(h, &fc, k, 2);
        free_case(&fc);
    }
    long cases = h->thorough ? 30 : 5;
    for (long i = 0; i < cases; i++) {
        fcase fc;
        for (;;) { gen_case(h, &fc, 1); int has_rg = 0; for (int q = 0; q < fc.nsteps; q++) if (fc.steps[q].kind == 1) has_rg = 1; if (has_rg && !is_ragged(&fc)) break; free_case(&fc); }
        if (i % 2 == 0) fc.page = 64 + (long)h_below(h, 200);      /* several pages per chunk: the chunk buffer grows during the flush */
        long K = spec_case_allocfault(h, &fc, 0, 0);               /* count the requests of the fault-free run */
        long stepk = h->thorough ? 1 : 1 + K / 25;
        for (long k = 1; k <= K; k += stepk) (void)spec_case_allocfault(h, &fc, k, 0);
        K = spec_case_allocfault(h, &fc, 0, 1);
        stepk = h->thorough ? 1 : 1 + K / 40;
        for (long k = 1; k <= K; k += stepk) (void)spec_case_allocfault(h, &fc, k, 1);
        free_case(&fc);
    }
}
const h_component comp_c05alloc = { "c05alloc", gen_c05alloc, replay_none_fs };

static int replay_filespec(hctx* h, const h_line* l) {
    if (strcmp(l->op, "wrspec") != 0) return 0;
    fcase fc; if (parse_case(l, &fc)) { fprintf(stderr, "bad wrspec line\n"); return 1; }
    if (h_in(l, "afault")) (void)spec_case_allocfault(h, &fc, (long)h_ll(h_in(l, "afault")), h_in(l, "wb") ? (int)h_ll(h_in(l, "wb")) : 0);
    else run_spec_case(h, &fc);
    free_case(&fc); return 1;
}

const h_component comp_filespec = { "filespec", gen_filespec, replay_filespec };

/* known finding F51 (C05): ragged row groups.  A separate component so that properties which only
 * want well-formed histories (C16) do not run it; its lines carry kf=ragged. */
static void gen_filespecrag(hctx* h) {
    for (int i = 0; i < (h->thorough ? 40 : 6); i++) { fcase fc; gen_ragged(h, &fc); run_spec_case(h, &fc); free_case(&fc); }
}
static int replay_none(hctx* h, const h_line* l) { (void)h; (void)l; return 0; }
const h_component comp_filespecrag = { "filespecrag", gen_filespecrag, replay_none };
