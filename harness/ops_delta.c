/* C11 / C12 (delta family): carquet_delta_{encode,decode}_int32/int64, carquet_delta_length_*,
 * carquet_delta_strings_* on exact-size buffers.
 *  - encoder ops on generated sequences (lengths around 0/1/miniblock/block boundaries, value
 *    patterns constant / sequential / random / extremes / wrap-around / width-directed),
 *    capacities around every guard; C-side predicate p_rt: the real decoder returns the input and
 *    reports consumed == written;
 *  - decoder ops on carquet's own output, on streams written by an independent writer in this
 *    file that follows the format document (any legal geometry, lowered frame of reference, wider
 *    than needed miniblocks, random padding, junk width bytes for unneeded miniblocks; gram=1),
 *    on mutations (truncation, byte flips, width bytes 65/255, header numbers at the limits) and
 *    on random bytes, with requested counts below / at / above the stored total.
 * Line syntax: see lean/Driver/Ops/Delta.lean. */
#include "common.h"
#include <carquet/error.h>
#include <carquet/types.h>
#include "core/buffer.h"
#include <limits.h>

carquet_status_t carquet_delta_decode_int32(const uint8_t*, size_t, int32_t*, int32_t, size_t*);
carquet_status_t carquet_delta_decode_int64(const uint8_t*, size_t, int64_t*, int32_t, size_t*);
carquet_status_t carquet_delta_encode_int32(const int32_t*, int32_t, uint8_t*, size_t, size_t*);
carquet_status_t carquet_delta_encode_int64(const int64_t*, int32_t, uint8_t*, size_t, size_t*);
carquet_status_t carquet_delta_length_decode(const uint8_t*, size_t, carquet_byte_array_t*, int32_t, size_t*);
carquet_status_t carquet_delta_length_encode(const carquet_byte_array_t*, int32_t, carquet_buffer_t*);
carquet_status_t carquet_delta_strings_decode(const uint8_t*, size_t, carquet_byte_array_t*, int32_t,
                                              uint8_t*, size_t, size_t*);
carquet_status_t carquet_delta_strings_encode(const carquet_byte_array_t*, int32_t, carquet_buffer_t*);

static long st_enc, st_dec, st_err, st_wide, st_gram, st_gram_other, st_mut, st_rand, st_bytes, st_maxn, st_big;
static long st_status[80];

static void put_i64s(FILE* f, const int64_t* v, long n) {
    if (n <= 0) { fputc('-', f); return; }
    for (long i = 0; i < n; i++) fprintf(f, i ? ",%lld" : "%lld", (long long)v[i]);
}
static void put_strs(FILE* f, const carquet_byte_array_t* v, long n) {
    if (n <= 0) { fputc('-', f); return; }
    for (long i = 0; i < n; i++) { if (i) fputc(',', f); h_hex(f, v[i].data, (size_t)v[i].length); }
}
static void count_status(int st) { if (st >= 0 && st < 80) st_status[st]++; if (st) st_err++; }

/* does some block (128 deltas, carquet's 64-bit deltas) need a miniblock wider than 32 bits? */
static int needs_wide(const int64_t* v, int n) {
    for (int s = 1; s < n; s += 128) {
        int e = s + 128 < n ? s + 128 : n;
        int64_t mn = 0; int first = 1;
        for (int i = s; i < e; i++) { int64_t d = (int64_t)((uint64_t)v[i] - (uint64_t)v[i - 1]); if (first || d < mn) mn = d; first = 0; }
        for (int i = s; i < e; i++) { uint64_t a = ((uint64_t)v[i] - (uint64_t)v[i - 1]) - (uint64_t)mn; if (a >> 32) return 1; }
    }
    return 0;
}

/* ---------------- DELTA_BINARY_PACKED ---------------- */

static void do_enc(hctx* h, int W, const int64_t* vals, int n, size_t cap) {
    int32_t* v32 = NULL; int64_t* v64 = NULL;
    if (W == 32) { v32 = (int32_t*)h_alloc((size_t)n * 4); for (int i = 0; i < n; i++) v32[i] = (int32_t)vals[i]; }
    else { v64 = (int64_t*)h_alloc((size_t)n * 8); memcpy(v64, vals, (size_t)n * 8); }
    uint8_t* out = h_alloc(cap);
    fprintf(h->out, "dbp_enc%d vals=", W); put_i64s(h->out, vals, n); fprintf(h->out, " cap=%zu", cap); h_call(h);
    size_t written = 0;
    carquet_status_t st = W == 32 ? carquet_delta_encode_int32(v32, n, out, cap, &written)
                                  : carquet_delta_encode_int64(v64, n, out, cap, &written);
    if (st != CARQUET_OK) written = 0;
    fprintf(h->out, " | st=%d out=", (int)st); h_hex(h->out, out, written);
    if (st == CARQUET_OK && n > 0) {
        uint8_t* in = h_alloc(written); memcpy(in, out, written);
        size_t consumed = (size_t)-1; int ok = 0;
        if (W == 32) {
            int32_t* back = (int32_t*)h_alloc((size_t)n * 4);
            carquet_status_t s2 = carquet_delta_decode_int32(in, written, back, n, &consumed);
            ok = s2 == CARQUET_OK && consumed == written && memcmp(back, v32, (size_t)n * 4) == 0; free(back);
        } else {
            int64_t* back = (int64_t*)h_alloc((size_t)n * 8);
            carquet_status_t s2 = carquet_delta_decode_int64(in, written, back, n, &consumed);
            ok = s2 == CARQUET_OK && consumed == written && memcmp(back, v64, (size_t)n * 8) == 0; free(back);
        }
        free(in);
        fprintf(h->out, " p_rt=%d", ok);
    }
    if (n == 0) fprintf(h->out, " triv=1");
    if (needs_wide(vals, n)) { fprintf(h->out, " kf=delta_wide"); st_wide++; }
    fputc('\n', h->out);
    h->n_lines++; st_enc++; count_status((int)st); st_bytes += (long)written; if (n > st_maxn) st_maxn = n;
    free(out); free(v32); free(v64);
}

/* returns written size when OK (for chaining into decoder ops), output copied to *keep (malloc) */
static size_t enc_keep(int W, const int64_t* vals, int n, uint8_t** keep) {
    size_t cap = 64 + (size_t)n * 10 + 1100, written = 0; *keep = h_alloc(cap);
    carquet_status_t st;
    if (W == 32) { int32_t* v = (int32_t*)h_alloc((size_t)n * 4); for (int i = 0; i < n; i++) v[i] = (int32_t)vals[i];
                   st = carquet_delta_encode_int32(v, n, *keep, cap, &written); free(v); }
    else st = carquet_delta_encode_int64(vals, n, *keep, cap, &written);
    return st == CARQUET_OK ? written : 0;
}

static void do_dec(hctx* h, int W, const uint8_t* data, size_t size, long n, int gram, const int64_t* exp, long nexp) {
    uint8_t* in = h_alloc(size); memcpy(in, data, size);
    long m = n > 0 ? n : 0;
    int32_t* o32 = (int32_t*)h_alloc((size_t)m * 4); int64_t* o64 = (int64_t*)h_alloc((size_t)m * 8);
    fprintf(h->out, "dbp_dec%d data=", W); h_hex(h->out, in, size); fprintf(h->out, " n=%ld", n);
    if (gram) { fprintf(h->out, " gram=1 exp="); put_i64s(h->out, exp, nexp); }
    h_call(h);
    size_t consumed = 0;
    carquet_status_t st = W == 32 ? carquet_delta_decode_int32(in, size, o32, (int32_t)n, &consumed)
                                  : carquet_delta_decode_int64(in, size, o64, (int32_t)n, &consumed);
    fprintf(h->out, " | st=%d vals=", (int)st);
    if (st == CARQUET_OK) {
        if (W == 32) for (long i = 0; i < m; i++) o64[i] = o32[i];
        put_i64s(h->out, o64, m);
    } else { fputc('-', h->out); consumed = 0; }
    fprintf(h->out, " consumed=%zu\n", consumed);
    h->n_lines++; st_dec++; count_status((int)st);
    free(in); free(o32); free(o64);
}

/* ---- an independent writer following the format document ---- */
typedef struct { uint8_t* p; size_t n, cap; } bb;
static void bb_put(bb* b, uint8_t x) {
    if (b->n == b->cap) { b->cap = b->cap ? b->cap * 2 : 256; b->p = (uint8_t*)realloc(b->p, b->cap); }
    b->p[b->n++] = x;
}
static void bb_uleb(bb* b, uint64_t v) { while (v >= 0x80) { bb_put(b, (uint8_t)(v | 0x80)); v >>= 7; } bb_put(b, (uint8_t)v); }
static uint64_t zz64(int64_t v) { return ((uint64_t)v << 1) ^ (uint64_t)(v >> 63); }
static void bb_pack(bb* b, const uint64_t* v, int count, int w) {   /* LSB-first, bit by bit */
    size_t start = b->n, nbytes = ((size_t)count * (size_t)w + 7) / 8;
    for (size_t i = 0; i < nbytes; i++) bb_put(b, 0);
    size_t bit = 0;
    for (int i = 0; i < count; i++) for (int k = 0; k < w; k++, bit++)
        if ((v[i] >> k) & 1) b->p[start + bit / 8] |= (uint8_t)(1u << (bit % 8));
}
static int nbits(uint64_t v) { int w = 0; while (v) { w++; v >>= 1; } return w; }

/* wild bit 0: lower the frame of reference; 1: wider widths; 2: junk width bytes; 3: random padding */
static void gram_stream(hctx* h, bb* o, const int64_t* vals, int n, int W, int bs, int mb, int wild) {
    bb_uleb(o, (uint64_t)bs); bb_uleb(o, (uint64_t)mb); bb_uleb(o, (uint64_t)n); bb_uleb(o, zz64(n ? vals[0] : 0));
    int vpm = bs / mb;
    uint64_t mask = W == 64 ? ~0ull : 0xFFFFFFFFull;
    int64_t* d = (int64_t*)malloc(sizeof(int64_t) * (size_t)bs);
    uint64_t* adj = (uint64_t*)malloc(sizeof(uint64_t) * (size_t)bs);
    for (int i = 1; i < n; ) {
        int cnt = n - i < bs ? n - i : bs;
        for (int k = 0; k < cnt; k++) {
            uint64_t x = ((uint64_t)vals[i + k] - (uint64_t)vals[i + k - 1]) & mask;
            d[k] = W == 64 ? (int64_t)x : (int64_t)(int32_t)(uint32_t)x;
        }
        int64_t md = d[0];
        for (int k = 1; k < cnt; k++) if (d[k] < md) md = d[k];
        if ((wild & 1) && md > INT64_MIN + 100000) md -= (int64_t)h_below(h, 70000);
        for (int k = 0; k < cnt; k++) adj[k] = ((uint64_t)d[k] - (uint64_t)md) & mask;
        bb_uleb(o, zz64(md));
        int used = (cnt + vpm - 1) / vpm;
        int* ws = (int*)malloc(sizeof(int) * (size_t)mb);
        for (int j = 0; j < mb; j++) {
            if (j < used) {
                uint64_t mx = 0;
                for (int k = j * vpm; k < (j + 1) * vpm && k < cnt; k++) if (adj[k] > mx) mx = adj[k];
                int w = nbits(mx);
                if (wild & 2) { int w2 = w + (int)h_below(h, 4); if (h_chance(h, 1, 8)) w2 = 64; if (w2 <= 64) w = w2; }
                ws[j] = w; bb_put(o, (uint8_t)w);
            } else { ws[j] = 0; bb_put(o, (wild & 4) ? (uint8_t)h_next(h) : 0); }
        }
        for (int j = 0; j < used; j++) {
            uint64_t* mv = (uint64_t*)malloc(sizeof(uint64_t) * (size_t)vpm);
            for (int k = 0; k < vpm; k++) {
                int idx = j * vpm + k;
                if (idx < cnt) mv[k] = adj[idx];
                else if (wild & 8) mv[k] = ws[j] >= 64 ? h_next(h) : (h_next(h) & ((1ull << ws[j]) - 1));
                else mv[k] = 0;
            }
            bb_pack(o, mv, vpm, ws[j]); free(mv);
        }
        free(ws);
        i += cnt;
    }
    free(d); free(adj);
}

/* ---------------- value patterns ---------------- */
#define NPAT 14
static void gen_vals(hctx* h, int W, int pat, int64_t* v, int n) {
    int64_t lo = W == 32 ? INT32_MIN : INT64_MIN, hi = W == 32 ? INT32_MAX : INT64_MAX;
    uint64_t acc = h_next(h);
    int k32[] = {1, 7, 16, 30, 31}; int k64[] = {1, 30, 31, 32, 33, 62, 63};
    for (int i = 0; i < n; i++) {
        int64_t x;
        switch (pat) {
        case 0: x = (int64_t)acc; break;                                        /* constant */
        case 1: x = (int64_t)(acc + (uint64_t)i * 3); break;                    /* sequential */
        case 2: acc += h_below(h, 17) - 8; x = (int64_t)acc; break;             /* small signed deltas */
        case 3: x = (int64_t)h_next(h); break;                                  /* full range */
        case 4: x = (i & 1) ? hi : lo; break;                                   /* MIN / MAX alternating */
        case 5: x = (int64_t)((uint64_t)hi - 3 + (uint64_t)i); break;           /* runs over the top: wraps */
        case 6: x = (i & 1) ? 0 : hi; break;                                    /* deltas +-MAX */
        case 7: { int k = W == 32 ? k32[h->n_lines % 5] : k64[h->n_lines % 7];  /* 0 / 2^k-1 alternating: width k+1 */
                  x = (i & 1) ? (int64_t)((1ull << k) - 1) : 0; break; }
        case 8: { int k = W == 32 ? k32[h->n_lines % 5] : k64[h->n_lines % 7];  /* monotone, deltas < 2^k, hits 0 and 2^k-1 */
                  uint64_t dd = (i % 5 == 1) ? 0 : (i % 5 == 2) ? (1ull << k) - 1 : (h_next(h) & ((1ull << k) - 1));
                  acc = (i == 0) ? 0 : acc + dd; x = (int64_t)acc; break; }
        case 9: x = h_chance(h, 1, 2) ? lo + (int64_t)h_below(h, 3) : hi - (int64_t)h_below(h, 3); break; /* extremes */
        case 10: x = (i % 40 == 39) ? (int64_t)h_next(h) : (int64_t)(acc + (uint64_t)i); break; /* sequential with jumps */
        case 11: x = (i / 32) % 2 ? (int64_t)(h_next(h) & 0xFFFF) : 7; break;  /* per-miniblock width changes, width-0 miniblocks */
        case 12: x = (int64_t)(h_next(h) & 1); break;                           /* width 1/2 */
        default: x = -(int64_t)(uint64_t)i * 1000003; break;                    /* decreasing */
        }
        if (W == 32) x = (int64_t)(int32_t)(uint32_t)(uint64_t)x;
        v[i] = x;
    }
}

/* ---------------- byte arrays ---------------- */
static void free_strs(carquet_byte_array_t* v, int n) { for (int i = 0; i < n; i++) free(v[i].data); free(v); }

static void do_dl_dec(hctx* h, const uint8_t* data, size_t size, long n, int gram) {
    uint8_t* in = h_alloc(size); memcpy(in, data, size);
    long m = n > 0 ? n : 0;
    carquet_byte_array_t* out = (carquet_byte_array_t*)h_alloc((size_t)m * sizeof *out);
    fprintf(h->out, "dl_dec data="); h_hex(h->out, in, size); fprintf(h->out, " n=%ld%s", n, gram ? " gram=1" : ""); h_call(h);
    size_t consumed = 0;
    carquet_status_t st = carquet_delta_length_decode(in, size, out, (int32_t)n, &consumed);
    fprintf(h->out, " | st=%d vals=", (int)st);
    if (st == CARQUET_OK) put_strs(h->out, out, m); else { fputc('-', h->out); consumed = 0; }
    fprintf(h->out, " consumed=%zu", consumed);
    if (st == CARQUET_OK) {   /* the returned pointers as offsets into the input (C08: slices inside the input) */
        fprintf(h->out, " offs=");
        for (long i = 0; i < m; i++) fprintf(h->out, i ? ",%lld" : "%lld", (long long)(out[i].data - in));
        if (m == 0) fputc('-', h->out);
    }
    fputc('\n', h->out);
    h->n_lines++; st_dec++; count_status((int)st);
    free(in); free(out);
}
static void do_ds_dec(hctx* h, const uint8_t* data, size_t size, long n, size_t work, int gram) {
    uint8_t* in = h_alloc(size); memcpy(in, data, size);
    long m = n > 0 ? n : 0;
    carquet_byte_array_t* out = (carquet_byte_array_t*)h_alloc((size_t)m * sizeof *out);
    uint8_t* wb = h_alloc(work);
    fprintf(h->out, "ds_dec data="); h_hex(h->out, in, size); fprintf(h->out, " n=%ld work=%zu%s", n, work, gram ? " gram=1" : ""); h_call(h);
    size_t consumed = 0;
    carquet_status_t st = carquet_delta_strings_decode(in, size, out, (int32_t)n, wb, work, &consumed);
    fprintf(h->out, " | st=%d vals=", (int)st);
    if (st == CARQUET_OK) put_strs(h->out, out, m); else { fputc('-', h->out); consumed = 0; }
    fprintf(h->out, " consumed=%zu", consumed);
    if (st == CARQUET_OK) {   /* the returned pointers as offsets into the work buffer (C08) */
        fprintf(h->out, " woffs=");
        for (long i = 0; i < m; i++) fprintf(h->out, i ? ",%lld" : "%lld", (long long)(out[i].data - wb));
        if (m == 0) fputc('-', h->out);
    }
    fputc('\n', h->out);
    h->n_lines++; st_dec++; count_status((int)st);
    free(in); free(out); free(wb);
}
static int same_strs(const carquet_byte_array_t* a, const carquet_byte_array_t* b, int n) {
    for (int i = 0; i < n; i++) {
        if (a[i].length != b[i].length) return 0;
        for (int k = 0; k < a[i].length; k++) if (a[i].data[k] != b[i].data[k]) return 0;
    }
    return 1;
}
/* encoder op; when keep != NULL the output is handed back for decoder ops */
static void do_bytes_enc(hctx* h, int strings, const carquet_byte_array_t* vals, int n, uint8_t** keep, size_t* keepn) {
    carquet_buffer_t out; carquet_buffer_init(&out);
    size_t total = 0; for (int i = 0; i < n; i++) total += (size_t)vals[i].length;
    fprintf(h->out, "%s vals=", strings ? "ds_enc" : "dl_enc"); put_strs(h->out, vals, n); h_call(h);
    /* an encoder APPENDS: in two cases of three the buffer already holds bytes (a page under construction: levels first, the
     * values behind them); they must still be there afterwards and what was added must be the encoding */
    size_t pre = (total + (size_t)n) % 3 == 0 ? 0 : 1 + (total * 7 + (size_t)n) % 41;
    for (size_t q = 0; q < pre; q++) { uint8_t c = (uint8_t)(0xC3 ^ q); (void)!carquet_buffer_append(&out, &c, 1); }
    carquet_status_t st = strings ? carquet_delta_strings_encode(vals, n, &out) : carquet_delta_length_encode(vals, n, &out);
    int pre_ok = carquet_buffer_size(&out) >= pre;
    for (size_t q = 0; pre_ok && q < pre; q++) if (carquet_buffer_data(&out)[q] != (uint8_t)(0xC3 ^ q)) pre_ok = 0;
    if (st != CARQUET_OK && carquet_buffer_size(&out) != pre) pre_ok = 0;        /* a failed encode adds nothing */
    size_t written = st == CARQUET_OK && pre_ok ? carquet_buffer_size(&out) - pre : 0;
    fprintf(h->out, " | st=%d out=", (int)st); h_hex(h->out, carquet_buffer_data(&out) + (pre_ok ? pre : 0), written);
    fprintf(h->out, " p_appends=%d", pre_ok);
    if (st == CARQUET_OK) {
        uint8_t* in = h_alloc(written); if (written) memcpy(in, carquet_buffer_data(&out) + pre, written);
        carquet_byte_array_t* back = (carquet_byte_array_t*)h_alloc((size_t)n * sizeof *back);
        uint8_t* wb = h_alloc(total); size_t consumed = (size_t)-1;
        carquet_status_t s2 = strings ? carquet_delta_strings_decode(in, written, back, n, wb, total, &consumed)
                                      : carquet_delta_length_decode(in, written, back, n, &consumed);
        int ok = s2 == CARQUET_OK && consumed == written && same_strs(vals, back, n);
        fprintf(h->out, " p_rt=%d", ok);
        free(back); free(wb);
        if (keep) { *keep = in; *keepn = written; } else free(in);
    } else if (keep) { *keep = NULL; *keepn = 0; }
    fputc('\n', h->out);
    h->n_lines++; st_enc++; count_status((int)st); st_bytes += (long)written;
    carquet_buffer_destroy(&out);
}

/* Byte arrays too long to print: value i consists of lens[i] bytes, all equal to `fill` (so the
 * DELTA_BYTE_ARRAY prefix of value i is min(lens[i-1], lens[i])).  The line carries the first bytes of the
 * output (they contain the length streams), the output size, and two C-side predicates: p_data (the
 * output ends with the concatenated (suffix) bytes) and p_rt (the real decoder returns the input).
 * Directed at the encoders' internal scratch buffer for the length streams (F61: lengths 0,2^27,0). */
static void do_bytes_big(hctx* h, int strings, const int64_t* lens, int n, int fill) {
    carquet_byte_array_t* v = (carquet_byte_array_t*)h_alloc((size_t)n * sizeof *v);
    size_t total = 0, suffix_total = 0;
    for (int i = 0; i < n; i++) {
        size_t len = (size_t)lens[i];
        v[i].data = h_alloc(len); memset(v[i].data, fill, len); v[i].length = (int32_t)len;
        size_t p = (strings && i > 0) ? (size_t)(lens[i - 1] < lens[i] ? lens[i - 1] : lens[i]) : 0;
        total += len; suffix_total += len - p;
    }
    carquet_buffer_t out; carquet_buffer_init(&out);
    fprintf(h->out, "%s lens=", strings ? "ds_big" : "dl_big"); put_i64s(h->out, lens, n); fprintf(h->out, " fill=%d", fill); h_call(h);
    carquet_status_t st = strings ? carquet_delta_strings_encode(v, n, &out) : carquet_delta_length_encode(v, n, &out);
    size_t written = st == CARQUET_OK ? carquet_buffer_size(&out) : 0;
    fprintf(h->out, " | st=%d size=%zu head=", (int)st, written); { size_t lim = 200 + 24 * (size_t)n; h_hex(h->out, carquet_buffer_data(&out), written < lim ? written : lim); }
    if (st == CARQUET_OK) {
        const uint8_t* o = carquet_buffer_data(&out);
        int okd = written >= suffix_total;
        for (size_t k = 0; okd && k < suffix_total; k++) if (o[written - suffix_total + k] != (uint8_t)fill) okd = 0;
        uint8_t* in = h_alloc(written); memcpy(in, o, written);
        carquet_byte_array_t* back = (carquet_byte_array_t*)h_alloc((size_t)n * sizeof *back);
        uint8_t* wb = h_alloc(total); size_t consumed = (size_t)-1;
        carquet_status_t s2 = strings ? carquet_delta_strings_decode(in, written, back, n, wb, total, &consumed)
                                      : carquet_delta_length_decode(in, written, back, n, &consumed);
        int ok = s2 == CARQUET_OK && consumed == written && same_strs(v, back, n);
        fprintf(h->out, " p_data=%d p_rt=%d", okd, ok);
        free(back); free(wb); free(in);
    }
    fputc('\n', h->out);
    h->n_lines++; st_enc++; st_big++; count_status((int)st); st_bytes += (long)written;
    carquet_buffer_destroy(&out);
    free_strs(v, n);
}

/* string list patterns: 0 random short, 1 empty strings mixed in, 2 sorted with shared prefixes,
 * 3 identical, 4 one long string among short ones, 5 growing, 6 all empty */
static carquet_byte_array_t* gen_strs(hctx* h, int pat, int n, int longlen) {
    carquet_byte_array_t* v = (carquet_byte_array_t*)h_alloc((size_t)n * sizeof *v);
    uint8_t base[64]; h_fill(h, base, 64, 0);
    for (int i = 0; i < n; i++) {
        size_t len;
        switch (pat) {
        case 0: len = (size_t)h_below(h, 12); break;
        case 1: len = h_chance(h, 1, 2) ? 0 : (size_t)h_below(h, 6); break;
        case 2: len = 4 + (size_t)h_below(h, 40); break;
        case 3: len = 9; break;
        case 4: len = (i == n / 2) ? (size_t)longlen : (size_t)h_below(h, 5); break;
        case 5: len = (size_t)i % 70; break;
        default: len = 0; break;
        }
        v[i].data = h_alloc(len); v[i].length = (int32_t)len;
        for (size_t k = 0; k < len; k++) {
            if (pat == 2) v[i].data[k] = (k < 30 && !h_chance(h, 1, 25)) ? base[k] : (uint8_t)h_below(h, 4);
            else if (pat == 3) v[i].data[k] = base[k];
            else if (pat == 5) v[i].data[k] = base[k % 64];
            else v[i].data[k] = (uint8_t)h_below(h, 3);
        }
    }
    return v;
}

/* a DELTA_LENGTH / DELTA_BYTE_ARRAY stream from explicit length lists written by gram_stream */
static void gram_bytes(hctx* h, int strings, const carquet_byte_array_t* v, int n, int wild, int shorten, bb* o) {
    int64_t* pre = (int64_t*)malloc(sizeof(int64_t) * (size_t)(n + 1)); int64_t* suf = (int64_t*)malloc(sizeof(int64_t) * (size_t)(n + 1));
    for (int i = 0; i < n; i++) {
        int p = 0;
        if (strings && i > 0) {
            while (p < v[i].length && p < v[i - 1].length && v[i].data[p] == v[i - 1].data[p]) p++;
            if (shorten && p > 0) p = (int)h_below(h, (uint64_t)p + 1);
        }
        pre[i] = p; suf[i] = v[i].length - p;
    }
    if (strings) gram_stream(h, o, pre, n, 32, 128, 4, wild);
    gram_stream(h, o, suf, n, 32, 128, 4, wild);
    for (int i = 0; i < n; i++) for (int k = (int)pre[i]; k < v[i].length; k++) bb_put(o, v[i].data[k]);
    free(pre); free(suf);
}

/* ---------------- generator ---------------- */
static void dec_variants(hctx* h, int W, const uint8_t* data, size_t size, int n, int gram, const int64_t* exp) {
    long ns[8]; int k = 0;
    ns[k++] = n; ns[k++] = n + 1; if (n > 0) ns[k++] = n - 1; ns[k++] = 0;
    if (n > 2) ns[k++] = 1 + (long)h_below(h, (uint64_t)n - 1);
    if (h_chance(h, 1, 6)) ns[k++] = -1;
    if (h_chance(h, 1, 6)) ns[k++] = n + 200;
    for (int i = 0; i < k; i++) do_dec(h, W, data, size, ns[i], gram, exp, n);
}
static void mutate_and_decode(hctx* h, int W, const uint8_t* data, size_t size, int n) {
    if (size == 0) return;
    uint8_t* m = h_alloc(size + 8);
    int reps = h->thorough ? 6 : 3;
    for (int r = 0; r < reps; r++) {
        memcpy(m, data, size); size_t ms = size;
        switch (h_below(h, 6)) {
        case 0: ms = (size_t)h_below(h, size); break;                                   /* truncate */
        case 1: m[h_below(h, size)] ^= (uint8_t)(1u << h_below(h, 8)); break;             /* bit flip */
        case 2: m[h_below(h, size)] = (uint8_t)h_next(h); break;                          /* byte smash */
        case 3: for (int k = 0; k < 8; k++) m[size + (size_t)k] = (uint8_t)h_next(h); ms = size + 1 + (size_t)h_below(h, 8); break; /* trailing */
        case 4: if (size > 10) m[5 + h_below(h, 5)] = h_chance(h, 1, 2) ? 65 : 255; break; /* width byte region */
        default: ms = size - 1; break;                                                    /* drop the last byte */
        }
        do_dec(h, W, m, ms, n, 0, NULL, 0); st_mut++;
    }
    free(m);
}

static void header_cases(hctx* h) {
    /* every guard of delta_decoder_init at its boundary; the body is a valid 128/4 block where it matters */
    static const uint64_t bsz[] = {0, 1, 3, 8, 32, 64, 100, 127, 128, 129, 256, 0x100000080ull, 0xFFFFFFFFFFFFFFFFull};
    static const uint64_t mbs[] = {0, 1, 2, 3, 4, 5, 8, 0x100000004ull};
    static const uint64_t tot[] = {0, 1, 2, 3, 0x7FFFFFFFull, 0x80000000ull, 0xFFFFFFFFull, 0x100000003ull};
    for (size_t a = 0; a < sizeof bsz / sizeof *bsz; a++) for (size_t b = 0; b < sizeof mbs / sizeof *mbs; b++) {
        for (size_t c = 0; c < sizeof tot / sizeof *tot; c++) {
            if (!h->thorough && c > 3 && !(bsz[a] == 128 && mbs[b] == 4)) continue;
            bb o = {0};
            bb_uleb(&o, bsz[a]); bb_uleb(&o, mbs[b]); bb_uleb(&o, tot[c]); bb_uleb(&o, zz64(-7));
            bb_uleb(&o, zz64(5));
            uint8_t w = (uint8_t)(a % 3 == 0 ? 8 : a % 3 == 1 ? 0 : 3);
            for (uint64_t j = 0; j < (mbs[b] > 8 ? 8 : mbs[b]); j++) bb_put(&o, w);
            /* exactly the bytes the declared first miniblock needs, so that any read past them is out of bounds */
            uint64_t vpm = mbs[b] && mbs[b] <= 8 && bsz[a] <= 256 ? bsz[a] / mbs[b] : 0;
            for (uint64_t j = 0; j < (vpm * w + 7) / 8; j++) bb_put(&o, (uint8_t)(j * 37 + 1));
            do_dec(h, a % 2 ? 32 : 64, o.p, o.n, 3, 0, NULL, 0);
            free(o.p);
        }
    }
    /* truncated varints, 10- and 11-byte varints */
    for (int len = 0; len <= 12; len++) {
        uint8_t* d = h_alloc((size_t)len + 8);
        for (int i = 0; i < len; i++) d[i] = 0x80;
        do_dec(h, 64, d, (size_t)len, 1, 0, NULL, 0);
        if (len > 0) { d[len - 1] = 0x01; d[len] = 4; d[len + 1] = 1; d[len + 2] = 2; do_dec(h, 64, d, (size_t)len + 3, 1, 0, NULL, 0); }
        free(d);
    }
    /* width bytes of a needed miniblock: 0..70, 255 */
    for (int w = 0; w <= 72; w++) {
        int ww = w == 71 ? 255 : w == 72 ? 128 : w;
        bb o = {0};
        bb_uleb(&o, 128); bb_uleb(&o, 4); bb_uleb(&o, 34); bb_uleb(&o, zz64(1));
        bb_uleb(&o, zz64(-3)); bb_put(&o, (uint8_t)ww); bb_put(&o, 1); bb_put(&o, (uint8_t)(h_next(h))); bb_put(&o, 200);
        size_t need = ww <= 64 ? (size_t)(32 * ww / 8) : (size_t)(32 * ((ww + 7) / 8));
        for (size_t j = 0; j < need + 4; j++) bb_put(&o, (uint8_t)h_next(h));
        do_dec(h, 64, o.p, o.n, 34, 0, NULL, 0);
        do_dec(h, 32, o.p, o.n, 33, 0, NULL, 0);
        do_dec(h, 64, o.p, need + 9 + (ww == 0 ? 0 : 0), 33, 0, NULL, 0);   /* ends right after the first miniblock */
        if (o.n > 10) do_dec(h, 64, o.p, need + 8, 33, 0, NULL, 0);           /* one byte short */
        free(o.p);
    }
}

static void gen_delta(hctx* h) {
    static const int lens_q[] = {0, 1, 2, 3, 31, 32, 33, 34, 64, 65, 66, 97, 127, 128, 129, 130, 131, 256, 257, 258, 385, 513};
    int maxn = h->thorough ? 2600 : 600;
    int64_t* v = (int64_t*)h_alloc(sizeof(int64_t) * (size_t)(maxn + 2));
    /* 1. encoders: boundary lengths x patterns x both widths, ample capacity; decode what they wrote */
    int nl = (int)(sizeof lens_q / sizeof *lens_q);
    for (int W = 32; W <= 64; W += 32) for (int li = 0; li < nl + (h->thorough ? 320 : 40); li++) {
        int n = li < nl ? lens_q[li] : (int)h_below(h, (uint64_t)maxn);
        if (li >= nl && h_chance(h, 1, 3)) n = 1 + 128 * (int)h_below(h, (uint64_t)(maxn / 128)) + (int)h_below(h, 3) - 1;
        if (n < 0) n = 0;
        for (int pat = 0; pat < NPAT; pat++) {
            if (li >= nl && !h_chance(h, 1, 4)) continue;
            gen_vals(h, W, pat, v, n);
            do_enc(h, W, v, n, 64 + (size_t)n * 10 + 1100);
            if (n <= 300 || h_chance(h, 1, 4)) {
                uint8_t* keep; size_t kn = enc_keep(W, v, n, &keep);
                if (kn) {
                    if (n <= 130 || h_chance(h, 1, 3)) dec_variants(h, W, keep, kn, n, 0, NULL);
                    if (n <= 130) mutate_and_decode(h, W, keep, kn, n);
                }
                free(keep);
            }
        }
    }
    /* 2. capacity guards: 39/40 and every capacity around the exact need of small inputs */
    for (int W = 32; W <= 64; W += 32) for (int t = 0; t < (h->thorough ? 60 : 16); t++) {
        int n = t < 4 ? t : 1 + (int)h_below(h, 140);
        gen_vals(h, W, (int)h_below(h, NPAT), v, n);
        uint8_t* keep; size_t kn = enc_keep(W, v, n, &keep); free(keep);
        do_enc(h, W, v, n, 0); do_enc(h, W, v, n, 39); do_enc(h, W, v, n, 40);
        for (size_t cap = kn > 3 ? kn - 3 : 0; cap <= kn + 12; cap++) do_enc(h, W, v, n, cap);
    }
    /* 3. decoders on the independent writer's streams: 128/4 with every liberty, then other geometries */
    static const int geos[][2] = {{128, 4}, {128, 4}, {128, 4}, {128, 2}, {128, 1}, {256, 8}, {256, 4}, {256, 2}, {384, 4}, {384, 12}, {512, 16}, {1024, 32}};
    for (int t = 0; t < (h->thorough ? 1500 : 260); t++) {
        int W = h_chance(h, 1, 2) ? 32 : 64;
        int gi = (int)h_below(h, sizeof geos / sizeof *geos);
        int n = h_chance(h, 1, 4) ? lens_q[h_below(h, (uint64_t)nl)] : (int)h_below(h, 420);
        gen_vals(h, W, (int)h_below(h, NPAT), v, n);
        bb o = {0};
        gram_stream(h, &o, v, n, W, geos[gi][0], geos[gi][1], (int)h_below(h, 16));
        if (geos[gi][0] == 128 && geos[gi][1] == 4) { st_gram++; dec_variants(h, W, o.p, o.n, n, 1, v); if (n < 140) mutate_and_decode(h, W, o.p, o.n, n); }
        else { st_gram_other++; do_dec(h, W, o.p, o.n, n, 1, v, n); if (n > 1) do_dec(h, W, o.p, o.n, 1, 1, v, n); }
        free(o.p);
    }
    /* 4. header and width-byte boundaries, random bytes */
    header_cases(h);
    for (int t = 0; t < (h->thorough ? 3000 : 400); t++) {
        size_t n = (size_t)h_below(h, 60);
        uint8_t* d = h_alloc(n + 4); h_fill(h, d, n, (int)h_below(h, 5));
        if (n >= 3 && h_chance(h, 2, 3)) { d[0] = 0x80; d[1] = 1; d[2] = 4; if (n >= 4) d[3] &= 0x3f; }   /* plausible header */
        do_dec(h, h_chance(h, 1, 2) ? 32 : 64, d, n, (long)h_below(h, 40), 0, NULL, 0); st_rand++;
        free(d);
    }
    /* 5. byte arrays */
    static const int slens[] = {1, 2, 3, 4, 5, 6, 31, 32, 33, 34, 129, 130, 200};
    for (int strings = 0; strings <= 1; strings++) for (size_t li = 0; li < sizeof slens / sizeof *slens; li++) for (int pat = 0; pat < 7; pat++) {
        int n = slens[li];
        int longlen = (pat == 4) ? (li % 3 == 0 ? 70000 : li % 3 == 1 ? 300 : 5000) : 0;
        if (!h->thorough && longlen == 70000 && li > 3) longlen = 1000;
        carquet_byte_array_t* s = gen_strs(h, pat, n, longlen);
        uint8_t* keep = NULL; size_t kn = 0; size_t total = 0;
        for (int i = 0; i < n; i++) total += (size_t)s[i].length;
        do_bytes_enc(h, strings, s, n, &keep, &kn);
        if (keep && total < 6000) {
            if (strings) {
                do_ds_dec(h, keep, kn, n, total, 0); do_ds_dec(h, keep, kn, n, total + 5, 0);
                if (total) { do_ds_dec(h, keep, kn, n, total - 1, 0); do_ds_dec(h, keep, kn, n, 0, 0); }
                do_ds_dec(h, keep, kn, n + 1, total, 0); do_ds_dec(h, keep, kn, 0, total, 0); do_ds_dec(h, keep, kn, -3, total, 0);
                if (n > 1) do_ds_dec(h, keep, kn, n - 1, total, 0);
                if (kn) { do_ds_dec(h, keep, kn - 1, n, total, 0); do_ds_dec(h, keep, (size_t)h_below(h, kn), n, total, 0); }
            } else {
                do_dl_dec(h, keep, kn, n, 0); do_dl_dec(h, keep, kn, n + 1, 0); do_dl_dec(h, keep, kn, 0, 0); do_dl_dec(h, keep, kn, -1, 0);
                if (n > 1) do_dl_dec(h, keep, kn, n - 1, 0);
                if (kn) { do_dl_dec(h, keep, kn - 1, n, 0); do_dl_dec(h, keep, (size_t)h_below(h, kn), n, 0); }
            }
            /* a few mutations */
            for (int r = 0; r < 3 && kn; r++) {
                uint8_t* m = h_alloc(kn); memcpy(m, keep, kn); m[h_below(h, kn < 24 ? kn : 24)] ^= (uint8_t)(1u << h_below(h, 8));
                if (strings) do_ds_dec(h, m, kn, n, total, 0); else do_dl_dec(h, m, kn, n, 0);
                free(m); st_mut++;
            }
        }
        free(keep);
        /* the same values through the independent writer (prefixes optionally shorter than the shared one) */
        if (total < 6000) {
            bb o = {0}; gram_bytes(h, strings, s, n, (int)h_below(h, 16), pat % 2, &o);
            if (strings) do_ds_dec(h, o.p, o.n, n, total, 1); else do_dl_dec(h, o.p, o.n, n, 1);
            free(o.p); st_gram++;
        }
        free_strs(s, n);
    }
    /* negative lengths, prefix longer than the previous value, prefix on the first value, huge prefix */
    {
        int64_t neg[3] = {2, -1, 3}; int64_t pos3[3] = {2, 1, 3}; int64_t pre_bad[3] = {0, 3, 1}; int64_t pre_first[3] = {1, 0, 0};
        int64_t pre_huge[3] = {0, INT32_MAX, 0}; int64_t pre_ok[3] = {0, 2, 1};
        const int64_t* pres[] = {pre_ok, pre_bad, pre_first, pre_huge, neg};
        bb o = {0}; gram_stream(h, &o, neg, 3, 32, 128, 4, 0); for (int i = 0; i < 8; i++) bb_put(&o, (uint8_t)i);
        do_dl_dec(h, o.p, o.n, 3, 0); do_dl_dec(h, o.p, o.n, 1, 0); free(o.p);
        for (int k = 0; k < 5; k++) {
            bb q = {0}; gram_stream(h, &q, pres[k], 3, 32, 128, 4, 0); gram_stream(h, &q, pos3, 3, 32, 128, 4, 0);
            for (int i = 0; i < 6; i++) bb_put(&q, (uint8_t)(i + 1));
            do_ds_dec(h, q.p, q.n, 3, 64, 0); do_ds_dec(h, q.p, q.n, 3, 8, 0); do_ds_dec(h, q.p, q.n, 3, 7, 0);
            free(q.p);
        }
        bb q = {0}; gram_stream(h, &q, pos3, 3, 32, 128, 4, 0); gram_stream(h, &q, neg, 3, 32, 128, 4, 0);
        for (int i = 0; i < 6; i++) bb_put(&q, 9);
        do_ds_dec(h, q.p, q.n, 3, 64, 0); free(q.p);
        /* zero values */
        carquet_byte_array_t none; none.data = h_alloc(0); none.length = 0;
        do_bytes_enc(h, 0, &none, 0, NULL, NULL); do_bytes_enc(h, 1, &none, 0, NULL, NULL); free(none.data);
    }
    /* 6. long values (given by their lengths): length jumps >= 2^27 among 3..5 values are what the length
     * streams need most room for per value (F61); n = 2, 6 and 130 around them */
    {
        const int64_t B = (int64_t)1 << 27;
        int64_t c0[3] = {0, B, 0}, c1[3] = {B, 0, 0}, c2[4] = {0, B + 3, 0, 7}, c3[5] = {1, 0, B, 0, 2}, c4[2] = {0, B}, c5[6] = {0, B, 0, 0, 0, 0};
        do_bytes_big(h, 0, c0, 3, 0); do_bytes_big(h, 1, c1, 3, 0xab);
        if (h->thorough) {
            int64_t c6[3] = {0, B * 2, 0}; int64_t c7[130]; for (int i = 0; i < 130; i++) c7[i] = (i == 64) ? B : (i % 3);
            do_bytes_big(h, 1, c0, 3, 1); do_bytes_big(h, 0, c1, 3, 2);
            do_bytes_big(h, 0, c2, 4, 3); do_bytes_big(h, 1, c2, 4, 4); do_bytes_big(h, 0, c3, 5, 5); do_bytes_big(h, 1, c3, 5, 6);
            do_bytes_big(h, 0, c4, 2, 7); do_bytes_big(h, 1, c5, 6, 8); do_bytes_big(h, 0, c6, 3, 9); do_bytes_big(h, 1, c7, 130, 10);
        }
        /* small instances of the same op (cheap): every list length around the block boundaries */
        static const int bl[] = {1, 2, 3, 5, 6, 127, 128, 129, 130, 256, 257, 258};
        for (size_t k = 0; k < sizeof bl / sizeof *bl; k++) for (int strings = 0; strings <= 1; strings++) {
            int64_t* ls = (int64_t*)h_alloc(sizeof(int64_t) * (size_t)bl[k]);
            for (int i = 0; i < bl[k]; i++) ls[i] = h_chance(h, 1, 3) ? 0 : (int64_t)h_below(h, 3000);
            do_bytes_big(h, strings, ls, bl[k], (int)h_below(h, 256)); free(ls);
        }
    }
    free(v);
    fprintf(h->out, "#stat long_value_ops %ld\n", st_big);
    fprintf(h->out, "#stat enc_ops %ld\n#stat dec_ops %ld\n#stat error_results %ld\n#stat wide_miniblock_inputs %ld\n", st_enc, st_dec, st_err, st_wide);
    fprintf(h->out, "#stat writer_streams_128_4 %ld\n#stat writer_streams_other_geometry %ld\n#stat mutated %ld\n#stat random %ld\n", st_gram, st_gram_other, st_mut, st_rand);
    fprintf(h->out, "#stat encoded_bytes %ld\n#stat max_values %ld\n", st_bytes, st_maxn);
    for (int i = 0; i < 80; i++) if (st_status[i]) fprintf(h->out, "#stat status_%d %ld\n", i, st_status[i]);
}

/* ---------------- replay ---------------- */
static carquet_byte_array_t* parse_strs(const char* v, int* n) {
    *n = 0;
    if (!v || !strcmp(v, "-")) return (carquet_byte_array_t*)h_alloc(0);
    int cnt = 1; for (const char* c = v; *c; c++) if (*c == ',') cnt++;
    carquet_byte_array_t* a = (carquet_byte_array_t*)h_alloc((size_t)cnt * sizeof *a);
    char* dup = strdup(v); char* save = NULL; int i = 0;
    /* strtok would skip nothing here: every item starts with 'x' */
    for (char* t = strtok_r(dup, ",", &save); t && i < cnt; t = strtok_r(NULL, ",", &save), i++) {
        size_t len; a[i].data = h_unhex(t, &len); a[i].length = (int32_t)len;
    }
    free(dup); *n = i;
    return a;
}
static int replay_delta(hctx* h, const h_line* l) {
    int W = 0;
    if (!strcmp(l->op, "dbp_enc32") || !strcmp(l->op, "dbp_dec32")) W = 32;
    if (!strcmp(l->op, "dbp_enc64") || !strcmp(l->op, "dbp_dec64")) W = 64;
    if (W && l->op[4] == 'e') {
        size_t n; int64_t* v = h_list(h_in(l, "vals"), &n);
        do_enc(h, W, v, (int)n, (size_t)h_ll(h_in(l, "cap"))); free(v); return 1;
    }
    if (W) {
        size_t n; uint8_t* d = h_unhex(h_in(l, "data"), &n);
        size_t ne = 0; int64_t* e = h_in(l, "exp") ? h_list(h_in(l, "exp"), &ne) : NULL;
        do_dec(h, W, d, n, (long)h_ll(h_in(l, "n")), h_in(l, "gram") != NULL, e, (long)ne); free(d); free(e); return 1;
    }
    if (!strcmp(l->op, "dl_enc") || !strcmp(l->op, "ds_enc")) {
        int n; carquet_byte_array_t* s = parse_strs(h_in(l, "vals"), &n);
        do_bytes_enc(h, l->op[1] == 's', s, n, NULL, NULL); free_strs(s, n); return 1;
    }
    if (!strcmp(l->op, "dl_big") || !strcmp(l->op, "ds_big")) {
        size_t n; int64_t* lens = h_list(h_in(l, "lens"), &n);
        do_bytes_big(h, l->op[1] == 's', lens, (int)n, (int)h_ll(h_in(l, "fill"))); free(lens); return 1;
    }
    if (!strcmp(l->op, "dl_dec")) {
        size_t n; uint8_t* d = h_unhex(h_in(l, "data"), &n);
        do_dl_dec(h, d, n, (long)h_ll(h_in(l, "n")), h_in(l, "gram") != NULL); free(d); return 1;
    }
    if (!strcmp(l->op, "ds_dec")) {
        size_t n; uint8_t* d = h_unhex(h_in(l, "data"), &n);
        do_ds_dec(h, d, n, (long)h_ll(h_in(l, "n")), (size_t)h_ll(h_in(l, "work")), h_in(l, "gram") != NULL); free(d); return 1;
    }
    return 0;
}

const h_component comp_delta = { "delta", gen_delta, replay_delta };
