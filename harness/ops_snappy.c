/* C09 / C10 / C08 (Snappy part): carquet_snappy_compress / _decompress / _compress_bound on
 * exact-size heap buffers.
 *
 *   snappy_comp src=x.. cap=N            | st=<status> out=x.. p_rt=0/1
 *       dst has exactly cap bytes.  p_rt: (only when st=0) the real decompressor, given exactly
 *       the produced bytes and a buffer of exactly len(src) bytes, returns src.
 *   snappy_dec src=x.. cap=N [want=x..]  | st=<status> out=x.. [p_want=0/1]
 *       src and dst are exact-size.  `want` is present for streams built by the grammar
 *       generator below (the bytes they encode by construction).
 *
 * Two components: snappyc (compress + round trip), snappyd (decompressor on grammar-generated
 * valid streams in every tag form, mutations, truncations, small exhaustive scopes, raw bytes).
 */
#include "common.h"

int carquet_snappy_compress(const uint8_t* src, size_t src_size, uint8_t* dst, size_t dst_capacity,
                            size_t* dst_size);
int carquet_snappy_decompress(const uint8_t* src, size_t src_size, uint8_t* dst, size_t dst_capacity,
                              size_t* dst_size);
size_t carquet_snappy_compress_bound(size_t src_size);

/* ---------------------------------------------------------------- statistics */
static long st_comp, st_comp_ok, st_comp_refused, st_dec, st_dec_ok, st_dec_err, st_valid, st_mut,
    st_trunc, st_rand, st_exh, st_big, st_lit_tag, st_lit_ext[5], st_c1, st_c2, st_c4, st_overlap,
    st_trailing, st_own;

/* ---------------------------------------------------------------- growable buffer */
typedef struct { uint8_t* b; size_t n, cap; } gbuf;
static void g_init(gbuf* g) { g->b = NULL; g->n = g->cap = 0; }
static void g_put(gbuf* g, uint8_t v) {
    if (g->n == g->cap) { g->cap = g->cap ? g->cap * 2 : 64; g->b = (uint8_t*)realloc(g->b, g->cap); }
    g->b[g->n++] = v;
}
static void g_free(gbuf* g) { free(g->b); g_init(g); }

/* ---------------------------------------------------------------- the two operations */
static void do_comp(hctx* h, const uint8_t* x, size_t n, size_t cap) {
    uint8_t* src = h_alloc(n); memcpy(src, x, n);
    uint8_t* dst = h_alloc(cap);
    fprintf(h->out, "snappy_comp src="); h_hex(h->out, src, n);
    fprintf(h->out, " cap=%zu", cap); h_call(h);
    size_t dn = (size_t)-1;
    int st = carquet_snappy_compress(src, n, dst, cap, &dn);
    int rt = 0;
    if (st == 0 && dn <= cap) {
        uint8_t* c = h_alloc(dn); memcpy(c, dst, dn);
        uint8_t* back = h_alloc(n);
        size_t bn = (size_t)-1;
        int st2 = carquet_snappy_decompress(c, dn, back, n, &bn);
        rt = (st2 == 0 && bn == n && memcmp(back, src, n) == 0);
        free(c); free(back);
    }
    fprintf(h->out, " | st=%d out=", st);
    if (st == 0 && dn <= cap) h_hex(h->out, dst, dn); else fputc('x', h->out);
    if (st == 0) fprintf(h->out, " n=%zu p_rt=%d", dn, rt);
    if (n == 0) fprintf(h->out, " triv=1");
    fputc('\n', h->out);
    st_comp++; if (st == 0) st_comp_ok++; else st_comp_refused++;
    if (n > 65536) st_big++;
    h->n_lines++;
    free(src); free(dst);
}

/* Inputs of several MiB (the length preamble needs 4 varint bytes from 2 MiB on, 5 from 256 MiB): judged on the C side only -
 * the round trip through the real decompressor, and the preamble decoded by hand must announce n.  The input is a function of
 * (n, kind) so that the line stays short: kind 0 zeros, 1 a 251-byte period, 2 xorshift bytes (incompressible). */
static void do_comp_big(hctx* h, size_t n, int kind) {
    fprintf(h->out, "snappy_big n=%zu kind=%d", n, kind); h_call(h);
    uint8_t* src = h_alloc(n);
    uint64_t x = 0x9E3779B97F4A7C15ull ^ (uint64_t)n;
    for (size_t i = 0; i < n; i++) { if (kind == 2) { x ^= x << 13; x ^= x >> 7; x ^= x << 17; } src[i] = kind == 0 ? 0 : kind == 1 ? (uint8_t)(i % 251) : (uint8_t)x; }
    size_t cap = carquet_snappy_compress_bound(n); uint8_t* dst = h_alloc(cap); size_t dn = (size_t)-1;
    int st = carquet_snappy_compress(src, n, dst, cap, &dn);
    int rt = 0, hdr = 0;
    if (st == 0 && dn <= cap) {
        uint64_t v = 0; int sh = 0; size_t q = 0;
        while (q < dn && q < 10) { v |= (uint64_t)(dst[q] & 0x7F) << sh; sh += 7; if (!(dst[q++] & 0x80)) break; }
        hdr = v == (uint64_t)n;
        uint8_t* c = h_alloc(dn); memcpy(c, dst, dn);
        uint8_t* back = h_alloc(n); size_t bn = (size_t)-1;
        int st2 = carquet_snappy_decompress(c, dn, back, n, &bn);
        rt = (st2 == 0 && bn == n && memcmp(back, src, n) == 0);
        free(c); free(back);
    }
    fprintf(h->out, " | st=%d n=%zu p_rt=%d p_preamble=%d\n", st, dn, rt, hdr);
    st_comp++; if (st == 0) st_comp_ok++; else st_comp_refused++; st_big++;
    h->n_lines++;
    free(src); free(dst);
}

static void do_dec(hctx* h, const uint8_t* s, size_t n, size_t cap, const uint8_t* want, size_t wn) {
    uint8_t* src = h_alloc(n); memcpy(src, s, n);
    uint8_t* dst = h_alloc(cap);
    fprintf(h->out, "snappy_dec src="); h_hex(h->out, src, n);
    fprintf(h->out, " cap=%zu", cap);
    if (want) { fprintf(h->out, " want="); h_hex(h->out, want, wn); }
    h_call(h);
    size_t dn = (size_t)-1;
    int st = carquet_snappy_decompress(src, n, dst, cap, &dn);
    fprintf(h->out, " | st=%d out=", st);
    if (st == 0 && dn <= cap) h_hex(h->out, dst, dn); else fputc('x', h->out);
    if (st == 0) fprintf(h->out, " n=%zu", dn);
    if (want) fprintf(h->out, " p_want=%d", (cap >= wn) ? (st == 0 && dn == wn && memcmp(dst, want, wn) == 0)
                                                          : (st != 0));
    fputc('\n', h->out);
    st_dec++; if (st == 0) st_dec_ok++; else st_dec_err++;
    h->n_lines++;
    free(src); free(dst);
}

/* ---------------------------------------------------------------- input generators for compress */
/* kinds: 0 random, 1 zeros, 2 0xff, 3 short period, 4 ramp (h_fill), 5 text-like (small alphabet,
 * repeated words), 6 random with blocks repeated at chosen distances, 7 period 65536+k (aliases in
 * the uint16 table), 8 two-symbol random */
static void fill_input(hctx* h, uint8_t* p, size_t n, int kind) {
    if (kind <= 4) { h_fill(h, p, n, kind); return; }
    if (kind == 5) {
        static const char* w[] = { "parquet", "column", "page", "snappy", "row", "group", "0", "1", "  ", "\n" };
        size_t i = 0;
        while (i < n) { const char* s = w[h_below(h, 10)]; for (; *s && i < n; s++) p[i++] = (uint8_t)*s; }
        return;
    }
    if (kind == 6) {
        for (size_t i = 0; i < n; i++) p[i] = (uint8_t)h_next(h);
        size_t reps = 1 + n / 64;
        for (size_t r = 0; r < reps && n > 8; r++) {
            static const size_t ds[] = { 1, 2, 3, 4, 5, 7, 8, 16, 60, 255, 256, 2047, 2048, 2049, 4096,
                                         32767, 32768, 32769, 40000, 65535, 65536, 65537, 70000 };
            size_t d = ds[h_below(h, sizeof ds / sizeof ds[0])];
            if (d >= n) d = 1 + (size_t)h_below(h, n - 1);
            size_t len = 4 + (size_t)h_below(h, 80);
            if (h_chance(h, 1, 8)) len = 60 + (size_t)h_below(h, 16);
            size_t at = d + (size_t)h_below(h, n - d);
            for (size_t i = 0; i < len && at + i < n; i++) p[at + i] = p[at + i - d];
        }
        return;
    }
    if (kind == 7) {
        size_t per = 65536 + (size_t)h_below(h, 64) - 32;
        for (size_t i = 0; i < n; i++) p[i] = i < per ? (uint8_t)h_next(h) : p[i - per];
        /* sprinkle near repeats so that real and aliased candidates compete */
        for (size_t i = 100; i + 8 < n; i += 997) memcpy(p + i, p + i - 50, 8);
        return;
    }
    for (size_t i = 0; i < n; i++) p[i] = (h_next(h) & 1) ? 'a' : 'b';
}

static void comp_case(hctx* h, size_t n, int kind, int caps) {
    uint8_t* x = h_alloc(n);
    fill_input(h, x, n, kind);
    size_t bound = carquet_snappy_compress_bound(n);
    do_comp(h, x, n, bound);
    if (caps) {
        do_comp(h, x, n, bound - 1);
        do_comp(h, x, n, n < 4 ? 0 : n / 2);
        if (caps > 1) { do_comp(h, x, n, bound + 1 + (size_t)h_below(h, 9)); do_comp(h, x, n, (size_t)h_below(h, 4)); }
    }
    free(x);
}

static void gen_comp(hctx* h) {
    /* empty and every length 0..80 (covers <15 literal-only, the 15 boundary, 60/61/64/68) */
    for (size_t n = 0; n <= 80; n++)
        for (int k = 0; k < 9; k++) {
            if (k == 7) continue;
            comp_case(h, n, k, (k == 0 && n <= 20) ? 2 : (k == 3 ? 1 : 0));
        }
    static const size_t edges[] = { 255, 256, 257, 258, 300, 1000, 2047, 2048, 2049, 4096, 10000 };
    for (size_t i = 0; i < sizeof edges / sizeof edges[0]; i++)
        for (int k = 0; k < 9; k++) { if (k != 7) comp_case(h, edges[i], k, k == 0); }
    /* literal-header boundaries need incompressible inputs of 65535..65537+ */
    static const size_t big[] = { 65535, 65536, 65537, 65551, 65552, 70000 };
    for (size_t i = 0; i < sizeof big / sizeof big[0]; i++) {
        comp_case(h, big[i], 0, 0);
        if (i % 2 == 0 || h->thorough) { comp_case(h, big[i], 1, 0); comp_case(h, big[i], 6, 0); }
    }
    /* > 64 KiB with repeats at distances that alias in the uint16 table */
    comp_case(h, 66000 + (size_t)h_below(h, 3000), 7, 0);
    comp_case(h, 98304 + (size_t)h_below(h, 3000), 7, 0);
    comp_case(h, 100000, 5, 0);
    comp_case(h, 132000, 6, 1);
    /* length preambles of 4 varint bytes: around 2^21, and sizes whose bit 21 is clear / set */
    { static const size_t bn[] = { (1u << 21) - 1, 1u << 21, (1u << 21) + 1, (1u << 22) + 5, 5u << 20, (3u << 21) + 77, (1u << 23) + 9 };
      for (unsigned i = 0; i < sizeof bn / sizeof bn[0]; i++) do_comp_big(h, bn[i], (int)(i % 2));
      do_comp_big(h, (1u << 22) + 4097, 2);
      do_comp_big(h, (17u << 20) + 5, 2);      /* incompressible and above 2^24 bytes: one literal whose length needs four bytes */
      if (h->thorough) { do_comp_big(h, (1u << 28) - 1, 0); do_comp_big(h, (1u << 28) + 3, 1); } }
    long m = h->thorough ? 6000 : 500;
    for (long i = 0; i < m; i++) {
        size_t n = (size_t)h_below(h, h_chance(h, 1, 6) ? 5000 : 400);
        int k = (int)h_below(h, 9); if (k == 7) k = 6;
        comp_case(h, n, k, h_chance(h, 1, 10));
    }
    if (h->thorough) {
        static const size_t huge[] = { 131071, 131072, 150000, 200000, 204800 };
        for (size_t i = 0; i < sizeof huge / sizeof huge[0]; i++)
            for (int k = 0; k < 9; k++) { if (k != 2 && k != 4) comp_case(h, huge[i], k, 0); }
        for (int i = 0; i < 12; i++) comp_case(h, 65000 + (size_t)h_below(h, 140000), 6 + (i & 1), 0);
        comp_case(h, 1 << 20, 1, 0);   /* one copy of ~1 MiB: 16 k COPY_2 elements */
    }
    fprintf(h->out, "#stat comp %ld\n#stat comp_ok %ld\n#stat comp_refused %ld\n#stat comp_gt64k %ld\n",
            st_comp, st_comp_ok, st_comp_refused, st_big);
}

/* ---------------------------------------------------------------- grammar generator (valid streams) */
static void put_varint(gbuf* s, uint32_t v, int pad_to) {
    /* minimal form, or padded with continuation bytes to exactly pad_to (≤ 5) bytes */
    int nb = 1; for (uint32_t t = v; t >= 128; t >>= 7) nb++;
    if (pad_to < nb) pad_to = nb;
    for (int i = 0; i < pad_to; i++) {
        uint8_t b = (uint8_t)(v & 0x7f); v >>= 7;
        g_put(s, (uint8_t)(i + 1 < pad_to ? (b | 0x80) : b));
    }
}
static void emit_literal(hctx* h, gbuf* s, gbuf* out, size_t len, int extk) {
    /* extk = 0: length in the tag (len ≤ 60); 1..4: that many length bytes */
    if (extk == 0) { g_put(s, (uint8_t)((len - 1) << 2)); st_lit_tag++; }
    else {
        g_put(s, (uint8_t)((59 + extk) << 2));
        for (int i = 0; i < extk; i++) g_put(s, (uint8_t)(((len - 1) >> (8 * i)) & 0xff));
        st_lit_ext[extk]++;
    }
    int kind = (int)h_below(h, 3);
    for (size_t i = 0; i < len; i++) {
        uint8_t v = kind == 0 ? (uint8_t)h_next(h) : kind == 1 ? (uint8_t)('a' + i % 3) : (uint8_t)0;
        g_put(s, v); g_put(out, v);
    }
}
static void emit_copy(gbuf* s, gbuf* out, size_t off, size_t len, int form) {
    if (form == 1) { g_put(s, (uint8_t)(((off >> 8) << 5) | ((len - 4) << 2) | 1)); g_put(s, (uint8_t)off); st_c1++; }
    else if (form == 2) { g_put(s, (uint8_t)(((len - 1) << 2) | 2)); g_put(s, (uint8_t)off); g_put(s, (uint8_t)(off >> 8)); st_c2++; }
    else { g_put(s, (uint8_t)(((len - 1) << 2) | 3)); for (int i = 0; i < 4; i++) g_put(s, (uint8_t)(off >> (8 * i))); st_c4++; }
    if (off < len) st_overlap++;
    for (size_t i = 0; i < len; i++) g_put(out, out->b[out->n - off]);
}
/* body of a valid stream producing about `target` bytes; biglit: allow literals > 256 */
static void gen_body(hctx* h, gbuf* s, gbuf* out, size_t target, int biglit) {
    while (out->n < target) {
        if (out->n == 0 || h_chance(h, 2, 5)) {
            static const size_t ls[] = { 1, 2, 59, 60, 61, 62, 64, 255, 256, 257 };
            size_t len = h_chance(h, 1, 4) ? ls[h_below(h, 10)] : 1 + (size_t)h_below(h, 12);
            if (biglit && h_chance(h, 1, 6)) {
                static const size_t bl[] = { 1000, 65535, 65536, 65537, 66000 };
                len = bl[h_below(h, 5)];
            }
            int mink = len <= 60 ? 0 : len <= 256 ? 1 : len <= 65536 ? 2 : 3;
            int k = mink;
            if (h_chance(h, 1, 3)) k = mink + (int)h_below(h, (uint64_t)(5 - mink));   /* non-minimal forms */
            emit_literal(h, s, out, len, k);
        } else {
            size_t off = h_chance(h, 1, 2) ? 1 + (size_t)h_below(h, 8) : 1 + (size_t)h_below(h, out->n);
            if (h_chance(h, 1, 8)) off = out->n;                                    /* offset = everything so far */
            if (off > out->n) off = out->n;
            int form = 1 + (int)h_below(h, 3);
            if (form == 1 && off >= 2048) form = 2;
            if (form == 2 && off >= 65536) form = 3;
            size_t len = form == 1 ? 4 + (size_t)h_below(h, 8) : 1 + (size_t)h_below(h, 64);
            if (form != 1 && h_chance(h, 1, 4)) len = h_chance(h, 1, 2) ? 64 : 1;
            emit_copy(s, out, off, len, form);
        }
    }
}
static void gen_valid(hctx* h, gbuf* s, gbuf* out, size_t target, int biglit) {
    gbuf body; g_init(&body); g_init(out); g_init(s);
    gen_body(h, &body, out, target, biglit);
    put_varint(s, (uint32_t)out->n, h_chance(h, 1, 5) ? 1 + (int)h_below(h, 5) : 0);
    for (size_t i = 0; i < body.n; i++) g_put(s, body.b[i]);
    g_free(&body);
}

/* declared length of a stream as carquet would read it when it fits (-1: none) */
static long long declared_of(const uint8_t* s, size_t n) {
    uint64_t v = 0; int shift = 0;
    for (size_t i = 0; i < n && i < 5; i++) {
        v |= (uint64_t)(s[i] & 0x7f) << shift;
        if (!(s[i] & 0x80)) return (long long)v;
        shift += 7;
    }
    return -1;
}

static void mutate_and_run(hctx* h, const gbuf* s, size_t wn) {
    gbuf m; g_init(&m);
    for (size_t i = 0; i < s->n; i++) g_put(&m, s->b[i]);
    int kind = (int)h_below(h, 8);
    size_t cap = wn;
    switch (kind) {
    case 0: if (m.n) m.b[h_below(h, m.n)] ^= (uint8_t)(1u << h_below(h, 8)); break;
    case 1: if (m.n) m.b[h_below(h, m.n)] = (uint8_t)h_next(h); break;
    case 2: m.n = (size_t)h_below(h, m.n + 1); break;                                   /* truncate */
    case 3: { size_t k = 1 + (size_t)h_below(h, 4); while (k--) g_put(&m, (uint8_t)h_next(h)); st_trailing++; break; }
    case 4: if (m.n > 1) { size_t at = (size_t)h_below(h, m.n); memmove(m.b + at, m.b + at + 1, m.n - at - 1); m.n--; } break;
    case 5: if (m.n) { size_t at = (size_t)h_below(h, m.n); g_put(&m, 0); memmove(m.b + at + 1, m.b + at, m.n - 1 - at); m.b[at] = (uint8_t)h_next(h); } break;
    case 6: if (m.n) { m.b[0] = (uint8_t)(m.b[0] + (h_chance(h, 1, 2) ? 1 : -1)); } break;  /* declared length ±1 */
    default: { /* a valid trailing element after a complete stream */
        g_put(&m, 0x00); g_put(&m, (uint8_t)h_next(h)); st_trailing++; break; }
    }
    long long d = declared_of(m.b, m.n);
    if (h_chance(h, 1, 2) && d >= 0 && d <= 300000) cap = (size_t)d;   /* the caller trusts the preamble */
    do_dec(h, m.b, m.n, cap, NULL, 0);
    st_mut++;
    g_free(&m);
}

static void directed(hctx* h) {
    /* one line per guard of the decompressor; the F25/F25b witnesses come first, the F6 ones last
     * (on an unrepaired tree the first over-read ends the run) */
    static const struct { uint8_t b[16]; size_t n; size_t cap; } c[] = {
        {{0x00}, 1, 0}, {{0x00}, 1, 5},                                   /* empty block */
        {{0x00, 0xaa}, 2, 0}, {{0x00, 0x00, 0x41}, 3, 0},                 /* F25: bytes after a complete (empty) output */
        {{0x01, 0x00, 0x41, 0x00, 0x42}, 5, 1},                           /* F25: a second literal after the output is full */
        {{0x01, 0x00, 0x41, 0xff}, 4, 1},                                 /* F25: garbage byte after the output is full */
        {{0x80, 0x80, 0x80, 0x80, 0x10}, 5, 0},                           /* F25b: preamble 2^32 read as 0 */
        {{0x81, 0x80, 0x80, 0x80, 0x10, 0x00, 0x41}, 7, 1},               /* F25b: 2^32+1 read as 1 */
        {{0x80, 0x80, 0x80, 0x80, 0x0f}, 5, 16}, {{0xff, 0xff, 0xff, 0xff, 0x0f}, 5, 16},  /* fits 32 bits, > cap */
        {{0x80, 0x80, 0x80, 0x80, 0x80, 0x00}, 6, 0}, {{0x80}, 1, 0}, {{0x80, 0x80}, 2, 4},   /* too long / truncated */
        {{0x80, 0x00}, 2, 0}, {{0x81, 0x00, 0x00, 0x41}, 4, 1},           /* non-minimal preambles are valid */
        {{0x02, 0x00, 0x41}, 3, 2}, {{0x01, 0x04, 0x41, 0x42}, 4, 1},     /* produced < declared; literal > declared */
        {{0x03, 0x08, 0x41, 0x42}, 4, 3},                                 /* literal runs past the input */
        {{0x02, 0xf0, 0x01, 0x41, 0x42}, 5, 2}, {{0x02, 0xf0}, 2, 2}, {{0x02, 0xf4, 0x01}, 3, 2},
        {{0x02, 0xf8, 0x01, 0x00}, 4, 2}, {{0x02, 0xfc, 0x01, 0x00, 0x00}, 5, 2},
        {{0x02, 0xfc, 0x01, 0x00, 0x00, 0x00, 0x41, 0x42}, 8, 2},
        {{0x02, 0xfc, 0xff, 0xff, 0xff, 0xff, 0x41, 0x42}, 8, 2},         /* literal length 2^32 */
        {{0x05, 0x00, 0x41, 0x01, 0x00}, 5, 5}, {{0x05, 0x00, 0x41, 0x01, 0x02}, 5, 5},   /* copy-1 offset 0 / past start */
        {{0x05, 0x00, 0x41, 0x01, 0x01}, 5, 5}, {{0x04, 0x00, 0x41, 0x01, 0x01}, 5, 4},   /* ok / copy > declared */
        {{0x05, 0x00, 0x41, 0x0e, 0x00, 0x00}, 6, 5}, {{0x05, 0x00, 0x41, 0x0e, 0x02, 0x00}, 6, 5},
        {{0x05, 0x00, 0x41, 0x0e, 0x01, 0x00}, 6, 5}, {{0x05, 0x00, 0x41, 0x0e, 0x01, 0x01}, 6, 5},
        {{0x05, 0x00, 0x41, 0x0f, 0x00, 0x00, 0x00, 0x00}, 8, 5}, {{0x05, 0x00, 0x41, 0x0f, 0x01, 0x00, 0x00, 0x00}, 8, 5},
        {{0x05, 0x00, 0x41, 0x0f, 0x01, 0x00, 0x00, 0x01}, 8, 5}, {{0x05, 0x00, 0x41, 0x0f, 0x02, 0x00, 0x00, 0x00}, 8, 5},
        {{0x05, 0x00, 0x41, 0x0e, 0x01}, 5, 5}, {{0x05, 0x00, 0x41, 0x0e}, 4, 5},            /* copy-2 truncated */
        {{0x05, 0x00, 0x41, 0x0f, 0x01, 0x00, 0x00}, 7, 5}, {{0x05, 0x00, 0x41, 0x0f, 0x01}, 5, 5}, {{0x05, 0x00, 0x41, 0x0f}, 4, 5},
        {{0x05, 0x00, 0x41, 0x01}, 4, 5}, {{0x04, 0x01}, 2, 4}, {{0x04, 0xfd}, 2, 4},         /* F6: input ends after a copy-1 tag */
    };
    for (size_t i = 0; i < sizeof c / sizeof c[0]; i++) do_dec(h, c[i].b, c[i].n, c[i].cap, NULL, 0);
}

static void gen_dec(hctx* h) {
    gbuf s, out;
    /* (a) carquet's own output, exact-size destination; also one byte short and one byte long */
    long own = h->thorough ? 3000 : 250;
    for (long i = 0; i < own; i++) {
        size_t n = (size_t)h_below(h, i % 7 == 0 ? 3000 : 200);
        int k = (int)h_below(h, 9); if (k == 7) k = 6;
        uint8_t* x = h_alloc(n); fill_input(h, x, n, k);
        size_t bound = carquet_snappy_compress_bound(n), cn = 0;
        uint8_t* c = h_alloc(bound);
        if (carquet_snappy_compress(x, n, c, bound, &cn) == 0) {
            do_dec(h, c, cn, n, x, n);
            if (i % 4 == 0) { do_dec(h, c, cn, n + 1 + (size_t)h_below(h, 5), x, n); if (n) do_dec(h, c, cn, n - 1, x, n); }
            st_own++;
        }
        free(x); free(c);
    }
    /* (b) grammar-generated valid streams, every tag form */
    long nv = h->thorough ? 20000 : 1500;
    for (long i = 0; i < nv; i++) {
        size_t target = (size_t)h_below(h, i % 10 == 0 ? 3000 : 120);
        gen_valid(h, &s, &out, target, (i % 50 == 7));
        do_dec(h, s.b, s.n, out.n, out.b, out.n);
        if (i % 5 == 0) do_dec(h, s.b, s.n, out.n + 1 + (size_t)h_below(h, 7), out.b, out.n);
        if (i % 5 == 1 && out.n) do_dec(h, s.b, s.n, out.n - 1, out.b, out.n);
        st_valid++;
        g_free(&s); g_free(&out);
    }
    /* a long-offset stream: > 64 KiB back through COPY_4, > 2 KiB through COPY_2 */
    for (int rep = 0; rep < (h->thorough ? 6 : 2); rep++) {
        gbuf body; g_init(&body); g_init(&out); g_init(&s);
        emit_literal(h, &body, &out, 66000 + (size_t)h_below(h, 500), 3 + (rep & 1));
        emit_copy(&body, &out, 65536 + (size_t)h_below(h, 400), 1 + (size_t)h_below(h, 64), 3);
        emit_copy(&body, &out, out.n, 64, 3);
        emit_copy(&body, &out, 2048 + (size_t)h_below(h, 60000), 1 + (size_t)h_below(h, 64), 2);
        emit_copy(&body, &out, 65535, 33, 2);
        emit_copy(&body, &out, 2047, 11, 1);
        put_varint(&s, (uint32_t)out.n, 0);
        for (size_t i = 0; i < body.n; i++) g_put(&s, body.b[i]);
        do_dec(h, s.b, s.n, out.n, out.b, out.n);
        g_free(&body); g_free(&s); g_free(&out);
    }
    /* (c) directed guard cases (F25/F25b witnesses, then everything else, F6 witnesses last) */
    directed(h);
    /* (d) small exhaustive scopes: [d, t] and [d, t, b] */
    for (int d = 0; d <= 4; d++)
        for (int t = 0; t < 256; t++) {
            if ((t & 3) == 1) continue;             /* copy-1 tags at the end of input: in (g) */
            uint8_t b[2] = { (uint8_t)d, (uint8_t)t };
            do_dec(h, b, 2, (size_t)d, NULL, 0); st_exh++;
        }
    static const int ds[] = { 1, 4, 8 }, bs[] = { 0, 1, 2, 255 };
    for (int di = 0; di < 3; di++)
        for (int t = 0; t < 256; t++)
            for (int bi = 0; bi < 4; bi++) {
                uint8_t b[4] = { (uint8_t)ds[di], 0x00, 0x41, 0 };
                uint8_t c3[5] = { (uint8_t)ds[di], 0x00, 0x41, (uint8_t)t, (uint8_t)bs[bi] };
                (void)b;
                do_dec(h, c3, 5, (size_t)ds[di], NULL, 0); st_exh++;
            }
    /* (e) mutations of valid streams (own output and grammar-generated) */
    long nm = h->thorough ? 40000 : 3000;
    for (long i = 0; i < nm; i++) {
        gen_valid(h, &s, &out, (size_t)h_below(h, 60), 0);
        mutate_and_run(h, &s, out.n);
        g_free(&s); g_free(&out);
    }
    /* (f) raw bytes, with and without a plausible preamble */
    long nr = h->thorough ? 30000 : 2000;
    for (long i = 0; i < nr; i++) {
        size_t n = (size_t)h_below(h, 24);
        uint8_t* b = h_alloc(n); h_fill(h, b, n, 0);
        if (n && h_chance(h, 3, 4)) b[0] = (uint8_t)h_below(h, 40);
        long long d = declared_of(b, n);
        do_dec(h, b, n, (d >= 0 && d <= 100000) ? (size_t)d : (size_t)h_below(h, 64), NULL, 0);
        st_rand++; free(b);
    }
    /* (g) truncations at every position of small valid streams; copy-1 tags at the end of input */
    for (int rep = 0; rep < (h->thorough ? 200 : 20); rep++) {
        gen_valid(h, &s, &out, 10 + (size_t)h_below(h, 40), 0);
        for (size_t k = 0; k <= s.n; k++) { do_dec(h, s.b, k, out.n, NULL, 0); st_trunc++; }
        g_free(&s); g_free(&out);
    }
    for (int d = 0; d <= 4; d++)
        for (int t = 1; t < 256; t += 4) {
            uint8_t b[2] = { (uint8_t)d, (uint8_t)t };
            do_dec(h, b, 2, (size_t)d, NULL, 0); st_exh++;
        }
    fprintf(h->out, "#stat dec %ld\n#stat dec_ok %ld\n#stat dec_err %ld\n#stat own_output %ld\n#stat grammar_valid %ld\n"
            "#stat mutated %ld\n#stat truncated %ld\n#stat random %ld\n#stat exhaustive %ld\n#stat trailing %ld\n"
            "#stat lit_in_tag %ld\n#stat lit_ext1 %ld\n#stat lit_ext2 %ld\n#stat lit_ext3 %ld\n#stat lit_ext4 %ld\n"
            "#stat copy1 %ld\n#stat copy2 %ld\n#stat copy4 %ld\n#stat overlapping_copies %ld\n",
            st_dec, st_dec_ok, st_dec_err, st_own, st_valid, st_mut, st_trunc, st_rand, st_exh, st_trailing,
            st_lit_tag, st_lit_ext[1], st_lit_ext[2], st_lit_ext[3], st_lit_ext[4], st_c1, st_c2, st_c4, st_overlap);
}

/* ---------------------------------------------------------------- replay */
static int replay_snappy(hctx* h, const h_line* l) {
    if (!strcmp(l->op, "snappy_big")) { do_comp_big(h, (size_t)strtoull(h_in(l, "n"), NULL, 10), (int)h_ll(h_in(l, "kind"))); return 1; }
    if (!strcmp(l->op, "snappy_comp")) {
        size_t n; uint8_t* x = h_unhex(h_in(l, "src"), &n);
        do_comp(h, x, n, (size_t)h_ll(h_in(l, "cap"))); free(x); return 1;
    }
    if (!strcmp(l->op, "snappy_dec")) {
        size_t n, wn = 0; uint8_t* s = h_unhex(h_in(l, "src"), &n);
        uint8_t* w = h_in(l, "want") ? h_unhex(h_in(l, "want"), &wn) : NULL;
        do_dec(h, s, n, (size_t)h_ll(h_in(l, "cap")), w, wn); free(s); free(w); return 1;
    }
    return 0;
}

const h_component comp_snappyc = { "snappyc", gen_comp, replay_snappy };
const h_component comp_snappyd = { "snappyd", gen_dec, NULL };
