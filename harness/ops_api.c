/* Component `api`: the public functions no other component calls.
 *
 * apierr  (C04)  src/core/error.c, carquet_init, carquet_version*:
 *   err_status v=<int>                         | s=x<string> rec=<0|1> hint=<x<string>|N>
 *   err_names  v=<int>                         | pt=x.. cc=x.. en=x..
 *   err_set    code= line= kind=<0..3> text=x<what the format produces> fill=<byte> ctx0=<off.rg.col>
 *                                              | code= line= ptrs=<0|1> msg=x<the 256 bytes> ctx=<off.rg.col>
 *              kind 0 "%s"; 1 the text itself as format (% doubled); 2 "%.*s%s" (split); 3 NULL format
 *   err_init   fill=<byte>                     | code= line= ptrs= msg=x.. ctx=..
 *   err_ctx    ctx0=<off.rg.col> set=<off.rg.col> | ctx=<off.rg.col>
 *   err_copy   text=x..                        | same=<0|1>
 *   err_fmt    code= msg=x<string in message> fill=<byte behind its NUL> ctx=<off.rg.col> size=<n> bfill=<byte>
 *              null=<0 none,1 error NULL,2 buffer NULL> | ret= buf=x<the size bytes>
 *   api_version                                | s=x.. v=<major.minor.patch> init=<st1.st2>
 * Every struct and buffer handed to the library is an exact-size heap block (ASan).
 *
 * apischema (C17) and apimeta (C03): see the comments further down.
 */
#include "common.h"
#include <unistd.h>
#include <limits.h>
#include <stdarg.h>
#include <carquet/carquet.h>
#include "reader/reader_internal.h"
#include "thrift/parquet_types.h"
#include "core/arena.h"

/* ------------------------------------------------------------------------------------------------
 * apierr
 * ---------------------------------------------------------------------------------------------- */

static const char FILE_ID[] = "harness-file.c";
static const char FUNC_ID[] = "harness_function";

static void put_cstr(hctx* h, const char* s) {          /* every byte read by harness code, not by libc */
    size_t n = 0; while (s[n]) n++;
    h_hex(h->out, (const uint8_t*)s, n);
}

static void parse3(const char* v, long long* a, long long* b, long long* c) {
    char* e; *a = strtoll(v, &e, 10); if (*e == '.') e++; *b = strtoll(e, &e, 10); if (*e == '.') e++; *c = strtoll(e, &e, 10);
}

static carquet_error_t* new_error(int fill, long long off, long long rg, long long col) {
    carquet_error_t* e = (carquet_error_t*)h_alloc(sizeof *e);
    memset(e, fill, sizeof *e);
    e->offset = off; e->row_group_index = (int32_t)rg; e->column_index = (int32_t)col;
    return e;
}

static void print_error(hctx* h, const carquet_error_t* e, const char* file, const char* fn) {
    fprintf(h->out, " code=%d line=%d ptrs=%d msg=", (int)e->code, e->line, e->file == file && e->function == fn);
    h_hex(h->out, (const uint8_t*)e->message, sizeof e->message);
    fprintf(h->out, " ctx=%lld.%d.%d", (long long)e->offset, e->row_group_index, e->column_index);
}

static void do_status(hctx* h, long long v) {
    fprintf(h->out, "err_status v=%lld", v);
    h_call(h);
    const char* s = carquet_status_string((carquet_status_t)v);
    const char* hint = carquet_error_recovery_hint((carquet_status_t)v);
    bool rec = carquet_error_is_recoverable((carquet_status_t)v);
    fprintf(h->out, " | s="); put_cstr(h, s);
    fprintf(h->out, " rec=%d hint=", rec ? 1 : 0);
    if (hint) put_cstr(h, hint); else fputc('N', h->out);
    fputc('\n', h->out); h->n_lines++;
}

static void do_names(hctx* h, long long v) {
    fprintf(h->out, "err_names v=%lld", v);
    h_call(h);
    const char* a = carquet_physical_type_name((carquet_physical_type_t)v);
    const char* b = carquet_compression_name((carquet_compression_t)v);
    const char* c = carquet_encoding_name((carquet_encoding_t)v);
    fprintf(h->out, " | pt="); put_cstr(h, a);
    fprintf(h->out, " cc="); put_cstr(h, b);
    fprintf(h->out, " en="); put_cstr(h, c);
    fputc('\n', h->out); h->n_lines++;
}

static void do_set(hctx* h, long long code, long long line, int kind, const uint8_t* text, size_t n, int fill, const char* ctx0) {
    fprintf(h->out, "err_set code=%lld line=%lld kind=%d text=", code, line, kind);
    h_hex(h->out, text, n);
    fprintf(h->out, " fill=%d ctx0=%s", fill, ctx0);
    h_call(h);
    long long o, r, c; parse3(ctx0, &o, &r, &c);
    carquet_error_t* e = new_error(fill, o, r, c);
    char* t = (char*)h_alloc(n + 1); memcpy(t, text, n); t[n] = 0;       /* exact-size C string */
    if (kind == 0) carquet_error_set(e, (carquet_status_t)code, FILE_ID, (int)line, FUNC_ID, "%s", t);
    else if (kind == 1) {
        size_t pc = 0; for (size_t i = 0; i < n; i++) pc += text[i] == '%';
        char* f = (char*)h_alloc(n + pc + 1); size_t k = 0;
        for (size_t i = 0; i < n; i++) { f[k++] = (char)text[i]; if (text[i] == '%') f[k++] = '%'; }
        f[k] = 0;
        carquet_error_set(e, (carquet_status_t)code, FILE_ID, (int)line, FUNC_ID, f, 0);
        free(f);
    } else if (kind == 2) {
        int cut = (int)(n / 3);
        carquet_error_set(e, (carquet_status_t)code, FILE_ID, (int)line, FUNC_ID, "%.*s%s", cut, t, t + cut);
    } else carquet_error_set(e, (carquet_status_t)code, FILE_ID, (int)line, FUNC_ID, NULL);
    fprintf(h->out, " |");
    print_error(h, e, FILE_ID, FUNC_ID);
    fputc('\n', h->out); h->n_lines++;
    free(t); free(e);
}

static void do_init(hctx* h, int fill, int clear) {
    fprintf(h->out, "err_init fill=%d clear=%d", fill, clear);
    h_call(h);
    carquet_error_t* e = new_error(fill, 77, 78, 79);
    if (clear) carquet_error_clear(e); else carquet_error_init(e);
    fprintf(h->out, " |");
    print_error(h, e, NULL, NULL);
    fputc('\n', h->out); h->n_lines++;
    carquet_error_init(NULL); carquet_error_clear(NULL);                 /* documented no-ops */
    free(e);
}

static void do_ctx(hctx* h, const char* ctx0, const char* set) {
    fprintf(h->out, "err_ctx ctx0=%s set=%s", ctx0, set);
    h_call(h);
    long long o, r, c, so, sr, sc; parse3(ctx0, &o, &r, &c); parse3(set, &so, &sr, &sc);
    carquet_error_t* e = new_error(0x5a, o, r, c);
    carquet_error_set_context(e, so, (int32_t)sr, (int32_t)sc);
    carquet_error_set_context(NULL, so, (int32_t)sr, (int32_t)sc);
    fprintf(h->out, " | ctx=%lld.%d.%d\n", (long long)e->offset, e->row_group_index, e->column_index);
    h->n_lines++;
    free(e);
}

static void do_copy(hctx* h, const uint8_t* text, size_t n) {
    fprintf(h->out, "err_copy text="); h_hex(h->out, text, n);
    h_call(h);
    carquet_error_t* a = new_error(0x11, 5, 6, 7);
    carquet_error_t* b = new_error(0x22, 1, 2, 3);
    char* t = (char*)h_alloc(n + 1); memcpy(t, text, n); t[n] = 0;
    carquet_error_set(a, CARQUET_ERROR_DECODE, FILE_ID, 12, FUNC_ID, "%s", t);
    carquet_error_copy(b, a);
    carquet_error_copy(NULL, a); carquet_error_copy(b, NULL);
    int same = memcmp(a, b, sizeof *a) == 0 && carquet_error_is_set(b) && carquet_error_code(b) == CARQUET_ERROR_DECODE &&
               carquet_error_message(b) == b->message && !carquet_error_is_set(NULL) && carquet_error_code(NULL) == CARQUET_OK;
    fprintf(h->out, " | same=%d\n", same);
    h->n_lines++;
    free(t); free(a); free(b);
}

static void do_fmt(hctx* h, long long code, const uint8_t* msg, size_t mn, int fill, const char* ctx, long long size, int bfill, int null) {
    fprintf(h->out, "err_fmt code=%lld msg=", code); h_hex(h->out, msg, mn);
    fprintf(h->out, " fill=%d ctx=%s size=%lld bfill=%d null=%d", fill, ctx, size, bfill, null);
    h_call(h);
    long long o, r, c; parse3(ctx, &o, &r, &c);
    carquet_error_t* e = new_error(fill, o, r, c);
    e->code = (carquet_status_t)code;
    if (mn > sizeof e->message - 1) mn = sizeof e->message - 1;
    memcpy(e->message, msg, mn); e->message[mn] = 0;
    e->file = NULL; e->function = NULL; e->line = 0;
    uint8_t* buf = h_alloc((size_t)size);
    memset(buf, bfill, size ? (size_t)size : 1);
    int ret = carquet_error_format(null == 1 ? NULL : e, null == 2 ? NULL : (char*)buf, (size_t)size);
    fprintf(h->out, " | ret=%d buf=", ret);
    h_hex(h->out, buf, (size_t)size);
    fputc('\n', h->out); h->n_lines++;
    free(buf); free(e);
}

static void do_version(hctx* h) {
    fprintf(h->out, "api_version");
    h_call(h);
    carquet_status_t s1 = carquet_init(), s2 = carquet_init();
    int a = -1, b = -1, c = -1;
    carquet_version_components(&a, &b, &c);
    carquet_version_components(NULL, NULL, NULL);
    int only = -1; carquet_version_components(NULL, &only, NULL);
    fprintf(h->out, " | s="); put_cstr(h, carquet_version());
    fprintf(h->out, " v=%d.%d.%d minor=%d init=%d.%d\n", a, b, c, only, (int)s1, (int)s2);
    h->n_lines++;
}

static void rand_text(hctx* h, uint8_t* t, size_t n) {
    static const char pool[] = "abcdefghijklmnopqrstuvwxyz ABCDEFGHIJKLMNOP0123456789%%%.:/_-()[]'\"\\\t\n";
    for (size_t i = 0; i < n; i++) {
        if (h_chance(h, 1, 40)) t[i] = (uint8_t)(1 + h_below(h, 255));        /* any non-NUL byte, incl. > 127 */
        else t[i] = (uint8_t)pool[h_below(h, sizeof pool - 1)];
    }
}

static const char* const CTXS[] = { "-1.-1.-1", "0.0.0", "4096.3.17", "9223372036854775807.2147483647.2147483647",
                                    "-9223372036854775808.-2147483648.-2147483648", "12.-1.5", "-1.7.-1", "-5.-6.0", "1.-1.-1" };
enum { NCTX = 9 };

static void gen_apierr(hctx* h) {
    long n_status = 0, n_set = 0, n_fmt = 0;
    do_version(h);
    for (long long v = -50; v <= 200; v++) { do_status(h, v); n_status++; }
    { static const long long xs[] = { INT_MIN, INT_MAX, 1000, 65536 + 21, 256 + 20, -2147483647, 4294967296LL + 20, 255, 201, 32768 };
      for (size_t i = 0; i < sizeof xs / sizeof xs[0]; i++) { do_status(h, xs[i]); do_names(h, xs[i]); } }
    for (long long v = -20; v <= 60; v++) do_names(h, v);
    for (int f = 0; f < 4; f++) { do_init(h, f == 0 ? 0 : f == 1 ? 0xff : (int)h_below(h, 256), f & 1); }
    for (int i = 0; i < NCTX; i++) for (int j = 0; j < NCTX; j++) do_ctx(h, CTXS[i], CTXS[j]);
    /* error_set: every text length around the capacity, long ones, random ones; four ways to pass the text */
    {
        static const size_t lens[] = { 0, 1, 2, 10, 100, 253, 254, 255, 256, 257, 258, 300, 511, 512, 1000, 5000, 70000 };
        uint8_t* t = h_alloc(70001);
        for (size_t li = 0; li < sizeof lens / sizeof lens[0]; li++)
            for (int kind = 0; kind < 3; kind++) {
                rand_text(h, t, lens[li]);
                do_set(h, (long long)h_below(h, 90), (long long)h_below(h, 100000), kind, t, lens[li], (int)h_below(h, 256), CTXS[h_below(h, NCTX)]);
                n_set++;
            }
        long more = h->thorough ? 3000 : 200;
        for (long i = 0; i < more; i++) {
            size_t n = h_chance(h, 1, 2) ? (size_t)h_below(h, 40) : h_chance(h, 1, 2) ? 240 + (size_t)h_below(h, 40) : (size_t)h_below(h, 2000);
            rand_text(h, t, n);
            do_set(h, (long long)h_below(h, 300) - 100, (long long)h_below(h, 1u << 31), (int)h_below(h, 3), t, n, (int)h_below(h, 256), CTXS[h_below(h, NCTX)]);
            n_set++;
        }
        for (int i = 0; i < 6; i++) { do_set(h, 40 + i, 7, 3, t, 0, i * 51, CTXS[i]); n_set++; }
        rand_text(h, t, 300); do_copy(h, t, 300); do_copy(h, t, 0); do_copy(h, t, 17);
        free(t);
    }
    /* error_format */
    {
        uint8_t msg[256];
        /* (a) every status code -50..200, four rotating sizes each, rotating message lengths and contexts */
        for (long long v = -50; v <= 200; v++)
            for (int k = 0; k < 4; k++) {
                static const size_t mls[] = { 0, 3, 40, 255, 1, 120 };
                size_t ml = mls[(size_t)((v + 50) + k) % 6];
                rand_text(h, msg, ml);
                long long size = ((v + 50) * 4 + k) * 7 % 301;
                do_fmt(h, v, msg, ml, (int)h_below(h, 256), CTXS[(size_t)((v + 50) * 4 + k) % NCTX], size, (int)h_below(h, 256), 0);
                n_fmt++;
            }
        /* (b) every buffer size 0..300 for representative errors: with/without hint, message empty/short/full, contexts */
        static const int codes[] = { 20, 1, 52, 0, 71, 40, 2, 999 };
        static const size_t mls[] = { 0, 5, 255, 60, 255, 0, 30, 200 };
        int reps = h->thorough ? 8 : 8;
        for (int r = 0; r < reps; r++) {
            rand_text(h, msg, mls[r]);
            int fill = (int)h_below(h, 256);
            for (long long size = 0; size <= 300; size++) {
                do_fmt(h, codes[r], msg, mls[r], fill, CTXS[(r * 2 + 1) % NCTX], size, (int)(size * 37 % 256), 0);
                n_fmt++;
            }
        }
        /* (c) NULL error / NULL buffer; big buffers */
        rand_text(h, msg, 50);
        for (int null = 1; null <= 2; null++) for (long long size = 0; size <= 20; size += 5) { do_fmt(h, 21, msg, 50, 9, CTXS[2], size, 0xcc, null); n_fmt++; }
        do_fmt(h, 21, msg, 50, 9, CTXS[3], 1000, 0xcc, 0); do_fmt(h, 2, msg, 50, 9, CTXS[3], 4096, 1, 0); n_fmt += 2;
        /* (d) thorough: the full cross product code x size */
        if (h->thorough)
            for (long long v = -50; v <= 200; v++) {
                size_t ml = (size_t)h_below(h, 3) == 0 ? 255 : (size_t)h_below(h, 80);
                rand_text(h, msg, ml);
                for (long long size = 0; size <= 300; size++) { do_fmt(h, v, msg, ml, 0xab, CTXS[(size_t)(v + 50) % NCTX], size, 0xee, 0); n_fmt++; }
            }
    }
    fprintf(h->out, "#stat status_calls %ld\n#stat error_set_calls %ld\n#stat error_format_calls %ld\n", n_status, n_set, n_fmt);
}

static int replay_apierr(hctx* h, const h_line* l) {
    const char* op = l->op;
    if (!strcmp(op, "err_status")) { do_status(h, h_ll(h_in(l, "v"))); return 1; }
    if (!strcmp(op, "err_names")) { do_names(h, h_ll(h_in(l, "v"))); return 1; }
    if (!strcmp(op, "err_init")) { do_init(h, (int)h_ll(h_in(l, "fill")), (int)h_ll(h_in(l, "clear"))); return 1; }
    if (!strcmp(op, "err_ctx")) { do_ctx(h, h_in(l, "ctx0"), h_in(l, "set")); return 1; }
    if (!strcmp(op, "api_version")) { do_version(h); return 1; }
    if (!strcmp(op, "err_set")) {
        size_t n; uint8_t* t = h_unhex(h_in(l, "text"), &n);
        do_set(h, h_ll(h_in(l, "code")), h_ll(h_in(l, "line")), (int)h_ll(h_in(l, "kind")), t, n, (int)h_ll(h_in(l, "fill")), h_in(l, "ctx0"));
        free(t); return 1;
    }
    if (!strcmp(op, "err_copy")) { size_t n; uint8_t* t = h_unhex(h_in(l, "text"), &n); do_copy(h, t, n); free(t); return 1; }
    if (!strcmp(op, "err_fmt")) {
        size_t n; uint8_t* t = h_unhex(h_in(l, "msg"), &n);
        do_fmt(h, h_ll(h_in(l, "code")), t, n, (int)h_ll(h_in(l, "fill")), h_in(l, "ctx"), h_ll(h_in(l, "size")),
               (int)h_ll(h_in(l, "bfill")), (int)h_ll(h_in(l, "null")));
        free(t); return 1;
    }
    return 0;
}

const h_component comp_apierr = { "apierr", gen_apierr, replay_apierr };

/* ------------------------------------------------------------------------------------------------
 * apischema (C17): element accessors incl. logical type and per-node levels
 *   apischema id= file=x<reference file from `driver --gen apischema`> n= want=..
 *        | m0=<elements | !E<code>> m1=.. m2=.. mlv=<leaf.def.rep,...> moob=<1 iff get_element(-1), (n), (INT_MAX), (INT_MIN) are NULL>
 *   apibuild calls=<c.name.ptype.rep.tlen.lt | g.name.rep , ...>
 *        | els=<elements of the builder schema> lv=.. wst=<writer create.close status> file=x<written file> r0= r1= r2= rlv= roob=
 *   element := name.isleaf.ptype.rep.tlen.nodedef.noderep.lt.ct     (rep -1: has_repetition false; ct '-': no converted type)
 *   lt      := N | id:p1:p2   (DECIMAL precision:scale, INTEGER bit_width:is_signed, TIME/TIMESTAMP unit:is_adjusted_to_utc, else 0:0)
 * modes: 0 fread, 1 mmap, 2 buffer.
 * ---------------------------------------------------------------------------------------------- */

typedef struct { char* p; size_t n, cap; } sbuf;
static void sb_put(sbuf* b, const char* s) {
    size_t k = strlen(s);
    if (b->n + k + 1 > b->cap) { b->cap = (b->n + k + 1) * 2; b->p = (char*)realloc(b->p, b->cap); if (!b->p) exit(3); }
    memcpy(b->p + b->n, s, k + 1); b->n += k;
}
static void sb_fmt(sbuf* b, const char* f, ...) {
    char t[256]; va_list ap; va_start(ap, f); vsnprintf(t, sizeof t, f, ap); va_end(ap); sb_put(b, t);
}

static void sb_logical(sbuf* b, const carquet_logical_type_t* lt) {
    if (!lt) { sb_put(b, "N"); return; }
    long long p1 = 0, p2 = 0;
    switch (lt->id) {
    case CARQUET_LOGICAL_DECIMAL: p1 = lt->params.decimal.precision; p2 = lt->params.decimal.scale; break;
    case CARQUET_LOGICAL_INTEGER: p1 = lt->params.integer.bit_width; p2 = lt->params.integer.is_signed ? 1 : 0; break;
    case CARQUET_LOGICAL_TIME: p1 = (int)lt->params.time.unit; p2 = lt->params.time.is_adjusted_to_utc ? 1 : 0; break;
    case CARQUET_LOGICAL_TIMESTAMP: p1 = (int)lt->params.timestamp.unit; p2 = lt->params.timestamp.is_adjusted_to_utc ? 1 : 0; break;
    default: break;
    }
    sb_fmt(b, "%d:%lld:%lld", (int)lt->id, p1, p2);
}

/* every element through the public accessors (converted type and has_repetition: the internal struct, there is no accessor) */
static void sb_elements(sbuf* b, const carquet_schema_t* s) {
    int n = carquet_schema_num_elements(s);
    if (n == 0) sb_put(b, "-");
    for (int i = 0; i < n; i++) {
        const carquet_schema_node_t* nd = carquet_schema_get_element(s, i);
        const parquet_schema_element_t* pe = (const parquet_schema_element_t*)nd;
        const char* nm = carquet_schema_node_name(nd);
        sb_fmt(b, "%s%s.%d.%d.%d.%d.%d.%d.", i ? "," : "", nm ? nm : "", carquet_schema_node_is_leaf(nd) ? 1 : 0,
               (int)carquet_schema_node_physical_type(nd), pe->has_repetition ? (int)carquet_schema_node_repetition(nd) : -1,
               carquet_schema_node_type_length(nd), (int)carquet_schema_node_max_def_level(nd), (int)carquet_schema_node_max_rep_level(nd));
        sb_logical(b, carquet_schema_node_logical_type(nd));
        if (pe->has_converted_type) sb_fmt(b, ".%d", (int)pe->converted_type); else sb_put(b, ".-");
    }
}

static void sb_leaves(sbuf* b, const carquet_schema_t* s) {
    int n = carquet_schema_num_columns(s);
    if (n == 0) sb_put(b, "-");
    for (int i = 0; i < n; i++) sb_fmt(b, "%s%d.%d.%d", i ? "," : "", s->leaf_indices[i], s->max_def_levels[i], s->max_rep_levels[i]);
}

static int oob_null(const carquet_schema_t* s) {
    int n = carquet_schema_num_elements(s);
    return carquet_schema_get_element(s, -1) == NULL && carquet_schema_get_element(s, n) == NULL &&
           carquet_schema_get_element(s, INT_MAX) == NULL && carquet_schema_get_element(s, INT_MIN) == NULL;
}

static carquet_reader_t* open_mode(const char* path, const uint8_t* fb, size_t fn, int mode, carquet_error_t* err) {
    carquet_reader_options_t ro; carquet_reader_options_init(&ro);
    ro.use_mmap = mode == 1; ro.verify_checksums = true;
    return mode == 2 ? carquet_reader_open_buffer(fb, fn, &ro, err) : carquet_reader_open(path, &ro, err);
}

static int tmp_write(const char* path, const uint8_t* fb, size_t fn) {
    FILE* f = fopen(path, "wb");
    if (!f) return 0;
    int ok = fwrite(fb, 1, fn, f) == fn;
    return fclose(f) == 0 && ok;
}

/* the elements / leaf levels of a file in the three modes: " m0=.. m1=.. m2=.. lv=.. oob=.." (prefix: key letter) */
static void read_schemas(hctx* h, const char* path, const uint8_t* fb, size_t fn, char key) {
    int oob = 1; sbuf lv = {0};
    for (int mode = 0; mode < 3; mode++) {
        carquet_error_t err; memset(&err, 0, sizeof err);
        carquet_reader_t* rd = open_mode(path, fb, fn, mode, &err);
        sbuf b = {0};
        if (!rd) sb_fmt(&b, "!E%d", (int)err.code);
        else {
            const carquet_schema_t* s = carquet_reader_schema(rd);
            sb_elements(&b, s);
            if (!oob_null(s)) oob = 0;
            if (mode == 0) sb_leaves(&lv, s);
            carquet_reader_close(rd);
        }
        fprintf(h->out, " %c%d=%s", key, mode, b.p ? b.p : "-");
        free(b.p);
    }
    fprintf(h->out, " %clv=%s %coob=%d", key, lv.p ? lv.p : "-", key, oob);
    free(lv.p);
}

static long g_member[32], g_no_lt, g_ct, g_no_ct;
static void count_want(const char* w) {
    for (const char* p = w; p && *p; ) {
        if (*p == 'N') g_no_lt++; else { long m = strtol(p, NULL, 10); if (m >= 0 && m < 32) g_member[m]++; }
        const char* bar = strchr(p, '|');
        if (!bar) break;
        if (bar[1] == '-' && (bar[2] == ',' || !bar[2])) g_no_ct++; else g_ct++;
        p = strchr(bar, ',');
        if (p) p++;
    }
}

static void do_apischema(hctx* h, const h_line* l) {
    count_want(h_in(l, "want"));
    fprintf(h->out, "apischema");
    for (int i = 0; i < l->n_in; i++) fprintf(h->out, " %s=%s", l->in[i].key, l->in[i].val);
    h_call(h);
    size_t fn; uint8_t* fb = h_unhex(h_in(l, "file"), &fn);
    char path[128]; snprintf(path, sizeof path, "/tmp/verif_api_%d.parquet", (int)getpid());
    if (!tmp_write(path, fb, fn)) { fprintf(h->out, " | err=tmpfile\n"); free(fb); return; }
    fprintf(h->out, " |");
    read_schemas(h, path, fb, fn, 'm');
    fputc('\n', h->out); h->n_lines++;
    free(fb); unlink(path);
}

static void gen_apischema_refs(hctx* h) {
    if (!h->in_path) { fprintf(stderr, "apischema: needs --in <lines from driver --gen apischema>\n"); exit(2); }
    FILE* in = fopen(h->in_path, "r");
    if (!in) { perror("apischema in"); exit(2); }
    char* line = NULL; size_t cap = 0; long n = 0;
    while (getline(&line, &cap, in) > 0) {
        if (line[0] == '#' || line[0] == '\n') continue;
        h_line l;
        if (h_parse_line(line, &l)) { fprintf(stderr, "apischema: bad input line\n"); exit(2); }
        if (!strcmp(l.op, "apischema")) { do_apischema(h, &l); n++; }
        h_free_line(&l);
    }
    free(line); fclose(in);
    fprintf(h->out, "#stat reference_schema_files %ld\n", n);
    for (int m = 0; m < 32; m++) if (g_member[m]) fprintf(h->out, "#stat elements_with_union_member_%d %ld\n", m, g_member[m]);
    fprintf(h->out, "#stat elements_without_logical_type %ld\n#stat elements_with_converted_type %ld\n#stat elements_without_converted_type %ld\n",
            g_no_lt, g_ct, g_no_ct);
}

/* one builder call as text: "c.name.ptype.rep.tlen.lt" or "g.name.rep" */
typedef struct { int is_col; char name[24]; int ptype, rep, tlen; int has_lt; int id; long long p1, p2; } bcall;

static void print_calls(hctx* h, const bcall* c, int n) {
    if (n == 0) fputc('-', h->out);
    for (int i = 0; i < n; i++) {
        if (i) fputc(',', h->out);
        if (!c[i].is_col) { fprintf(h->out, "g.%s.%d", c[i].name, c[i].rep); continue; }
        fprintf(h->out, "c.%s.%d.%d.%d.", c[i].name, c[i].ptype, c[i].rep, c[i].tlen);
        if (c[i].has_lt) fprintf(h->out, "%d:%lld:%lld", c[i].id, c[i].p1, c[i].p2); else fputc('N', h->out);
    }
}

static void do_apibuild(hctx* h, const bcall* c, int n) {
    fprintf(h->out, "apibuild calls=");
    print_calls(h, c, n);
    h_call(h);
    carquet_error_t err; memset(&err, 0, sizeof err);
    carquet_schema_t* s = carquet_schema_create(&err);
    int ok = s != NULL;
    for (int i = 0; i < n && ok; i++) {
        if (!c[i].is_col) { ok = carquet_schema_add_group(s, c[i].name, (carquet_field_repetition_t)c[i].rep, i % 2 ? 0 : -1) == carquet_schema_num_elements(s) - 1; continue; }
        carquet_logical_type_t* lt = NULL;
        if (c[i].has_lt) {
            lt = (carquet_logical_type_t*)h_alloc(sizeof *lt);
            memset(lt, 0xA5, sizeof *lt);                       /* the union holds garbage where the id has no parameters */
            lt->id = (carquet_logical_type_id_t)c[i].id;
            switch (lt->id) {
            case CARQUET_LOGICAL_DECIMAL: lt->params.decimal.precision = (int32_t)c[i].p1; lt->params.decimal.scale = (int32_t)c[i].p2; break;
            case CARQUET_LOGICAL_INTEGER: lt->params.integer.bit_width = (int8_t)c[i].p1; lt->params.integer.is_signed = c[i].p2 != 0; break;
            case CARQUET_LOGICAL_TIME: lt->params.time.unit = (carquet_time_unit_t)c[i].p1; lt->params.time.is_adjusted_to_utc = c[i].p2 != 0; break;
            case CARQUET_LOGICAL_TIMESTAMP: lt->params.timestamp.unit = (carquet_time_unit_t)c[i].p1; lt->params.timestamp.is_adjusted_to_utc = c[i].p2 != 0; break;
            default: break;
            }
        }
        char* nm = (char*)h_alloc(strlen(c[i].name) + 1); strcpy(nm, c[i].name);
        ok = carquet_schema_add_column(s, nm, (carquet_physical_type_t)c[i].ptype, lt, (carquet_field_repetition_t)c[i].rep, c[i].tlen) == CARQUET_OK;
        if (lt) { memset(lt, 0x5A, sizeof *lt); free(lt); }     /* the schema must hold a copy, not the pointer */
        memset(nm, 'Z', strlen(nm)); free(nm);
    }
    if (!ok) { fprintf(h->out, " | err=1\n"); if (s) carquet_schema_free(s); h->n_lines++; return; }
    sbuf b = {0}, lv = {0};
    sb_elements(&b, s); sb_leaves(&lv, s);
    fprintf(h->out, " | els=%s lv=%s boob=%d", b.p, lv.p ? lv.p : "-", oob_null(s));
    free(b.p); free(lv.p);
    /* a file written from this schema (no rows), read back in the three modes */
    char path[128]; snprintf(path, sizeof path, "/tmp/verif_apib_%d.parquet", (int)getpid());
    carquet_writer_t* w = carquet_writer_create(path, s, NULL, &err);
    int st_create = w ? 0 : (int)err.code, st_close = -1;
    if (w) st_close = (int)carquet_writer_close(w);
    carquet_schema_free(s);
    fprintf(h->out, " wst=%d.%d", st_create, st_close);
    if (w && st_close == 0) {
        FILE* f = fopen(path, "rb");
        size_t fn = 0; uint8_t* fb = NULL;
        if (f) { fseek(f, 0, SEEK_END); fn = (size_t)ftell(f); fseek(f, 0, SEEK_SET); fb = h_alloc(fn); if (fread(fb, 1, fn, f) != fn) fn = 0; fclose(f); }
        fprintf(h->out, " file="); h_hex(h->out, fb, fn);
        read_schemas(h, path, fb, fn, 'r');
        free(fb);
    }
    unlink(path);
    fputc('\n', h->out); h->n_lines++;
}

static void rand_call(hctx* h, bcall* c, int idx, int force_id) {
    static const char* const names[] = { "a", "b", "price", "ts", "id", "payload", "list", "element", "k", "v" };
    memset(c, 0, sizeof *c);
    snprintf(c->name, sizeof c->name, "%s%d", names[h_below(h, 10)], idx);
    c->is_col = force_id >= -1 ? 1 : !h_chance(h, 1, 6);
    c->rep = (int)h_below(h, 3);
    if (!c->is_col) return;
    c->ptype = (int)h_below(h, 8);
    if (c->ptype == 0 && h_chance(h, 1, 2)) c->ptype = 1 + (int)h_below(h, 7);
    c->tlen = c->ptype == 7 ? 1 + (int)h_below(h, 16) : 0;
    c->has_lt = force_id >= 0 ? 1 : force_id == -1 ? 0 : !h_chance(h, 1, 3);
    if (!c->has_lt) return;
    c->id = force_id >= 0 ? force_id : (int)h_below(h, 15);
    static const long long dec_p[] = { 1, 9, 18, 38, 0, 2147483647LL, -2147483648LL, 5 };
    static const long long dec_s[] = { 0, 2, 9, 38, -1, 2147483647LL, -2147483648LL, 3 };
    static const long long widths[] = { 8, 16, 32, 64, 0, 127, -128, -1 };
    switch (c->id) {
    case 5: c->p1 = dec_p[h_below(h, 8)]; c->p2 = dec_s[h_below(h, 8)]; break;
    case 9: c->p1 = widths[h_below(h, 8)]; c->p2 = (long long)h_below(h, 2); break;
    case 7: case 8: c->p1 = (long long)h_below(h, 3); c->p2 = (long long)h_below(h, 2); break;
    default: break;
    }
}

static void gen_apischema(hctx* h) {
    gen_apischema_refs(h);
    enum { MAXCALLS = 140 };
    bcall* c = (bcall*)h_alloc(MAXCALLS * sizeof *c);
    long n = 0;
    /* every logical id once alone, once among others; NULL; then random sequences incl. lengths around the capacity 64 */
    for (int id = -1; id < 15; id++) { rand_call(h, &c[0], 0, id); do_apibuild(h, c, 1); n++; }
    for (int id = 0; id < 15; id++) {
        int k = 2 + (int)h_below(h, 5), at = (int)h_below(h, (uint64_t)k);
        for (int i = 0; i < k; i++) rand_call(h, &c[i], i, i == at ? id : -2);
        do_apibuild(h, c, k); n++;
    }
    long more = h->thorough ? 1500 : 90;
    for (long t = 0; t < more; t++) {
        int k = t % 30 == 0 ? 62 + (int)h_below(h, 5) : t % 47 == 0 ? 130 : (int)h_below(h, 9);
        for (int i = 0; i < k; i++) rand_call(h, &c[i], i, -2);
        do_apibuild(h, c, k); n++;
    }
    free(c);
    fprintf(h->out, "#stat builder_sequences %ld\n", n);
}

static int replay_apischema(hctx* h, const h_line* l) {
    if (!strcmp(l->op, "apischema")) { do_apischema(h, l); return 1; }
    if (strcmp(l->op, "apibuild") != 0) return 0;
    enum { MAXCALLS = 140 };
    bcall* c = (bcall*)h_alloc(MAXCALLS * sizeof *c);
    int n = 0;
    const char* v = h_in(l, "calls");
    if (v && strcmp(v, "-") != 0) {
        char* dup = strdup(v); char* save = NULL;
        for (char* t = strtok_r(dup, ",", &save); t && n < MAXCALLS; t = strtok_r(NULL, ",", &save)) {
            bcall* k = &c[n++]; memset(k, 0, sizeof *k);
            char kind = t[0]; char* p = t + 2; char* d = strchr(p, '.');
            if (!d) continue;
            *d = 0; snprintf(k->name, sizeof k->name, "%s", p); p = d + 1;
            if (kind == 'g') { k->rep = atoi(p); continue; }
            k->is_col = 1;
            k->ptype = (int)strtol(p, &p, 10); if (*p == '.') p++;
            k->rep = (int)strtol(p, &p, 10); if (*p == '.') p++;
            k->tlen = (int)strtol(p, &p, 10); if (*p == '.') p++;
            if (*p != 'N') { k->has_lt = 1; k->id = (int)strtol(p, &p, 10); if (*p == ':') p++; k->p1 = strtoll(p, &p, 10); if (*p == ':') p++; k->p2 = strtoll(p, &p, 10); }
        }
        free(dup);
    }
    do_apibuild(h, c, n);
    free(c);
    return 1;
}

const h_component comp_apischema = { "apischema", gen_apischema, replay_apischema };

/* ------------------------------------------------------------------------------------------------
 * apimeta (C03): metadata accessors and the zero-copy predicate in the three I/O modes, on the reference files of
 * `driver --gen reffiles` (every codec, encoding mix, nested schemas, REQUIRED fixed-width UNCOMPRESSED columns with
 * PLAIN and dictionary pages, empty pages, unsupported and damaged classes) and on files the builder part wrote.
 *   apimeta id= desc= file=x.. | a0=<mode 0> a1=<mode 1> a2=<mode 2> [kf=F90-buffer-zero-copy]
 *   mode   := !E<code> | mm.nrows.nrg.ncols;<rgm>;<czc>;<view>;<bview>;<ext>
 *   rgm    := status:rows:bytes:compressed:untouched  for row_group_index -1, 0 .. nrg (nrg itself is out of range), '_' separated
 *   czc    := rows of bits, '_' separated: can_zero_copy(rg, col) for rg in -1 .. nrg, col in -1 .. ncols
 *   view   := rows of bits for rg in 0 .. nrg-1, col in 0 .. ncols-1: while the column was read value by value through a
 *             column reader, the page loader took the zero-copy branch at least once (decoded_ownership == VIEW)
 *   bview  := bit per column: a batch reader (batch sizes 2^20 and 3) handed out, at least once, column data that lies
 *             inside the mapped file / the caller's buffer
 *   ext    := 1 iff can_zero_copy is false and row_group_metadata fails for the indices INT_MIN / INT_MAX
 * ---------------------------------------------------------------------------------------------- */

static int value_bytes(const parquet_schema_element_t* e) {
    switch ((int)e->type) { case 0: return 1; case 1: case 4: return 4; case 2: case 5: return 8; case 3: return 12;
                            case 6: return (int)sizeof(carquet_byte_array_t); case 7: return e->type_length > 0 ? e->type_length : 1; default: return 16; }
}

static void sb_mode(sbuf* b, const char* path, const uint8_t* fb, size_t fn, int mode, int* any_view) {
    carquet_error_t err; memset(&err, 0, sizeof err);
    carquet_reader_t* rd = open_mode(path, fb, fn, mode, &err);
    if (!rd) { sb_fmt(b, "!E%d", (int)err.code); return; }
    int nrg = carquet_reader_num_row_groups(rd), nc = carquet_reader_num_columns(rd);
    sb_fmt(b, "%d.%lld.%d.%d;", carquet_reader_is_mmap(rd) ? 1 : 0, (long long)carquet_reader_num_rows(rd), nrg, nc);
    for (int g = -1; g <= nrg; g++) {
        carquet_row_group_metadata_t* m = (carquet_row_group_metadata_t*)h_alloc(sizeof *m);
        memset(m, 0x6b, sizeof *m);
        carquet_status_t st = carquet_reader_row_group_metadata(rd, g, m);
        int untouched = 1; for (size_t i = 0; i < sizeof *m; i++) if (((uint8_t*)m)[i] != 0x6b) untouched = 0;
        if (st == CARQUET_OK) sb_fmt(b, "%s0:%lld:%lld:%lld:0", g > -1 ? "_" : "", (long long)m->num_rows, (long long)m->total_byte_size, (long long)m->total_compressed_size);
        else sb_fmt(b, "%s%d:0:0:0:%d", g > -1 ? "_" : "", (int)st, untouched);
        free(m);
    }
    sb_put(b, ";");
    for (int g = -1; g <= nrg; g++) {
        if (g > -1) sb_put(b, "_");
        for (int c = -1; c <= nc; c++) sb_put(b, carquet_reader_can_zero_copy(rd, g, c) ? "1" : "0");
    }
    sb_put(b, ";");
    const carquet_schema_t* s = carquet_reader_schema(rd);
    for (int g = 0; g < nrg; g++) {
        if (g) sb_put(b, "_");
        for (int c = 0; c < nc; c++) {
            int view = 0;
            carquet_column_reader_t* cr = carquet_reader_get_column(rd, g, c, &err);
            if (cr) {
                const parquet_schema_element_t* e = &s->elements[s->leaf_indices[c]];
                uint8_t* val = h_alloc((size_t)value_bytes(e));
                int16_t* d = (int16_t*)h_alloc(2); int16_t* r = (int16_t*)h_alloc(2);
                for (long guard = 0; guard < 100000; guard++) {
                    int64_t got = carquet_column_read_batch(cr, val, 1, d, r);
                    if (cr->page_loaded && cr->decoded_ownership == CARQUET_DATA_VIEW) view = 1;
                    if (got <= 0) break;
                }
                free(val); free(d); free(r);
                carquet_column_reader_free(cr);
            }
            sb_put(b, view ? "1" : "0");
            if (view) *any_view = 1;
        }
    }
    if (nrg == 0 || nc == 0) sb_put(b, "-");
    sb_put(b, ";");
    /* batch reader: where does the column data point? */
    {
        uint8_t* bv = h_alloc((size_t)(nc ? nc : 1)); memset(bv, 0, (size_t)(nc ? nc : 1));
        const uint8_t* lo = rd->mmap_data; const uint8_t* hi = lo ? lo + rd->file_size : NULL;
        static const int64_t sizes[] = { 1 << 20, 3 };
        for (int si = 0; si < 2 && nc > 0; si++) {
            carquet_batch_reader_config_t cfg; carquet_batch_reader_config_init(&cfg);
            cfg.batch_size = sizes[si]; cfg.num_threads = 1;
            carquet_batch_reader_t* br = carquet_batch_reader_create(rd, &cfg, &err);
            if (!br) continue;
            for (long guard = 0; guard < 100000; guard++) {
                carquet_row_batch_t* batch = NULL;
                carquet_status_t st = carquet_batch_reader_next(br, &batch);
                if (st != CARQUET_OK || !batch) { if (batch) carquet_row_batch_free(batch); break; }
                for (int c = 0; c < nc; c++) {
                    const void* data = NULL; const uint8_t* nulls = NULL; int64_t cnt = 0;
                    if (carquet_row_batch_column(batch, c, &data, &nulls, &cnt) == CARQUET_OK && data && lo &&
                        (const uint8_t*)data >= lo && (const uint8_t*)data < hi) { bv[c] = 1; *any_view = 1; }
                }
                carquet_row_batch_free(batch);
            }
            carquet_batch_reader_free(br);
        }
        for (int c = 0; c < nc; c++) sb_put(b, bv[c] ? "1" : "0");
        if (nc == 0) sb_put(b, "-");
        free(bv);
    }
    carquet_row_group_metadata_t m2;
    int ext = !carquet_reader_can_zero_copy(rd, INT_MIN, 0) && !carquet_reader_can_zero_copy(rd, INT_MAX, 0) &&
              !carquet_reader_can_zero_copy(rd, 0, INT_MIN) && !carquet_reader_can_zero_copy(rd, 0, INT_MAX) &&
              carquet_reader_row_group_metadata(rd, INT_MIN, &m2) == CARQUET_ERROR_ROW_GROUP_NOT_FOUND &&
              carquet_reader_row_group_metadata(rd, INT_MAX, &m2) == CARQUET_ERROR_ROW_GROUP_NOT_FOUND;
    sb_fmt(b, ";%d", ext);
    carquet_reader_close(rd);
}

static long n_meta_files, n_meta_views;
static void do_apimeta(hctx* h, const char* id, const char* desc, const char* filehex) {
    fprintf(h->out, "apimeta id=%s desc=%s file=%s", id ? id : "0", desc ? desc : "-", filehex);
    h_call(h);
    size_t fn; uint8_t* fb = h_unhex(filehex, &fn);
    char path[128]; snprintf(path, sizeof path, "/tmp/verif_apim_%d.parquet", (int)getpid());
    if (!tmp_write(path, fb, fn)) { fprintf(h->out, " | err=tmpfile\n"); free(fb); return; }
    fprintf(h->out, " |");
    int buffer_view = 0;
    for (int mode = 0; mode < 3; mode++) {
        sbuf b = {0}; int any = 0;
        sb_mode(&b, path, fb, fn, mode, &any);
        if (mode == 2 && any) buffer_view = 1;
        if (any) n_meta_views++;
        fprintf(h->out, " a%d=%s", mode, b.p);
        free(b.p);
    }
    /* F90 (known finding while the pinned predicate tests mmap_info): a buffer reader that hands out views */
    if (buffer_view) fprintf(h->out, " kf=F90-buffer-zero-copy");
    fputc('\n', h->out); h->n_lines++; n_meta_files++;
    free(fb); unlink(path);
}

static void gen_apimeta(hctx* h) {
    if (!h->in_path) { fprintf(stderr, "apimeta: needs --in <lines from driver --gen reffiles>\n"); exit(2); }
    FILE* in = fopen(h->in_path, "r");
    if (!in) { perror("apimeta in"); exit(2); }
    char* line = NULL; size_t cap = 0;
    while (getline(&line, &cap, in) > 0) {
        if (line[0] == '#' || line[0] == '\n') continue;
        h_line l;
        if (h_parse_line(line, &l)) { fprintf(stderr, "apimeta: bad input line\n"); exit(2); }
        if (!strcmp(l.op, "refread")) do_apimeta(h, h_in(&l, "id"), h_in(&l, "desc"), h_in(&l, "file"));
        h_free_line(&l);
    }
    free(line); fclose(in);
    fprintf(h->out, "#stat files %ld\n#stat mode_readings_with_a_zero_copy_view %ld\n", n_meta_files, n_meta_views);
}

static int replay_apimeta(hctx* h, const h_line* l) {
    if (strcmp(l->op, "apimeta") != 0) return 0;
    do_apimeta(h, h_in(l, "id"), h_in(l, "desc"), h_in(l, "file"));
    return 1;
}

const h_component comp_apimeta = { "apimeta", gen_apimeta, replay_apimeta };
