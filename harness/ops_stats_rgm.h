/* part of ops_stats.c: reader API (column_statistics, row_group_matches, filter_row_groups) on files
 * written by the real writer whose footer was given chunk statistics with carquet's own thrift
 * structs; generator and replayer of the component */

typedef struct { val_t mn, mx, mnd, mxd; int has_nc; long long nc; int none; } rg_stats;   /* none: has_statistics = false */
typedef struct { val_t* rows; int n; rg_stats st; } rg_group;
typedef struct { int t, tl; rg_group* g; int ng; int op; val_t probe; int maxidx; int col; } rg_case;

static void rg_print_in(hctx* h, const rg_case* c) {
    fprintf(h->out, "rgm t=%d tl=%d groups=", c->t, c->tl);
    for (int i = 0; i < c->ng; i++) {
        const rg_group* g = &c->g[i];
        if (i) fputc(';', h->out);
        vs_print(h->out, g->rows, g->n); fputc('@', h->out);
        if (g->st.none) { fputc('N', h->out); continue; }
        fputc('S', h->out); opt_print(h->out, &g->st.mn); fputc(':', h->out); opt_print(h->out, &g->st.mx); fputc(':', h->out);
        opt_print(h->out, &g->st.mnd); fputc(':', h->out); opt_print(h->out, &g->st.mxd); fputc(':', h->out);
        if (g->st.has_nc) fprintf(h->out, "%lld", g->st.nc); else fputc('~', h->out);
    }
    fprintf(h->out, " op=%d probe=", c->op); v_print(h->out, c->probe);
    fprintf(h->out, " maxidx=%d col=%d", c->maxidx, c->col);
}

/* write the rows with the real writer (INT96 as 12-byte FLBA: the page writer has no INT96) */
static uint8_t* rg_write_file(const rg_case* c, size_t* out_size) {
    char path[128]; snprintf(path, sizeof path, "/tmp/verif-stats-%d.parquet", (int)getpid());
    carquet_error_t err = CARQUET_ERROR_INIT;
    carquet_schema_t* schema = carquet_schema_create(&err);
    if (!schema) return NULL;
    int wt = c->t == T_I96 ? T_FLBA : c->t; int wtl = c->t == T_I96 ? 12 : (c->t == T_FLBA ? c->tl : 0);
    if (carquet_schema_add_column(schema, "c", (carquet_physical_type_t)wt, NULL, CARQUET_REPETITION_REQUIRED, wtl) != CARQUET_OK) {
        carquet_schema_free(schema); return NULL; }
    carquet_writer_options_t opts; carquet_writer_options_init(&opts);
    opts.compression = CARQUET_COMPRESSION_UNCOMPRESSED;
    carquet_writer_t* w = carquet_writer_create(path, schema, &opts, &err);
    if (!w) { carquet_schema_free(schema); return NULL; }
    int w8 = type_width(wt, wtl);
    int okw = 1;
    for (int i = 0; i < c->ng; i++) {
        const rg_group* g = &c->g[i];
        carquet_status_t s;
        if (wt == T_BA) {
            carquet_byte_array_t* arr = (carquet_byte_array_t*)h_alloc(sizeof(carquet_byte_array_t) * (size_t)(g->n ? g->n : 1));
            for (int k = 0; k < g->n; k++) { arr[k].data = g->rows[k].p; arr[k].length = g->rows[k].len; }
            s = carquet_writer_write_batch(w, 0, arr, g->n, NULL, NULL);
            free(arr);
        } else {
            uint8_t* flat = h_alloc((size_t)(g->n * w8));
            for (int k = 0; k < g->n; k++) memcpy(flat + (size_t)k * w8, g->rows[k].p, (size_t)w8);
            s = carquet_writer_write_batch(w, 0, flat, g->n, NULL, NULL);
            free(flat);
        }
        if (s != CARQUET_OK) okw = 0;
        if (i < c->ng - 1 && carquet_writer_new_row_group(w) != CARQUET_OK) okw = 0;
    }
    if (carquet_writer_close(w) != CARQUET_OK) okw = 0;
    carquet_schema_free(schema);
    uint8_t* buf = NULL;
    FILE* f = okw ? fopen(path, "rb") : NULL;
    if (f) {
        fseek(f, 0, SEEK_END); long sz = ftell(f); fseek(f, 0, SEEK_SET);
        buf = h_alloc((size_t)sz);
        if (fread(buf, 1, (size_t)sz, f) != (size_t)sz) { free(buf); buf = NULL; }
        *out_size = (size_t)sz; fclose(f);
    }
    unlink(path);
    return buf;
}
/* parse the footer, put the statistics into ColumnMetaData.statistics, re-serialise, fix the length */
static uint8_t* rg_patch_footer(const rg_case* c, const uint8_t* buf, size_t size, size_t* out_size) {
    if (size < 12) return NULL;
    uint32_t fl; memcpy(&fl, buf + size - 8, 4);
    if ((size_t)fl > size - 12) return NULL;
    const uint8_t* footer = buf + size - 8 - fl;
    carquet_arena_t arena; if (carquet_arena_init(&arena) != CARQUET_OK) return NULL;
    parquet_file_metadata_t md; carquet_error_t err = CARQUET_ERROR_INIT;
    uint8_t* out = NULL;
    if (parquet_parse_file_metadata(footer, fl, &arena, &md, &err) == CARQUET_OK && md.num_row_groups == c->ng) {
        for (int i = 0; i < c->ng; i++) {
            if (md.row_groups[i].num_columns < 1) continue;
            parquet_column_metadata_t* m = &md.row_groups[i].columns[0].metadata;
            const rg_stats* s = &c->g[i].st;
            if (c->t == T_I96) m->type = (carquet_physical_type_t)T_I96;
            memset(&m->statistics, 0, sizeof m->statistics);
            m->has_statistics = !s->none;
            if (s->none) continue;
            if (!s->mn.null) { m->statistics.min_value = s->mn.p; m->statistics.min_value_len = s->mn.len; }
            if (!s->mx.null) { m->statistics.max_value = s->mx.p; m->statistics.max_value_len = s->mx.len; }
            if (!s->mnd.null) { m->statistics.min_deprecated = s->mnd.p; m->statistics.min_deprecated_len = s->mnd.len; }
            if (!s->mxd.null) { m->statistics.max_deprecated = s->mxd.p; m->statistics.max_deprecated_len = s->mxd.len; }
            m->statistics.has_null_count = s->has_nc != 0; m->statistics.null_count = s->nc;
        }
        if (c->t == T_I96 && md.num_schema_elements >= 2) { md.schema[1].type = (carquet_physical_type_t)T_I96; md.schema[1].type_length = 0; }
        /* every other case: the column sits inside a REQUIRED group (root, g, c): levels stay 0, the page bytes stay valid,
         * column 0 is still the only leaf - but its schema element is number 2, not "column + 1" */
        if (((c->ng + c->op + c->maxidx) & 1) && md.num_schema_elements == 2) {
            parquet_schema_element_t* ne = (parquet_schema_element_t*)carquet_arena_calloc(&arena, 3, sizeof *ne);
            if (ne) {
                ne[0] = md.schema[0]; ne[0].num_children = 1;
                memset(&ne[1], 0, sizeof ne[1]); ne[1].name = (char*)"g"; ne[1].has_repetition = true;
                ne[1].repetition_type = CARQUET_REPETITION_REQUIRED; ne[1].num_children = 1;
                ne[2] = md.schema[1];
                md.schema = ne; md.num_schema_elements = 3;
            }
        }
        carquet_buffer_t ob; carquet_buffer_init(&ob);
        if (parquet_write_file_metadata(&md, &ob, &err) == CARQUET_OK) {
            size_t body = size - 8 - fl;
            *out_size = body + ob.size + 8;
            out = h_alloc(*out_size);
            memcpy(out, buf, body); memcpy(out + body, ob.data, ob.size);
            uint32_t nl = (uint32_t)ob.size; memcpy(out + body + ob.size, &nl, 4);
            memcpy(out + body + ob.size + 4, "PAR1", 4);
        }
        carquet_buffer_destroy(&ob);
    }
    carquet_arena_destroy(&arena);
    return out;
}

static void rg_exec(hctx* h, void* arg) {
    const rg_case* c = (const rg_case*)arg;
    size_t sz0 = 0, sz = 0;
    uint8_t* raw = rg_write_file(c, &sz0);
    uint8_t* file = raw ? rg_patch_footer(c, raw, sz0, &sz) : NULL;
    free(raw);
    carquet_error_t err = CARQUET_ERROR_INIT;
    carquet_reader_t* rd = file ? carquet_reader_open_buffer(file, sz, NULL, &err) : NULL;
    if (!rd || carquet_reader_num_row_groups(rd) != c->ng) {
        fprintf(h->out, " | setup=0 triv=1\n");
        if (rd) carquet_reader_close(rd);
        free(file); return;
    }
    int ng = c->ng;
    int* cst = (int*)h_alloc(sizeof(int) * (size_t)ng); int* st = (int*)h_alloc(sizeof(int) * (size_t)ng);
    int* mm = (int*)h_alloc(sizeof(int) * (size_t)ng);
    carquet_column_statistics_t* cs = (carquet_column_statistics_t*)h_alloc(sizeof(*cs) * (size_t)ng);
    int sound = 1;
    for (int i = 0; i < ng; i++) {
        memset(&cs[i], 0, sizeof cs[i]);
        cst[i] = (int)carquet_reader_column_statistics(rd, i, c->col, &cs[i]);
        bool m = false;
        st[i] = (int)carquet_reader_row_group_matches(rd, i, c->col, (carquet_compare_op_t)c->op, c->probe.p, c->probe.len, &m);
        mm[i] = m;
        if (st[i]) n_rg_err++; else { n_rg_mm[m ? 1 : 0]++; if (cst[i] == 0 && !cs[i].has_min_max) n_rg_absent++; }
        if (cst[i] == 0 && cs[i].has_min_max && c->col == 0) {
            val_t lo, hi; lo.p = (uint8_t*)cs[i].min_value; lo.len = cs[i].min_value_size; lo.null = 0;
            hi.p = (uint8_t*)cs[i].max_value; hi.len = cs[i].max_value_size; hi.null = 0;
            int w = type_width(c->t, c->tl);
            int wf = (c->t == T_BA) || (lo.len == w && hi.len == w);
            int any = 0; for (int k = 0; k < c->g[i].n; k++) any |= sat_v(c->t, c->op, c->g[i].rows[k], c->probe);
            if (wf && true_bounds(c->t, &lo, &hi, c->g[i].rows, c->g[i].n) && any && !m) sound = 0;
        } else if (c->col == 0) {
            int any = 0; for (int k = 0; k < c->g[i].n; k++) any |= sat_v(c->t, c->op, c->g[i].rows[k], c->probe);
            if (any && !m) sound = 0;      /* absent statistics must mean "might match" */
        }
    }
    bool om1 = false, om2 = false;
    int os1 = (int)carquet_reader_row_group_matches(rd, -1, c->col, (carquet_compare_op_t)c->op, c->probe.p, c->probe.len, &om1);
    int os2 = (int)carquet_reader_row_group_matches(rd, ng, c->col, (carquet_compare_op_t)c->op, c->probe.p, c->probe.len, &om2);
    int nidx = c->maxidx > 0 ? c->maxidx : 1;
    int32_t* idx = (int32_t*)h_alloc(sizeof(int32_t) * (size_t)nidx);
    int32_t fr = carquet_reader_filter_row_groups(rd, c->col, (carquet_compare_op_t)c->op, c->probe.p, c->probe.len, idx, c->maxidx);
    /* exactly the ascending list of groups that match or are undecidable, capped */
    int pf = 1, cnt = 0;
    if (c->maxidx <= 0) n_filter_neg++; else if (fr == c->maxidx) n_filter_capped++;
    if (c->maxidx <= 0) pf = fr < 0;
    else {
        for (int i = 0; i < ng && cnt < c->maxidx; i++) if (st[i] != 0 || mm[i]) { if (cnt >= fr || idx[cnt] != i) pf = 0; cnt++; }
        if (cnt != fr) pf = 0;
    }
    fprintf(h->out, " | cst=");
    for (int i = 0; i < ng; i++) fprintf(h->out, "%s%d", i ? "," : "", cst[i]);
    fprintf(h->out, " hm=");
    for (int i = 0; i < ng; i++) fprintf(h->out, "%s%d", i ? "," : "", (int)cs[i].has_min_max);
    fprintf(h->out, " mn=");
    for (int i = 0; i < ng; i++) { if (i) fputc('.', h->out); h_hex(h->out, cs[i].has_min_max ? cs[i].min_value : NULL, cs[i].has_min_max ? (size_t)cs[i].min_value_size : 0); }
    fprintf(h->out, " mx=");
    for (int i = 0; i < ng; i++) { if (i) fputc('.', h->out); h_hex(h->out, cs[i].has_min_max ? cs[i].max_value : NULL, cs[i].has_min_max ? (size_t)cs[i].max_value_size : 0); }
    fprintf(h->out, " hn=");
    for (int i = 0; i < ng; i++) fprintf(h->out, "%s%d", i ? "," : "", (int)cs[i].has_null_count);
    fprintf(h->out, " nc=");
    for (int i = 0; i < ng; i++) fprintf(h->out, "%s%lld", i ? "," : "", (long long)cs[i].null_count);
    fprintf(h->out, " nv=");
    for (int i = 0; i < ng; i++) fprintf(h->out, "%s%lld", i ? "," : "", (long long)cs[i].num_values);
    fprintf(h->out, " st=");
    for (int i = 0; i < ng; i++) fprintf(h->out, "%s%d", i ? "," : "", st[i]);
    fprintf(h->out, " mm=");
    for (int i = 0; i < ng; i++) fprintf(h->out, "%s%d", i ? "," : "", mm[i]);
    fprintf(h->out, " ost=%d,%d omm=%d,%d fr=%d fi=", os1, os2, (int)om1, (int)om2, (int)fr);
    if (fr <= 0) fputc('-', h->out);
    for (int i = 0; i < fr; i++) fprintf(h->out, "%s%d", i ? "," : "", (int)idx[i]);
    /* the same questions through the path-based readers (stdio, mmap): statuses, bounds (byte for byte - read here, so a bound
     * that points into a footer buffer released after parsing is a sanitizer report) and verdicts must be those of the
     * buffer reader above */
    int modes_agree = 1;
    { char mp[128]; snprintf(mp, sizeof mp, "/tmp/verif_rgm_%d.parquet", (int)getpid());
      FILE* mf = fopen(mp, "wb"); if (mf) { fwrite(file, 1, sz, mf); fclose(mf); }
      for (int mode = 0; mf && mode < 2; mode++) {
          carquet_reader_options_t ro; carquet_reader_options_init(&ro); ro.use_mmap = mode == 1;
          carquet_error_t e2 = CARQUET_ERROR_INIT;
          carquet_reader_t* r2 = carquet_reader_open(mp, &ro, &e2);
          if (!r2) { modes_agree = 0; continue; }
          { void* churn[8]; for (int q = 0; q < 8; q++) { churn[q] = malloc(64u << q); if (churn[q]) memset(churn[q], 0xDD, 64u << q); } for (int q = 0; q < 8; q++) free(churn[q]); }
          for (int i = 0; i < ng; i++) {
              carquet_column_statistics_t c2; memset(&c2, 0, sizeof c2);
              int s2 = (int)carquet_reader_column_statistics(r2, i, c->col, &c2);
              bool m2 = false;
              int t2 = (int)carquet_reader_row_group_matches(r2, i, c->col, (carquet_compare_op_t)c->op, c->probe.p, c->probe.len, &m2);
              if (s2 != cst[i] || t2 != st[i] || (t2 == 0 && (int)m2 != mm[i])) modes_agree = 0;
              if (s2 == 0 && cst[i] == 0) {
                  if (c2.has_min_max != cs[i].has_min_max || c2.has_null_count != cs[i].has_null_count || c2.num_values != cs[i].num_values) modes_agree = 0;
                  else if (c2.has_min_max && (c2.min_value_size != cs[i].min_value_size || c2.max_value_size != cs[i].max_value_size ||
                           (c2.min_value_size > 0 && memcmp(c2.min_value, cs[i].min_value, (size_t)c2.min_value_size) != 0) ||
                           (c2.max_value_size > 0 && memcmp(c2.max_value, cs[i].max_value, (size_t)c2.max_value_size) != 0))) modes_agree = 0;
              }
          }
          carquet_reader_close(r2);
      }
      unlink(mp); }
    fprintf(h->out, " p_sound=%d p_filter=%d p_stat_modes_agree=%d\n", sound, pf, modes_agree);
    free(idx); free(cst); free(st); free(mm); free(cs);
    carquet_reader_close(rd);
    free(file);
}
static void rg_free(rg_case* c) {
    for (int i = 0; i < c->ng; i++) {
        for (int k = 0; k < c->g[i].n; k++) v_free(&c->g[i].rows[k]);
        free(c->g[i].rows);
        v_free(&c->g[i].st.mn); v_free(&c->g[i].st.mx); v_free(&c->g[i].st.mnd); v_free(&c->g[i].st.mxd);
    }
    free(c->g); v_free(&c->probe);
}
static void do_rgm(hctx* h, rg_case* c, int risky) {
    rg_print_in(h, c); h_call(h);
    if (risky) run_forked(h, rg_exec, c); else rg_exec(h, c);
    h->n_lines++;
}
static void gen_rgm(hctx* h, int t, int tl, int risky) {
    rg_case c; memset(&c, 0, sizeof c);
    c.t = t; c.tl = tl; c.ng = 1 + (int)h_below(h, 4);
    c.g = (rg_group*)h_alloc(sizeof(rg_group) * (size_t)c.ng);
    bounded pool; memset(&pool, 0, sizeof pool); pool.t = t; pool.tl = tl; pool.smin = v_null(); pool.smax = v_null();
    for (int i = 0; i < c.ng; i++) {
        rg_group* g = &c.g[i]; memset(g, 0, sizeof *g);
        g->n = 1 + (int)h_below(h, 4);
        g->rows = (val_t*)h_alloc(sizeof(val_t) * (size_t)g->n);
        for (int k = 0; k < g->n; k++) g->rows[k] = gen_val(h, t, tl, 1);
        int imin, imax; stats_minmax(t, g->rows, g->n, &imin, &imax);
        val_t lo = h_chance(h, 1, 4) ? gen_looser(h, t, tl, g->rows[imin], 1) : v_dup(g->rows[imin]);
        val_t hi = h_chance(h, 1, 4) ? gen_looser(h, t, tl, g->rows[imax], 0) : v_dup(g->rows[imax]);
        rg_stats* s = &g->st; s->mn = v_null(); s->mx = v_null(); s->mnd = v_null(); s->mxd = v_null();
        s->has_nc = h_chance(h, 1, 2); s->nc = (long long)h_below(h, 3);
        switch ((int)h_below(h, 10)) {
        case 0: s->none = 1; break;                                            /* no statistics */
        case 1: case 2: case 3: case 4: s->mn = v_dup(lo); s->mx = v_dup(hi); break;   /* new fields */
        case 5: s->mnd = v_dup(lo); s->mxd = v_dup(hi); break;                 /* deprecated fields only */
        case 6: s->mn = v_dup(lo); s->mnd = v_dup(lo); s->mxd = v_dup(hi); break;      /* new incomplete: fall back */
        case 7: s->mx = v_dup(hi); break;                                      /* one side only: unusable */
        case 8: s->mn = v_dup(lo); s->mx = v_dup(hi);                          /* new complete, deprecated ignored */
                s->mnd = gen_val(h, t, tl, 1); s->mxd = gen_val(h, t, tl, 1); break;
        default:                                                               /* bounds of the wrong size */
            if (t == T_BA || t == T_FLBA || t == T_BOOL) { s->mn = v_dup(lo); s->mx = v_dup(hi); }
            else { s->mn = gen_bytes(h, 1 + (int)h_below(h, 3)); s->mx = v_dup(hi); }
            break;
        }
        if (i == 0) { pool.smin = v_dup(lo); pool.smax = v_dup(hi); }
        v_free(&lo); v_free(&hi);
    }
    pool.rows = c.g[h_below(h, (uint64_t)c.ng)].rows; pool.n = 0;
    { rg_group* pg = &c.g[h_below(h, (uint64_t)c.ng)]; pool.rows = pg->rows; pool.n = pg->n; }
    c.op = (int)h_below(h, 6);
    c.probe = gen_probe(h, &pool);
    v_free(&pool.smin); v_free(&pool.smax);
    c.maxidx = h_chance(h, 1, 8) ? (int)h_below(h, 3) - 1 : 1 + (int)h_below(h, 5);
    c.col = h_chance(h, 1, 12) ? (h_chance(h, 1, 2) ? -1 : 1) : 0;
    do_rgm(h, &c, risky);
    rg_free(&c);
}
/* directed: one float/double/int group with explicit bit patterns as rows and bounds */
static void gen_rgm_bits(hctx* h, int t, const uint64_t* rows, int n, uint64_t lo, uint64_t hi, int op, uint64_t probe) {
    rg_case c; memset(&c, 0, sizeof c); c.t = t; c.tl = 0; c.ng = 1;
    int w = type_width(t, 0);
    c.g = (rg_group*)h_alloc(sizeof(rg_group)); memset(c.g, 0, sizeof(rg_group));
    c.g[0].n = n; c.g[0].rows = (val_t*)h_alloc(sizeof(val_t) * (size_t)n);
    for (int k = 0; k < n; k++) c.g[0].rows[k] = v_make(&rows[k], w);
    rg_stats* s = &c.g[0].st; s->mn = v_make(&lo, w); s->mx = v_make(&hi, w); s->mnd = v_null(); s->mxd = v_null();
    c.op = op; c.probe = v_make(&probe, w); c.maxidx = 4; c.col = 0;
    do_rgm(h, &c, 0); rg_free(&c);
}

/* directed: one BYTE_ARRAY group whose bounds have different lengths, statistics placed in the
 * new fields (dep=0), the deprecated fields only (dep=1) or new-min-only + deprecated pair (dep=2: fallback) */
static void gen_rgm_ba(hctx* h, const char* const* rows, int n, const char* lo, const char* hi, int dep, int op, const char* probe) {
    rg_case c; memset(&c, 0, sizeof c); c.t = T_BA; c.tl = 0; c.ng = 1;
    c.g = (rg_group*)h_alloc(sizeof(rg_group)); memset(c.g, 0, sizeof(rg_group));
    c.g[0].n = n; c.g[0].rows = (val_t*)h_alloc(sizeof(val_t) * (size_t)n);
    for (int k = 0; k < n; k++) c.g[0].rows[k] = v_make(rows[k], (int)strlen(rows[k]));
    rg_stats* s = &c.g[0].st; s->mn = v_null(); s->mx = v_null(); s->mnd = v_null(); s->mxd = v_null();
    val_t l = v_make(lo, (int)strlen(lo)), u = v_make(hi, (int)strlen(hi));
    if (dep == 0) { s->mn = v_dup(l); s->mx = v_dup(u); }
    else if (dep == 1) { s->mnd = v_dup(l); s->mxd = v_dup(u); }
    else { s->mn = v_dup(l); s->mnd = v_dup(l); s->mxd = v_dup(u); }
    v_free(&l); v_free(&u);
    c.op = op; c.probe = v_make(probe, (int)strlen(probe)); c.maxidx = 4; c.col = 0;
    do_rgm(h, &c, 0); rg_free(&c);
}

/* the same with binary bounds of any length (a chunk whose greatest value is longer than the 256 bytes carquet's own statistics
 * builder keeps: an independent writer states it in full) */
static void gen_rgm_ba_bin(hctx* h, const uint8_t* big, int biglen, int dep, int op, const uint8_t* probe, int plen) {
    rg_case c; memset(&c, 0, sizeof c); c.t = T_BA; c.tl = 0; c.ng = 1;
    c.g = (rg_group*)h_alloc(sizeof(rg_group)); memset(c.g, 0, sizeof(rg_group));
    c.g[0].n = 2; c.g[0].rows = (val_t*)h_alloc(sizeof(val_t) * 2);
    c.g[0].rows[0] = v_make("a", 1); c.g[0].rows[1] = v_make((const char*)big, biglen);
    rg_stats* s = &c.g[0].st; s->mn = v_null(); s->mx = v_null(); s->mnd = v_null(); s->mxd = v_null();
    val_t l = v_make("a", 1), u = v_make((const char*)big, biglen);
    if (dep == 0) { s->mn = v_dup(l); s->mx = v_dup(u); }
    else if (dep == 1) { s->mnd = v_dup(l); s->mxd = v_dup(u); }
    else { s->mn = v_dup(l); s->mnd = v_dup(l); s->mxd = v_dup(u); }
    v_free(&l); v_free(&u);
    c.op = op; c.probe = v_make((const char*)probe, plen); c.maxidx = 4; c.col = 0;
    do_rgm(h, &c, 0); rg_free(&c);
}

/* ======================= generator ======================= */
static void gen_stats(hctx* h) {
    long scale = h->thorough ? 50 : 1;
    /* float comparison: every pair of special values, both widths, plus random bits */
    for (int i = 0; i < NEL(F32_POOL); i++) for (int j = 0; j < NEL(F32_POOL); j++) do_fcmp(h, 32, F32_POOL[i], F32_POOL[j]);
    for (int i = 0; i < NEL(F64_POOL); i++) for (int j = 0; j < NEL(F64_POOL); j++) do_fcmp(h, 64, F64_POOL[i], F64_POOL[j]);
    for (long i = 0; i < 300 * scale; i++) {
        uint64_t a = h_next(h), b = h_chance(h, 1, 4) ? a ^ (1ull << h_below(h, 64)) : h_next(h);
        do_fcmp(h, 32, a & 0xffffffffu, b & 0xffffffffu); do_fcmp(h, 64, a, b);
    }
    /* directed builder / page writer cases: NaN first, middle, last; zeros; infinities; denormals; extremes */
    {
        const uint64_t N = 0x7fc00000u, P5 = 0x40a00000u, M3 = 0xc0400000u, PZ = 0, MZ = 0x80000000u, PI = 0x7f800000u,
                       MI = 0xff800000u, D1 = 1, DM = 0x80000001u, SN = 0xff800001u;
        const uint64_t f[][4] = { {N, P5, M3, 0}, {P5, N, M3, 0}, {P5, M3, N, 0}, {N, N, 0, 0}, {MZ, PZ, 0, 0}, {PZ, MZ, 0, 0},
                                  {PI, MI, N, 0}, {D1, DM, PZ, 0}, {SN, P5, 0, 0}, {N, MI, PI, 0} };
        const int fn[] = { 3, 3, 3, 2, 2, 2, 3, 3, 2, 3 };
        for (int i = 0; i < NEL(fn); i++) { gen_sb_bits(h, T_F32, f[i], fn[i]); gen_pw_bits(h, T_F32, f[i], fn[i]); }
        const uint64_t dN = 0x7ff8000000000000ull, d5 = 0x4014000000000000ull, dm3 = 0xc008000000000000ull,
                       dmz = 0x8000000000000000ull, dpi = 0x7ff0000000000000ull, dmi = 0xfff0000000000000ull;
        const uint64_t d[][4] = { {dN, d5, dm3, 0}, {d5, dN, dm3, 0}, {d5, dm3, dN, 0}, {dmz, 0, 0, 0}, {0, dmz, 0, 0}, {dpi, dmi, dN, 0},
                                  {1, 0x8000000000000001ull, 0, 0} };
        const int dn[] = { 3, 3, 3, 2, 2, 3, 3 };
        for (int i = 0; i < NEL(dn); i++) { gen_sb_bits(h, T_F64, d[i], dn[i]); gen_pw_bits(h, T_F64, d[i], dn[i]); }
        const uint64_t e32[] = { 0x7fffffffu, 0x80000000u, 0xffffffffu, 0 };
        gen_sb_bits(h, T_I32, e32, 4); gen_pw_bits(h, T_I32, e32, 4);
        const uint64_t e64[] = { 0x7fffffffffffffffull, 0x8000000000000000ull, 0xffffffffffffffffull, 0 };
        gen_sb_bits(h, T_I64, e64, 4); gen_pw_bits(h, T_I64, e64, 4);
        /* byte arrays: "b" with 300 x "a"; empty; 256 / 257 boundary */
        { const int l[] = { 1, 300 }; const uint8_t c[] = { 'b', 'a' }; gen_sb_strings(h, l, c, 2); }
        { const int l[] = { 300, 1 }; const uint8_t c[] = { 'z', 'b' }; gen_sb_strings(h, l, c, 2); }
        { const int l[] = { 0, 2, 1 }; const uint8_t c[] = { 0, 'a', 'a' }; gen_sb_strings(h, l, c, 3); }
        { const int l[] = { 256, 257, 255 }; const uint8_t c[] = { 'a', 'a', 'a' }; gen_sb_strings(h, l, c, 3); }
        { const int l[] = { 257 }; const uint8_t c[] = { 'a' }; gen_sb_strings(h, l, c, 1); }
        /* reader: NaN max with a match below it (GT / GE), NaN probe with !=, all-NaN group with != */
        { /* byte-array bounds of unequal length, in every placement of the statistics fields */
          static const char* const r1[] = { "b", "zebra" }; static const char* const r2[] = { "aaaa", "b" };
          static const char* const pr[] = { "b", "a", "c", "zebra", "zebrb", "aaaa", "aaa", "" };
          for (int dep = 0; dep < 3; dep++) for (int op = 0; op < 6; op++) for (int q = 0; q < 8; q++) {
              gen_rgm_ba(h, r1, 2, "b", "zebra", dep, op, pr[q]);
              if (q % 2 == 0) gen_rgm_ba(h, r2, 2, "aaaa", "b", dep, op, pr[q]);
          } }
        { /* a greatest value of 255 / 256 / 257 / 300 bytes whose bytes around offset 255 are 0xFF, probed with itself, with its
           * 255- and 256-byte prefixes, with the prefix whose last byte is bumped, and with neighbours */
          static const int lens[] = { 255, 256, 257, 300 };
          for (int li = 0; li < 4; li++) for (int ff = 0; ff < 2; ff++) {
              uint8_t big[300]; for (int i = 0; i < 300; i++) big[i] = (uint8_t)('m' + i % 3);
              if (ff) { big[254] = 0xFF; big[255] = 0xFF; } else big[255] = 0xFF;
              int bl = lens[li];
              uint8_t pr[6][300]; int pl[6];
              memcpy(pr[0], big, (size_t)bl); pl[0] = bl;                                   /* the value itself */
              memcpy(pr[1], big, 255); pl[1] = 255;                                         /* 255-byte prefix */
              memcpy(pr[2], big, (size_t)(bl < 256 ? bl : 256)); pl[2] = bl < 256 ? bl : 256;   /* 256-byte prefix */
              memcpy(pr[3], big, 255); pr[3][254] = (uint8_t)(pr[3][254] + 1); pl[3] = 255;    /* just above every value with that prefix (wraps for 0xFF) */
              memcpy(pr[4], big, (size_t)bl); pr[4][bl - 1] = (uint8_t)(pr[4][bl - 1] - 1); pl[4] = bl;   /* just below the value */
              pr[5][0] = 'z'; pl[5] = 1;                                                    /* above everything */
              for (int dep = 0; dep < 3; dep++) for (int op = 0; op < 6; op++) for (int q = 0; q < 6; q++) {
                  if (!h->thorough && (dep + op + q + li) % 3 != 0 && !(q == 0 && (op == 0 || op == 4 || op == 5))) continue;
                  gen_rgm_ba_bin(h, big, bl, dep, op, pr[q], pl[q]);
              }
          } }
        { const uint64_t r[] = { 0x3f800000u, N }; gen_rgm_bits(h, T_F32, r, 2, 0x3f800000u, N, 4, 0);
          gen_rgm_bits(h, T_F32, r, 2, 0x3f800000u, N, 5, 0x3f800000u); gen_rgm_bits(h, T_F32, r, 2, 0x3f800000u, N, 1, 0x3f800000u); }
        { const uint64_t r[] = { P5 }; gen_rgm_bits(h, T_F32, r, 1, P5, P5, 1, N); }
        { const uint64_t r[] = { N }; gen_rgm_bits(h, T_F32, r, 1, N, N, 1, P5); }
        { const uint64_t r[] = { d5, dN }; gen_rgm_bits(h, T_F64, r, 2, d5, dN, 4, 0); gen_rgm_bits(h, T_F64, r, 2, d5, dN, 1, d5); }
        /* signed zeros and their neighbours as bounds AND probes: every ordered pair of bounds (in the float order,
         * -0.0 == +0.0) x every probe x every operator, both widths: a comparator that orders -0.0 below +0.0
         * prunes a group of zeros of one sign probed with the zero of the other sign */
        { static const uint64_t z32[] = { 0x00000000u, 0x80000000u, 0x00000001u, 0x80000001u, 0x3f800000u, 0xbf800000u };
          static const uint64_t z64[] = { 0x0ull, 0x8000000000000000ull, 0x1ull, 0x8000000000000001ull,
                                          0x3ff0000000000000ull, 0xbff0000000000000ull };
          for (int w = 0; w < 2; w++) {
              const uint64_t* z = w ? z64 : z32; int t = w ? T_F64 : T_F32;
              for (int a = 0; a < 6; a++) for (int b = 0; b < 6; b++) {
                  double da, db;
                  if (w) { memcpy(&da, &z[a], 8); memcpy(&db, &z[b], 8); }
                  else { float fa, fb; uint32_t ua = (uint32_t)z[a], ub = (uint32_t)z[b]; memcpy(&fa, &ua, 4); memcpy(&fb, &ub, 4); da = fa; db = fb; }
                  if (!(da <= db)) continue;
                  uint64_t r[2] = { z[a], z[b] };
                  for (int op = 0; op < 6; op++) for (int q = 0; q < 6; q++) gen_rgm_bits(h, t, r, 2, z[a], z[b], op, z[q]);
              }
          } }
        /* page filter: page [1,1000] against x <= 256 */
        { int32_t one = 1, th = 1000, q = 256, mid = 300;
          pm_page pg; pg.nc = 0; pg.mn = v_make(&one, 4); pg.mx = v_make(&th, 4); pg.isnull = 0;
          val_t rows[3]; rows[0] = v_make(&one, 4); rows[1] = v_make(&mid, 4); rows[2] = v_make(&th, 4);
          val_t qmin = v_null(), qmax = v_make(&q, 4);
          do_pmm(h, T_I32, 0, &pg, 1, 0, &qmin, &qmax, rows, 3);
          v_free(&pg.mn); v_free(&pg.mx); v_free(&qmax); for (int i = 0; i < 3; i++) v_free(&rows[i]); }
    }
    static const int TYPES[] = { T_BOOL, T_I32, T_I64, T_I96, T_F32, T_F64, T_BA, T_FLBA };
    static const int SAFE_TL[] = { 1, 2, 3, 4, 8, 16, 255, 256 };
    static const int FILE_TL[] = { 1, 2, 3, 16 };
    for (long i = 0; i < 60 * scale; i++)
        for (int k = 0; k < 8; k++) {
            int t = TYPES[k]; int tl = t == T_FLBA ? SAFE_TL[h_below(h, NEL(SAFE_TL))] : 0;
            gen_sb_random(h, t, tl, 0);
            gen_pw_random(h, t);
            int ftl = t == T_FLBA ? FILE_TL[h_below(h, NEL(FILE_TL))] : 0;
            gen_helpers(h, t, ftl);
            gen_pmm(h, t, ftl);
        }
    for (long i = 0; i < 40 * scale; i++)
        for (int k = 1; k < 8; k++) {
            int t = TYPES[k]; int ftl = t == T_FLBA ? FILE_TL[h_below(h, NEL(FILE_TL))] : 0;
            gen_rgm(h, t, ftl, 0);
        }
    /* calls that crash the unrepaired code run in a child: BOOLEAN pruning (4-byte read of a 1-byte
     * probe), FLBA wider than the builder's storage, FLBA with a non-positive length */
    for (long i = 0; i < 12 * scale; i++) gen_rgm(h, T_BOOL, 0, 1);
    { static const int BAD_TL[] = { 257, 264, 272, 273, 300, 0, -1 };
      for (int i = 0; i < NEL(BAD_TL); i++) for (long j = 0; j < 2 * scale; j++) gen_sb_random(h, T_FLBA, BAD_TL[i], 1); }
    fprintf(h->out, "#stat lines %ld\n", h->n_lines);
    fprintf(h->out, "#stat sb_calls_ok %ld\n#stat sb_calls_refused %ld\n#stat sb_no_min_emitted %ld\n", n_sb_ok, n_sb_refused, n_sb_nomin);
    fprintf(h->out, "#stat pw_has_stats %ld\n#stat pw_no_stats %ld\n", n_pw_has, n_pw_none);
    fprintf(h->out, "#stat compare_below %ld\n#stat compare_in_range %ld\n#stat compare_above %ld\n", n_scmp[0], n_scmp[1], n_scmp[2]);
    fprintf(h->out, "#stat overlaps_no %ld\n#stat overlaps_yes %ld\n", n_ovl[0], n_ovl[1]);
    fprintf(h->out, "#stat page_no_match %ld\n#stat page_might_match %ld\n#stat page_bad_index %ld\n", n_pmm[0], n_pmm[1], n_pmm_err);
    fprintf(h->out, "#stat rg_pruned %ld\n#stat rg_might_match %ld\n#stat rg_error %ld\n#stat rg_absent_stats %ld\n",
            n_rg_mm[0], n_rg_mm[1], n_rg_err, n_rg_absent);
    fprintf(h->out, "#stat filter_capped %ld\n#stat filter_max_nonpositive %ld\n#stat child_crashes %ld\n",
            n_filter_capped, n_filter_neg, n_crashed);
}

