/* C07: parallel reading.  Files are written with the real writer (8 columns of mixed types,
 * several row groups, several pages per chunk, one write_batch per page so that no page holds two
 * batches), then read with the real batch reader for num_threads x {fread,mmap,buffer} under
 * seeded forced schedules injected through the CARQUET_VERIF hook; every configuration's digest
 * is compared with the single-threaded, unperturbed digest of the same file/mode/batch size.
 * Also: N independent reader handles on one file from N pthreads, and cold-start races (first use
 * of the library from several threads at once) in a fresh child process (fork+exec of the
 * harness itself, selected by the environment variable VERIF_PAR_CHILD).
 *
 * Ops (inputs | outputs):
 *  par_read  fseed codec rows cols mode nt bs sched | st nb rows dg ref_st ref_nb ref_dg c_ok flen
 *                                                     nthr tr p_same_as_single
 *  par_indep fseed codec rows cols mode n nt bs sched | sts dgs ref_dg flen tr p_same_as_alone
 *  par_cold  fseed codec rows cols mode n nt bs sched kind | rc sts dgs ref_dg inits flen tr
 *                                                     p_same_as_alone
 * mode: 0 fread, 1 mmap, 2 buffer.  tr = flat list of (thread, site, object, a, b).
 */
#include "common.h"
#include <carquet/carquet.h>
#include <pthread.h>
#include <sched.h>
#include <unistd.h>
#include <sys/wait.h>
#include <sys/stat.h>
#include <errno.h>
#ifdef _OPENMP
#include <omp.h>
#endif

uint32_t carquet_crc32(const uint8_t* data, size_t length);
void carquet_dispatch_prefix_sum_i32(int32_t* values, int64_t count, int32_t initial);
void carquet_dispatch_gather_i32(const int32_t* dict, const uint32_t* indices, int64_t count, int32_t* output);

/* ------------------------------------------------------------------ hook: record + perturb */

#include "ops_par_shared.h"   /* the recorder / scheduler / thread pools are shared with ops_pardict.c */
par_ev* g_ev;
long g_nev;                   /* atomic */
static int g_record;          /* record events */
static int g_sched_on;        /* inject yields/sleeps */
int g_crit_sched;             /* also at the boundaries of `omp critical` sections (sites 7/8, raised by ops_pardict.c) */
static uint64_t g_sched_seed;
static int g_next_tid;        /* atomic */
static __thread int tl_tid = -1;
static __thread uint64_t tl_cnt;

uint64_t mix64(uint64_t z) {
    z += 0x9E3779B97F4A7C15ull;
    z = (z ^ (z >> 30)) * 0xBF58476D1CE4E5B9ull;
    z = (z ^ (z >> 27)) * 0x94D049BB133111EBull;
    return z ^ (z >> 31);
}

/* the callback the library calls (weak reference there, strong definition here) */
void carquet_verif_event(int site, const void* object, long a, long b) {
    if (!g_record && !g_sched_on) return;
    if (tl_tid < 0) tl_tid = __atomic_fetch_add(&g_next_tid, 1, __ATOMIC_SEQ_CST);
    if (site != 0 && site < 7 && g_record) {
        long i = __atomic_fetch_add(&g_nev, 1, __ATOMIC_SEQ_CST);
        if (i < PAR_EV_CAP) { g_ev[i].thread = tl_tid; g_ev[i].site = site; g_ev[i].obj = object; g_ev[i].a = a; g_ev[i].b = b; }
    }
    if (g_sched_on && (site == 0 || site == 3 || site == 4 || ((site == 7 || site == 8) && g_crit_sched))) {
        uint64_t r = mix64(g_sched_seed ^ ((uint64_t)tl_tid * 0x100000001B3ull) ^ (tl_cnt++ << 20));
        if (site == 3) { usleep(300 + (unsigned)(r % 1500)); return; }   /* keep initialisers overlapping */
        if (site >= 7) {
            /* boundary of a critical section (7: about to enter, 8: just left): the lock is NOT held here, so whoever
             * waits for it can get in -- a pure schedule point for code whose sections are really atomic */
            switch (r & 3) {
            case 0: usleep((unsigned)((r >> 8) % 60)); break;
            case 1: case 2: sched_yield(); break;
            default: break;
            }
            return;
        }
        switch (r & 7) {
        case 0: usleep((unsigned)((r >> 8) % 120)); break;
        case 1: case 2: sched_yield(); break;
        default: break;
        }
    }
}

void rec_begin(int record, int sched_on, uint64_t sched_seed) {
    if (!g_ev) g_ev = (par_ev*)malloc(sizeof(par_ev) * PAR_EV_CAP);
    __atomic_store_n(&g_nev, 0, __ATOMIC_SEQ_CST);
    g_sched_seed = sched_seed; g_sched_on = sched_on; g_record = record;
    __sync_synchronize();
}
void rec_end(void) { g_record = 0; g_sched_on = 0; __sync_synchronize(); }

/* print the recorded trace as a flat list; objects renumbered by first appearance */
void print_trace(FILE* f, const char* key) {
    long n = g_nev < PAR_EV_CAP ? g_nev : PAR_EV_CAP;
    const void* objs[64]; int nobj = 0;
    fprintf(f, " %s=", key);
    if (n == 0) { fputc('-', f); return; }
    for (long i = 0; i < n; i++) {
        int o = -1;
        for (int k = 0; k < nobj; k++) if (objs[k] == g_ev[i].obj) o = k;
        if (o < 0) { o = nobj; if (nobj < 64) objs[nobj++] = g_ev[i].obj; }
        long a = g_ev[i].a < 0 ? 999999999999L : g_ev[i].a, b = g_ev[i].b < 0 ? 999999999999L : g_ev[i].b;
        fprintf(f, "%s%d,%d,%d,%ld,%ld", i ? "," : "", g_ev[i].thread, g_ev[i].site, o + 1, a, b);
    }
}
int trace_threads(void) {
    long n = g_nev < PAR_EV_CAP ? g_nev : PAR_EV_CAP; int seen[256]; int k = 0;
    for (long i = 0; i < n; i++) { int f = 0; for (int j = 0; j < k; j++) if (seen[j] == g_ev[i].thread) f = 1; if (!f && k < 256) seen[k++] = g_ev[i].thread; }
    return k;
}

/* ------------------------------------------------------------------ test files */

#define PAR_MAXCOLS 8
static const carquet_physical_type_t col_type[PAR_MAXCOLS] = {
    CARQUET_PHYSICAL_INT32, CARQUET_PHYSICAL_INT64, CARQUET_PHYSICAL_FLOAT, CARQUET_PHYSICAL_DOUBLE,
    CARQUET_PHYSICAL_FIXED_LEN_BYTE_ARRAY, CARQUET_PHYSICAL_BOOLEAN, CARQUET_PHYSICAL_BYTE_ARRAY,
    CARQUET_PHYSICAL_INT32 };
static const int col_vsize[PAR_MAXCOLS] = { 4, 8, 4, 8, 16, 1, (int)sizeof(carquet_byte_array_t), 4 };
#define PAR_GROUP_ROWS 8192
#define PAR_PAGE_ROWS 1024
#define PAR_PAGE_SIZE 4096

uint64_t fnv(uint64_t h, const uint8_t* p, size_t n) {
    for (size_t i = 0; i < n; i++) { h ^= p[i]; h *= 0x100000001B3ull; }
    return h;
}
uint64_t fnv_u64(uint64_t h, uint64_t v) { return fnv(h, (const uint8_t*)&v, 8); }

/* value of (column c, row r) of file fseed, as raw bytes (<= 16); returns the length */
static int cell_bytes(uint64_t fseed, int c, long r, uint8_t out[16]) {
    /* every third file is low-entropy: each column cycles through 1..5 values (constant columns, short periods), so that its
     * pages are long overlapping copies for the LZ codecs - the decompressors' copy paths run in parallel too */
    if (fseed % 3 == 0) r = r % (long)(1 + (fseed / 3 + (uint64_t)c) % 5);
    uint64_t x = mix64(fseed * 1000003ull + (uint64_t)c * 7919ull + (uint64_t)r);
    switch (c) {
    case 0: case 7: { int32_t v = (int32_t)(x % 100000) - 50000 + (c == 7 ? (int32_t)r : 0); memcpy(out, &v, 4); return 4; }
    case 1: { int64_t v = (int64_t)x; memcpy(out, &v, 8); return 8; }
    case 2: { float v = (float)((int64_t)(x % 2000001) - 1000000) / 64.0f; memcpy(out, &v, 4); return 4; }
    case 3: { double v = (double)((int64_t)(x % 2000000001ull) - 1000000000) / 1024.0; memcpy(out, &v, 8); return 8; }
    case 4: { uint64_t y = mix64(x); memcpy(out, &x, 8); memcpy(out + 8, &y, 8); return 16; }
    case 5: { out[0] = (uint8_t)((x >> 17) & 1); return 1; }
    default: { int len = (int)(x % 13); uint64_t y = mix64(x); memcpy(out, &y, 8); memcpy(out + 8, &x, 8); return len; }
    }
}

typedef struct { uint64_t fseed; int codec; long rows; int cols; char path[256]; long flen;
                 uint64_t content[PAR_MAXCOLS]; int valid; } par_file;
static par_file g_file;

const char* scratch_dir(void) {
    const char* s = getenv("VERIF_SCRATCH");
    if (s && *s) return s;
    struct stat sb;
    if (stat("build", &sb) == 0 && S_ISDIR(sb.st_mode)) return "build";
    return "/tmp";
}

/* write the file with the real writer; 0 on success */
static int make_file(uint64_t fseed, int codec, long rows, int cols) {
    if (g_file.valid && g_file.fseed == fseed && g_file.codec == codec && g_file.rows == rows && g_file.cols == cols) return 0;
    if (g_file.valid) { unlink(g_file.path); g_file.valid = 0; }
    if (cols < 1 || cols > PAR_MAXCOLS || rows < 1) return 1;
    snprintf(g_file.path, sizeof g_file.path, "%s/par_%ld_%llu_%d.parquet", scratch_dir(), (long)getpid(), (unsigned long long)fseed, codec);
    carquet_error_t err = CARQUET_ERROR_INIT;
    carquet_schema_t* schema = carquet_schema_create(&err);
    if (!schema) return 2;
    for (int c = 0; c < cols; c++) {
        char name[16]; snprintf(name, sizeof name, "c%d", c);
        if (carquet_schema_add_column(schema, name, col_type[c], NULL, CARQUET_REPETITION_REQUIRED,
                                      col_type[c] == CARQUET_PHYSICAL_FIXED_LEN_BYTE_ARRAY ? 16 : 0) != CARQUET_OK) { carquet_schema_free(schema); return 3; }
    }
    /* rows >= 200000: ONE row group, ONE batch = ONE page per column (page bodies of more than a MiB: reads longer than
     * any slice size an I/O layer might cut them into); otherwise row groups of 8192 rows in pages of 1024 rows */
    int big = rows >= 200000;
    long grows = big ? rows : PAR_GROUP_ROWS, prows = big ? rows : PAR_PAGE_ROWS;
    carquet_writer_options_t wo; carquet_writer_options_init(&wo);
    wo.compression = (carquet_compression_t)codec;
    wo.page_size = big ? 256 * 1024 * 1024 : PAR_PAGE_SIZE;
    carquet_writer_t* w = carquet_writer_create(g_file.path, schema, &wo, &err);
    if (!w) { carquet_schema_free(schema); return 4; }
    for (int c = 0; c < cols; c++) g_file.content[c] = FNV0;
    int rc = 0;
    uint8_t* vals = h_alloc((size_t)grows * 16);
    uint8_t* strs = h_alloc((size_t)grows * 16);
    carquet_byte_array_t* bas = (carquet_byte_array_t*)h_alloc(sizeof(carquet_byte_array_t) * (size_t)grows);
    for (long g0 = 0; g0 < rows && !rc; g0 += grows) {
        long gn = rows - g0 < grows ? rows - g0 : grows;
        if (g0 > 0 && carquet_writer_new_row_group(w) != CARQUET_OK) { rc = 5; break; }
        for (int c = 0; c < cols && !rc; c++) {
            /* BOOLEAN and BYTE_ARRAY: one batch (= one page) per row group; others one batch per
             * PAR_PAGE_ROWS rows, each of which alone reaches page_size and closes its page */
            long step = (col_type[c] == CARQUET_PHYSICAL_BOOLEAN || col_type[c] == CARQUET_PHYSICAL_BYTE_ARRAY) ? gn : prows;
            for (long b0 = 0; b0 < gn && !rc; b0 += step) {
                long bn = gn - b0 < step ? gn - b0 : step;
                for (long i = 0; i < bn; i++) {
                    uint8_t cb[16]; int len = cell_bytes(fseed, c, g0 + b0 + i, cb);
                    if (col_type[c] == CARQUET_PHYSICAL_BYTE_ARRAY) {
                        memcpy(strs + 16 * i, cb, 16); bas[i].data = strs + 16 * i; bas[i].length = len;
                        g_file.content[c] = fnv_u64(g_file.content[c], (uint64_t)len);
                        g_file.content[c] = fnv(g_file.content[c], cb, (size_t)len);
                    } else {
                        memcpy(vals + (size_t)col_vsize[c] * i, cb, (size_t)col_vsize[c]);
                        g_file.content[c] = fnv(g_file.content[c], cb, (size_t)col_vsize[c]);
                    }
                }
                const void* src = col_type[c] == CARQUET_PHYSICAL_BYTE_ARRAY ? (const void*)bas : (const void*)vals;
                if (carquet_writer_write_batch(w, c, src, bn, NULL, NULL) != CARQUET_OK) rc = 6;
            }
        }
    }
    free(vals); free(strs); free(bas);
    if (rc) { carquet_writer_abort(w); carquet_schema_free(schema); return rc; }
    if (carquet_writer_close(w) != CARQUET_OK) { carquet_schema_free(schema); return 7; }
    carquet_schema_free(schema);
    struct stat sb;
    if (stat(g_file.path, &sb) != 0) return 8;
    g_file.flen = (long)sb.st_size;
    g_file.fseed = fseed; g_file.codec = codec; g_file.rows = rows; g_file.cols = cols; g_file.valid = 1;
    return 0;
}
static void drop_file(void) { if (g_file.valid) { unlink(g_file.path); g_file.valid = 0; } }

uint8_t* slurp(const char* path, long* n) {
    FILE* f = fopen(path, "rb"); if (!f) return NULL;
    fseek(f, 0, SEEK_END); *n = ftell(f); fseek(f, 0, SEEK_SET);
    uint8_t* p = h_alloc((size_t)*n);
    if (fread(p, 1, (size_t)*n, f) != (size_t)*n) { free(p); p = NULL; }
    fclose(f); return p;
}

/* ------------------------------------------------------------------ read everything, digest */

typedef struct { int st; long nb; long rows; uint64_t dg; uint64_t col[PAR_MAXCOLS]; } par_result;

/* st: final status of carquet_batch_reader_next (CARQUET_ERROR_END_OF_DATA when all is well),
 * -1 open failed, -2 batch reader create failed */
/* a reader handle whose open, read and close can be placed anywhere in a history of several handles (op par_life) */
typedef struct { carquet_reader_t* rd; int mode, nt, cols; long bs; } life_handle;
static void life_open(life_handle* L, const char* path, const uint8_t* buf, long buflen, int mode, int nt, long bs, int cols) {
    carquet_error_t err = CARQUET_ERROR_INIT;
    carquet_reader_options_t ro; carquet_reader_options_init(&ro);
    ro.use_mmap = (mode == 1);
    L->mode = mode; L->nt = nt; L->bs = bs; L->cols = cols;
    L->rd = mode == 2 ? carquet_reader_open_buffer(buf, (size_t)buflen, &ro, &err) : carquet_reader_open(path, &ro, &err);
}
static void life_read(life_handle* L, par_result* r);
static void life_close(life_handle* L) { if (L->rd) carquet_reader_close(L->rd); L->rd = NULL; }
static void read_all(const char* path, const uint8_t* buf, long buflen, int mode, int nt, long bs, int cols, par_result* r) {
    life_handle L; life_open(&L, path, buf, buflen, mode, nt, bs, cols);
    life_read(&L, r);
    life_close(&L);
}
static void life_read(life_handle* L, par_result* r) {
    int mode = L->mode, nt = L->nt, cols = L->cols; long bs = L->bs;
    memset(r, 0, sizeof *r); r->dg = FNV0;
    for (int c = 0; c < PAR_MAXCOLS; c++) r->col[c] = FNV0;
    carquet_error_t err = CARQUET_ERROR_INIT;
    carquet_reader_t* rd = L->rd;
    if (!rd) { r->st = -1; return; }
    carquet_batch_reader_config_t cfg; carquet_batch_reader_config_init(&cfg);
    cfg.batch_size = bs; cfg.num_threads = nt; cfg.use_mmap = (mode == 1);
    carquet_batch_reader_t* br = carquet_batch_reader_create(rd, &cfg, &err);
    if (!br) { life_close(L); r->st = -2; return; }
    for (;;) {
        carquet_row_batch_t* batch = NULL;
        carquet_status_t st = carquet_batch_reader_next(br, &batch);
        r->dg = fnv_u64(r->dg, (uint64_t)(int64_t)st);
        if (st != CARQUET_OK || !batch) { r->st = (int)st; break; }
        long nr = (long)carquet_row_batch_num_rows(batch);
        int nc = carquet_row_batch_num_columns(batch);
        r->nb++; r->rows += nr;
        r->dg = fnv_u64(r->dg, (uint64_t)nr); r->dg = fnv_u64(r->dg, (uint64_t)nc);
        for (int c = 0; c < nc && c < cols; c++) {
            const void* data = NULL; const uint8_t* bm = NULL; int64_t nv = 0;
            if (carquet_row_batch_column(batch, c, &data, &bm, &nv) != CARQUET_OK) { r->dg = fnv_u64(r->dg, 0xDEAD); continue; }
            r->dg = fnv_u64(r->dg, (uint64_t)nv);
            if (data && nv > 0) {
                if (col_type[c] == CARQUET_PHYSICAL_BYTE_ARRAY) {
                    const carquet_byte_array_t* ba = (const carquet_byte_array_t*)data;
                    for (int64_t i = 0; i < nv; i++) {
                        uint64_t len = (uint64_t)(int64_t)ba[i].length;
                        r->dg = fnv_u64(r->dg, len); r->col[c] = fnv_u64(r->col[c], len);
                        if (ba[i].length > 0 && ba[i].data) { r->dg = fnv(r->dg, ba[i].data, (size_t)ba[i].length); r->col[c] = fnv(r->col[c], ba[i].data, (size_t)ba[i].length); }
                    }
                } else {
                    size_t n = (size_t)nv * (size_t)col_vsize[c];
                    r->dg = fnv(r->dg, (const uint8_t*)data, n); r->col[c] = fnv(r->col[c], (const uint8_t*)data, n);
                }
            }
            if (bm && nv > 0) r->dg = fnv(r->dg, bm, (size_t)((nv + 7) / 8));
        }
        carquet_row_batch_free(batch);
    }
    carquet_batch_reader_free(br);
}

static int content_ok(const par_result* r, int cols) {
    for (int c = 0; c < cols; c++) if (r->col[c] != g_file.content[c]) return 0;
    return r->rows == g_file.rows;
}

/* reference = single-threaded, no perturbation; cached per (file, mode, bs) */
static struct { uint64_t fseed; int codec, mode; long bs, rows; int cols; par_result r; int valid; } g_ref;
static const par_result* reference(const uint8_t* buf, long buflen, int mode, long bs) {
    if (g_ref.valid && g_ref.fseed == g_file.fseed && g_ref.codec == g_file.codec && g_ref.mode == mode && g_ref.bs == bs &&
        g_ref.rows == g_file.rows && g_ref.cols == g_file.cols) return &g_ref.r;
    rec_end();
    read_all(g_file.path, buf, buflen, mode, 1, bs, g_file.cols, &g_ref.r);
    g_ref.fseed = g_file.fseed; g_ref.codec = g_file.codec; g_ref.mode = mode; g_ref.bs = bs; g_ref.rows = g_file.rows; g_ref.cols = g_file.cols; g_ref.valid = 1;
    return &g_ref.r;
}

static long st_ev_fread, st_ev_init, st_lines_multi, st_threads_max, st_cold_overlap;

/* ------------------------------------------------------------------ op: par_indep */

typedef struct { const uint8_t* buf; long blen; int mode, nt, cols; long bs; par_result r; pthread_barrier_t* bar; int warm_crc; } indep_arg;
static void* indep_main(void* p) {
    indep_arg* a = (indep_arg*)p;
    pthread_barrier_wait(a->bar);
    read_all(g_file.path, a->buf, a->blen, a->mode, a->nt, a->bs, a->cols, &a->r);
    return NULL;
}

/* A pool of threads that never exit.  carquet's zstd wrapper keeps one ZSTD_DCtx per thread in a
 * `__thread` pointer and never frees it, so every thread that has decompressed a ZSTD page and
 * then exits leaks ~96 KB (reported by LeakSanitizer; a finding for the leak properties, not for
 * C07).  Keeping the reader threads alive keeps this component's runs leak-clean without hiding
 * that leak from the other components of the harness binary. */
pool_thr g_ipool[2][PAR_MAXN];  /* independent readers, by num_threads class (1, >1) */
pool_thr g_rpool[8];            /* par_read: one thread per num_threads value, so that no
                                          OpenMP team ever shrinks (libgomp ends surplus workers) */
static void* pool_main(void* p) {
    pool_thr* t = (pool_thr*)p;
    for (;;) {
        pthread_mutex_lock(&t->mu);
        while (!t->has_job) pthread_cond_wait(&t->cv, &t->mu);
        pthread_mutex_unlock(&t->mu);
        t->fn(t->arg);
        pthread_mutex_lock(&t->mu);
        t->has_job = 0;
        pthread_cond_broadcast(&t->cv);
        pthread_mutex_unlock(&t->mu);
    }
    return NULL;
}
void pool_run(pool_thr* pool, int n, void* (*fn)(void*), void** args) {
    for (int i = 0; i < n; i++) {
        pool_thr* t = &pool[i];
        if (!t->started) {
            pthread_mutex_init(&t->mu, NULL); pthread_cond_init(&t->cv, NULL); t->has_job = 0;
            if (pthread_create(&t->th, NULL, pool_main, t) != 0) { fprintf(stderr, "pthread_create failed\n"); exit(3); }
            pthread_detach(t->th);
            t->started = 1;
        }
        pthread_mutex_lock(&t->mu);
        t->fn = fn; t->arg = args[i]; t->has_job = 1;
        pthread_cond_broadcast(&t->cv);
        pthread_mutex_unlock(&t->mu);
    }
    for (int i = 0; i < n; i++) {
        pool_thr* t = &pool[i];
        pthread_mutex_lock(&t->mu);
        while (t->has_job) pthread_cond_wait(&t->cv, &t->mu);
        pthread_mutex_unlock(&t->mu);
    }
}

static int run_indep(const uint8_t* buf, long blen, int mode, int n, int nt, long bs, int cols, par_result* out) {
    indep_arg args[PAR_MAXN]; void* ap[PAR_MAXN]; pthread_barrier_t bar;
    if (n > PAR_MAXN) n = PAR_MAXN;
    pthread_barrier_init(&bar, NULL, (unsigned)n);
    for (int i = 0; i < n; i++) {
        args[i].buf = buf; args[i].blen = blen; args[i].mode = mode; args[i].nt = nt; args[i].bs = bs; args[i].cols = cols; args[i].bar = &bar;
        ap[i] = &args[i];
    }
    pool_run(g_ipool[nt > 1], n, indep_main, ap);
    for (int i = 0; i < n; i++) out[i] = args[i].r;
    pthread_barrier_destroy(&bar);
    return n;
}

/* ------------------------------------------------------------------ op: par_read */

static void do_par_read(hctx* h, uint64_t fseed, int codec, long rows, int cols, int mode, int nt, long bs, uint64_t sched) {
    fprintf(h->out, "par_read fseed=%llu codec=%d rows=%ld cols=%d mode=%d nt=%d bs=%ld sched=%llu",
            (unsigned long long)fseed, codec, rows, cols, mode, nt, bs, (unsigned long long)sched);
    h_call(h);
    int mk = make_file(fseed, codec, rows, cols);
    if (mk) { fprintf(h->out, " | mk=%d triv=1\n", mk); h->n_lines++; return; }
    long blen = 0; uint8_t* buf = mode == 2 ? slurp(g_file.path, &blen) : NULL;
    const par_result* ref = reference(buf, blen, mode, bs);
    par_result r;
    rec_begin(1, sched != 0, sched);
    {
        indep_arg a; void* ap[1] = { &a }; pthread_barrier_t bar; pthread_barrier_init(&bar, NULL, 1);
        a.buf = buf; a.blen = blen; a.mode = mode; a.nt = nt; a.bs = bs; a.cols = cols; a.bar = &bar;
        int slot = nt <= 1 ? 0 : nt == 2 ? 1 : nt <= 4 ? 2 : nt <= 8 ? 3 : 4;
        pool_run(&g_rpool[slot], 1, indep_main, ap);
        pthread_barrier_destroy(&bar);
        r = a.r;
    }
    rec_end();
    int same = r.st == ref->st && r.nb == ref->nb && r.rows == ref->rows && r.dg == ref->dg;
    int nthr = trace_threads();
    fprintf(h->out, " | st=%d nb=%ld rows=%ld dg=%llu ref_st=%d ref_nb=%ld ref_dg=%llu c_ok=%d flen=%ld nthr=%d",
            r.st, r.nb, r.rows, (unsigned long long)r.dg, ref->st, ref->nb, (unsigned long long)ref->dg,
            content_ok(&r, cols), g_file.flen, nthr);
    print_trace(h->out, "tr");
    fprintf(h->out, " p_same_as_single=%d\n", same);
    h->n_lines++;
    st_ev_fread += g_nev; if (nthr > 1) st_lines_multi++; if (nthr > st_threads_max) st_threads_max = nthr;
    free(buf);
}


static void do_par_indep(hctx* h, uint64_t fseed, int codec, long rows, int cols, int mode, int n, int nt, long bs, uint64_t sched) {
    fprintf(h->out, "par_indep fseed=%llu codec=%d rows=%ld cols=%d mode=%d n=%d nt=%d bs=%ld sched=%llu",
            (unsigned long long)fseed, codec, rows, cols, mode, n, nt, bs, (unsigned long long)sched);
    h_call(h);
    int mk = make_file(fseed, codec, rows, cols);
    if (mk) { fprintf(h->out, " | mk=%d triv=1\n", mk); h->n_lines++; return; }
    long blen = 0; uint8_t* buf = mode == 2 ? slurp(g_file.path, &blen) : NULL;
    const par_result* ref = reference(buf, blen, mode, bs);
    par_result rs[PAR_MAXN];
    rec_begin(1, sched != 0, sched);
    n = run_indep(buf, blen, mode, n, nt, bs, cols, rs);
    rec_end();
    int same = 1;
    fprintf(h->out, " | sts=");
    for (int i = 0; i < n; i++) { fprintf(h->out, "%s%d", i ? "," : "", rs[i].st); if (rs[i].st != ref->st || rs[i].dg != ref->dg || rs[i].nb != ref->nb) same = 0; }
    fprintf(h->out, " dgs=");
    for (int i = 0; i < n; i++) fprintf(h->out, "%s%llu", i ? "," : "", (unsigned long long)rs[i].dg);
    fprintf(h->out, " ref_st=%d ref_dg=%llu flen=%ld", ref->st, (unsigned long long)ref->dg, g_file.flen);
    print_trace(h->out, "tr");
    fprintf(h->out, " p_same_as_alone=%d\n", same);
    h->n_lines++; st_ev_fread += g_nev; st_lines_multi++;
    free(buf);
}

/* ------------------------------------------------------------------ op: par_life */
/* Handles with overlapping lifetimes: A is opened, B is opened, A is closed, THEN B is read (and the other orders).  What
 * one handle does when it is opened or closed - descriptors, mappings, shared tables - must not reach into another handle:
 * B returns what it returns alone.  Single-threaded on purpose: the order is the schedule. */
static void do_par_life(hctx* h, uint64_t fseed, int codec, long rows, int cols, int ma, int mb, int order, long bs) {
    fprintf(h->out, "par_life fseed=%llu codec=%d rows=%ld cols=%d ma=%d mb=%d order=%d bs=%ld",
            (unsigned long long)fseed, codec, rows, cols, ma, mb, order, bs);
    h_call(h);
    int mk = make_file(fseed, codec, rows, cols);
    if (mk) { fprintf(h->out, " | mk=%d triv=1\n", mk); h->n_lines++; return; }
    long blen = 0; uint8_t* buf = slurp(g_file.path, &blen);
    par_result refa = *reference(buf, blen, ma, bs), refb = *reference(buf, blen, mb, bs);
    par_result ra, rb; memset(&ra, 0, sizeof ra); memset(&rb, 0, sizeof rb); ra.st = refa.st; ra.dg = refa.dg; ra.nb = refa.nb;
    life_handle A, B, C;
    switch (order) {
    case 0:  /* open A, open B, close A, read B */
        life_open(&A, g_file.path, buf, blen, ma, 1, bs, cols); life_open(&B, g_file.path, buf, blen, mb, 1, bs, cols);
        life_close(&A); life_read(&B, &rb); life_close(&B); break;
    case 1:  /* open A, open B, close A, open C (takes what A released), close C, read B */
        life_open(&A, g_file.path, buf, blen, ma, 1, bs, cols); life_open(&B, g_file.path, buf, blen, mb, 1, bs, cols);
        life_close(&A); life_open(&C, g_file.path, buf, blen, mb, 1, bs, cols); life_close(&C); life_read(&B, &rb); life_close(&B); break;
    case 2:  /* open A, read A, open B, close A, read B */
        life_open(&A, g_file.path, buf, blen, ma, 1, bs, cols); life_read(&A, &ra); life_open(&B, g_file.path, buf, blen, mb, 1, bs, cols);
        life_close(&A); life_read(&B, &rb); life_close(&B); break;
    default: /* open B, open A, read B half-way is not expressible here: open B, open A, close A, read B, then A again from scratch */
        life_open(&B, g_file.path, buf, blen, mb, 1, bs, cols); life_open(&A, g_file.path, buf, blen, ma, 1, bs, cols);
        life_close(&A); life_read(&B, &rb); life_close(&B);
        life_open(&A, g_file.path, buf, blen, ma, 1, bs, cols); life_read(&A, &ra); life_close(&A); break;
    }
    int same = rb.st == refb.st && rb.dg == refb.dg && rb.nb == refb.nb && ra.st == refa.st && ra.dg == refa.dg && ra.nb == refa.nb;
    fprintf(h->out, " | sta=%d stb=%d dgb=%llu ref_stb=%d ref_dgb=%llu p_same_as_alone=%d\n", ra.st, rb.st, (unsigned long long)rb.dg,
            refb.st, (unsigned long long)refb.dg, same);
    h->n_lines++;
    free(buf);
}

/* ------------------------------------------------------------------ op: par_nested */
/* Two application threads of the application's OWN `omp parallel` region, each with its own reader and batch reader asking
 * for `nt` threads: nested parallelism is off by default, so the library's inner team has ONE thread whatever num_threads
 * says.  Every column must still be read (work must be shared by the ACTUAL team size). */
#include <omp.h>
static void do_par_nested(hctx* h, uint64_t fseed, int codec, long rows, int cols, int mode, int nt, long bs) {
    fprintf(h->out, "par_nested fseed=%llu codec=%d rows=%ld cols=%d mode=%d nt=%d bs=%ld",
            (unsigned long long)fseed, codec, rows, cols, mode, nt, bs);
    h_call(h);
    int mk = make_file(fseed, codec, rows, cols);
    if (mk) { fprintf(h->out, " | mk=%d triv=1\n", mk); h->n_lines++; return; }
    long blen = 0; uint8_t* buf = mode == 2 ? slurp(g_file.path, &blen) : NULL;
    const par_result* ref = reference(buf, blen, mode, bs);
    par_result rr[2]; memset(rr, 0, sizeof rr);
    #pragma omp parallel num_threads(2)
    {
        int t = omp_get_thread_num();
        if (t < 2) read_all(g_file.path, buf, blen, mode, nt, bs, cols, &rr[t]);
    }
    int same = 1;
    for (int t = 0; t < 2; t++) if (rr[t].st != ref->st || rr[t].nb != ref->nb || rr[t].rows != ref->rows || rr[t].dg != ref->dg) same = 0;
    fprintf(h->out, " | st=%d,%d dg=%llu,%llu ref_st=%d ref_dg=%llu p_same_as_alone=%d\n", rr[0].st, rr[1].st,
            (unsigned long long)rr[0].dg, (unsigned long long)rr[1].dg, ref->st, (unsigned long long)ref->dg, same);
    h->n_lines++;
    free(buf);
}

/* ------------------------------------------------------------------ op: par_bad */
/* One column of the file is damaged (last byte of the LAST column's chunk in row group 0: its page fails the CRC test at
 * once) while the other columns are intact.  The batch reader must report the failure for every num_threads exactly as it
 * does single-threaded: a worker that finishes its own column successfully must not erase the failure another worker
 * recorded.  Only the statuses and batch counts are compared (what a failing batch holds is unspecified). */
#include "thrift/parquet_types.h"
#include "core/arena.h"
static void do_par_bad(hctx* h, uint64_t fseed, int codec, long rows, int cols, int mode, int nt, long bs, uint64_t sched) {
    fprintf(h->out, "par_bad fseed=%llu codec=%d rows=%ld cols=%d mode=%d nt=%d bs=%ld sched=%llu",
            (unsigned long long)fseed, codec, rows, cols, mode, nt, bs, (unsigned long long)sched);
    h_call(h);
    int mk = make_file(fseed, codec, rows, cols);
    if (mk) { fprintf(h->out, " | mk=%d triv=1\n", mk); h->n_lines++; return; }
    long flen = 0; uint8_t* fb = slurp(g_file.path, &flen);
    long pos = -1;
    if (fb && flen > 12) {
        uint32_t fl = (uint32_t)fb[flen - 8] | ((uint32_t)fb[flen - 7] << 8) | ((uint32_t)fb[flen - 6] << 16) | ((uint32_t)fb[flen - 5] << 24);
        carquet_arena_t arena; carquet_arena_init(&arena);
        parquet_file_metadata_t md; carquet_error_t err = CARQUET_ERROR_INIT;
        if ((long)fl + 12 <= flen && parquet_parse_file_metadata(fb + flen - 8 - fl, fl, &arena, &md, &err) == CARQUET_OK &&
            md.num_row_groups > 0 && md.row_groups[0].num_columns > 0) {
            parquet_column_metadata_t* cm = &md.row_groups[0].columns[md.row_groups[0].num_columns - 1].metadata;
            pos = (long)(cm->data_page_offset + cm->total_compressed_size - 1);
        }
        carquet_arena_destroy(&arena);
    }
    if (pos < 4 || pos >= flen) { fprintf(h->out, " | mk=9 triv=1\n"); h->n_lines++; free(fb); return; }
    fb[pos] ^= 0x5A;
    char good[256]; snprintf(good, sizeof good, "%s", g_file.path);
    char bad[300]; snprintf(bad, sizeof bad, "%s.bad", good);
    FILE* f = fopen(bad, "wb"); if (f) { if (fwrite(fb, 1, (size_t)flen, f) != (size_t)flen) { /* judged below: open fails */ } fclose(f); }
    snprintf(g_file.path, sizeof g_file.path, "%s", bad);
    g_ref.valid = 0;
    const uint8_t* buf = mode == 2 ? fb : NULL;
    par_result ref; rec_end(); read_all(g_file.path, buf, flen, mode, 1, bs, cols, &ref);
    par_result r;
    rec_begin(1, sched != 0, sched);
    {
        indep_arg a; void* ap[1] = { &a }; pthread_barrier_t bar; pthread_barrier_init(&bar, NULL, 1);
        a.buf = buf; a.blen = flen; a.mode = mode; a.nt = nt; a.bs = bs; a.cols = cols; a.bar = &bar;
        int slot = nt <= 1 ? 0 : nt == 2 ? 1 : nt <= 4 ? 2 : nt <= 8 ? 3 : 4;
        pool_run(&g_rpool[slot], 1, indep_main, ap);
        pthread_barrier_destroy(&bar);
        r = a.r;
    }
    rec_end();
    unlink(bad); snprintf(g_file.path, sizeof g_file.path, "%s", good); g_ref.valid = 0;
    fprintf(h->out, " | st=%d nb=%ld ref_st=%d ref_nb=%ld dmg=%ld p_failure_reported_as_single=%d\n",
            r.st, r.nb, ref.st, ref.nb, pos, r.st == ref.st && r.nb == ref.nb && ref.st != CARQUET_ERROR_END_OF_DATA);
    h->n_lines++;
    free(fb);
}

/* ------------------------------------------------------------------ op: par_cold (child side) */

/* kind 2: direct first use of the lazily initialised tables from n threads at once */
typedef struct { pthread_barrier_t* bar; uint64_t dg; } init_arg;
static void* init_main(void* p) {
    init_arg* a = (init_arg*)p;
    static const uint8_t check[9] = { '1','2','3','4','5','6','7','8','9' };
    pthread_barrier_wait(a->bar);
    uint64_t d = FNV0;
    d = fnv_u64(d, carquet_crc32(check, 9));
    const carquet_cpu_info_t* ci = carquet_get_cpu_info();
    (void)ci;
    int32_t ps[16]; for (int i = 0; i < 16; i++) ps[i] = i + 1;
    carquet_dispatch_prefix_sum_i32(ps, 16, 5);
    d = fnv(d, (const uint8_t*)ps, sizeof ps);
    int32_t dict[8] = { 10, 20, 30, 40, 50, 60, 70, 80 }; uint32_t idx[12] = { 7, 0, 3, 3, 1, 6, 2, 5, 4, 0, 7, 1 }; int32_t outv[12];
    carquet_dispatch_gather_i32(dict, idx, 12, outv);
    d = fnv(d, (const uint8_t*)outv, sizeof outv);
    a->dg = d;
    return NULL;
}
/* the answers the three calls must give (IEEE check value; prefix sums; gather) */
static uint64_t init_expected(void) {
    uint64_t d = FNV0;
    d = fnv_u64(d, 0xCBF43926u);
    int32_t ps[16]; int32_t acc = 5; for (int i = 0; i < 16; i++) { acc += i + 1; ps[i] = acc; }
    d = fnv(d, (const uint8_t*)ps, sizeof ps);
    int32_t dict[8] = { 10, 20, 30, 40, 50, 60, 70, 80 }; uint32_t idx[12] = { 7, 0, 3, 3, 1, 6, 2, 5, 4, 0, 7, 1 }; int32_t outv[12];
    for (int i = 0; i < 12; i++) outv[i] = dict[idx[i]];
    d = fnv(d, (const uint8_t*)outv, sizeof outv);
    return d;
}

/* runs in the freshly exec'ed child before any other carquet call of this process that touches
 * the lazily initialised tables (the writer is NOT used here: the parent wrote the file) */
static void cold_child(hctx* h, const char* spec) {
    int kind, mode, n, nt, cols; long bs, rows; unsigned long long sched; char path[256];
    if (sscanf(spec, "%d %d %d %d %ld %llu %d %ld %255s", &kind, &mode, &n, &nt, &bs, &sched, &cols, &rows, path) != 9) { fprintf(h->out, "child bad=1\n"); return; }
    if (n > PAR_MAXN) n = PAR_MAXN;
    memset(&g_file, 0, sizeof g_file);
    snprintf(g_file.path, sizeof g_file.path, "%s", path); g_file.cols = cols; g_file.rows = rows;
    long blen = 0; uint8_t* buf = mode == 2 ? slurp(path, &blen) : NULL;
    par_result rs[PAR_MAXN]; memset(rs, 0, sizeof rs);
    rec_begin(1, sched != 0, sched);
    if (kind == 0) {
        n = run_indep(buf, blen, mode, n, nt, bs, cols, rs);
    } else if (kind == 1) {
        read_all(path, buf, blen, mode, nt, bs, cols, &rs[0]); n = 1;
    } else {
        init_arg ia[PAR_MAXN]; void* ap[PAR_MAXN]; pthread_barrier_t bar; pthread_barrier_init(&bar, NULL, (unsigned)n);
        for (int i = 0; i < n; i++) { ia[i].bar = &bar; ia[i].dg = 0; ap[i] = &ia[i]; }
        pool_run(g_ipool[0], n, init_main, ap);
        for (int i = 0; i < n; i++) { rs[i].dg = ia[i].dg; rs[i].st = CARQUET_ERROR_END_OF_DATA; }
        pthread_barrier_destroy(&bar);
    }
    rec_end();
    fprintf(h->out, "child sts=");
    for (int i = 0; i < n; i++) fprintf(h->out, "%s%d", i ? "," : "", rs[i].st);
    fprintf(h->out, " dgs=");
    for (int i = 0; i < n; i++) fprintf(h->out, "%s%llu", i ? "," : "", (unsigned long long)rs[i].dg);
    print_trace(h->out, "tr");
    fprintf(h->out, "\n");
    free(buf);
}

/* parent side */
static void do_par_cold(hctx* h, uint64_t fseed, int codec, long rows, int cols, int mode, int n, int nt, long bs, uint64_t sched, int kind) {
    fprintf(h->out, "par_cold fseed=%llu codec=%d rows=%ld cols=%d mode=%d n=%d nt=%d bs=%ld sched=%llu kind=%d",
            (unsigned long long)fseed, codec, rows, cols, mode, n, nt, bs, (unsigned long long)sched, kind);
    h_call(h);
    int mk = make_file(fseed, codec, rows, cols);
    if (mk) { fprintf(h->out, " | mk=%d triv=1\n", mk); h->n_lines++; return; }
    long blen = 0; uint8_t* buf = mode == 2 ? slurp(g_file.path, &blen) : NULL;
    uint64_t ref_dg; int ref_st;
    if (kind == 2) { ref_dg = init_expected(); ref_st = CARQUET_ERROR_END_OF_DATA; }
    else { const par_result* ref = reference(buf, blen, mode, bs); ref_dg = ref->dg; ref_st = ref->st; }
    free(buf);
    char outp[300], spec[600];
    snprintf(outp, sizeof outp, "%s/par_child_%ld.out", scratch_dir(), (long)getpid());
    snprintf(spec, sizeof spec, "%d %d %d %d %ld %llu %d %ld %s", kind, mode, n, nt, bs, (unsigned long long)sched, cols, rows, g_file.path);
    fflush(NULL);
    setenv("VERIF_PAR_CHILD", spec, 1);
    pid_t pid = fork();
    if (pid == 0) {
        execl("/proc/self/exe", "harness", "par", "--seed", "0", "--tier", "quick", "--out", outp, (char*)NULL);
        _exit(127);
    }
    unsetenv("VERIF_PAR_CHILD");
    int wst = 0; while (waitpid(pid, &wst, 0) < 0 && errno == EINTR) {}
    int rc = WIFEXITED(wst) ? WEXITSTATUS(wst) : 128 + (WIFSIGNALED(wst) ? WTERMSIG(wst) : 0);
    /* parse the child's single line */
    char* line = NULL; size_t cap = 0; ssize_t got = -1;
    FILE* f = fopen(outp, "r");
    if (f) { got = getline(&line, &cap, f); fclose(f); }
    unlink(outp);
    int same = (rc == 0 && got > 0);
    char *sts = NULL, *dgs = NULL, *tr = NULL;
    if (got > 0) {
        char* save = NULL;
        for (char* t = strtok_r(line, " \n", &save); t; t = strtok_r(NULL, " \n", &save)) {
            if (!strncmp(t, "sts=", 4)) sts = t + 4; else if (!strncmp(t, "dgs=", 4)) dgs = t + 4; else if (!strncmp(t, "tr=", 3)) tr = t + 3;
        }
    }
    if (!sts || !dgs || !tr) same = 0;
    int cnt = 0, inits[4] = { 0, 0, 0, 0 };
    if (same) {
        const char* c = dgs;
        while (*c) { unsigned long long v = strtoull(c, (char**)&c, 10); cnt++; if (v != ref_dg) same = 0; if (*c == ',') c++; }
        c = sts;
        while (*c) { long v = strtol(c, (char**)&c, 10); if (v != ref_st) same = 0; if (*c == ',') c++; }
        if (cnt != (kind == 1 ? 1 : n)) same = 0;
        /* count initialiser starts per table id (site 3, a = table id) */
        if (strcmp(tr, "-")) { c = tr; long k = 0, v[5];
            while (*c) { v[k % 5] = strtol(c, (char**)&c, 10); if (*c == ',') c++; if (++k % 5 == 0 && v[1] == 3 && v[3] >= 1 && v[3] <= 3) inits[v[3]]++; } }
    }
    fprintf(h->out, " | rc=%d sts=%s dgs=%s ref_st=%d ref_dg=%llu inits=%d,%d,%d flen=%ld tr=%s p_same_as_alone=%d\n",
            rc, sts ? sts : "-", dgs ? dgs : "-", ref_st, (unsigned long long)ref_dg, inits[1], inits[2], inits[3], g_file.flen, tr ? tr : "-", same);
    h->n_lines++; st_ev_init += inits[1] + inits[2] + inits[3];
    if (inits[1] > 1 || inits[2] > 1 || inits[3] > 1) st_cold_overlap++;
    free(line);
}

/* ------------------------------------------------------------------ generator / replayer */

static void gen_par(hctx* h) {
    const char* child = getenv("VERIF_PAR_CHILD");
    if (child) { cold_child(h, child); return; }
    /* VERIF_PAR_ONLY=pthread: only the scenarios without OpenMP worker threads (independent
     * handles with num_threads=1, cold start of handles and of the lazily initialised tables) --
     * the subset ThreadSanitizer can analyse with gcc's uninstrumented libgomp */
    const char* only = getenv("VERIF_PAR_ONLY");
    int pth_only = only && !strcmp(only, "pthread");
    static const int codecs[3] = { CARQUET_COMPRESSION_UNCOMPRESSED, CARQUET_COMPRESSION_SNAPPY, CARQUET_COMPRESSION_ZSTD };
    static const int nts[5] = { 1, 2, 4, 8, 16 };
    int cols = 8;
    long rows = h->thorough ? 61440 : 24576;
    int rounds = h->thorough ? 4 : 1;
    for (int round = 0; round < rounds; round++) {
        for (int ci = 0; ci < 3; ci++) {
            uint64_t fseed = 1 + h_below(h, 1000000);
            int codec = codecs[ci];
            static const long bss[4] = { 5000, 65536, 1024, 777 };
            long bs = bss[(round + (int)h_below(h, h->thorough ? 4 : 2)) % 4];
            for (int mode = 0; mode < 3; mode++)
                for (int ti = 0; ti < (pth_only ? 1 : 5); ti++)
                    do_par_read(h, fseed, codec, rows, cols, mode, nts[ti], bs, 1 + h_below(h, 1u << 30));
            /* N independent handles on the same file */
            for (int mode = 0; mode < 3; mode++) {
                do_par_indep(h, fseed, codec, rows, cols, mode, 4 + (int)h_below(h, 5), 1, bs, 1 + h_below(h, 1u << 30));
                if (!pth_only && (h->thorough || mode == 0)) do_par_indep(h, fseed, codec, rows, cols, mode, 3, 2, bs, 1 + h_below(h, 1u << 30));
            }
            /* handles with overlapping lifetimes, every pair of modes */
            for (int ma = 0; ma < 3; ma++) for (int mb = 0; mb < 3; mb++)
                do_par_life(h, fseed, codec, rows, cols, ma, mb, (ma * 3 + mb + ci) % 4, bs);
            /* a failing column among intact ones */
            if (!pth_only) for (int ti = 1; ti < 5; ti++)
                for (int rep = 0; rep < (h->thorough ? 6 : 3); rep++)
                    do_par_bad(h, fseed, codec, rows, cols, (ci + rep) % 3, nts[ti], bs, 1 + h_below(h, 1u << 30));
            /* the library called from inside the application's own parallel region */
            if (!pth_only) do_par_nested(h, fseed, codec, rows, cols, ci % 3, 4, bs);
            /* cold start, in a fresh process each */
            do_par_cold(h, fseed, codec, rows, cols, (int)h_below(h, 3), 8, 1, bs, 1 + h_below(h, 1u << 30), 0);
            if (!pth_only) do_par_cold(h, fseed, codec, rows, cols, ci % 3, 1, 8, bs, 1 + h_below(h, 1u << 30), 1);
            if (h->thorough && !pth_only) {
                do_par_cold(h, fseed, codec, rows, cols, 0, 1, 16, bs, 1 + h_below(h, 1u << 30), 1);
                do_par_cold(h, fseed, codec, rows, cols, 1, 6, 2, bs, 1 + h_below(h, 1u << 30), 0);
            }
        }
        /* page bodies of more than a MiB, stdio mode, several threads, perturbed schedule */
        if (!pth_only) for (int ti = 1; ti < 4; ti++)
            do_par_read(h, 7 + (uint64_t)round, round % 2 ? CARQUET_COMPRESSION_SNAPPY : CARQUET_COMPRESSION_UNCOMPRESSED, 300000, 2, 0, nts[ti], 65536, 1 + h_below(h, 1u << 30));
        do_par_cold(h, 1, 0, 1024, 2, 0, 8, 1, 1024, 1 + h_below(h, 1u << 30), 2);
        do_par_cold(h, 1, 0, 1024, 2, 0, 16, 1, 1024, 1 + h_below(h, 1u << 30), 2);
    }
    drop_file();
    fprintf(h->out, "#stat events_recorded %ld\n", st_ev_fread);
    fprintf(h->out, "#stat lines_with_more_than_one_thread %ld\n", st_lines_multi);
    fprintf(h->out, "#stat max_threads_in_one_read %ld\n", st_threads_max);
    fprintf(h->out, "#stat cold_initialiser_starts %ld\n", st_ev_init);
    fprintf(h->out, "#stat cold_runs_with_overlapping_initialisers %ld\n", st_cold_overlap);
}

static int replay_par(hctx* h, const h_line* l) {
    if (strncmp(l->op, "par_", 4)) return 0;
    uint64_t fseed = (uint64_t)h_ll(h_in(l, "fseed")), sched = (uint64_t)h_ll(h_in(l, "sched"));
    int codec = (int)h_ll(h_in(l, "codec")), cols = (int)h_ll(h_in(l, "cols")), mode = (int)h_ll(h_in(l, "mode")), nt = (int)h_ll(h_in(l, "nt"));
    long rows = (long)h_ll(h_in(l, "rows")), bs = (long)h_ll(h_in(l, "bs"));
    if (!strcmp(l->op, "par_read")) { do_par_read(h, fseed, codec, rows, cols, mode, nt, bs, sched); drop_file(); return 1; }
    if (!strcmp(l->op, "par_bad")) { do_par_bad(h, fseed, codec, rows, cols, mode, nt, bs, sched); drop_file(); return 1; }
    if (!strcmp(l->op, "par_life")) { do_par_life(h, fseed, codec, rows, cols, (int)h_ll(h_in(l, "ma")), (int)h_ll(h_in(l, "mb")), (int)h_ll(h_in(l, "order")), bs); drop_file(); return 1; }
    if (!strcmp(l->op, "par_nested")) { do_par_nested(h, fseed, codec, rows, cols, mode, nt, bs); drop_file(); return 1; }
    if (!strcmp(l->op, "par_indep")) { do_par_indep(h, fseed, codec, rows, cols, mode, (int)h_ll(h_in(l, "n")), nt, bs, sched); drop_file(); return 1; }
    if (!strcmp(l->op, "par_cold")) { do_par_cold(h, fseed, codec, rows, cols, mode, (int)h_ll(h_in(l, "n")), nt, bs, sched, (int)h_ll(h_in(l, "kind"))); drop_file(); return 1; }
    return 0;
}

const h_component comp_par = { "par", gen_par, replay_par };

/* C14 in a cold process: the CRC tables are built lazily; the FIRST checksums of a process computed by several threads at
 * once must still be IEEE CRC-32 (kind 2: direct calls against the check value) and undamaged pages of a file written by
 * another process must verify (kind 0: independent verifying readers).  Lines are `par_cold` (replayed by `par`). */
static void gen_crccold(hctx* h) {
    if (getenv("VERIF_PAR_CHILD")) { gen_par(h); return; }
    int reps = h->thorough ? 24 : 6;
    for (int r = 0; r < reps; r++) {
        do_par_cold(h, 1, 0, 1024, 2, 0, r % 2 ? 16 : 8, 1, 1024, 1 + h_below(h, 1u << 30), 2);
        if (r % 3 == 0) do_par_cold(h, 1 + h_below(h, 1000000), 0, 24576, 8, (int)h_below(h, 3), 8, 1, 65536, 1 + h_below(h, 1u << 30), 0);
    }
    drop_file();
}
static int replay_none(hctx* h, const h_line* l) { (void)h; (void)l; return 0; }
const h_component comp_crccold = { "crccold", gen_crccold, replay_none };
