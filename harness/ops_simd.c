/* C15: SIMD kernels and the runtime dispatcher.
 *
 * For every kernel x {scalar fallback, sse, avx2, avx512 variants that exist, the library's
 * carquet_dispatch_* entry point}: every count x src/dst misalignment x value pattern, on
 * exact-size 64-byte-aligned-then-misaligned heap buffers whose last data byte is the last byte
 * of the allocation (ASan sees any over-read / over-write) and whose guard prefix is checked for
 * modification.  One line per input; the line carries the scalar fallback's result (`ref`/`r`),
 * the list of variants run (`vs`), and the result of every variant that differs from the scalar
 * one (`d_<variant>`).  C-side predicates: p_eq_scalar (all variants equal the scalar fallback),
 * p_guard (guard prefixes and const inputs untouched).
 *
 * Dispatcher: a private second copy of src/simd/dispatch.c is compiled into this file with its
 * public names prefixed (so that its static table, its static scalar fallbacks and its
 * "initialized" flag are reachable without touching the source); detection is the library's
 * own detect.c with the CARQUET_VERIF hook (environment cap + reset).  For every capability
 * mask the harness prints which kernel each table slot holds (`simd_dispatch`), then drives
 * every slot through that table (`vs=scalar,dm`).
 *
 * Coverage of the vector paths (what this file drives per kernel; the counts are re-computed at run
 * time and emitted as `simd_coverage` lines, which the driver checks to be non-zero):
 *   sweep           counts 0..67 (thorough 0..259) x 7 src/dst misalignments (thorough: all 64 for counts <= 67)
 *                   x 3 value patterns: every block width W <= 64 with count/W = 0, 1, >= 2 and every remainder;
 *   directed        counts W-1, W, W+1 around every block width and cascade boundary up to 4 x 64 bytes
 *                   (127..129, 255..257, 383, 511..513; thorough up to 2049) x misaligned starts, all kernels;
 *   match_copy      every offset class (1, 2, 4: pattern fills; 3, 5, 7: bytes; 8..15: scalar 8-byte blocks,
 *                   SSE bytes; >= 16: SSE 16-byte blocks + the single 8-byte step) x lengths 0..40 and around 48, 64, 128;
 *   gather_wide     indices with the top bit set against a dictionary window placed in a 24 / 48 GiB
 *                   MAP_NORESERVE mapping: vpgatherdd/dq sign-extend, the scalar and SSE code zero-extend
 *                   (`x_eq_scalar`: outside the slot's contract; tie to the models on both sides of 2^31).
 */
#define _GNU_SOURCE
#include "common.h"
#include <sys/mman.h>

/* ---- private copy of the dispatcher ------------------------------------------------------- */
#define carquet_simd_dispatch_init              hx_simd_dispatch_init
#define carquet_dispatch_prefix_sum_i32         hx_dispatch_prefix_sum_i32
#define carquet_dispatch_prefix_sum_i64         hx_dispatch_prefix_sum_i64
#define carquet_dispatch_gather_i32             hx_dispatch_gather_i32
#define carquet_dispatch_gather_i64             hx_dispatch_gather_i64
#define carquet_dispatch_gather_float           hx_dispatch_gather_float
#define carquet_dispatch_gather_double          hx_dispatch_gather_double
#define carquet_dispatch_byte_split_encode_float  hx_dispatch_byte_split_encode_float
#define carquet_dispatch_byte_split_decode_float  hx_dispatch_byte_split_decode_float
#define carquet_dispatch_byte_split_encode_double hx_dispatch_byte_split_encode_double
#define carquet_dispatch_byte_split_decode_double hx_dispatch_byte_split_decode_double
#define carquet_dispatch_unpack_bools           hx_dispatch_unpack_bools
#define carquet_dispatch_pack_bools             hx_dispatch_pack_bools
#define carquet_dispatch_find_run_length_i32    hx_dispatch_find_run_length_i32
#define carquet_dispatch_crc32c                 hx_dispatch_crc32c
#define carquet_dispatch_match_copy             hx_dispatch_match_copy
#define carquet_dispatch_match_length           hx_dispatch_match_length
#define carquet_dispatch_count_non_nulls        hx_dispatch_count_non_nulls
#define carquet_dispatch_build_null_bitmap      hx_dispatch_build_null_bitmap
#define carquet_dispatch_fill_def_levels        hx_dispatch_fill_def_levels
#include "simd/dispatch.c"
#undef carquet_simd_dispatch_init
#undef carquet_dispatch_prefix_sum_i32
#undef carquet_dispatch_prefix_sum_i64
#undef carquet_dispatch_gather_i32
#undef carquet_dispatch_gather_i64
#undef carquet_dispatch_gather_float
#undef carquet_dispatch_gather_double
#undef carquet_dispatch_byte_split_encode_float
#undef carquet_dispatch_byte_split_decode_float
#undef carquet_dispatch_byte_split_encode_double
#undef carquet_dispatch_byte_split_decode_double
#undef carquet_dispatch_unpack_bools
#undef carquet_dispatch_pack_bools
#undef carquet_dispatch_find_run_length_i32
#undef carquet_dispatch_crc32c
#undef carquet_dispatch_match_copy
#undef carquet_dispatch_match_length
#undef carquet_dispatch_count_non_nulls
#undef carquet_dispatch_build_null_bitmap
#undef carquet_dispatch_fill_def_levels

/* the library's own dispatch entry points (initialised once, under the host's capabilities) */
void carquet_dispatch_prefix_sum_i32(int32_t*, int64_t, int32_t);
void carquet_dispatch_prefix_sum_i64(int64_t*, int64_t, int64_t);
void carquet_dispatch_gather_i32(const int32_t*, const uint32_t*, int64_t, int32_t*);
void carquet_dispatch_gather_i64(const int64_t*, const uint32_t*, int64_t, int64_t*);
void carquet_dispatch_gather_float(const float*, const uint32_t*, int64_t, float*);
void carquet_dispatch_gather_double(const double*, const uint32_t*, int64_t, double*);
void carquet_dispatch_byte_split_encode_float(const float*, int64_t, uint8_t*);
void carquet_dispatch_byte_split_decode_float(const uint8_t*, int64_t, float*);
void carquet_dispatch_byte_split_encode_double(const double*, int64_t, uint8_t*);
void carquet_dispatch_byte_split_decode_double(const uint8_t*, int64_t, double*);
void carquet_dispatch_unpack_bools(const uint8_t*, uint8_t*, int64_t);
void carquet_dispatch_pack_bools(const uint8_t*, uint8_t*, int64_t);
int64_t carquet_dispatch_find_run_length_i32(const int32_t*, int64_t);
uint32_t carquet_dispatch_crc32c(uint32_t, const uint8_t*, size_t);
void carquet_dispatch_match_copy(uint8_t*, const uint8_t*, size_t, size_t);
size_t carquet_dispatch_match_length(const uint8_t*, const uint8_t*, const uint8_t*);
int64_t carquet_dispatch_count_non_nulls(const int16_t*, int64_t, int16_t);
void carquet_dispatch_build_null_bitmap(const int16_t*, int64_t, int16_t, uint8_t*);
void carquet_dispatch_fill_def_levels(int16_t*, int64_t, int16_t);

/* kernels that exist but are not in the table */
void carquet_avx2_byte_stream_split_encode_double(const double*, int64_t, uint8_t*);
void carquet_avx2_byte_stream_split_decode_double(const uint8_t*, int64_t, double*);
void carquet_sse_memset_small(void*, uint8_t, size_t);
void carquet_sse_memcpy_small(void*, const void*, size_t);
void carquet_avx2_memset(void*, uint8_t, size_t);
void carquet_avx2_memcpy(void*, const void*, size_t);
void carquet_avx512_memset(void*, uint8_t, size_t);
void carquet_avx512_memcpy(void*, const void*, size_t);
void carquet_sse_bitunpack32_1bit(const uint8_t*, uint32_t*);
void carquet_sse_bitunpack8_4bit(const uint8_t*, uint32_t*);
void carquet_sse_bitunpack8_8bit(const uint8_t*, uint32_t*);
void carquet_avx2_bitunpack64_1bit(const uint8_t*, uint32_t*);
void carquet_avx2_bitunpack16_4bit(const uint8_t*, uint32_t*);
void carquet_avx2_bitunpack16_8bit(const uint8_t*, uint32_t*);
void carquet_avx2_bitunpack8_16bit(const uint8_t*, uint32_t*);
void carquet_avx512_bitunpack32_8bit(const uint8_t*, uint32_t*);
void carquet_avx512_bitunpack16_16bit(const uint8_t*, uint32_t*);
void carquet_avx512_bitunpack32_4bit(const uint8_t*, uint32_t*);

/* CARQUET_VERIF hook in detect.c (weak: an un-hooked tree still links; reported below) */
extern void carquet_verif_reset_cpu_info(void) __attribute__((weak));

/* ---- harness-side scalar references for kernels that have no scalar fallback in the tree --- */
static void ref_memset(void* d, uint8_t v, size_t n) { uint8_t* p = d; for (size_t i = 0; i < n; i++) p[i] = v; }
static void ref_memcpy(void* d, const void* s, size_t n) { uint8_t* p = d; const uint8_t* q = s; for (size_t i = 0; i < n; i++) p[i] = q[i]; }
/* Parquet bit packing: value k = bits [k*w, (k+1)*w) of the little-endian bit stream */
static void ref_bitunpack(const uint8_t* in, uint32_t* out, int w, int nvals) {
    for (int k = 0; k < nvals; k++) {
        uint32_t v = 0;
        for (int b = 0; b < w; b++) { int bit = k * w + b; v |= (uint32_t)((in[bit / 8] >> (bit % 8)) & 1) << b; }
        out[k] = v;
    }
}
#define REFBU(W, N) static void ref_bu_##W##_##N(const uint8_t* i, uint32_t* o) { ref_bitunpack(i, o, W, N); }
REFBU(1, 32) REFBU(4, 8) REFBU(8, 8) REFBU(1, 64) REFBU(4, 16) REFBU(8, 16) REFBU(16, 8) REFBU(8, 32) REFBU(16, 16) REFBU(4, 32)

/* ---- kernel descriptors ------------------------------------------------------------------- */
enum { K_PSUM32, K_PSUM64, K_GATHER32, K_GATHER64, K_BSS_ENC4, K_BSS_DEC4, K_BSS_ENC8, K_BSS_DEC8,
       K_UNPACK_BOOLS, K_PACK_BOOLS, K_RUNLEN, K_CRC, K_MATCH_COPY, K_MATCH_LEN, K_COUNT_NN,
       K_NULL_BITMAP, K_FILL, K_MEMSET, K_MEMCPY, K_BITUNPACK };

typedef void (*anyfn)(void);
typedef struct { const char* vname; anyfn fn; } kvar;
typedef struct {
    const char* name; int kind; int slot;   /* slot: index in the dispatch table, -1 if none */
    int w, nvals;                           /* bit unpackers */
    kvar var[6]; int nvar;
} kdesc;

#define V(n, f) { n, (anyfn)(f) }
static const kdesc KD[] = {
  { "prefix_sum_i32", K_PSUM32, 0, 0, 0, { V("scalar", scalar_prefix_sum_i32), V("sse", carquet_sse_prefix_sum_i32), V("avx2", carquet_avx2_prefix_sum_i32), V("avx512", carquet_avx512_prefix_sum_i32), V("dispatch", carquet_dispatch_prefix_sum_i32) }, 5 },
  { "prefix_sum_i64", K_PSUM64, 1, 0, 0, { V("scalar", scalar_prefix_sum_i64), V("sse", carquet_sse_prefix_sum_i64), V("avx2", carquet_avx2_prefix_sum_i64), V("avx512", carquet_avx512_prefix_sum_i64), V("dispatch", carquet_dispatch_prefix_sum_i64) }, 5 },
  { "gather_i32", K_GATHER32, 2, 0, 0, { V("scalar", scalar_gather_i32), V("sse", carquet_sse_gather_i32), V("avx2", carquet_avx2_gather_i32), V("avx512", carquet_avx512_gather_i32), V("dispatch", carquet_dispatch_gather_i32) }, 5 },
  { "gather_i64", K_GATHER64, 3, 0, 0, { V("scalar", scalar_gather_i64), V("sse", carquet_sse_gather_i64), V("avx2", carquet_avx2_gather_i64), V("avx512", carquet_avx512_gather_i64), V("dispatch", carquet_dispatch_gather_i64) }, 5 },
  { "gather_float", K_GATHER32, 4, 0, 0, { V("scalar", scalar_gather_float), V("sse", carquet_sse_gather_float), V("avx2", carquet_avx2_gather_float), V("avx512", carquet_avx512_gather_float), V("dispatch", carquet_dispatch_gather_float) }, 5 },
  { "gather_double", K_GATHER64, 5, 0, 0, { V("scalar", scalar_gather_double), V("sse", carquet_sse_gather_double), V("avx2", carquet_avx2_gather_double), V("avx512", carquet_avx512_gather_double), V("dispatch", carquet_dispatch_gather_double) }, 5 },
  { "bss_encode_float", K_BSS_ENC4, 6, 0, 0, { V("scalar", scalar_byte_split_encode_float), V("sse", carquet_sse_byte_stream_split_encode_float), V("avx2", carquet_avx2_byte_stream_split_encode_float), V("avx512", carquet_avx512_byte_stream_split_encode_float), V("dispatch", carquet_dispatch_byte_split_encode_float) }, 5 },
  { "bss_decode_float", K_BSS_DEC4, 7, 0, 0, { V("scalar", scalar_byte_split_decode_float), V("sse", carquet_sse_byte_stream_split_decode_float), V("avx2", carquet_avx2_byte_stream_split_decode_float), V("avx512", carquet_avx512_byte_stream_split_decode_float), V("dispatch", carquet_dispatch_byte_split_decode_float) }, 5 },
  { "bss_encode_double", K_BSS_ENC8, 8, 0, 0, { V("scalar", scalar_byte_split_encode_double), V("sse", carquet_sse_byte_stream_split_encode_double), V("avx2", carquet_avx2_byte_stream_split_encode_double), V("dispatch", carquet_dispatch_byte_split_encode_double) }, 4 },
  { "bss_decode_double", K_BSS_DEC8, 9, 0, 0, { V("scalar", scalar_byte_split_decode_double), V("sse", carquet_sse_byte_stream_split_decode_double), V("avx2", carquet_avx2_byte_stream_split_decode_double), V("dispatch", carquet_dispatch_byte_split_decode_double) }, 4 },
  { "unpack_bools", K_UNPACK_BOOLS, 10, 0, 0, { V("scalar", scalar_unpack_bools), V("sse", carquet_sse_unpack_bools), V("avx2", carquet_avx2_unpack_bools), V("avx512", carquet_avx512_unpack_bools), V("dispatch", carquet_dispatch_unpack_bools) }, 5 },
  { "pack_bools", K_PACK_BOOLS, 11, 0, 0, { V("scalar", scalar_pack_bools), V("sse", carquet_sse_pack_bools), V("avx2", carquet_avx2_pack_bools), V("avx512", carquet_avx512_pack_bools), V("dispatch", carquet_dispatch_pack_bools) }, 5 },
  { "find_run_length_i32", K_RUNLEN, 12, 0, 0, { V("scalar", scalar_find_run_length_i32), V("sse", carquet_sse_find_run_length_i32), V("avx2", carquet_avx2_find_run_length_i32), V("avx512", carquet_avx512_find_run_length_i32), V("dispatch", carquet_dispatch_find_run_length_i32) }, 5 },
  { "crc32c", K_CRC, 13, 0, 0, { V("scalar", scalar_crc32c), V("sse", carquet_sse_crc32c), V("dispatch", carquet_dispatch_crc32c) }, 3 },
  { "match_copy", K_MATCH_COPY, 14, 0, 0, { V("scalar", scalar_match_copy), V("sse", carquet_sse_match_copy), V("dispatch", carquet_dispatch_match_copy) }, 3 },
  { "match_length", K_MATCH_LEN, 15, 0, 0, { V("scalar", scalar_match_length), V("sse", carquet_sse_match_length), V("dispatch", carquet_dispatch_match_length) }, 3 },
  { "count_non_nulls", K_COUNT_NN, 16, 0, 0, { V("scalar", scalar_count_non_nulls), V("sse", carquet_sse_count_non_nulls), V("dispatch", carquet_dispatch_count_non_nulls) }, 3 },
  { "build_null_bitmap", K_NULL_BITMAP, 17, 0, 0, { V("scalar", scalar_build_null_bitmap), V("sse", carquet_sse_build_null_bitmap), V("dispatch", carquet_dispatch_build_null_bitmap) }, 3 },
  { "fill_def_levels", K_FILL, 18, 0, 0, { V("scalar", scalar_fill_def_levels), V("sse", carquet_sse_fill_def_levels), V("dispatch", carquet_dispatch_fill_def_levels) }, 3 },
  { "memset", K_MEMSET, -1, 0, 0, { V("scalar", ref_memset), V("sse", carquet_sse_memset_small), V("avx2", carquet_avx2_memset), V("avx512", carquet_avx512_memset) }, 4 },
  { "memcpy", K_MEMCPY, -1, 0, 0, { V("scalar", ref_memcpy), V("sse", carquet_sse_memcpy_small), V("avx2", carquet_avx2_memcpy), V("avx512", carquet_avx512_memcpy) }, 4 },
  { "bitunpack32_1bit", K_BITUNPACK, -1, 1, 32, { V("scalar", ref_bu_1_32), V("sse", carquet_sse_bitunpack32_1bit) }, 2 },
  { "bitunpack8_4bit", K_BITUNPACK, -1, 4, 8, { V("scalar", ref_bu_4_8), V("sse", carquet_sse_bitunpack8_4bit) }, 2 },
  { "bitunpack8_8bit", K_BITUNPACK, -1, 8, 8, { V("scalar", ref_bu_8_8), V("sse", carquet_sse_bitunpack8_8bit) }, 2 },
  { "bitunpack64_1bit", K_BITUNPACK, -1, 1, 64, { V("scalar", ref_bu_1_64), V("avx2", carquet_avx2_bitunpack64_1bit) }, 2 },
  { "bitunpack16_4bit", K_BITUNPACK, -1, 4, 16, { V("scalar", ref_bu_4_16), V("avx2", carquet_avx2_bitunpack16_4bit) }, 2 },
  { "bitunpack16_8bit", K_BITUNPACK, -1, 8, 16, { V("scalar", ref_bu_8_16), V("avx2", carquet_avx2_bitunpack16_8bit) }, 2 },
  { "bitunpack8_16bit", K_BITUNPACK, -1, 16, 8, { V("scalar", ref_bu_16_8), V("avx2", carquet_avx2_bitunpack8_16bit) }, 2 },
  { "bitunpack32_8bit", K_BITUNPACK, -1, 8, 32, { V("scalar", ref_bu_8_32), V("avx512", carquet_avx512_bitunpack32_8bit) }, 2 },
  { "bitunpack16_16bit", K_BITUNPACK, -1, 16, 16, { V("scalar", ref_bu_16_16), V("avx512", carquet_avx512_bitunpack16_16bit) }, 2 },
  { "bitunpack32_4bit", K_BITUNPACK, -1, 4, 32, { V("scalar", ref_bu_4_32), V("avx512", carquet_avx512_bitunpack32_4bit) }, 2 },
};
#define NKD ((int)(sizeof KD / sizeof KD[0]))

/* the dispatch table slot -> function currently installed in the private copy's table */
static anyfn hx_slot(int s) {
    switch (s) {
    case 0: return (anyfn)g_dispatch.prefix_sum_i32;   case 1: return (anyfn)g_dispatch.prefix_sum_i64;
    case 2: return (anyfn)g_dispatch.gather_i32;       case 3: return (anyfn)g_dispatch.gather_i64;
    case 4: return (anyfn)g_dispatch.gather_float;     case 5: return (anyfn)g_dispatch.gather_double;
    case 6: return (anyfn)g_dispatch.byte_split_encode_float;  case 7: return (anyfn)g_dispatch.byte_split_decode_float;
    case 8: return (anyfn)g_dispatch.byte_split_encode_double; case 9: return (anyfn)g_dispatch.byte_split_decode_double;
    case 10: return (anyfn)g_dispatch.unpack_bools;    case 11: return (anyfn)g_dispatch.pack_bools;
    case 12: return (anyfn)g_dispatch.find_run_length_i32;     case 13: return (anyfn)g_dispatch.crc32c;
    case 14: return (anyfn)g_dispatch.match_copy;      case 15: return (anyfn)g_dispatch.match_length;
    case 16: return (anyfn)g_dispatch.count_non_nulls; case 17: return (anyfn)g_dispatch.build_null_bitmap;
    case 18: return (anyfn)g_dispatch.fill_def_levels;
    }
    return NULL;
}
#define NSLOTS 19
_Static_assert(sizeof(carquet_simd_dispatch_t) == NSLOTS * sizeof(void*), "dispatch table gained or lost a slot");

/* the private copy's public wrappers (exercise the `if (!initialized) init()` path too) */
static const anyfn HX_WRAP[NSLOTS] = {
  (anyfn)hx_dispatch_prefix_sum_i32, (anyfn)hx_dispatch_prefix_sum_i64, (anyfn)hx_dispatch_gather_i32,
  (anyfn)hx_dispatch_gather_i64, (anyfn)hx_dispatch_gather_float, (anyfn)hx_dispatch_gather_double,
  (anyfn)hx_dispatch_byte_split_encode_float, (anyfn)hx_dispatch_byte_split_decode_float,
  (anyfn)hx_dispatch_byte_split_encode_double, (anyfn)hx_dispatch_byte_split_decode_double,
  (anyfn)hx_dispatch_unpack_bools, (anyfn)hx_dispatch_pack_bools, (anyfn)hx_dispatch_find_run_length_i32,
  (anyfn)hx_dispatch_crc32c, (anyfn)hx_dispatch_match_copy, (anyfn)hx_dispatch_match_length,
  (anyfn)hx_dispatch_count_non_nulls, (anyfn)hx_dispatch_build_null_bitmap, (anyfn)hx_dispatch_fill_def_levels };

/* name of a kernel address: searched among the variants of the slot's descriptor */
static const char* fn_name(int slot, anyfn f) {
    static const char* pre[] = { "scalar", "sse", "avx2", "avx512" };
    for (int k = 0; k < NKD; k++) if (KD[k].slot == slot)
        for (int v = 0; v < KD[k].nvar; v++)
            if (KD[k].var[v].fn == f && strcmp(KD[k].var[v].vname, "dispatch")) {
                for (int q = 0; q < 4; q++) if (!strcmp(KD[k].var[v].vname, pre[q])) return pre[q];
            }
    return "unknown";
}

/* ---- exact-size buffers -------------------------------------------------------------------- */
#define GUARD 64
typedef struct { uint8_t* blk; uint8_t* p; size_t n; size_t pre; } xbuf;
static xbuf xb_new(size_t n, unsigned mis, const uint8_t* init, int junk) {
    xbuf b; void* q = NULL;
    b.pre = GUARD + (mis & 63); b.n = n;
    if (posix_memalign(&q, 64, b.pre + n ? b.pre + n : 1)) { fprintf(stderr, "harness: oom\n"); exit(3); }
    b.blk = q; b.p = b.blk + b.pre;
    memset(b.blk, 0xA5, b.pre);
    if (init) memcpy(b.p, init, n); else memset(b.p, junk, n);
    return b;
}
static int xb_guard_ok(const xbuf* b) { for (size_t i = 0; i < b->pre; i++) if (b->blk[i] != 0xA5) return 0; return 1; }
static void xb_free(xbuf* b) { free(b->blk); }

/* ---- one case ------------------------------------------------------------------------------ */
typedef struct {
    int64_t n;                 /* element count */
    unsigned sa, da;           /* src / dst misalignment */
    int64_t s1, s2;            /* scalar args: initial / crc / max_def / value / offset */
    int junk;                  /* prefill byte of output buffers */
    uint8_t* a; size_t la;     /* first input array (bytes) */
    uint8_t* b; size_t lb;     /* second input array (bytes) */
    int dom;                   /* 1: inside the kernel's documented domain */
} kcase;

typedef struct { uint8_t* out; size_t lout; long long r; int has_r; int guard_ok; } kres;

static size_t out_len(const kdesc* d, const kcase* c) {
    switch (d->kind) {
    case K_PSUM32: case K_GATHER32: case K_BSS_ENC4: case K_BSS_DEC4: return (size_t)c->n * 4;
    case K_PSUM64: case K_GATHER64: case K_BSS_ENC8: case K_BSS_DEC8: return (size_t)c->n * 8;
    case K_UNPACK_BOOLS: case K_MEMSET: case K_MEMCPY: return (size_t)c->n;
    case K_PACK_BOOLS: case K_NULL_BITMAP: return (size_t)(c->n + 7) / 8;
    case K_MATCH_COPY: return (size_t)c->n;
    case K_FILL: return (size_t)c->n * 2;
    case K_BITUNPACK: return (size_t)d->nvals * 4;
    default: return 0;
    }
}

/* run one variant on fresh exact-size buffers */
static kres run_variant(const kdesc* d, anyfn fn, const kcase* c) {
    kres r; memset(&r, 0, sizeof r); r.guard_ok = 1;
    size_t lo = out_len(d, c);
    r.lout = lo; r.out = h_alloc(lo);
    xbuf A, B, O; int hasA = 0, hasB = 0, hasO = 0;
    switch (d->kind) {
    case K_PSUM32: case K_PSUM64: case K_FILL:
        O = xb_new(lo, c->sa, d->kind == K_FILL ? NULL : c->a, c->junk); hasO = 1;
        if (d->kind == K_PSUM32) ((prefix_sum_i32_fn)fn)((int32_t*)O.p, c->n, (int32_t)c->s1);
        else if (d->kind == K_PSUM64) ((prefix_sum_i64_fn)fn)((int64_t*)O.p, c->n, c->s1);
        else ((fill_def_levels_fn)fn)((int16_t*)O.p, c->n, (int16_t)c->s1);
        break;
    case K_GATHER32: case K_GATHER64:
        A = xb_new(c->la, c->sa, c->a, 0); B = xb_new(c->lb, c->sa, c->b, 0); O = xb_new(lo, c->da, NULL, c->junk);
        hasA = hasB = hasO = 1;
        if (d->kind == K_GATHER32) ((gather_i32_fn)fn)((const int32_t*)A.p, (const uint32_t*)B.p, c->n, (int32_t*)O.p);
        else ((gather_i64_fn)fn)((const int64_t*)A.p, (const uint32_t*)B.p, c->n, (int64_t*)O.p);
        break;
    case K_BSS_ENC4: case K_BSS_ENC8: case K_BSS_DEC4: case K_BSS_DEC8: case K_UNPACK_BOOLS: case K_PACK_BOOLS:
    case K_MEMCPY: case K_BITUNPACK:
        A = xb_new(c->la, c->sa, c->a, 0); O = xb_new(lo, c->da, NULL, c->junk); hasA = hasO = 1;
        if (d->kind == K_BSS_ENC4) ((byte_split_encode_float_fn)fn)((const float*)A.p, c->n, O.p);
        else if (d->kind == K_BSS_ENC8) ((byte_split_encode_double_fn)fn)((const double*)A.p, c->n, O.p);
        else if (d->kind == K_BSS_DEC4) ((byte_split_decode_float_fn)fn)(A.p, c->n, (float*)O.p);
        else if (d->kind == K_BSS_DEC8) ((byte_split_decode_double_fn)fn)(A.p, c->n, (double*)O.p);
        else if (d->kind == K_MEMCPY) ((memcpy_fn)fn)(O.p, A.p, (size_t)c->n);
        else if (d->kind == K_BITUNPACK) ((void (*)(const uint8_t*, uint32_t*))fn)(A.p, (uint32_t*)O.p);
        else ((unpack_bools_fn)fn)(A.p, O.p, c->n);   /* pack_bools has the same signature */
        break;
    case K_MEMSET:
        O = xb_new(lo, c->da, NULL, c->junk); hasO = 1;
        ((memset_fn)fn)(O.p, (uint8_t)c->s1, (size_t)c->n);
        break;
    case K_RUNLEN:
        A = xb_new(c->la, c->sa, c->a, 0); hasA = 1;
        r.r = ((find_run_length_i32_fn)fn)((const int32_t*)A.p, c->n); r.has_r = 1;
        break;
    case K_CRC:
        A = xb_new(c->la, c->sa, c->a, 0); hasA = 1;
        r.r = ((crc32c_fn)fn)((uint32_t)c->s1, A.p, (size_t)c->n); r.has_r = 1;
        break;
    case K_COUNT_NN:
        A = xb_new(c->la, c->sa, c->a, 0); hasA = 1;
        r.r = ((count_non_nulls_fn)fn)((const int16_t*)A.p, c->n, (int16_t)c->s1); r.has_r = 1;
        break;
    case K_NULL_BITMAP:
        A = xb_new(c->la, c->sa, c->a, 0); O = xb_new(lo, c->da, NULL, c->junk); hasA = hasO = 1;
        ((build_null_bitmap_fn)fn)((const int16_t*)A.p, c->n, (int16_t)c->s1, O.p);
        break;
    case K_MATCH_COPY: {
        /* one buffer: `offset` history bytes followed by room for n copied bytes; src = dst - offset */
        size_t off = (size_t)c->s1;
        xbuf M = xb_new(off + (size_t)c->n, c->sa, NULL, c->junk);
        memcpy(M.p, c->a, off);
        ((match_copy_fn)fn)(M.p + off, M.p, (size_t)c->n, off);
        memcpy(r.out, M.p + off, (size_t)c->n);
        if (memcmp(M.p, c->a, off) != 0 || !xb_guard_ok(&M)) r.guard_ok = 0;
        xb_free(&M);
        return r; }
    case K_MATCH_LEN: {
        /* one buffer of la bytes: match = buf, p = buf + off, limit = buf + la */
        size_t off = (size_t)c->s1;
        A = xb_new(c->la, c->sa, c->a, 0); hasA = 1;
        r.r = (long long)((match_length_fn)fn)(A.p + off, A.p, A.p + c->la); r.has_r = 1;
        break; }
    }
    if (hasO) { memcpy(r.out, O.p, lo); if (!xb_guard_ok(&O)) r.guard_ok = 0; xb_free(&O); }
    if (hasA) { if (!xb_guard_ok(&A) || memcmp(A.p, c->a, c->la)) r.guard_ok = 0; xb_free(&A); }
    if (hasB) { if (!xb_guard_ok(&B) || memcmp(B.p, c->b, c->lb)) r.guard_ok = 0; xb_free(&B); }
    return r;
}

static int res_eq(const kres* x, const kres* y) {
    if (x->has_r != y->has_r || x->lout != y->lout) return 0;
    if (x->has_r && x->r != y->r) return 0;
    return memcmp(x->out, y->out, x->lout) == 0;
}

static unsigned long g_cap = 0;   /* capability mask in force for the private table ("dm" variant) */
static int g_dm = 0;              /* 1: run variants {scalar, dm} instead of the descriptor's list */
static long st_lines[NKD], st_diff[NKD];

/* block widths (in elements of `n`) of the vector loops of each kernel kind, all variants together */
typedef struct { int kind; int es; int w[6]; } kwidths;   /* es: 8 = kernels of the 64-bit flavour, 0 = any */
static const kwidths KW[] = {
  { K_PSUM32, 0, { 4, 8, 16 } }, { K_PSUM64, 0, { 2, 4, 8 } }, { K_GATHER32, 0, { 4, 8, 16 } }, { K_GATHER64, 0, { 4, 8 } },
  { K_BSS_ENC4, 0, { 4, 8, 16 } }, { K_BSS_DEC4, 0, { 4, 8, 16 } }, { K_BSS_ENC8, 0, { 2, 4 } },
  { K_UNPACK_BOOLS, 0, { 16, 32, 64 } }, { K_PACK_BOOLS, 0, { 8, 64 } }, { K_RUNLEN, 0, { 4, 8, 16 } },
  { K_CRC, 0, { 2, 4, 8 } }, { K_MATCH_COPY, 0, { 8, 16 } }, { K_MATCH_LEN, 0, { 16 } }, { K_COUNT_NN, 0, { 8 } },
  { K_NULL_BITMAP, 0, { 8 } }, { K_FILL, 0, { 8 } }, { K_MEMSET, 0, { 16, 32, 64, 128, 256 } }, { K_MEMCPY, 0, { 16, 32, 64, 128, 256 } },
};
#define NKW ((int)(sizeof KW / sizeof KW[0]))
/* per kernel x width: lines with count = k*W exactly (k >= 1), with a remainder after >= 1 block, with >= 2 blocks */
static long cov_full[NKD][6], cov_tail[NKD][6], cov_multi[NKD][6], cov_maxn[NKD];
static unsigned char cov_mis[NKD][64][64];
/* match_copy: lines with len >= 17 per offset class */
static long cov_mc[6];
static void cov_note(int k, const kdesc* d, const kcase* c) {
    for (int q = 0; q < NKW; q++) if (KW[q].kind == d->kind)
        for (int j = 0; j < 6 && KW[q].w[j]; j++) {
            int64_t W = KW[q].w[j];
            if (c->n >= W && c->n % W == 0) cov_full[k][j]++;
            if (c->n >= W && c->n % W != 0) cov_tail[k][j]++;
            if (c->n >= 2 * W) cov_multi[k][j]++;
        }
    if (c->n > cov_maxn[k]) cov_maxn[k] = (long)c->n;
    cov_mis[k][c->sa & 63][c->da & 63] = 1;
    if (d->kind == K_MATCH_COPY && c->n >= 17) {
        int64_t o = c->s1;
        cov_mc[o == 1 ? 0 : o == 2 ? 1 : o == 4 ? 2 : o < 8 ? 3 : o < 16 ? 4 : 5]++;
    }
}

/* print the line for one case and run every variant */
static void do_case(hctx* h, const kdesc* d, const kcase* c) {
    FILE* f = h->out;
    fprintf(f, "simd_%s n=%lld sa=%u da=%u s1=%lld junk=%d dom=%d", d->name, (long long)c->n, c->sa, c->da,
            (long long)c->s1, c->junk, c->dom);
    if (g_dm) fprintf(f, " cap=%lu", g_cap);
    fprintf(f, " a="); h_hex(f, c->a, c->la);
    if (c->b) { fprintf(f, " b="); h_hex(f, c->b, c->lb); }
    h_call(h);
    kvar vars[6]; int nv = 0;
    if (g_dm) {
        vars[nv++] = d->var[0];
        vars[nv].vname = "dm"; vars[nv++].fn = HX_WRAP[d->slot];
    } else for (int i = 0; i < d->nvar; i++) vars[nv++] = d->var[i];
    kres res[6]; int all_eq = 1, guard = 1;
    for (int i = 0; i < nv; i++) {
        res[i] = run_variant(d, vars[i].fn, c);
        if (!res[i].guard_ok) guard = 0;
        if (i && !res_eq(&res[0], &res[i])) all_eq = 0;
    }
    fprintf(f, " |");
    if (res[0].has_r) fprintf(f, " r=%lld", res[0].r); else { fprintf(f, " ref="); h_hex(f, res[0].out, res[0].lout); }
    fprintf(f, " vs=");
    for (int i = 0; i < nv; i++) fprintf(f, "%s%s", i ? "," : "", vars[i].vname);
    for (int i = 1; i < nv; i++) if (!res_eq(&res[0], &res[i])) {
        if (res[i].has_r) fprintf(f, " d_%s=%lld", vars[i].vname, res[i].r);
        else { fprintf(f, " d_%s=", vars[i].vname); h_hex(f, res[i].out, res[i].lout); }
    }
    /* outside the documented domain the variants are allowed to differ: reported as x_, not p_ */
    fprintf(f, " %s_eq_scalar=%d p_guard=%d%s\n", c->dom ? "p" : "x", all_eq, guard, c->n == 0 ? " triv=1" : "");
    for (int i = 0; i < nv; i++) free(res[i].out);
    h->n_lines++; st_lines[d - KD]++; if (!all_eq) st_diff[d - KD]++;
    if (!g_dm) cov_note((int)(d - KD), d, c);
}

/* ---- value patterns ------------------------------------------------------------------------ */
/* pattern 0 random, 1 boundary values, 2 wrapping (large magnitudes / long runs) */
static void fill_ints(hctx* h, uint8_t* p, size_t n, int es, int pat) {
    static const int64_t bnd[] = { 0, 1, -1, 2, -2, INT32_MAX, INT32_MIN, INT64_MAX, INT64_MIN, 127, -128, 255, 32767, -32768, 65535 };
    for (size_t i = 0; i < n; i++) {
        int64_t v;
        if (pat == 0) v = (int64_t)h_next(h);
        else if (pat == 1) v = bnd[h_below(h, sizeof bnd / sizeof bnd[0])];
        else if (es == 4) v = (int32_t)((h_chance(h, 1, 2) ? INT32_MAX : INT32_MIN) ^ (int32_t)h_below(h, 4));
        else v = (int64_t)((h_chance(h, 1, 2) ? INT64_MAX : INT64_MIN) ^ (int64_t)h_below(h, 4));
        memcpy(p + i * es, &v, es);   /* little-endian host: low bytes */
    }
}

static const unsigned MIS7[7] = { 0, 1, 3, 7, 15, 31, 63 };
static size_t g_force_off = 0;   /* match_copy: use this offset instead of the rotating one */

static void gen_one(hctx* h, const kdesc* d, int64_t n, unsigned sa, unsigned da, int pat) {
    kcase c; memset(&c, 0, sizeof c);
    c.n = n; c.sa = sa; c.da = da; c.dom = 1;
    c.junk = pat == 0 ? 0xCD : (pat == 1 ? 0x00 : 0xFF);
    size_t N = (size_t)n;
    switch (d->kind) {
    case K_PSUM32: c.la = N * 4; c.a = h_alloc(c.la); fill_ints(h, c.a, N, 4, pat);
        c.s1 = pat == 0 ? (int32_t)h_next(h) : (pat == 1 ? 0 : INT32_MAX); break;
    case K_PSUM64: c.la = N * 8; c.a = h_alloc(c.la); fill_ints(h, c.a, N, 8, pat);
        c.s1 = pat == 0 ? (int64_t)h_next(h) : (pat == 1 ? 0 : INT64_MIN); break;
    case K_GATHER32: case K_GATHER64: {
        int es = d->kind == K_GATHER32 ? 4 : 8;
        size_t D = pat == 1 ? 1 + (size_t)h_below(h, 2) : 1 + (size_t)h_below(h, 40);
        c.la = D * es; c.a = h_alloc(c.la); fill_ints(h, c.a, D, es, 0);
        c.lb = N * 4; c.b = h_alloc(c.lb);
        for (size_t i = 0; i < N; i++) {
            uint32_t ix = pat == 2 ? (uint32_t)((i & 1) ? D - 1 : 0) : (uint32_t)h_below(h, D);
            memcpy(c.b + 4 * i, &ix, 4);
        }
        c.s1 = (int64_t)D; break; }
    case K_BSS_ENC4: case K_BSS_DEC4: c.la = N * 4; c.a = h_alloc(c.la); h_fill(h, c.a, c.la, pat == 0 ? 0 : (pat == 1 ? 4 : 3)); break;
    case K_BSS_ENC8: case K_BSS_DEC8: c.la = N * 8; c.a = h_alloc(c.la); h_fill(h, c.a, c.la, pat == 0 ? 0 : (pat == 1 ? 4 : 3)); break;
    case K_UNPACK_BOOLS: c.la = (N + 7) / 8; c.a = h_alloc(c.la); h_fill(h, c.a, c.la, pat == 0 ? 0 : (pat == 1 ? 2 : 3)); break;
    case K_PACK_BOOLS: c.la = N; c.a = h_alloc(c.la);
        for (size_t i = 0; i < N; i++) c.a[i] = pat == 1 ? 1 : (pat == 2 ? (uint8_t)(i % 3 == 0) : (uint8_t)(h_next(h) & 1));
        break;
    case K_RUNLEN: {
        c.la = N * 4; c.a = h_alloc(c.la);
        int32_t first = (int32_t)h_next(h);
        /* run of `run` copies of first, then a different value, then noise (that may repeat first) */
        size_t run = pat == 1 ? N : (pat == 2 ? (N ? 1 + (size_t)h_below(h, N) : 0) : (size_t)h_below(h, N + 1));
        for (size_t i = 0; i < N; i++) {
            int32_t v = i < run ? first : (i == run ? (int32_t)((uint32_t)first + 1u + (uint32_t)h_below(h, 3)) : (h_chance(h, 1, 2) ? first : (int32_t)h_next(h)));
            if (i == 0) v = first;
            memcpy(c.a + 4 * i, &v, 4);
        }
        break; }
    case K_CRC: c.la = N; c.a = h_alloc(c.la); h_fill(h, c.a, c.la, pat == 0 ? 0 : (pat == 1 ? 1 : 2));
        c.s1 = pat == 0 ? 0 : (pat == 1 ? (int64_t)(uint32_t)h_next(h) : 0xFFFFFFFFll); break;
    case K_MATCH_COPY: {
        /* offsets: every small one (overlapping patterns 1,2,4 have their own code), 8, 15, 16, 17, larger */
        static const size_t offs[] = { 1, 2, 3, 4, 5, 7, 8, 9, 15, 16, 17, 24, 33 };
        size_t off = g_force_off ? g_force_off : offs[(size_t)(n + pat * 5 + sa) % (sizeof offs / sizeof offs[0])];
        c.s1 = (int64_t)off; c.la = off; c.a = h_alloc(off); h_fill(h, c.a, off, 0);
        break; }
    case K_MATCH_LEN: {
        /* buffer of off + n bytes; bytes [off, off+n) are compared with [0, n); common prefix of chosen length */
        size_t off = 1 + (size_t)h_below(h, pat == 1 ? 1 : 20);
        c.s1 = (int64_t)off; c.la = off + N; c.a = h_alloc(c.la);
        h_fill(h, c.a, off, 0);
        size_t same = pat == 1 ? N : (size_t)h_below(h, N + 1);
        for (size_t i = 0; i < N; i++) c.a[off + i] = (uint8_t)(c.a[i] ^ (i < same ? 0 : (i == same ? 1 + h_below(h, 255) : (h_next(h) & 1))));
        break; }
    case K_COUNT_NN: case K_NULL_BITMAP: {
        c.la = N * 2; c.a = h_alloc(c.la);
        int16_t mx = pat == 0 ? (int16_t)(1 + h_below(h, 3)) : (pat == 1 ? 0 : (int16_t)h_next(h));
        for (size_t i = 0; i < N; i++) {
            int16_t v = pat == 2 ? (int16_t)(h_chance(h, 1, 2) ? mx : (int16_t)h_next(h)) : (int16_t)h_below(h, (uint64_t)mx + 1);
            if (pat == 1) v = (int16_t)((int)h_below(h, 3) - 1);
            memcpy(c.a + 2 * i, &v, 2);
        }
        c.s1 = mx; break; }
    case K_FILL: c.s1 = pat == 0 ? (int16_t)h_next(h) : (pat == 1 ? 0 : -1); c.la = 0; c.a = h_alloc(0); break;
    case K_MEMSET: c.s1 = (uint8_t)h_next(h); c.la = 0; c.a = h_alloc(0); c.junk = (uint8_t)~c.s1; break;
    case K_MEMCPY: c.la = N; c.a = h_alloc(N); h_fill(h, c.a, N, 0); break;
    case K_BITUNPACK: c.n = d->nvals; c.la = (size_t)d->w * d->nvals / 8; c.a = h_alloc(c.la);
        h_fill(h, c.a, c.la, pat == 0 ? 0 : (pat == 1 ? 2 : 4)); break;
    }
    do_case(h, d, &c);
    free(c.a); free(c.b);
}

/* pack_bools outside its documented domain (input bytes other than 0/1): the four variants
 * implement three different functions; recorded (x_eq_scalar), tied to the models, not a property */
static void gen_pack_offdomain(hctx* h, const kdesc* d, int64_t n) {
    kcase c; memset(&c, 0, sizeof c);
    c.n = n; c.sa = MIS7[n % 7]; c.da = MIS7[(n + 3) % 7]; c.dom = 0; c.junk = 0xCD;
    c.la = (size_t)n; c.a = h_alloc(c.la);
    for (size_t i = 0; i < c.la; i++) c.a[i] = (uint8_t)(h_chance(h, 1, 3) ? h_next(h) : h_below(h, 4));
    do_case(h, d, &c); free(c.a);
}

static void sweep(hctx* h, const kdesc* d, int64_t maxn, int all_mis) {
    if (d->kind == K_BITUNPACK) {
        for (unsigned m = 0; m < (all_mis ? 64u : 7u); m++)
            for (int pat = 0; pat < 3; pat++)
                for (int rep = 0; rep < (pat == 0 ? 4 : 1); rep++)
                    gen_one(h, d, d->nvals, all_mis ? m : MIS7[m], all_mis ? (m * 7 + 5) % 64 : MIS7[(m + 2) % 7], pat);
        return;
    }
    for (int64_t n = 0; n <= maxn; n++) {
        if (all_mis && n <= 67) {
            for (unsigned m = 0; m < 64; m++) gen_one(h, d, n, m, (unsigned)((m * 5 + n) % 64), (int)((m + n) % 3));
        } else {
            for (unsigned j = 0; j < 7; j++)
                for (int pat = 0; pat < 3; pat++)
                    gen_one(h, d, n, MIS7[j], MIS7[(j + n + pat) % 7], pat);
        }
    }
}

/* ---- dispatcher ---------------------------------------------------------------------------- */
static unsigned long cpu_bits(const carquet_cpu_info_t* c) {
    return (unsigned long)c->has_sse2 | (unsigned long)c->has_sse41 << 1 | (unsigned long)c->has_sse42 << 2 |
           (unsigned long)c->has_avx << 3 | (unsigned long)c->has_avx2 << 4 | (unsigned long)c->has_avx512f << 5 |
           (unsigned long)c->has_avx512bw << 6 | (unsigned long)c->has_avx512vl << 7 | (unsigned long)c->has_avx512vbmi << 8;
}

/* re-detect under `cap` and re-initialise the private table; prints the table */
static int do_dispatch(hctx* h, unsigned long cap) {
    char buf[32]; snprintf(buf, sizeof buf, "%lu", cap);
    fprintf(h->out, "simd_dispatch cap=%lu", cap); h_call(h);
    if (!carquet_verif_reset_cpu_info) {
        fprintf(h->out, " | hook=0\n"); h->n_lines++;
        return 0;
    }
    setenv("CARQUET_VERIF_CPU_CAP", buf, 1);
    carquet_verif_reset_cpu_info();
    g_dispatch_initialized = 0;
    memset(&g_dispatch, 0, sizeof g_dispatch);
    hx_simd_dispatch_init();
    unsigned long cpu = cpu_bits(carquet_get_cpu_info());
    fprintf(h->out, " | hook=1 cpu=%lu slots=", cpu);
    for (int s = 0; s < NSLOTS; s++) fprintf(h->out, "%s%s", s ? "," : "", fn_name(s, hx_slot(s)));
    /* the hook may only clear flags, and clears exactly those not in cap */
    fprintf(h->out, " p_cap_respected=%d\n", (cpu & ~cap) == 0);
    h->n_lines++;
    g_cap = cap;
    return 1;
}

static void restore_full_caps(void) {
    unsetenv("CARQUET_VERIF_CPU_CAP");
    if (carquet_verif_reset_cpu_info) carquet_verif_reset_cpu_info();
    g_dispatch_initialized = 0;
    (void)carquet_get_cpu_info();
}


/* ---- gathers on indices with the top bit set -------------------------------------------------
 * The dictionary pointer sits in the middle of a huge MAP_NORESERVE mapping so that both
 * dict[(uint32_t)i] (what the scalar and SSE code read) and dict[(int32_t)i] (what vpgatherdd/dq
 * read) are mapped; the element at signed element offset o holds mix(o).  Only the windows the
 * indices can reach are ever touched.  Outside the slot's contract (dictionary_count is an int32_t):
 * reported as x_eq_scalar; the driver ties every variant to its model (Impl.Simd.i32gather = sign
 * extension, loadZx = zero extension). */
static uint64_t gw_mix(int64_t o, int es) {
    uint64_t x = (uint64_t)o * 0x9E3779B97F4A7C15ull + 0x0123456789ABCDEFull;
    return es == 4 ? (uint32_t)(x >> 16) : x;
}
#define GW_K 16   /* window half-width in elements */
static void gw_fill(uint8_t* base, int es, int64_t lo, int64_t hi) {
    for (int64_t o = lo; o < hi; o++) { uint64_t v = gw_mix(o, es); memcpy(base + o * es, &v, (size_t)es); }
}
/* one line: map, fill the five windows, run every variant, print, unmap; returns 0 if the mapping failed */
static int gw_line(hctx* h, const kdesc* d, int64_t n, int dom, unsigned long host, const uint32_t* idx) {
    int es = d->kind == K_GATHER32 ? 4 : 8;
    size_t below = ((size_t)1 << 31) * (size_t)es + 65536, above = ((size_t)1 << 32) * (size_t)es + 65536;
    uint8_t* map = mmap(NULL, below + above, PROT_READ | PROT_WRITE, MAP_PRIVATE | MAP_ANONYMOUS | MAP_NORESERVE, -1, 0);
    if (map == MAP_FAILED) return 0;
    uint8_t* base = map + below;
    const int64_t P31 = (int64_t)1 << 31, P32 = (int64_t)1 << 32;
    gw_fill(base, es, 0, GW_K); gw_fill(base, es, P31 - GW_K, P31 + GW_K); gw_fill(base, es, P32 - GW_K, P32);
    gw_fill(base, es, -P31, -P31 + GW_K); gw_fill(base, es, -GW_K, 0);
    fprintf(h->out, "simd_gather_wide name=%s es=%d n=%lld dom=%d cpu=%lu idx=", d->name, es, (long long)n, dom, host);
    h_hex(h->out, (const uint8_t*)idx, (size_t)n * 4);
    h_call(h);
    fprintf(h->out, " |");
    size_t lo = (size_t)n * (size_t)es; int all_eq = 1;
    uint8_t* ref = NULL;
    for (int v = 0; v < d->nvar; v++) {
        xbuf O = xb_new(lo, MIS7[(n + v) % 7], NULL, 0xCD);
        xbuf I = xb_new((size_t)n * 4, MIS7[(n + 2 * v + 1) % 7], (const uint8_t*)idx, 0);
        if (es == 4) ((gather_i32_fn)d->var[v].fn)((const int32_t*)base, (const uint32_t*)I.p, n, (int32_t*)O.p);
        else ((gather_i64_fn)d->var[v].fn)((const int64_t*)base, (const uint32_t*)I.p, n, (int64_t*)O.p);
        fprintf(h->out, " r_%s=", d->var[v].vname); h_hex(h->out, O.p, lo);
        if (v == 0) { ref = h_alloc(lo); memcpy(ref, O.p, lo); }
        else if (memcmp(ref, O.p, lo)) all_eq = 0;
        xb_free(&O); xb_free(&I);
    }
    fprintf(h->out, " %s_eq_scalar=%d\n", dom ? "p" : "x", all_eq);
    h->n_lines++; free(ref);
    munmap(map, below + above);
    return 1;
}

static void gen_gather_wide(hctx* h, unsigned long host) {
    static const int64_t NS[] = { 1, 4, 7, 8, 9, 15, 16, 17, 24, 25, 31, 32, 33, 41 };
    const int64_t P31 = (int64_t)1 << 31, P32 = (int64_t)1 << 32;
    for (int k = 0; k < NKD; k++) {
        const kdesc* d = &KD[k];
        if (d->kind != K_GATHER32 && d->kind != K_GATHER64) continue;
        for (int dom = 1; dom >= 0; dom--)
          for (size_t ni = 0; ni < sizeof NS / sizeof NS[0]; ni++)
            for (int rep = 0; rep < (h->thorough ? 4 : 1); rep++) {
                int64_t n = NS[ni];
                uint32_t* idx = (uint32_t*)h_alloc((size_t)n * 4);
                for (int64_t i = 0; i < n; i++) {
                    uint64_t w = h_below(h, dom ? 2 : 4), o = h_below(h, GW_K);
                    /* dom=1: [0,K) and [2^31-K, 2^31): both address computations agree;
                     * dom=0: also [2^31, 2^31+K) and [2^32-K, 2^32): they differ */
                    idx[i] = w == 0 ? (uint32_t)o : w == 1 ? (uint32_t)(P31 - 1 - (int64_t)o)
                           : w == 2 ? (uint32_t)(P31 + (int64_t)o) : (uint32_t)(P32 - 1 - (int64_t)o);
                }
                if (dom == 0) idx[h_below(h, (uint64_t)n)] = (uint32_t)P31;   /* at least one with the top bit set */
                if (!gw_line(h, d, n, dom, host, idx)) { fprintf(h->out, "#stat gather_wide_skipped 1\n"); free(idx); return; }
                free(idx);
            }
    }
}

static void replay_gather_wide(hctx* h, const h_line* l) {
    const kdesc* d = NULL;
    for (int k = 0; k < NKD; k++) if (!strcmp(h_in(l, "name"), KD[k].name)) d = &KD[k];
    if (!d || (d->kind != K_GATHER32 && d->kind != K_GATHER64)) return;
    size_t li = 0; uint8_t* idx = h_unhex(h_in(l, "idx"), &li);
    restore_full_caps();   /* the `dispatch` variant runs under this host's capabilities: print those, not the recorded ones */
    gw_line(h, d, (int64_t)(li / 4), (int)h_ll(h_in(l, "dom")), cpu_bits(carquet_get_cpu_info()), (const uint32_t*)idx);
    free(idx);
}

#define B_SSE2 1ul
#define B_SSE41 2ul
#define B_SSE42 4ul
#define B_AVX 8ul
#define B_AVX2 16ul
#define B_F 32ul
#define B_BW 64ul
#define B_VL 128ul
#define B_VBMI 256ul

static void gen_simd(hctx* h) {
    /* the library's own table: initialised now, under the host's full capability set */
    restore_full_caps();
    unsigned long host = cpu_bits(carquet_get_cpu_info());
    fprintf(h->out, "#stat host_cpu_bits %lu\n", host);

    /* 1. dispatcher under capability masks (the F16 witness mask {.., avx512f} without bw/vl is one of them) */
    unsigned long quick[] = {
        0, B_SSE2 | B_SSE41 | B_SSE42, B_SSE2 | B_SSE41 | B_SSE42 | B_AVX | B_AVX2,
        B_SSE2 | B_SSE41 | B_SSE42 | B_AVX | B_AVX2 | B_F,               /* avx512f without bw/vl */
        B_SSE2 | B_SSE41 | B_SSE42 | B_AVX | B_AVX2 | B_F | B_BW | B_VL | B_VBMI,
        B_AVX2 | B_F | B_BW | B_VL,                                       /* no sse4.2 but the wider sets */
        B_SSE2 | B_SSE41 | B_SSE42 | B_AVX | B_AVX2 | B_F | B_BW,         /* avx512f+bw without vl */
        B_SSE2 | B_SSE41 | B_SSE42 | B_AVX | B_AVX2 | B_F | B_VL };       /* avx512f+vl without bw */
    int nq = (int)(sizeof quick / sizeof quick[0]);
    int hook = 1;
    if (h->thorough) {
        /* every subset of {sse42, avx2, avx512f, avx512bw, avx512vl} (2^5), other bits set */
        for (unsigned m = 0; m < 32 && hook; m++) {
            unsigned long cap = B_SSE2 | B_SSE41 | B_AVX | B_VBMI |
                ((m & 1) ? B_SSE42 : 0) | ((m & 2) ? B_AVX2 : 0) | ((m & 4) ? B_F : 0) | ((m & 8) ? B_BW : 0) | ((m & 16) ? B_VL : 0);
            hook = do_dispatch(h, cap);
        }
    }
    for (int q = 0; q < nq && hook; q++) {
        hook = do_dispatch(h, quick[q]);
        if (!hook) break;
        /* every slot through the table selected under this mask */
        g_dm = 1;
        for (int k = 0; k < NKD; k++) if (KD[k].slot >= 0)
            for (int64_t n = 0; n <= 67; n += (h->thorough ? 1 : 1 + (n > 20 ? 2 : 0)))
                gen_one(h, &KD[k], n, MIS7[(n + q) % 7], MIS7[(n + 2 * q + 1) % 7], (int)((n + q) % 3));
        g_dm = 0;
    }
    restore_full_caps();

    /* 2. every kernel x variant x count x misalignment x pattern */
    int64_t maxn = h->thorough ? 259 : 67;
    for (int k = 0; k < NKD; k++) {
        sweep(h, &KD[k], maxn, h->thorough);
        if (KD[k].kind == K_PACK_BOOLS) for (int64_t n = 1; n <= 67; n++) gen_pack_offdomain(h, &KD[k], n);
    }
    /* 2b. reduce-shaped kernels at counts where a narrow accumulator would wrap (16-bit lanes: 8 x 65536 values):
     * the input is described by a pattern, not printed */
    {
        static const int64_t big[] = { 524287, 524288, 524289, 600000, 1048576 + 5 };
        for (int bi = 0; bi < (h->thorough ? 5 : 4); bi++) for (int pat = 0; pat < 3; pat++) {
            int64_t n = big[bi];
            int16_t* lv = (int16_t*)h_alloc((size_t)n * 2);
            for (int64_t i = 0; i < n; i++) lv[i] = pat == 0 ? 1 : pat == 1 ? (int16_t)(i % 8 != 0) : (int16_t)(i % 8 == 3);
            fprintf(h->out, "simd_count_big n=%lld pat=%d", (long long)n, pat); h_call(h);
            long long rs = (long long)scalar_count_non_nulls(lv, n, 1), re = (long long)carquet_sse_count_non_nulls(lv, n, 1),
                      rd = (long long)carquet_dispatch_count_non_nulls(lv, n, 1);
            fprintf(h->out, " | scalar=%lld sse=%lld dispatch=%lld p_eq_scalar=%d\n", rs, re, rd, rs == re && rs == rd);
            h->n_lines++; free(lv);
        }
    }

    /* 2b'. the memcpy / memset helpers at sizes where an implementation might switch strategy (non-temporal stores, which
     * need an aligned destination, from a few hundred KiB on), every destination alignment class modulo 64: the data is a
     * function of (n, variant), judged against the byte loop; a fault ends the run with this line unfinished */
    {
        static const size_t bigs[] = { (256u << 10) - 1, 256u << 10, (256u << 10) + 17, (1u << 20) + 3 };
        static const int dmis[] = { 0, 16, 32, 48, 1, 31, 8 };
        for (unsigned bi = 0; bi < (h->thorough ? 4u : 3u); bi++) for (int mi = 0; mi < 7; mi++) for (int var = 1; var < 4; var++) {
            size_t n = bigs[bi]; int mis = dmis[mi];
            fprintf(h->out, "simd_mem_big n=%zu dmis=%d smis=%d var=%d", n, mis, (mi * 5) % 64, var); h_call(h);
            uint8_t* rb = NULL; size_t asz = (n + 192 + 63) / 64 * 64;
            uint8_t* sb = (uint8_t*)aligned_alloc(64, asz); uint8_t* db = (uint8_t*)aligned_alloc(64, asz);
            if (!sb || !db) { fprintf(h->out, " | skipped=1 triv=1\n"); h->n_lines++; free(sb); free(db); free(rb); continue; }
            uint8_t* sp = sb + 64 + (mi * 5) % 64; uint8_t* dp = db + 64 + mis;
            for (size_t i = 0; i < n; i++) sp[i] = (uint8_t)(i * 131u + (unsigned)var);
            memset(db, 0xA5, n + 192);
            if (var == 1) carquet_sse_memcpy_small(dp, sp, n); else if (var == 2) carquet_avx2_memcpy(dp, sp, n); else carquet_avx512_memcpy(dp, sp, n);
            int okc = memcmp(dp, sp, n) == 0;
            for (int g = 0; g < 64; g++) if (dp[-1 - g] != 0xA5 || (dp + n + g < db + n + 192 && dp[n + g] != 0xA5)) okc = 0;
            memset(db, 0xA5, n + 192);
            if (var == 1) carquet_sse_memset_small(dp, 0x3C, n); else if (var == 2) carquet_avx2_memset(dp, 0x3C, n); else carquet_avx512_memset(dp, 0x3C, n);
            int oks = 1; for (size_t i = 0; i < n; i++) if (dp[i] != 0x3C) { oks = 0; break; }
            for (int g = 0; g < 64; g++) if (dp[-1 - g] != 0xA5 || (dp + n + g < db + n + 192 && dp[n + g] != 0xA5)) oks = 0;
            fprintf(h->out, " | p_memcpy_eq_scalar=%d p_memset_eq_scalar=%d\n", okc, oks);
            h->n_lines++; free(sb); free(db); free(rb);
        }
    }

    /* 2c. directed counts around every block width and cascade boundary up to 4 x 64 bytes, misaligned starts */
    {
        static const int64_t LQ[] = { 127, 128, 129, 255, 256, 257, 383, 511, 512, 513 };
        static const int64_t LT[] = { 95, 96, 97, 191, 192, 193, 319, 320, 321, 384, 385, 447, 448, 449, 639, 640, 641,
                                      767, 768, 769, 1023, 1024, 1025, 2047, 2048, 2049 };
        static const unsigned MP[6][2] = { { 1, 63 }, { 0, 0 }, { 63, 1 }, { 31, 33 }, { 15, 17 }, { 7, 0 } };
        int nmp = h->thorough ? 6 : 2;
        for (int k = 0; k < NKD; k++) {
            if (KD[k].kind == K_BITUNPACK) continue;
            for (size_t li = 0; li < sizeof LQ / sizeof LQ[0]; li++)
                for (int m = 0; m < nmp; m++) gen_one(h, &KD[k], LQ[li], MP[m][0], MP[m][1], (int)((li + (size_t)m) % 3));
            if (h->thorough)
                for (size_t li = 0; li < sizeof LT / sizeof LT[0]; li++)
                    for (int m = 0; m < 3; m++) gen_one(h, &KD[k], LT[li], MP[m][0], MP[m][1], (int)((li + (size_t)m) % 3));
        }
    }
    /* 2d. match_copy: every offset class x lengths (the rotating choice of the sweep does not pair them all) */
    {
        static const size_t offs[] = { 1, 2, 3, 4, 5, 7, 8, 9, 15, 16, 17, 24, 33, 64 };
        static const int64_t lens[] = { 0, 1, 2, 3, 4, 5, 7, 8, 9, 15, 16, 17, 23, 24, 25, 31, 32, 33, 40, 47, 48, 49, 63, 64, 65, 127, 128, 129 };
        const kdesc* d = NULL; for (int k = 0; k < NKD; k++) if (KD[k].kind == K_MATCH_COPY) d = &KD[k];
        for (size_t oi = 0; oi < sizeof offs / sizeof offs[0]; oi++)
            for (size_t li = 0; li < sizeof lens / sizeof lens[0]; li++) {
                if (!h->thorough && lens[li] > 33 && (li + oi) % 2) continue;
                g_force_off = offs[oi];
                gen_one(h, d, lens[li], MIS7[(oi + li) % 7], 0, (int)((oi + li) % 3));
            }
        g_force_off = 0;
    }
    /* 2e. gathers with indices on both sides of 2^31 (sign- vs zero-extension of the index) */
    gen_gather_wide(h, host);
    /* 3. CRC32C check string and a long buffer (all four width levels of the hardware loop) */
    {
        const kdesc* d = NULL; for (int k = 0; k < NKD; k++) if (KD[k].kind == K_CRC) d = &KD[k];
        kcase c; memset(&c, 0, sizeof c); c.dom = 1; c.n = 9; c.la = 9; c.a = (uint8_t*)strdup("123456789"); c.junk = 0xCD;
        do_case(h, d, &c); free(c.a);
    }
    /* 4. what the run covered, per kernel and block width (checked non-zero by the driver) */
    for (int k = 0; k < NKD; k++) {
        const kwidths* kw = NULL; for (int q = 0; q < NKW; q++) if (KW[q].kind == KD[k].kind) kw = &KW[q];
        if (!kw) continue;
        long nm = 0; for (int a = 0; a < 64; a++) for (int b = 0; b < 64; b++) nm += cov_mis[k][a][b];
        fprintf(h->out, "simd_coverage name=%s widths=", KD[k].name);
        for (int j = 0; j < 6 && kw->w[j]; j++) fprintf(h->out, "%s%d", j ? "," : "", kw->w[j]);
        h_call(h);
        fprintf(h->out, " | full=");
        for (int j = 0; j < 6 && kw->w[j]; j++) fprintf(h->out, "%s%ld", j ? "," : "", cov_full[k][j]);
        fprintf(h->out, " tail=");
        for (int j = 0; j < 6 && kw->w[j]; j++) fprintf(h->out, "%s%ld", j ? "," : "", cov_tail[k][j]);
        fprintf(h->out, " multi=");
        for (int j = 0; j < 6 && kw->w[j]; j++) fprintf(h->out, "%s%ld", j ? "," : "", cov_multi[k][j]);
        fprintf(h->out, " maxn=%ld mis=%ld", cov_maxn[k], nm);
        if (KD[k].kind == K_MATCH_COPY)
            fprintf(h->out, " mc=%ld,%ld,%ld,%ld,%ld,%ld", cov_mc[0], cov_mc[1], cov_mc[2], cov_mc[3], cov_mc[4], cov_mc[5]);
        fprintf(h->out, " triv=1\n");
        h->n_lines++;
    }
    for (int k = 0; k < NKD; k++) {
        fprintf(h->out, "#stat lines_%s %ld\n", KD[k].name, st_lines[k]);
        if (st_diff[k]) fprintf(h->out, "#stat variant_differs_%s %ld\n", KD[k].name, st_diff[k]);
    }
}

/* ---- replay -------------------------------------------------------------------------------- */
static int replay_simd(hctx* h, const h_line* l) {
    if (strncmp(l->op, "simd_", 5)) return 0;
    if (!strcmp(l->op, "simd_coverage") || !strcmp(l->op, "simd_count_big") || !strcmp(l->op, "simd_mem_big")) {
        fprintf(h->out, "# %s lines summarise a whole run; re-run the generator to reproduce\n", l->op);
        return 1;
    }
    if (!strcmp(l->op, "simd_gather_wide")) { replay_gather_wide(h, l); return 1; }
    if (!strcmp(l->op, "simd_dispatch")) {
        do_dispatch(h, (unsigned long)h_ll(h_in(l, "cap")));
        restore_full_caps();
        return 1;
    }
    const kdesc* d = NULL;
    for (int k = 0; k < NKD; k++) if (!strcmp(l->op + 5, KD[k].name)) d = &KD[k];
    if (!d) return 0;
    kcase c; memset(&c, 0, sizeof c);
    c.n = h_ll(h_in(l, "n")); c.sa = (unsigned)h_ll(h_in(l, "sa")); c.da = (unsigned)h_ll(h_in(l, "da"));
    c.s1 = h_ll(h_in(l, "s1")); c.junk = (int)h_ll(h_in(l, "junk")); c.dom = h_in(l, "dom") ? (int)h_ll(h_in(l, "dom")) : 1;
    c.a = h_unhex(h_in(l, "a"), &c.la);
    if (h_in(l, "b")) c.b = h_unhex(h_in(l, "b"), &c.lb);
    if (h_in(l, "cap")) {
        if (do_dispatch(h, (unsigned long)h_ll(h_in(l, "cap")))) { g_dm = 1; do_case(h, d, &c); g_dm = 0; }
        restore_full_caps();
    } else do_case(h, d, &c);
    free(c.a); free(c.b);
    return 1;
}

const h_component comp_simd = { "simd", gen_simd, replay_simd };
