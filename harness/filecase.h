/* Shared by ops_file.c and ops_c18.c: write-history cases for the real writer
 * (representation, generation, printing, parsing, execution). */
#ifndef VERIF_FILECASE_H
#define VERIF_FILECASE_H
#include "common.h"
#include <unistd.h>
#include <carquet/carquet.h>

enum { MAXC = 18, MAXSTEP = 320 };
/* has_lt = 0: carquet_schema_add_column gets a NULL logical_type pointer; otherwise a carquet_logical_type_t with id lt_id and,
 * for the ids that have members in the params union, lt_p1 / lt_p2 (DECIMAL precision / scale, INTEGER bit_width / is_signed,
 * TIME and TIMESTAMP unit / is_adjusted_to_utc) — the notation `id:p1:p2` of the apibuild lines */
typedef struct { char name[16]; int rep, ptype, tlen; int has_lt, lt_id; long long lt_p1, lt_p2; } fcol;
typedef struct {
    int kind;            /* 0 batch, 1 new row group */
    int col; int nrows; int has_defs; uint8_t* defs;   /* defs[i] in {0,1} */
    int nvals; uint8_t** vals; int* vlen;
    int has_reps; uint8_t* reps;                        /* reps[i] in {0,1}; has_reps = 0: NULL rep_levels pointer */
} fstep;
typedef struct { fcol cols[MAXC]; int ncols; int codec; long page; fstep steps[MAXSTEP]; int nsteps; } fcase;

__attribute__((unused)) static int vsize(const fcol* c) {
    switch (c->ptype) { case 0: return 1; case 1: case 4: return 4; case 2: case 5: return 8; case 7: return c->tlen; default: return -1; }
}

__attribute__((unused)) static void free_case(fcase* fc) {
    for (int i = 0; i < fc->nsteps; i++) {
        fstep* s = &fc->steps[i];
        free(s->defs); free(s->reps);
        for (int j = 0; j < s->nvals; j++) free(s->vals[j]);
        free(s->vals); free(s->vlen);
    }
}

__attribute__((unused)) static void print_case(hctx* h, const fcase* fc) {
    fprintf(h->out, "wr cols=");
    for (int i = 0; i < fc->ncols; i++)
    {   fprintf(h->out, "%s%s.%d.%d.%d", i ? "," : "", fc->cols[i].name, fc->cols[i].rep, fc->cols[i].ptype, fc->cols[i].tlen);
        /* optional fifth field: the logical type the column is created with (absent = NULL pointer, as in every line
         * written before logical types were generated) */
        if (fc->cols[i].has_lt) fprintf(h->out, ".%d:%lld:%lld", fc->cols[i].lt_id, fc->cols[i].lt_p1, fc->cols[i].lt_p2);
    }
    fprintf(h->out, " codec=%d page=%ld ns=%d", fc->codec, fc->page, fc->nsteps);
    for (int i = 0; i < fc->nsteps; i++) {
        const fstep* s = &fc->steps[i];
        if (s->kind == 1) { fprintf(h->out, " s%d=rg", i); continue; }
        fprintf(h->out, " s%d=b.%d.", i, s->col);
        if (!s->has_defs) fprintf(h->out, "N%d", s->nrows);
        else if (s->nrows == 0) fputc('E', h->out);
        else for (int r = 0; r < s->nrows; r++) fputc('0' + s->defs[r], h->out);
        fputc('.', h->out);
        if (s->nvals == 0) fputc('-', h->out);
        for (int j = 0; j < s->nvals; j++) { if (j) fputc(':', h->out); h_hex(h->out, s->vals[j], (size_t)s->vlen[j]); }
        /* optional fourth field: the repetition levels handed to write_batch (absent = NULL pointer, as in every
         * line written before REPEATED columns were generated) */
        if (s->has_reps) {
            fputs(".R", h->out);
            if (s->nrows == 0) fputc('E', h->out);
            else for (int r = 0; r < s->nrows; r++) fputc('0' + s->reps[r], h->out);
        }
    }
}

/* build the C value array for a batch (dense non-null values) */
__attribute__((unused)) static void* batch_values(const fcol* c, const fstep* s) {
    int n = s->nvals;
    if (c->ptype == 6) {
        carquet_byte_array_t* a = (carquet_byte_array_t*)h_alloc((size_t)(n ? n : 1) * sizeof *a);
        for (int j = 0; j < n; j++) { a[j].data = s->vals[j]; a[j].length = s->vlen[j]; }
        return a;
    }
    int vs = vsize(c);
    uint8_t* p = h_alloc((size_t)n * (size_t)vs);
    for (int j = 0; j < n; j++) memcpy(p + (size_t)j * (size_t)vs, s->vals[j], (size_t)vs);
    return p;
}

/* the rep_levels argument of a batch: NULL, or an exact-size int16 array */
__attribute__((unused)) static int16_t* batch_reps(const fstep* s) {
    if (!s->has_reps) return NULL;
    int16_t* r = (int16_t*)h_alloc((size_t)(s->nrows ? s->nrows : 1) * 2);
    for (int i = 0; i < s->nrows; i++) r[i] = s->reps[i];
    return r;
}

/* the logical_type argument of a column: NULL, or an exact-size heap struct whose union holds garbage except for the members
 * that belong to the id */
__attribute__((unused)) static carquet_logical_type_t* col_logical(const fcol* c) {
    if (!c->has_lt) return NULL;
    carquet_logical_type_t* lt = (carquet_logical_type_t*)h_alloc(sizeof *lt);
    memset(lt, 0xA5, sizeof *lt);
    lt->id = (carquet_logical_type_id_t)c->lt_id;
    switch (lt->id) {
    case CARQUET_LOGICAL_DECIMAL: lt->params.decimal.precision = (int32_t)c->lt_p1; lt->params.decimal.scale = (int32_t)c->lt_p2; break;
    case CARQUET_LOGICAL_INTEGER: lt->params.integer.bit_width = (int8_t)c->lt_p1; lt->params.integer.is_signed = c->lt_p2 != 0; break;
    case CARQUET_LOGICAL_TIME: lt->params.time.unit = (carquet_time_unit_t)c->lt_p1; lt->params.time.is_adjusted_to_utc = c->lt_p2 != 0; break;
    case CARQUET_LOGICAL_TIMESTAMP: lt->params.timestamp.unit = (carquet_time_unit_t)c->lt_p1; lt->params.timestamp.is_adjusted_to_utc = c->lt_p2 != 0; break;
    default: break;
    }
    return lt;
}

/* `N` or `id:p1:p2` of what carquet_schema_node_logical_type returns (the members of the params union that belong to the id) */
__attribute__((unused)) static void print_logical(FILE* f, const carquet_logical_type_t* lt) {
    if (!lt) { fputc('N', f); return; }
    long long p1 = 0, p2 = 0;
    switch (lt->id) {
    case CARQUET_LOGICAL_DECIMAL: p1 = lt->params.decimal.precision; p2 = lt->params.decimal.scale; break;
    case CARQUET_LOGICAL_INTEGER: p1 = lt->params.integer.bit_width; p2 = lt->params.integer.is_signed ? 1 : 0; break;
    case CARQUET_LOGICAL_TIME: p1 = (int)lt->params.time.unit; p2 = lt->params.time.is_adjusted_to_utc ? 1 : 0; break;
    case CARQUET_LOGICAL_TIMESTAMP: p1 = (int)lt->params.timestamp.unit; p2 = lt->params.timestamp.is_adjusted_to_utc ? 1 : 0; break;
    default: break;
    }
    fprintf(f, "%d:%lld:%lld", (int)lt->id, p1, p2);
}

/* carquet_schema_add_column for one column of a case, with its logical type */
__attribute__((unused)) static carquet_status_t add_case_column(carquet_schema_t* sc, const fcol* c) {
    carquet_logical_type_t* lt = col_logical(c);
    carquet_status_t ast = carquet_schema_add_column(sc, c->name, (carquet_physical_type_t)c->ptype, lt,
                                                     (carquet_field_repetition_t)c->rep, c->tlen);
    if (lt) { memset(lt, 0x5A, sizeof *lt); free(lt); }          /* the schema must hold a copy, not the pointer */
    return ast;
}

/* != 0: write_file goes through carquet_writer_create_file on a stream the caller opened (and closes afterwards) instead of
 * the path-based carquet_writer_create: the two must produce the same file */
__attribute__((unused)) static int g_write_via_stream;
__attribute__((unused)) static int write_file(const fcase* fc, const char* path, int* st, int* nst) {
    carquet_error_t err; memset(&err, 0, sizeof err);
    *nst = 0;
    carquet_schema_t* sc = carquet_schema_create(&err);
    if (!sc) return -1;
    for (int i = 0; i < fc->ncols; i++)
        if (add_case_column(sc, &fc->cols[i]) != CARQUET_OK) { carquet_schema_free(sc); return -1; }
    carquet_writer_options_t wo; carquet_writer_options_init(&wo);
    wo.compression = (carquet_compression_t)fc->codec; wo.page_size = fc->page;
    /* options the pinned writer documents but does not act on: set to small / unusual values in a third of the cases (a
     * function of the case, so that a replay sets the same).  Row groups are cut by carquet_writer_new_row_group only; the
     * model ignores these options exactly as the code does, so a writer that starts honouring one of them shows up as a
     * difference in the bytes. */
    if ((fc->ncols + fc->nsteps) % 3 == 0) { wo.row_group_size = 1 + (fc->nsteps * 37) % 300; wo.dictionary_page_size = 1 + fc->nsteps; }
    if ((fc->ncols + fc->nsteps) % 5 == 0) { wo.write_page_index = true; wo.write_bloom_filters = true; }
    FILE* own_fp = g_write_via_stream ? fopen(path, "wb") : NULL;
    carquet_writer_t* w = own_fp ? carquet_writer_create_file(own_fp, sc, &wo, &err) : carquet_writer_create(path, sc, &wo, &err);
    if (!w) { if (own_fp) fclose(own_fp); carquet_schema_free(sc); return -1; }
    for (int i = 0; i < fc->nsteps; i++) {
        const fstep* s = &fc->steps[i];
        if (s->kind == 1) { st[(*nst)++] = (int)carquet_writer_new_row_group(w); continue; }
        void* v = batch_values(&fc->cols[s->col], s);
        int16_t* d = NULL;
        if (s->has_defs) { d = (int16_t*)h_alloc((size_t)(s->nrows ? s->nrows : 1) * 2); for (int r = 0; r < s->nrows; r++) d[r] = s->defs[r]; }
        int16_t* rl = batch_reps(s);
        st[(*nst)++] = (int)carquet_writer_write_batch(w, s->col, v, s->nrows, d, rl);
        free(v); free(d); free(rl);
    }
    st[(*nst)++] = (int)carquet_writer_close(w);
    if (own_fp) fclose(own_fp);
    carquet_schema_free(sc);
    return 0;
}

/* ---- generation ---- */
__attribute__((unused)) static void gen_value(hctx* h, const fcol* c, uint8_t** out, int* len) {
    static const uint64_t special64[] = { 0, 1, 0xFFFFFFFFFFFFFFFFull, 0x7FFFFFFFFFFFFFFFull, 0x8000000000000000ull,
        0x7FF8000000000000ull /* NaN */, 0xFFF8000000000001ull, 0x8000000000000000ull /* -0.0 */, 0x7FF0000000000000ull, 0x0000000000000001ull };
    static const uint32_t special32[] = { 0, 1, 0xFFFFFFFFu, 0x7FFFFFFFu, 0x80000000u, 0x7FC00000u /* NaN */, 0xFFC00001u, 0x80000000u /* -0.0f */, 0x7F800000u, 1u };
    int n;
    switch (c->ptype) {
    case 0: n = 1; break; case 1: case 4: n = 4; break; case 2: case 5: n = 8; break;
    case 7: n = c->tlen; break;
    default: n = h_chance(h, 1, 5) ? 0 : (int)h_below(h, h_chance(h, 1, 20) ? 300 : 12); break;
    }
    uint8_t* p = h_alloc((size_t)n);
    if (c->ptype == 0) p[0] = (uint8_t)h_below(h, 2);
    else if ((c->ptype == 1 || c->ptype == 4) && h_chance(h, 1, 3)) { uint32_t v = special32[h_below(h, 10)]; memcpy(p, &v, 4); }
    else if ((c->ptype == 2 || c->ptype == 5) && h_chance(h, 1, 3)) { uint64_t v = special64[h_below(h, 10)]; memcpy(p, &v, 8); }
    else if (h_chance(h, 1, 3)) { uint64_t v = h_below(h, 5); for (int i = 0; i < n; i++) p[i] = i < 8 ? (uint8_t)(v >> (8 * i)) : 0; }
    else for (int i = 0; i < n; i++) p[i] = (uint8_t)h_next(h);
    *out = p; *len = n;
}

__attribute__((unused)) static void gen_logical(hctx* h, fcol* c) {
    static const long long ext32[] = { 0, 1, 9, 38, -1, 2147483647LL, -2147483648LL, 127, 128, 255, 256, 16383, 16384 };
    static const long long ext8[] = { 8, 16, 32, 64, 0, 127, -128, -1 };
    c->has_lt = 0; c->lt_id = 0; c->lt_p1 = 0; c->lt_p2 = 0;
    if (!h_chance(h, 1, 3)) return;
    c->has_lt = 1;
    if (h_chance(h, 1, 8)) {                                    /* any id, extreme parameters */
        c->lt_id = (int)h_below(h, 15);
        switch (c->lt_id) {
        case 5: c->lt_p1 = ext32[h_below(h, 13)]; c->lt_p2 = ext32[h_below(h, 13)]; break;
        case 9: c->lt_p1 = ext8[h_below(h, 8)]; c->lt_p2 = (long long)h_below(h, 2); break;
        case 7: case 8: c->lt_p1 = (long long)h_below(h, 3); c->lt_p2 = (long long)h_below(h, 2); break;
        default: break;
        }
        return;
    }
    int maxprec = c->ptype == 1 ? 9 : c->ptype == 2 ? 18 : 38;
    int pick = (int)h_below(h, 6);
    int id = 10;                                                /* NULL (UNKNOWN in parquet.thrift): allowed on every type */
    switch (c->ptype) {
    case 1: { static const int ids[] = { 5, 6, 7, 9, 9, 10 }; id = ids[pick]; } break;          /* INT32 */
    case 2: { static const int ids[] = { 5, 7, 8, 8, 9, 10 }; id = ids[pick]; } break;          /* INT64 */
    case 6: { static const int ids[] = { 1, 4, 5, 11, 12, 1 }; id = ids[pick]; } break;         /* BYTE_ARRAY */
    case 7: { static const int ids[] = { 5, 5, 13, 14, 5, 10 }; id = ids[pick]; } break;        /* FIXED_LEN_BYTE_ARRAY */
    default:                                                    /* BOOLEAN, FLOAT, DOUBLE: the format has NULL only */
        if (h_chance(h, 2, 3)) { c->has_lt = 0; return; }
        break;
    }
    c->lt_id = id;
    switch (id) {
    case 5:                                                     /* DECIMAL(precision, scale) */
        c->lt_p1 = (long long)h_below(h, (uint64_t)maxprec + 1);
        c->lt_p2 = h_chance(h, 1, 2) ? 0 : (long long)h_below(h, (uint64_t)c->lt_p1 + 1);
        break;
    case 7:                                                     /* TIME: millis on INT32, micros / nanos on INT64 */
        c->lt_p1 = c->ptype == 1 ? 0 : 1 + (long long)h_below(h, 2);
        c->lt_p2 = (long long)h_below(h, 2);
        break;
    case 8: c->lt_p1 = (long long)h_below(h, 3); c->lt_p2 = (long long)h_below(h, 2); break;
    case 9:                                                     /* INTEGER(width, signed) */
        c->lt_p1 = c->ptype == 2 ? 64 : (8LL << h_below(h, 3));
        c->lt_p2 = (long long)h_below(h, 2);
        break;
    default: break;
    }
}

__attribute__((unused)) static void gen_case(hctx* h, fcase* fc, int small) {
    static const int codecs[] = { 0, 1, 2, 5, 6, 7 };
    static const int types[] = { 0, 1, 2, 4, 5, 6, 7 };
    memset(fc, 0, sizeof *fc);
    fc->ncols = 1 + (int)h_below(h, small ? 2 : 4);
    for (int i = 0; i < fc->ncols; i++) {
        snprintf(fc->cols[i].name, sizeof fc->cols[i].name, "c%d", i);
        fc->cols[i].rep = (int)h_below(h, 3);
        fc->cols[i].ptype = types[h_below(h, 7)];
        if (getenv("VERIF_FILE_NO_BYTE_ARRAY") && fc->cols[i].ptype == 6) fc->cols[i].ptype = 2;  /* development aid only */
        fc->cols[i].tlen = fc->cols[i].ptype == 7 ? 1 + (int)h_below(h, 9) : 0;
    }
    fc->codec = codecs[h_below(h, 6)];
    switch (h_below(h, 5)) { case 0: fc->page = 1; break; case 1: fc->page = 64 + (long)h_below(h, 64); break; case 2: fc->page = 100 + (long)h_below(h, 400); break; case 3: fc->page = 4096; break; default: fc->page = 1024 * 1024; break; }
    int nrg = 1 + (int)h_below(h, 3);
    if (h_chance(h, 1, 25)) nrg = 0;
    /* boundary-directed at Thrift list lengths around 15 (short vs long list header): the schema list has
     * ncols+1 elements, each row group ncols chunks, the file nrg row groups */
    int wide = !small && h_chance(h, 1, 12), longf = !small && !wide && h_chance(h, 1, 12);
    if (wide) {
        fc->ncols = 13 + (int)h_below(h, 4);
        for (int i = 0; i < fc->ncols; i++) {
            snprintf(fc->cols[i].name, sizeof fc->cols[i].name, "c%d", i);
            fc->cols[i].rep = (int)h_below(h, 3);
            fc->cols[i].ptype = types[h_below(h, 7)];
            if (getenv("VERIF_FILE_NO_BYTE_ARRAY") && fc->cols[i].ptype == 6) fc->cols[i].ptype = 2;
            fc->cols[i].tlen = fc->cols[i].ptype == 7 ? 1 + (int)h_below(h, 9) : 0;
        }
        nrg = 1 + (int)h_below(h, 2);
    }
    if (longf) { nrg = 14 + (int)h_below(h, 3); if (fc->ncols > 2) fc->ncols = 2; }
    int ns = 0;
    for (int g = 0; g < nrg; g++) {
        int rows = small ? (int)h_below(h, 14) : (int)h_below(h, h_chance(h, 1, 4) ? 200 : 40);
        if (wide || longf) rows = 1 + (int)h_below(h, 5);
        if (h_chance(h, 1, 15)) rows = 0;
        /* per column: a null pattern over `rows`, split into batches; batches of different columns interleaved column by column.
         * A REPEATED column holds one list per row: an empty list is one entry (definition level 0, repetition level 0), a
         * list of k >= 1 elements is k entries (definition level 1; repetition level 0 for the first, 1 for the others). */
        for (int c = 0; c < fc->ncols; c++) {
            int pat = (int)h_below(h, 6);
            int repeated = fc->cols[c].rep == 2;
            /* entries of the column in this row group */
            int ecap = rows * 13 + 1, ne = 0;
            uint8_t* ed = h_alloc((size_t)ecap); uint8_t* er = h_alloc((size_t)ecap);
            int lpat = (int)h_below(h, 6);
            for (int r = 0; r < rows; r++) {
                if (!repeated) {
                    int d = 1;
                    switch (pat) { case 0: d = 1; break; case 1: d = 0; break; case 2: d = (int)h_below(h, 2); break;
                                   case 3: d = (r / 9) % 2; break; case 4: d = h_chance(h, 1, 10) ? 0 : 1; break; default: d = (r % 3) != 0; break; }
                    ed[ne] = (uint8_t)d; er[ne] = 0; ne++;
                } else {
                    int k;
                    switch (lpat) { case 0: k = 1; break; case 1: k = 0; break; case 2: k = (int)h_below(h, 2); break;      /* 0..2: every entry is a row */
                                    case 3: k = (int)h_below(h, 4); break; case 4: k = h_chance(h, 1, 6) ? (int)h_below(h, 13) : 1; break;
                                    default: k = r % 3; break; }
                    if (k == 0) { ed[ne] = 0; er[ne] = 0; ne++; }
                    for (int q = 0; q < k; q++) { ed[ne] = 1; er[ne] = (uint8_t)(q != 0); ne++; }
                }
            }
            int left = ne, pos = 0;
            int nb = (wide || longf) ? 1 : 1 + (int)h_below(h, 4);
            for (int b = 0; b < nb && ns < MAXSTEP - 4; b++) {
                int take = (b == nb - 1) ? left : (int)h_below(h, (uint64_t)left + 1);
                /* a batch of a REPEATED column mostly ends where a row ends (3 of 4), sometimes in the middle of a list */
                if (repeated && b != nb - 1 && !h_chance(h, 1, 4)) while (take < left && er[pos + take] != 0) take++;
                if (take == 0 && !(ne == 0 && b == nb - 1) && !h_chance(h, 1, 6)) continue;
                fstep* s = &fc->steps[ns++];
                s->kind = 0; s->col = c; s->nrows = take;
                s->defs = h_alloc((size_t)take); s->reps = h_alloc((size_t)take);
                int nn = 0, all1 = 1, all0 = 1;
                for (int r = 0; r < take; r++) { s->defs[r] = ed[pos + r]; s->reps[r] = er[pos + r]; if (!ed[pos + r]) all1 = 0; if (er[pos + r]) all0 = 0; }
                if (fc->cols[c].rep == 0) {                     /* REQUIRED: levels are ignored by the writer; mostly NULL */
                    s->has_defs = h_chance(h, 1, 10);
                    for (int r = 0; r < take; r++) s->defs[r] = 1;
                } else if (fc->cols[c].rep == 1) {              /* OPTIONAL: NULL def_levels = all present */
                    s->has_defs = !h_chance(h, 1, 8);
                    if (!s->has_defs) for (int r = 0; r < take; r++) s->defs[r] = 1;
                } else {                                        /* REPEATED: NULL def_levels only for a batch without empty lists */
                    s->has_defs = all1 ? (int)h_below(h, 2) : 1;
                }
                for (int r = 0; r < take; r++) nn += s->defs[r];
                /* rep_levels: a REPEATED column needs them unless every entry of the batch starts a row; for the other
                 * columns the pointer is ignored by the writer (max_rep_level 0) — now and then hand it arbitrary levels */
                if (repeated) s->has_reps = all0 ? (int)h_below(h, 2) : 1;
                else { s->has_reps = h_chance(h, 1, 12); if (s->has_reps) for (int r = 0; r < take; r++) s->reps[r] = (uint8_t)h_below(h, 2); }
                s->nvals = nn;
                s->vals = (uint8_t**)h_alloc((size_t)(nn ? nn : 1) * sizeof(uint8_t*));
                s->vlen = (int*)h_alloc((size_t)(nn ? nn : 1) * sizeof(int));
                for (int j = 0; j < nn; j++) gen_value(h, &fc->cols[c], &s->vals[j], &s->vlen[j]);
                left -= take; pos += take;
            }
            free(ed); free(er);
        }
        if (g + 1 < nrg || h_chance(h, 1, 5)) { if (ns < MAXSTEP - 1) { fc->steps[ns].kind = 1; ns++; } }
    }
    fc->nsteps = ns;
    /* logical types, drawn last (everything above is drawn exactly as before they existed): about a third of the columns are
     * created with one.  Mostly an annotation the format allows on the column's physical type — every member of the LogicalType
     * union carquet writes, DECIMAL with scale 0 and every precision the type holds (0 included: carquet does not look at it),
     * TIME / TIMESTAMP with each unit and UTC flag, INTEGER with each width and sign —; now and then ANY id with extreme
     * parameters (a non-NULL pointer with id UNKNOWN, MAP / LIST on a leaf, int32 / int8 limits): the writer copies what it is
     * given, and the file must state exactly that. */
    for (int i = 0; i < fc->ncols; i++) gen_logical(h, &fc->cols[i]);
}

/* ---- replay ---- */
__attribute__((unused)) static int parse_case(const h_line* l, fcase* fc) {
    memset(fc, 0, sizeof *fc);
    const char* cs = h_in(l, "cols"); if (!cs) return 1;
    const char* c = cs;
    while (*c && fc->ncols < MAXC) {
        fcol* k = &fc->cols[fc->ncols++];
        int n = 0; while (*c && *c != '.' && n < 15) k->name[n++] = *c++;
        k->name[n] = 0; if (*c == '.') c++;
        k->rep = (int)strtol(c, (char**)&c, 10); if (*c == '.') c++;
        k->ptype = (int)strtol(c, (char**)&c, 10); if (*c == '.') c++;
        k->tlen = (int)strtol(c, (char**)&c, 10);
        if (*c == '.') {                                        /* fifth field: N, or id:p1:p2 */
            c++;
            if (*c == 'N') c++;
            else {
                k->has_lt = 1;
                k->lt_id = (int)strtol(c, (char**)&c, 10); if (*c == ':') c++;
                k->lt_p1 = strtoll(c, (char**)&c, 10); if (*c == ':') c++;
                k->lt_p2 = strtoll(c, (char**)&c, 10);
            }
        }
        if (*c == ',') c++;
    }
    fc->codec = (int)h_ll(h_in(l, "codec")); fc->page = (long)h_ll(h_in(l, "page"));
    int ns = (int)h_ll(h_in(l, "ns")); if (ns > MAXSTEP) return 1;
    for (int i = 0; i < ns; i++) {
        char key[16]; snprintf(key, sizeof key, "s%d", i);
        const char* v = h_in(l, key); if (!v) return 1;
        fstep* s = &fc->steps[fc->nsteps++];
        if (!strcmp(v, "rg")) { s->kind = 1; continue; }
        if (v[0] != 'b' || v[1] != '.') return 1;
        const char* p = v + 2;
        s->col = (int)strtol(p, (char**)&p, 10); if (*p == '.') p++;
        if (*p == 'N') { p++; s->has_defs = 0; s->nrows = (int)strtol(p, (char**)&p, 10); s->defs = h_alloc((size_t)s->nrows); memset(s->defs, 1, (size_t)s->nrows); }
        else if (*p == 'E') { p++; s->has_defs = 1; s->nrows = 0; s->defs = h_alloc(0); }
        else { const char* q = p; while (*q == '0' || *q == '1') q++; s->has_defs = 1; s->nrows = (int)(q - p); s->defs = h_alloc((size_t)s->nrows); for (int r = 0; r < s->nrows; r++) s->defs[r] = (uint8_t)(p[r] - '0'); p = q; }
        if (*p == '.') p++;
        /* optional ".R<levels>" after the values: the rep_levels array (absent: NULL pointer) */
        char* vcopy = strdup(p); char* rp = strstr(vcopy, ".R");
        s->reps = h_alloc((size_t)s->nrows); memset(s->reps, 0, (size_t)s->nrows);
        if (rp) {
            *rp = 0; rp += 2; s->has_reps = 1;
            if (*rp != 'E') { if ((int)strlen(rp) != s->nrows) { free(vcopy); return 1; } for (int r = 0; r < s->nrows; r++) s->reps[r] = (uint8_t)(rp[r] - '0'); }
        }
        p = vcopy;
        int nv = 0; if (strcmp(p, "-") != 0) { nv = 1; for (const char* q = p; *q; q++) if (*q == ':') nv++; }
        s->nvals = nv; s->vals = (uint8_t**)h_alloc((size_t)(nv ? nv : 1) * sizeof(uint8_t*)); s->vlen = (int*)h_alloc((size_t)(nv ? nv : 1) * sizeof(int));
        for (int j = 0; j < nv; j++) {
            const char* q = p; while (*q && *q != ':') q++;
            char* tmp = strndup(p, (size_t)(q - p)); size_t n; s->vals[j] = h_unhex(tmp, &n); s->vlen[j] = (int)n; free(tmp);
            p = *q ? q + 1 : q;
        }
        free(vcopy);
    }
    return 0;
}

#endif
