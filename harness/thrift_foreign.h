/* C13 harness, part 2: an independent Thrift-compact ENCODER for the Parquet structures,
 * written from the protocol grammar (it shares no code with carquet's encoder).  Unlike a
 * canonical encoder it draws, per header, between the legal forms: short / long field headers,
 * short / long list headers (long form also for sizes < 15), false elements as 2 or 0; and it
 * injects fields with ids unknown to carquet, of every wire type, between the known ones.
 * Every field the carquet parsers handle is emitted (also those carquet never writes), so that
 * parsing must give back exactly the generated structure. */
#ifndef VERIF_THRIFT_FOREIGN_H
#define VERIF_THRIFT_FOREIGN_H
#include "thrift_tokens.h"

typedef struct fbuf { uint8_t* p; size_t n, cap; hctx* h; int unknowns; int longforms; int n_unknown; int n_long; } fbuf;
static void fb_put(fbuf* b, uint8_t v) {
    if (b->n == b->cap) { b->cap = b->cap ? b->cap * 2 : 256; b->p = (uint8_t*)realloc(b->p, b->cap); if (!b->p) exit(3); }
    b->p[b->n++] = v;
}
static void fb_bytes(fbuf* b, const uint8_t* p, size_t n) { for (size_t i = 0; i < n; i++) fb_put(b, p[i]); }
static void fe_varint(fbuf* b, uint64_t v) { while (v >= 0x80) { fb_put(b, (uint8_t)(v | 0x80)); v >>= 7; } fb_put(b, (uint8_t)v); }
static void fe_zz(fbuf* b, int64_t v) { fe_varint(b, ((uint64_t)v << 1) ^ (uint64_t)(v >> 63)); }
static void fe_field(fbuf* b, int* last, int id, int type) {
    int delta = id - *last;
    if (delta > 0 && delta <= 15 && !(b->longforms && h_chance(b->h, 1, 4))) fb_put(b, (uint8_t)((delta << 4) | type));
    else { fb_put(b, (uint8_t)type); fe_zz(b, id); b->n_long++; }
    *last = id;
}
static void fe_list(fbuf* b, int etype, uint32_t n) {
    if (n < 15 && !(b->longforms && h_chance(b->h, 1, 4))) fb_put(b, (uint8_t)((n << 4) | etype));
    else { fb_put(b, (uint8_t)(0xF0 | etype)); fe_varint(b, n); b->n_long++; }
}
static void fe_binary(fbuf* b, const uint8_t* p, size_t n) { fe_varint(b, n); fb_bytes(b, p, n); }
static void fe_str(fbuf* b, const char* s) { size_t n = 0; while (s[n]) n++; fe_binary(b, (const uint8_t*)s, n); }

/* a value of wire type `type` (3..13) as it stands after a field header or inside a container;
 * bool elements (types 1/2 inside containers) are one byte */
static void fe_value(fbuf* b, int type, int depth);
static int fe_pick_type(fbuf* b, int depth, int elem) {
    static const int leaf[] = { 3, 4, 5, 6, 7, 8, 13, 1, 2 };
    static const int any[] = { 3, 4, 5, 6, 7, 8, 13, 1, 2, 9, 10, 11, 12, 9, 12 };
    (void)elem;
    if (depth <= 0) return leaf[h_below(b->h, 9)];
    return any[h_below(b->h, 15)];
}
static void fe_elem(fbuf* b, int type, int depth) {
    if (type == 1 || type == 2) { static const uint8_t bv[] = { 1, 2, 0 }; fb_put(b, bv[h_below(b->h, 3)]); return; }
    fe_value(b, type, depth);
}
static const int fe_unknown_ids[] = { 16, 17, 20, 31, 32, 40, 100, 1000, 32767, -1, -77, -32768, 25, 19 };
static void fe_unknown_fields(fbuf* b, int* last, int depth, int max_n);
static void fe_value(fbuf* b, int type, int depth) {
    hctx* h = b->h;
    switch (type) {
    case 3: fb_put(b, (uint8_t)h_next(h)); break;
    case 4: fe_zz(b, g_i16(h)); break;
    case 5: fe_zz(b, g_i32(h)); break;
    case 6: fe_zz(b, g_i64(h)); break;
    case 7: for (int i = 0; i < 8; i++) fb_put(b, (uint8_t)h_next(h)); break;
    case 8: { size_t n = h_chance(h, 1, 8) ? 130 : h_below(h, 6); fe_varint(b, n); for (size_t i = 0; i < n; i++) fb_put(b, (uint8_t)h_next(h)); break; }
    case 9: case 10: {
        int et = fe_pick_type(b, depth - 1, 1);
        uint32_t n = h_chance(h, 1, 6) ? 15 + (uint32_t)h_below(h, 4) : (uint32_t)h_below(h, 4);
        fe_list(b, et, n);
        for (uint32_t i = 0; i < n; i++) fe_elem(b, et, depth - 1);
        break;
    }
    case 11: {
        uint32_t n = (uint32_t)h_below(h, 4);
        if (n == 0) { fb_put(b, 0); break; }
        int kt = fe_pick_type(b, 0, 1), vt = fe_pick_type(b, depth - 1, 1);
        fe_varint(b, n); fb_put(b, (uint8_t)((kt << 4) | vt));
        for (uint32_t i = 0; i < n; i++) { fe_elem(b, kt, 0); fe_elem(b, vt, depth - 1); }
        break;
    }
    case 12: { int last = 0; fe_unknown_fields(b, &last, depth - 1, 3); fb_put(b, 0); break; }
    case 13: for (int i = 0; i < 16; i++) fb_put(b, (uint8_t)h_next(h)); break;
    default: break;   /* 1, 2 as a field: the value is in the header */
    }
}
/* 0..max_n fields with ids no carquet parser knows */
static void fe_unknown_fields(fbuf* b, int* last, int depth, int max_n) {
    int n = (int)h_below(b->h, (uint64_t)max_n + 1);
    for (int i = 0; i < n; i++) {
        int id = fe_unknown_ids[h_below(b->h, sizeof fe_unknown_ids / sizeof fe_unknown_ids[0])];
        int ty = fe_pick_type(b, depth, 0);
        fe_field(b, last, id, ty);
        fe_value(b, ty, depth);
        b->n_unknown++;
    }
}
static void fe_maybe_unknown(fbuf* b, int* last) { if (b->unknowns && h_chance(b->h, 1, 5)) fe_unknown_fields(b, last, 3, 2); }

#define FE_I(ty, id, v) do { fe_maybe_unknown(b, &last); fe_field(b, &last, id, ty); fe_zz(b, (int64_t)(v)); } while (0)
#define FE_OPT_I(ty, id, has, v) do { if (has) FE_I(ty, id, v); } while (0)
#define FE_BOOL(id, v) do { fe_maybe_unknown(b, &last); fe_field(b, &last, id, (v) ? 1 : 2); } while (0)
#define FE_BIN(id, p, n) do { fe_maybe_unknown(b, &last); fe_field(b, &last, id, 8); fe_binary(b, p, (size_t)((p) && (n) > 0 ? (n) : 0)); } while (0)
#define FE_STR(id, s) do { if (s) { fe_maybe_unknown(b, &last); fe_field(b, &last, id, 8); fe_str(b, s); } } while (0)
#define FE_END() do { fe_maybe_unknown(b, &last); fb_put(b, 0); } while (0)

static void fe_stats(fbuf* b, const parquet_statistics_t* s) {
    int last = 0;
    FE_BIN(1, s->max_deprecated, s->max_deprecated_len);
    FE_BIN(2, s->min_deprecated, s->min_deprecated_len);
    FE_OPT_I(6, 3, s->has_null_count, s->null_count);
    FE_OPT_I(6, 4, s->has_distinct_count, s->distinct_count);
    FE_BIN(5, s->max_value, s->max_value_len);
    FE_BIN(6, s->min_value, s->min_value_len);
    if (s->has_is_max_value_exact) FE_BOOL(7, s->is_max_value_exact);
    if (s->has_is_min_value_exact) FE_BOOL(8, s->is_min_value_exact);
    FE_END();
}
static void fe_empty_member(fbuf* b, int* lastp, int id) { fe_field(b, lastp, id, 12); fb_put(b, 0); }
static void fe_timeunit(fbuf* b, int unit) {
    int last = 0;
    fe_field(b, &last, unit == 0 ? 1 : unit == 1 ? 2 : 3, 12); fb_put(b, 0);
    fb_put(b, 0);
}
static void fe_logical(fbuf* b, const carquet_logical_type_t* lt) {
    static const int member[] = { 0, 1, 2, 3, 4, 5, 6, 7, 8, 10, 11, 12, 13, 14, 15 };
    int last = 0;
    int id = (int)lt->id;
    if (id >= 1 && id <= 14) {
        int fid = member[id];
        fe_maybe_unknown(b, &last);
        if (id == CARQUET_LOGICAL_DECIMAL) {
            fe_field(b, &last, fid, 12);
            { int last = 0; FE_I(5, 1, lt->params.decimal.scale); FE_I(5, 2, lt->params.decimal.precision); FE_END(); }
        } else if (id == CARQUET_LOGICAL_TIME || id == CARQUET_LOGICAL_TIMESTAMP) {
            bool utc = id == CARQUET_LOGICAL_TIME ? lt->params.time.is_adjusted_to_utc : lt->params.timestamp.is_adjusted_to_utc;
            int unit = id == CARQUET_LOGICAL_TIME ? (int)lt->params.time.unit : (int)lt->params.timestamp.unit;
            fe_field(b, &last, fid, 12);
            { int last = 0; FE_BOOL(1, utc); fe_maybe_unknown(b, &last); fe_field(b, &last, 2, 12); fe_timeunit(b, unit); FE_END(); }
        } else if (id == CARQUET_LOGICAL_INTEGER) {
            fe_field(b, &last, fid, 12);
            { int last = 0; fe_maybe_unknown(b, &last); fe_field(b, &last, 1, 3); fb_put(b, (uint8_t)lt->params.integer.bit_width);
              FE_BOOL(2, lt->params.integer.is_signed); FE_END(); }
        } else fe_empty_member(b, &last, fid);
    }
    FE_END();
}
static void fe_schema(fbuf* b, const parquet_schema_element_t* e) {
    int last = 0;
    FE_OPT_I(5, 1, e->has_type, (int32_t)e->type);
    FE_I(5, 2, e->type_length);
    FE_OPT_I(5, 3, e->has_repetition, (int32_t)e->repetition_type);
    FE_STR(4, e->name);
    FE_I(5, 5, e->num_children);
    FE_OPT_I(5, 6, e->has_converted_type, (int32_t)e->converted_type);
    FE_I(5, 7, e->scale);
    FE_I(5, 8, e->precision);
    FE_OPT_I(5, 9, e->has_field_id, e->field_id);
    if (e->has_logical_type) { fe_maybe_unknown(b, &last); fe_field(b, &last, 10, 12); fe_logical(b, &e->logical_type); }
    FE_END();
}
static void fe_kv(fbuf* b, const parquet_key_value_t* kv) {
    int last = 0;
    FE_STR(1, kv->key);
    FE_STR(2, kv->value);
    FE_END();
}
static void fe_colmeta(fbuf* b, const parquet_column_metadata_t* m) {
    int last = 0;
    FE_I(5, 1, (int32_t)m->type);
    fe_maybe_unknown(b, &last); fe_field(b, &last, 2, 9); fe_list(b, 5, (uint32_t)m->num_encodings);
    for (int32_t i = 0; i < m->num_encodings; i++) fe_zz(b, (int32_t)m->encodings[i]);
    fe_maybe_unknown(b, &last); fe_field(b, &last, 3, 9); fe_list(b, 8, (uint32_t)m->path_len);
    for (int32_t i = 0; i < m->path_len; i++) fe_str(b, m->path_in_schema[i]);
    FE_I(5, 4, (int32_t)m->codec);
    FE_I(6, 5, m->num_values);
    FE_I(6, 6, m->total_uncompressed_size);
    FE_I(6, 7, m->total_compressed_size);
    fe_maybe_unknown(b, &last); fe_field(b, &last, 8, 9); fe_list(b, 12, (uint32_t)m->num_key_value);
    for (int32_t i = 0; i < m->num_key_value; i++) fe_kv(b, &m->key_value_metadata[i]);
    FE_I(6, 9, m->data_page_offset);
    FE_OPT_I(6, 10, m->has_index_page_offset, m->index_page_offset);
    FE_OPT_I(6, 11, m->has_dictionary_page_offset, m->dictionary_page_offset);
    if (m->has_statistics) { fe_maybe_unknown(b, &last); fe_field(b, &last, 12, 12); fe_stats(b, &m->statistics); }
    fe_maybe_unknown(b, &last); fe_field(b, &last, 13, 9); fe_list(b, 12, (uint32_t)m->num_encoding_stats);
    for (int32_t i = 0; i < m->num_encoding_stats; i++) {
        int last = 0;
        FE_I(5, 1, (int32_t)m->encoding_stats[i].page_type);
        FE_I(5, 2, (int32_t)m->encoding_stats[i].encoding);
        FE_I(5, 3, m->encoding_stats[i].count);
        FE_END();
    }
    FE_OPT_I(6, 14, m->has_bloom_filter_offset, m->bloom_filter_offset);
    FE_OPT_I(5, 15, m->has_bloom_filter_length, m->bloom_filter_length);
    FE_END();
}
static void fe_chunk(fbuf* b, const parquet_column_chunk_t* c) {
    int last = 0;
    FE_STR(1, c->file_path);
    FE_I(6, 2, c->file_offset);
    if (c->has_metadata) { fe_maybe_unknown(b, &last); fe_field(b, &last, 3, 12); fe_colmeta(b, &c->metadata); }
    FE_OPT_I(6, 4, c->has_offset_index_offset, c->offset_index_offset);
    FE_OPT_I(5, 5, c->has_offset_index_length, c->offset_index_length);
    FE_OPT_I(6, 6, c->has_column_index_offset, c->column_index_offset);
    FE_OPT_I(5, 7, c->has_column_index_length, c->column_index_length);
    FE_END();
}
static void fe_rowgroup(fbuf* b, const parquet_row_group_t* g) {
    int last = 0;
    fe_maybe_unknown(b, &last); fe_field(b, &last, 1, 9); fe_list(b, 12, (uint32_t)g->num_columns);
    for (int32_t i = 0; i < g->num_columns; i++) fe_chunk(b, &g->columns[i]);
    FE_I(6, 2, g->total_byte_size);
    FE_I(6, 3, g->num_rows);
    if (b->unknowns && h_chance(b->h, 1, 3)) {   /* field 4 sorting_columns: list<SortingColumn>, skipped by carquet */
        uint32_t n = (uint32_t)h_below(b->h, 3);
        fe_field(b, &last, 4, 9); fe_list(b, 12, n);
        for (uint32_t i = 0; i < n; i++) { int last = 0; FE_I(5, 1, g_i32(b->h)); FE_BOOL(2, h_chance(b->h, 1, 2)); FE_BOOL(3, h_chance(b->h, 1, 2)); FE_END(); }
    }
    FE_OPT_I(6, 5, g->has_file_offset, g->file_offset);
    FE_OPT_I(6, 6, g->has_total_compressed_size, g->total_compressed_size);
    FE_OPT_I(4, 7, g->has_ordinal, g->ordinal);
    FE_END();
}
static void fe_filemeta(fbuf* b, const parquet_file_metadata_t* m) {
    int last = 0;
    FE_I(5, 1, m->version);
    fe_maybe_unknown(b, &last); fe_field(b, &last, 2, 9); fe_list(b, 12, (uint32_t)m->num_schema_elements);
    for (int32_t i = 0; i < m->num_schema_elements; i++) fe_schema(b, &m->schema[i]);
    FE_I(6, 3, m->num_rows);
    fe_maybe_unknown(b, &last); fe_field(b, &last, 4, 9); fe_list(b, 12, (uint32_t)m->num_row_groups);
    for (int32_t i = 0; i < m->num_row_groups; i++) fe_rowgroup(b, &m->row_groups[i]);
    fe_maybe_unknown(b, &last); fe_field(b, &last, 5, 9); fe_list(b, 12, (uint32_t)m->num_key_value);
    for (int32_t i = 0; i < m->num_key_value; i++) fe_kv(b, &m->key_value_metadata[i]);
    FE_STR(6, m->created_by);
    if (b->unknowns && h_chance(b->h, 1, 3)) {   /* field 7 column_orders: list<ColumnOrder union>, skipped by carquet */
        uint32_t n = (uint32_t)h_below(b->h, 20);
        fe_field(b, &last, 7, 9); fe_list(b, 12, n);
        for (uint32_t i = 0; i < n; i++) { int last = 0; fe_field(b, &last, 1, 12); fb_put(b, 0); fb_put(b, 0); }
    }
    FE_END();
}
static void fe_pagehdr(fbuf* b, const parquet_page_header_t* p) {
    int last = 0;
    FE_I(5, 1, (int32_t)p->type);
    FE_I(5, 2, p->uncompressed_page_size);
    FE_I(5, 3, p->compressed_page_size);
    FE_OPT_I(5, 4, p->has_crc, p->crc);
    switch ((int32_t)p->type) {
    case CARQUET_PAGE_DATA: {
        fe_maybe_unknown(b, &last); fe_field(b, &last, 5, 12);
        int last = 0;
        FE_I(5, 1, p->data_page_header.num_values);
        FE_I(5, 2, (int32_t)p->data_page_header.encoding);
        FE_I(5, 3, (int32_t)p->data_page_header.definition_level_encoding);
        FE_I(5, 4, (int32_t)p->data_page_header.repetition_level_encoding);
        if (p->data_page_header.has_statistics) { fe_maybe_unknown(b, &last); fe_field(b, &last, 5, 12); fe_stats(b, &p->data_page_header.statistics); }
        FE_END();
        break;
    }
    case CARQUET_PAGE_DATA_V2: {
        fe_maybe_unknown(b, &last); fe_field(b, &last, 8, 12);
        int last = 0;
        FE_I(5, 1, p->data_page_header_v2.num_values);
        FE_I(5, 2, p->data_page_header_v2.num_nulls);
        FE_I(5, 3, p->data_page_header_v2.num_rows);
        FE_I(5, 4, (int32_t)p->data_page_header_v2.encoding);
        FE_I(5, 5, p->data_page_header_v2.definition_levels_byte_length);
        FE_I(5, 6, p->data_page_header_v2.repetition_levels_byte_length);
        FE_BOOL(7, p->data_page_header_v2.is_compressed);
        if (p->data_page_header_v2.has_statistics) { fe_maybe_unknown(b, &last); fe_field(b, &last, 8, 12); fe_stats(b, &p->data_page_header_v2.statistics); }
        FE_END();
        break;
    }
    case CARQUET_PAGE_DICTIONARY: {
        fe_maybe_unknown(b, &last); fe_field(b, &last, 7, 12);
        int last = 0;
        FE_I(5, 1, p->dictionary_page_header.num_values);
        FE_I(5, 2, (int32_t)p->dictionary_page_header.encoding);
        FE_BOOL(3, p->dictionary_page_header.is_sorted);
        FE_END();
        break;
    }
    default: break;
    }
    FE_END();
}
#endif
