/* Reader options the pinned reader documents but does not act on (buffer_size: "read buffer size in bytes", num_threads of
 * the reader): set to unusual values as a function of the file, so that a replay sets the same.  In particular buffer_size
 * sweeps the 17 values around the footer length F (F-8 .. F+8, the boundary of "the footer fits one read of the file's
 * tail"), and 0 / 1 / 8 / 4096.  The result of every open path must not depend on them. */
#ifndef H_ROPTS_H
#define H_ROPTS_H
#include <carquet/carquet.h>
static inline void h_vary_reader_options(carquet_reader_options_t* ro, const uint8_t* file, size_t n) {
    if (!file || n < 12) return;
    uint32_t F = (uint32_t)file[n - 8] | ((uint32_t)file[n - 7] << 8) | ((uint32_t)file[n - 6] << 16) | ((uint32_t)file[n - 5] << 24);
    unsigned salt = (unsigned)(n * 2654435761u >> 7) ^ (unsigned)file[n / 2];
    switch (salt % 4) {
    case 0: break;                                                        /* defaults */
    case 1: ro->buffer_size = (size_t)F + (size_t)((salt >> 2) % 17) - 8; break;   /* F-8 .. F+8 (may wrap for tiny F: any value is legal) */
    case 2: { static const size_t v[] = { 0, 1, 8, 4096, 12, 7 }; ro->buffer_size = v[(salt >> 2) % 6]; break; }
    default: ro->buffer_size = (size_t)F + 8 + (size_t)((salt >> 2) % 9); ro->num_threads = 1 + (int)((salt >> 6) % 5); break;
    }
}
#endif
