/* C14 (file part): with checksum verification on, every modification confined to the stored
 * bytes of a page body (single bit, byte, burst <= 32 bits) makes reading that page report an
 * error; an undamaged file never reports a checksum error; with verification off the damaged
 * file is still handled memory-safely.
 *
 *   pgdmg mode=<0 stdio|1 mmap|2 buffer|3 mmap requested but refused by the OS (fallback to stdio)> rg=<g> col=<c> page=<k> body=x<stored page bytes> crc=<stored crc>
 *         start=<first damaged bit> mask=x<xor pattern, <= 5 bytes> |
 *         clean=<rows read from the undamaged chunk, -1 on error> von=<rows read with verification, -1 = error reported>
 *         voff_rc=<exit status of a forked child that reads the damaged file without verification>
 *         p_clean_ok=0/1 p_detected=0/1 p_off_safe=0/1
 */
#define _GNU_SOURCE
#include <stdio.h>
#include "filecase.h"
#include <signal.h>
#include <sys/wait.h>
#include "thrift/parquet_types.h"
#include "core/arena.h"

extern int h_fail_mmap;   /* io_wrap.c */
typedef struct { size_t off, hs, len; uint32_t crc; int has_crc; int rg, col, page;
                 int uniform;      /* every chunk of the row group holds as many entries as the row group has rows: only then do
                                    * the batch reader's batches have to reach every page (a ragged history, or a repeated column,
                                    * ends the batches where the shortest column ends) */
               } pageloc;

static int find_pages(const uint8_t* b, size_t n, pageloc* out, int cap);
static uint8_t* write_base(hctx* h, size_t* n, int codec) {
    char path[128]; snprintf(path, sizeof path, "/tmp/verif_pg_%d.parquet", (int)getpid());
    for (;;) {
        fcase fc; gen_case(h, &fc, 1);
        fc.codec = codec; if (h_chance(h, 1, 2)) fc.page = 64 + (long)h_below(h, 100);
        int st[MAXSTEP + 2], nst = 0, ok = write_file(&fc, path, st, &nst) == 0;
        for (int i = 0; i < nst; i++) if (st[i] != 0) ok = 0;
        free_case(&fc);
        if (!ok) continue;
        FILE* f = fopen(path, "rb"); fseek(f, 0, SEEK_END); long sz = ftell(f); fseek(f, 0, SEEK_SET);
        uint8_t* b = h_alloc((size_t)sz); if (fread(b, 1, (size_t)sz, f) != (size_t)sz) sz = 0; fclose(f); unlink(path);
        /* a file without a single page body says nothing about page checksums: draw again */
        if (sz > 12) { pageloc pl[64]; int np = find_pages(b, (size_t)sz, pl, 64), bodies = 0; for (int q = 0; q < np; q++) if (pl[q].len > 0) bodies++;
                       if (bodies > 0) { *n = (size_t)sz; return b; } }
        free(b);
    }
}

static int find_pages(const uint8_t* b, size_t n, pageloc* out, int cap) {
    uint32_t flen = (uint32_t)b[n - 8] | ((uint32_t)b[n - 7] << 8) | ((uint32_t)b[n - 6] << 16) | ((uint32_t)b[n - 5] << 24);
    size_t fstart = n - 8 - flen; int k = 0;
    carquet_arena_t arena; carquet_arena_init(&arena);
    parquet_file_metadata_t md; carquet_error_t err; memset(&err, 0, sizeof err);
    if (parquet_parse_file_metadata(b + fstart, flen, &arena, &md, &err) != CARQUET_OK) { carquet_arena_destroy(&arena); return 0; }
    for (int g = 0; g < md.num_row_groups; g++) for (int c = 0; c < md.row_groups[g].num_columns; c++) {
        parquet_column_metadata_t* cm = &md.row_groups[g].columns[c].metadata;
        int uniform = 1;      /* judged over the whole file: a ragged row group in front would end the batches before this one */
        for (int g2 = 0; g2 < md.num_row_groups; g2++) for (int c2 = 0; c2 < md.row_groups[g2].num_columns; c2++) if (md.row_groups[g2].columns[c2].metadata.num_values != md.row_groups[g2].num_rows) uniform = 0;
        size_t off = (size_t)cm->data_page_offset, end = off + (size_t)cm->total_compressed_size; int pg = 0;
        while (off + 8 <= fstart && off < end && k < cap) {
            parquet_page_header_t ph; size_t hs; size_t avail = fstart - off; if (avail > 256) avail = 256;
            if (parquet_parse_page_header(b + off, avail, &ph, &hs, &err) != CARQUET_OK) break;
            out[k].off = off; out[k].hs = hs; out[k].len = (size_t)ph.compressed_page_size; out[k].crc = (uint32_t)ph.crc; out[k].has_crc = ph.has_crc;
            out[k].rg = g; out[k].col = c; out[k].page = pg++; out[k].uniform = uniform; k++;
            off += hs + (size_t)ph.compressed_page_size;
        }
    }
    carquet_arena_destroy(&arena);
    return k;
}

/* read a whole chunk; returns rows read or -1 as soon as an error is reported */
static long read_chunk_rows(const char* path, const uint8_t* buf, size_t n, int mode, int verify, int rg, int col) {
    carquet_error_t err; memset(&err, 0, sizeof err);
    carquet_reader_options_t ro; carquet_reader_options_init(&ro); ro.verify_checksums = verify != 0;
    uint8_t* exact = NULL; carquet_reader_t* rd;
    if (mode == 0) rd = carquet_reader_open(path, &ro, &err);
    else if (mode == 1) { ro.use_mmap = true; rd = carquet_reader_open(path, &ro, &err); }
    else if (mode == 3) { ro.use_mmap = true; h_fail_mmap = 1; rd = carquet_reader_open(path, &ro, &err); h_fail_mmap = 0; }   /* mapping refused: the reader falls back to stdio and must keep verifying */
    else { exact = h_alloc(n); memcpy(exact, buf, n); rd = carquet_reader_open_buffer(exact, n, &ro, &err); }
    if (!rd) { free(exact); return -2; }
    long total = -1;
    /* a BYTE_ARRAY value handed out is READ (every byte, through its pointer): a value that reaches past the page is then a
     * sanitizer report and not a silent success */
    int is_ba = 0, maxdef = 0;
    { const carquet_schema_t* sc = carquet_reader_schema(rd); int ne = sc ? carquet_schema_num_elements(sc) : 0, k = -1;
      for (int i = 0; i < ne; i++) { const carquet_schema_node_t* nd = carquet_schema_get_element(sc, i); if (!nd || !carquet_schema_node_is_leaf(nd)) continue;
          if (++k == col) { is_ba = carquet_schema_node_physical_type(nd) == CARQUET_PHYSICAL_BYTE_ARRAY; maxdef = carquet_schema_node_repetition(nd) == CARQUET_REPETITION_REQUIRED ? 0 : 1; } } }
    volatile unsigned sink_sum = 0;
    carquet_column_reader_t* cr = carquet_reader_get_column(rd, rg, col, &err);
    if (cr) {
        total = 0;
        for (int it = 0; it < 10000; it++) {
            uint8_t vals[16 * 64]; int16_t d[64], r[64];
            memset(vals, 0, sizeof vals);
            for (int q = 0; q < 64; q++) d[q] = (int16_t)maxdef;
            int64_t got = carquet_column_read_batch(cr, vals, 64, d, r);
            if (got < 0) { total = -1; break; }
            if (got == 0) { if (carquet_column_remaining(cr) > 0) total = -1; break; }
            if (is_ba) { const carquet_byte_array_t* a = (const carquet_byte_array_t*)vals; int64_t nn = 0;
                for (int64_t q = 0; q < got && q < 64; q++) if (d[q] == maxdef) nn++;
                for (int64_t q = 0; q < nn; q++) if (a[q].length > 0 && a[q].length < (1 << 24)) for (int32_t b = 0; b < a[q].length; b++) sink_sum += a[q].data[b]; }
            total += got;
        }
        carquet_column_reader_free(cr);
    }
    carquet_reader_close(rd); free(exact);
    return total;
}

static void on_alarm_pg(int s);
/* the same file through the batch reader with several worker threads: -1 as soon as next() reports an error, rows otherwise.
 * (A damaged page of ONE column must be reported although the workers of the other columns succeed.) */
static long read_batches_rows(const char* path, const uint8_t* buf, size_t n, int mode, int verify, int nt) {
    carquet_error_t err; memset(&err, 0, sizeof err);
    carquet_reader_options_t ro; carquet_reader_options_init(&ro); ro.verify_checksums = verify != 0;
    uint8_t* exact = NULL; carquet_reader_t* rd;
    if (mode == 1) { ro.use_mmap = true; rd = carquet_reader_open(path, &ro, &err); }
    else if (mode == 2) { exact = h_alloc(n); memcpy(exact, buf, n); rd = carquet_reader_open_buffer(exact, n, &ro, &err); }
    else rd = carquet_reader_open(path, &ro, &err);
    if (!rd) { free(exact); return -2; }
    carquet_batch_reader_config_t cfg; carquet_batch_reader_config_init(&cfg); cfg.batch_size = 64; cfg.num_threads = nt; cfg.use_mmap = mode == 1;
    carquet_batch_reader_t* br = carquet_batch_reader_create(rd, &cfg, &err);
    long total = br ? 0 : -1;
    for (int it = 0; br && it < 100000; it++) {
        carquet_row_batch_t* b = NULL;
        int st = (int)carquet_batch_reader_next(br, &b);
        if (st == (int)CARQUET_ERROR_END_OF_DATA) { if (b) carquet_row_batch_free(b); break; }
        if (st != 0) { total = -1; if (b) carquet_row_batch_free(b); break; }
        if (!b) break;
        total += (long)carquet_row_batch_num_rows(b); carquet_row_batch_free(b);
    }
    if (br) carquet_batch_reader_free(br);
    carquet_reader_close(rd); free(exact);
    return total;
}

static void on_alarm_pg(int s) { (void)s; _exit(77); }

static void one_damage(hctx* h, const uint8_t* base, size_t n, const pageloc* pl, int mode, size_t startbit, const uint8_t* mask, int masklen) {
    char path[128]; snprintf(path, sizeof path, "/tmp/verif_pg_%d_d.parquet", (int)getpid());
    uint8_t* dmg = h_alloc(n); memcpy(dmg, base, n);
    size_t body = pl->off + pl->hs;
    /* the xor pattern `mask` (little-endian bit order within bytes, as the CRC consumes them) shifted to startbit */
    for (int i = 0; i < masklen * 8; i++) if (mask[i / 8] & (1u << (i % 8))) { size_t bit = startbit + (size_t)i; if (bit / 8 < pl->len) dmg[body + bit / 8] ^= (uint8_t)(1u << (bit % 8)); }
    fprintf(h->out, "pgdmg mode=%d rg=%d col=%d page=%d body=", mode, pl->rg, pl->col, pl->page); h_hex(h->out, base + body, pl->len);
    fprintf(h->out, " crc=%u start=%zu mask=", pl->crc, startbit); h_hex(h->out, mask, (size_t)masklen);
    h_call(h);
    FILE* f = fopen(path, "wb"); fwrite(base, 1, n, f); fclose(f);
    long clean = read_chunk_rows(path, base, n, mode, 1, pl->rg, pl->col);
    f = fopen(path, "wb"); fwrite(dmg, 1, n, f); fclose(f);
    long von = read_chunk_rows(path, dmg, n, mode, 1, pl->rg, pl->col);
    /* ... and through the batch reader, 4 worker threads, three times (the outcome must not depend on which worker ends last) */
    /* (in a child of its own: the worker threads keep per-thread codec state that a later fork would inherit as unreachable) */
    long vonb = 0;
    { fflush(NULL); pid_t bp = fork();
      if (bp == 0) { h_cpu_alarm(20, on_alarm_pg); long v = 0; for (int rep = 0; rep < 3 && v >= 0; rep++) v = read_batches_rows(path, dmg, n, mode == 3 ? 0 : mode, 1, 4); _exit(v < 0 ? 0 : 1); }
      int bst = 0; waitpid(bp, &bst, 0);
      vonb = WIFEXITED(bst) ? (WEXITSTATUS(bst) == 0 ? -1 : WEXITSTATUS(bst) == 1 ? 0 : -1000 - WEXITSTATUS(bst)) : -2000 - WTERMSIG(bst); }
    fflush(NULL);
    pid_t pid = fork();
    if (pid == 0) { h_cpu_alarm(10, on_alarm_pg); (void)read_chunk_rows(path, dmg, n, mode, 0, pl->rg, pl->col); exit(0); }
    int st = 0; waitpid(pid, &st, 0);
    int rc = WIFEXITED(st) ? WEXITSTATUS(st) : 1000 + WTERMSIG(st);
    int changed = memcmp(dmg, base, n) != 0;
    fprintf(h->out, " | clean=%ld von=%ld vonb=%ld voff_rc=%d p_clean_ok=%d p_detected=%d p_detected_by_batch_reader=%d p_off_safe=%d\n", clean, von, vonb, rc,
            clean >= 0, !changed || von < 0, !changed || !pl->uniform || vonb == -1, rc == 0);
    h->n_lines++;
    free(dmg); unlink(path);
}

#include <zlib.h>
/* four bytes X such that crc32(P ++ X) == target (CRC-32 is affine in X: solve the 32x32 system over GF(2)) */
static uint32_t force_crc(const uint8_t* P, size_t n, uint32_t target) {
    uint8_t* buf = h_alloc(n + 4); memcpy(buf, P, n); memset(buf + n, 0, 4);
    uint32_t base = (uint32_t)crc32(0L, buf, (uInt)(n + 4));
    uint32_t col[32];
    for (int i = 0; i < 32; i++) { memset(buf + n, 0, 4); buf[n + i / 8] = (uint8_t)(1u << (i % 8)); col[i] = (uint32_t)crc32(0L, buf, (uInt)(n + 4)) ^ base; }
    /* Gaussian elimination: find x with XOR_{i in x} col[i] == target ^ base */
    uint32_t want = target ^ base, x = 0, rows[32], comb[32];
    for (int i = 0; i < 32; i++) { rows[i] = col[i]; comb[i] = 1u << i; }
    for (int bit = 31; bit >= 0; bit--) {
        int piv = -1;
        for (int i = 0; i < 32; i++) if ((rows[i] >> bit) & 1u) { int lower = 0; for (int b2 = 31; b2 > bit; b2--) if ((rows[i] >> b2) & 1u) lower = 1; if (!lower) { piv = i; break; } }
        if (piv < 0) continue;
        for (int i = 0; i < 32; i++) if (i != piv && ((rows[i] >> bit) & 1u)) { rows[i] ^= rows[piv]; comb[i] ^= comb[piv]; }
        if ((want >> bit) & 1u) { want ^= rows[piv]; x ^= comb[piv]; }
    }
    free(buf);
    return x;
}

/* a one-column REQUIRED INT32 UNCOMPRESSED file whose single page body has the given CRC-32 */
static uint8_t* write_forced(hctx* h, size_t* n, uint32_t target) {
    char path[128]; snprintf(path, sizeof path, "/tmp/verif_pg_%d_f.parquet", (int)getpid());
    int nv = 2 + (int)h_below(h, 6);
    int32_t vals[8]; for (int i = 0; i < nv - 1; i++) vals[i] = (int32_t)h_next(h);
    uint32_t x = force_crc((const uint8_t*)vals, (size_t)(nv - 1) * 4, target); memcpy(&vals[nv - 1], &x, 4);
    carquet_error_t err; memset(&err, 0, sizeof err);
    carquet_schema_t* sc = carquet_schema_create(&err);
    (void)!carquet_schema_add_column(sc, "v", CARQUET_PHYSICAL_INT32, NULL, CARQUET_REPETITION_REQUIRED, 0);
    carquet_writer_options_t wo; carquet_writer_options_init(&wo);
    carquet_writer_t* w = carquet_writer_create(path, sc, &wo, &err);
    (void)!carquet_writer_write_batch(w, 0, vals, nv, NULL, NULL);
    (void)!carquet_writer_close(w); carquet_schema_free(sc);
    FILE* f = fopen(path, "rb"); fseek(f, 0, SEEK_END); long sz = ftell(f); fseek(f, 0, SEEK_SET);
    uint8_t* b = h_alloc((size_t)sz); if (fread(b, 1, (size_t)sz, f) != (size_t)sz) sz = 0; fclose(f); unlink(path);
    *n = (size_t)sz; return b;
}

static void damage_pages(hctx* h, const uint8_t* base, size_t n, int per);
static int g_pg_codec;     /* codec of the file under damage (printed with each page) */

/* two REQUIRED INT32 UNCOMPRESSED columns, `pages` data pages of exactly `rpp` rows each per chunk (page_size = 4 * rpp, one batch
 * per page): all page headers and bodies of a chunk have the same size, so a reader that loses track of the page position after a
 * failed load lands exactly on a later page (or on the next chunk) and carries on without any error */
static uint8_t* write_equal_pages(hctx* h, size_t* n, int pages, int rpp) {
    char path[128]; snprintf(path, sizeof path, "/tmp/verif_pg_%d_e.parquet", (int)getpid());
    carquet_error_t err; memset(&err, 0, sizeof err);
    carquet_schema_t* sc = carquet_schema_create(&err);
    (void)!carquet_schema_add_column(sc, "a", CARQUET_PHYSICAL_INT32, NULL, CARQUET_REPETITION_REQUIRED, 0);
    (void)!carquet_schema_add_column(sc, "b", CARQUET_PHYSICAL_INT32, NULL, CARQUET_REPETITION_REQUIRED, 0);
    carquet_writer_options_t wo; carquet_writer_options_init(&wo); wo.page_size = 4 * rpp;
    carquet_writer_t* w = carquet_writer_create(path, sc, &wo, &err);
    int32_t* v = (int32_t*)h_alloc((size_t)rpp * 4);
    for (int c = 0; c < 2; c++) for (int p = 0; p < pages; p++) {
        for (int i = 0; i < rpp; i++) v[i] = (int32_t)(0x01010101u * (uint32_t)(1 + p + 7 * c) + (uint32_t)h_below(h, 250));   /* headers of equal length */
        (void)!carquet_writer_write_batch(w, c, v, rpp, NULL, NULL);
    }
    free(v);
    (void)!carquet_writer_close(w); carquet_schema_free(sc);
    FILE* f = fopen(path, "rb"); fseek(f, 0, SEEK_END); long sz = ftell(f); fseek(f, 0, SEEK_SET);
    uint8_t* b = h_alloc((size_t)sz); if (fread(b, 1, (size_t)sz, f) != (size_t)sz) sz = 0; fclose(f); unlink(path);
    *n = (size_t)sz; return b;
}

/* one REQUIRED INT32 SNAPPY column of 12..16 values that do not compress: the page body is the length preamble, ONE literal
 * element (tag (len - 1) << 2 for len <= 60) and the values; the first value has its top byte >= 0x80, so that a tag turned
 * into "literal with a 4-byte length" by a single flipped bit announces 2^31 bytes or more */
static uint8_t* write_snappy_literal(hctx* h, size_t* n, int variant) {
    char path[128]; snprintf(path, sizeof path, "/tmp/verif_pg_%d_s.parquet", (int)getpid());
    static const int nvs[] = { 12, 13, 15 };
    static const uint32_t firsts[] = { 0x80000000u, 0xFF000000u, 0xFFFFFFFFu };
    int nv = nvs[variant % 3];
    int32_t vals[16]; for (int i = 0; i < nv; i++) vals[i] = (int32_t)(h_next(h) | 1u);
    memcpy(&vals[0], &firsts[variant % 3], 4);
    carquet_error_t err; memset(&err, 0, sizeof err);
    carquet_schema_t* sc = carquet_schema_create(&err);
    (void)!carquet_schema_add_column(sc, "v", CARQUET_PHYSICAL_INT32, NULL, CARQUET_REPETITION_REQUIRED, 0);
    carquet_writer_options_t wo; carquet_writer_options_init(&wo); wo.compression = CARQUET_COMPRESSION_SNAPPY;
    carquet_writer_t* w = carquet_writer_create(path, sc, &wo, &err);
    (void)!carquet_writer_write_batch(w, 0, vals, nv, NULL, NULL);
    (void)!carquet_writer_close(w); carquet_schema_free(sc);
    FILE* f = fopen(path, "rb"); fseek(f, 0, SEEK_END); long sz = ftell(f); fseek(f, 0, SEEK_SET);
    uint8_t* b = h_alloc((size_t)sz); if (fread(b, 1, (size_t)sz, f) != (size_t)sz) sz = 0; fclose(f); unlink(path);
    *n = (size_t)sz; return b;
}
static void damage_head_bits(hctx* h, const uint8_t* base, size_t n, size_t head);
/* one REQUIRED INT32 column whose values repeat with a short period: the LZ4 / LZ4_RAW page is a few literals, ONE long match
 * and the trailing literals - every bit of it is then flipped (a lengthened match must not write behind the page buffer) */
static uint8_t* write_lz4_tail(hctx* h, size_t* n, int variant) {
    char path[128]; snprintf(path, sizeof path, "/tmp/verif_pg_%d_z.parquet", (int)getpid());
    static const int periods[] = { 5, 3, 7, 9 };
    int nv = 40 + (variant * 7) % 56, per = periods[(variant / 2) % 4];
    int32_t vals[96]; int32_t pat[9]; for (int i = 0; i < 9; i++) pat[i] = (int32_t)h_next(h);
    for (int i = 0; i < nv; i++) vals[i] = pat[i % per];
    carquet_error_t err; memset(&err, 0, sizeof err);
    carquet_schema_t* sc = carquet_schema_create(&err);
    (void)!carquet_schema_add_column(sc, "v", CARQUET_PHYSICAL_INT32, NULL, CARQUET_REPETITION_REQUIRED, 0);
    carquet_writer_options_t wo; carquet_writer_options_init(&wo); wo.compression = variant % 2 ? CARQUET_COMPRESSION_LZ4_RAW : CARQUET_COMPRESSION_LZ4;
    carquet_writer_t* w = carquet_writer_create(path, sc, &wo, &err);
    (void)!carquet_writer_write_batch(w, 0, vals, nv, NULL, NULL);
    (void)!carquet_writer_close(w); carquet_schema_free(sc);
    FILE* f = fopen(path, "rb"); fseek(f, 0, SEEK_END); long sz = ftell(f); fseek(f, 0, SEEK_SET);
    uint8_t* b = h_alloc((size_t)sz); if (fread(b, 1, (size_t)sz, f) != (size_t)sz) sz = 0; fclose(f); unlink(path);
    *n = (size_t)sz; return b;
}

/* ALL single-bit modifications of the page body of one small LZ4 / LZ4_RAW file, read without verification in ONE child (buffer
 * mode, exact-size copy): the child announces each bit on a pipe before it reads, so a crash names the bit.
 *   pglz4 variant=<v> | bits=<flips tried> bad_bit=<first bit whose read crashed, -1 none> rc=<child status> p_off_safe=0/1 */
/* kind 1: one REQUIRED BYTE_ARRAY column, PLAIN, uncompressed, a handful of short values: every bit of the page (length
 * prefixes included) flipped, read through stdio, where the page body sits in a heap block of exactly its size */
static uint8_t* write_ba_plain(hctx* h, size_t* n, int variant) {
    char path[128]; snprintf(path, sizeof path, "/tmp/verif_pg_%d_b.parquet", (int)getpid());
    int nv = 3 + variant % 5;
    carquet_byte_array_t vals[8]; uint8_t pool[8][12];
    for (int i = 0; i < nv; i++) { int len = 1 + (int)((unsigned)(variant * 3 + i * 5) % 9); for (int b = 0; b < len; b++) pool[i][b] = (uint8_t)h_next(h); vals[i].data = pool[i]; vals[i].length = len; }
    carquet_error_t err; memset(&err, 0, sizeof err);
    carquet_schema_t* sc = carquet_schema_create(&err);
    (void)!carquet_schema_add_column(sc, "s", CARQUET_PHYSICAL_BYTE_ARRAY, NULL, CARQUET_REPETITION_REQUIRED, 0);
    carquet_writer_options_t wo; carquet_writer_options_init(&wo); wo.compression = CARQUET_COMPRESSION_UNCOMPRESSED;
    carquet_writer_t* w = carquet_writer_create(path, sc, &wo, &err);
    (void)!carquet_writer_write_batch(w, 0, vals, nv, NULL, NULL);
    (void)!carquet_writer_close(w); carquet_schema_free(sc);
    FILE* f = fopen(path, "rb"); fseek(f, 0, SEEK_END); long sz = ftell(f); fseek(f, 0, SEEK_SET);
    uint8_t* b = h_alloc((size_t)sz); if (fread(b, 1, (size_t)sz, f) != (size_t)sz) sz = 0; fclose(f); unlink(path);
    *n = (size_t)sz; return b;
}
static void lz4_all_bits(hctx* h, int variant, int kind) {
    size_t n; uint8_t* base = kind ? write_ba_plain(h, &n, variant) : write_lz4_tail(h, &n, variant);
    pageloc pl[8]; int np = find_pages(base, n, pl, 8);
    char dpath[128]; snprintf(dpath, sizeof dpath, "/tmp/verif_pg_%d_scan.parquet", (int)getpid());
    fprintf(h->out, "pglz4 variant=%d kind=%d", variant, kind); h_call(h);
    if (np < 1 || pl[0].len == 0 || pl[0].len > 200) { fprintf(h->out, " | skipped=1 triv=1\n"); h->n_lines++; free(base); return; }
    int fds[2]; if (pipe(fds) != 0) { fprintf(h->out, " | skipped=1 triv=1\n"); h->n_lines++; free(base); return; }
    fflush(NULL);
    pid_t pid = fork();
    if (pid == 0) {
        close(fds[0]); h_cpu_alarm(30, on_alarm_pg);
        uint8_t* dmg = h_alloc(n);
        for (long b = 0; b < (long)pl[0].len * 8; b++) {
            memcpy(dmg, base, n); dmg[pl[0].off + pl[0].hs + (size_t)b / 8] ^= (uint8_t)(1u << (b % 8));
            if (write(fds[1], &b, sizeof b) != (ssize_t)sizeof b) _exit(3);
            if (kind) { FILE* df = fopen(dpath, "wb"); if (df) { fwrite(dmg, 1, n, df); fclose(df); } (void)read_chunk_rows(dpath, dmg, n, 0, 0, pl[0].rg, pl[0].col); }
            else (void)read_chunk_rows("/nonexistent", dmg, n, 2, 0, pl[0].rg, pl[0].col);
        }
        _exit(0);
    }
    close(fds[1]);
    long last = -1, cur; while (read(fds[0], &cur, sizeof cur) == (ssize_t)sizeof cur) last = cur;
    close(fds[0]);
    int st = 0; waitpid(pid, &st, 0);
    int rc = WIFEXITED(st) ? WEXITSTATUS(st) : 1000 + WTERMSIG(st);
    fprintf(h->out, " | bits=%ld bad_bit=%ld rc=%d p_off_safe=%d\n", (long)pl[0].len * 8, rc == 0 ? -1 : last, rc, rc == 0);
    h->n_lines++; free(base); unlink(dpath);
}

static void gen_pagecrc(hctx* h) {
    for (int v = 0; v < (h->thorough ? 64 : 24); v++) lz4_all_bits(h, v, 0);
    for (int v = 0; v < (h->thorough ? 20 : 6); v++) lz4_all_bits(h, v, 1);
    for (int t = 0; t < (h->thorough ? 8 : 3); t++) { size_t n; uint8_t* b = write_lz4_tail(h, &n, t + (int)h_below(h, 8)); g_pg_codec = 5; damage_head_bits(h, b, n, 80); g_pg_codec = 0; free(b); }
    /* every single bit of the first bytes of a page body: the codec's own framing (length preamble, first element tag) */
    for (int t = 0; t < 3; t++) { size_t n; uint8_t* b = write_snappy_literal(h, &n, t); g_pg_codec = 1; damage_head_bits(h, b, n, 3); g_pg_codec = 0; free(b); }

    /* boundary-directed: page bodies whose checksum takes the values a presence test could confuse with "absent" */
    static const uint32_t targets[] = { 0u, 0xFFFFFFFFu, 1u, 0x80000000u };
    for (int t = 0; t < 4; t++) { size_t n; uint8_t* b = write_forced(h, &n, targets[t]); damage_pages(h, b, n, 9); free(b); }

    /* chunks of equally sized pages (damage in a LATER page, reads that span page boundaries) */
    { static const int rpps[] = { 16, 40 };
      for (int t = 0; t < 2; t++) { size_t n; uint8_t* b = write_equal_pages(h, &n, 4 + t, rpps[t]); damage_pages(h, b, n, h->thorough ? 16 : 8); free(b); } }

    static const int codecs[] = { 0, 1, 6, 7, 2 };
    int files = h->thorough ? 20 : 5;
    for (int fi = 0; fi < files; fi++) {
        size_t n; uint8_t* base = write_base(h, &n, codecs[fi % 5]);
        g_pg_codec = codecs[fi % 5];
        damage_pages(h, base, n, h->thorough ? 30 : 12);
        g_pg_codec = 0;
        free(base);
    }
}

static void damage_pages(hctx* h, const uint8_t* base, size_t n, int per_page) {
        pageloc pl[64]; int np = find_pages(base, n, pl, 64);
        for (int p = 0; p < np; p++) {
            fprintf(h->out, "pgcrc codec=%d rg=%d col=%d page=%d len=%zu crc=%u | has_crc=%d p_page_has_crc=%d\n", g_pg_codec, pl[p].rg, pl[p].col, pl[p].page, pl[p].len, pl[p].crc, pl[p].has_crc, pl[p].has_crc);
            h->n_lines++;
            if (pl[p].len == 0) continue;
            size_t bits = pl[p].len * 8;
            if (h->thorough && bits <= 8 * 96) {
                /* every single bit of the page body, in all three modes */
                for (size_t b = 0; b < bits; b++) { uint8_t m[1] = { 1 }; one_damage(h, base, n, &pl[p], (int)(b % 4), b, m, 1); }
            }
            int per = per_page;
            for (int k = 0; k < per; k++) {
                uint8_t m[5] = { 0, 0, 0, 0, 0 }; int w = 1 + (int)h_below(h, 32);
                switch (k % 4) {
                case 0: w = 1; m[0] = 1; break;                                         /* single bit */
                case 1: w = 8; m[0] = (uint8_t)(1 + h_below(h, 255)); break;             /* one byte value change (aligned below) */
                case 2: for (int i = 0; i < w; i++) if (i == 0 || i == w - 1 || h_chance(h, 1, 2)) m[i / 8] |= (uint8_t)(1u << (i % 8)); break;  /* burst of width w */
                default: w = 32; m[0] = 1; m[3] = 0x80; break;                            /* two ends of a 32-bit window */
                }
                if (bits < (size_t)w) continue;
                size_t start = (size_t)h_below(h, bits - (size_t)w + 1);
                if (k % 4 == 1) start = start / 8 * 8;
                one_damage(h, base, n, &pl[p], (k + p) % 4, start, m, 5);
            }
        }
}

static void damage_head_bits(hctx* h, const uint8_t* base, size_t n, size_t head) {
    pageloc pl[64]; int np = find_pages(base, n, pl, 64);
    for (int p = 0; p < np; p++) {
        size_t bytes = pl[p].len < head ? pl[p].len : head;
        for (size_t b = 0; b < bytes * 8; b++) { uint8_t m[1] = { 1 }; one_damage(h, base, n, &pl[p], (int)(b % 3), b, m, 1); }
    }
}

static int replay_pagecrc(hctx* h, const h_line* l) { (void)h; (void)l; return 0; }  /* needs the whole file; re-run by seed */

const h_component comp_pagecrc = { "pagecrc", gen_pagecrc, replay_pagecrc };
