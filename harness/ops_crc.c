/* C14 (function part): carquet_crc32 / carquet_crc32_update on exact-size buffers at every
 * alignment; C-side oracle: zlib's crc32() called directly.
 * crc_dmg: a copy of the data damaged inside one window of <= 32 message bits (bit 8*k+j = bit j
 * of byte k) must get a different checksum from the real code (C14_burst_detected). */
#include "common.h"
#include <zlib.h>

uint32_t carquet_crc32(const uint8_t* data, size_t length);
uint32_t carquet_crc32_update(uint32_t crc, const uint8_t* data, size_t length);

static void do_crc(hctx* h, const uint8_t* d, size_t n, size_t align) {
    /* copy to an exact-size buffer at the requested misalignment from the end of the block,
     * so that byte n is the first byte past the allocation */
    uint8_t* blk = h_alloc(n + align);
    uint8_t* p = blk + align;
    memcpy(p, d, n);
    fprintf(h->out, "crc data="); h_hex(h->out, p, n); h_call(h);
    uint32_t r = carquet_crc32(p, n);
    uint32_t z = (uint32_t)crc32(0L, p, (uInt)n);
    fprintf(h->out, " | r=%u p_zlib=%d\n", r, r == z);
    h->n_lines++;
    free(blk);
}
static void do_upd(hctx* h, const uint8_t* d, size_t na, size_t nb) {
    uint8_t* a = h_alloc(na); memcpy(a, d, na);
    uint8_t* b = h_alloc(nb); memcpy(b, d + na, nb);
    fprintf(h->out, "crc_upd a="); h_hex(h->out, a, na);
    fprintf(h->out, " b="); h_hex(h->out, b, nb); h_call(h);
    uint32_t ra = carquet_crc32(a, na);
    uint32_t r = carquet_crc32_update(ra, b, nb);
    uint32_t whole = carquet_crc32(d, na + nb);
    fprintf(h->out, " | r=%u ra=%u p_compose=%d\n", r, ra, r == whole);
    h->n_lines++;
    free(a); free(b);
}

/* d2 = d with the bits of `pat` (bit t of pat -> message bit s+t, t < w <= 32) flipped */
static void do_dmg(hctx* h, const uint8_t* d, size_t n, size_t s, unsigned w, uint32_t pat) {
    uint8_t* a = h_alloc(n); memcpy(a, d, n);
    uint8_t* b = h_alloc(n); memcpy(b, d, n);
    int any = 0;
    for (unsigned t = 0; t < w && s + t < 8 * n; t++)
        if ((pat >> t) & 1u) { b[(s + t) / 8] ^= (uint8_t)(1u << ((s + t) % 8)); any = 1; }
    if (!any) { free(a); free(b); return; }
    fprintf(h->out, "crc_dmg data="); h_hex(h->out, a, n);
    fprintf(h->out, " d2="); h_hex(h->out, b, n); h_call(h);
    uint32_t r = carquet_crc32(a, n);
    uint32_t r2 = carquet_crc32(b, n);
    uint32_t z2 = (uint32_t)crc32(0L, b, (uInt)n);
    fprintf(h->out, " | r=%u r2=%u p_detect=%d p_zlib=%d\n", r, r2, r != r2, r2 == z2);
    h->n_lines++;
    free(a); free(b);
}

static void gen_dmg(hctx* h) {
    uint8_t buf[320];
    /* exhaustive small scope: 19-byte message (two 8-byte rounds + 3 tail bytes): every single
     * bit, every position of a solid 32-bit burst, every position of the two-ends-only burst */
    h_fill(h, buf, 19, 0);
    for (size_t s = 0; s < 8 * 19; s++) {
        do_dmg(h, buf, 19, s, 1, 1u);
        do_dmg(h, buf, 19, s, 32, 0xFFFFFFFFu);
        if (s + 32 <= 8 * 19) do_dmg(h, buf, 19, s, 32, 0x80000001u);
    }
    /* every single byte value change at one tail and one main-loop position (thorough) */
    if (h->thorough)
        for (unsigned v = 1; v < 256; v++) { do_dmg(h, buf, 19, 8 * 5, 8, v); do_dmg(h, buf, 19, 8 * 17, 8, v); }
    /* random: length 1..maxlen, any start, any width 1..32, random pattern with both ends set */
    size_t maxlen = h->thorough ? 300 : 64;
    long m = h->thorough ? 6000 : 500;
    for (long i = 0; i < m; i++) {
        size_t n = 1 + (size_t)h_below(h, maxlen);
        h_fill(h, buf, n, (int)h_below(h, 5));
        size_t s = (size_t)h_below(h, 8 * n);
        unsigned w = 1 + (unsigned)h_below(h, 32);
        uint32_t pat = (uint32_t)h_next(h);
        if (w < 32) pat &= (1u << w) - 1u;
        pat |= 1u | (1u << (w - 1));
        do_dmg(h, buf, n, s, w, pat);
    }
}

/* lengths that do not fit 32 bits: `len` zero bytes (first and last page touched) in a no-reserve mapping; one-shot and
 * as update(crc(a), b) with a long b; reference: zlib's crc32 over pieces of 1 GiB (its length argument is 32 bits wide) */
#include <sys/mman.h>
#include <zlib.h>
static void do_crc_big(hctx* h, uint64_t len, uint64_t split) {
    fprintf(h->out, "crc_big len=%llu split=%llu", (unsigned long long)len, (unsigned long long)split); h_call(h);
    uint8_t* m = (uint8_t*)mmap(NULL, (size_t)len + 4096, PROT_READ | PROT_WRITE, MAP_PRIVATE | MAP_ANONYMOUS | MAP_NORESERVE, -1, 0);
    if (m == MAP_FAILED) { fprintf(h->out, " | skipped=1 triv=1\n"); h->n_lines++; return; }
    m[0] = 0x61; m[len - 1] = 0x7A; if (split && split < len) m[split] = 0x55;
    uLong ref = crc32(0L, Z_NULL, 0);
    for (uint64_t off = 0; off < len; ) { uint64_t piece = len - off > (1ull << 30) ? (1ull << 30) : len - off; ref = crc32(ref, m + off, (uInt)piece); off += piece; }
    uint32_t one = carquet_crc32(m, (size_t)len);
    uint32_t two = carquet_crc32_update(carquet_crc32(m, (size_t)split), m + split, (size_t)(len - split));
    munmap(m, (size_t)len + 4096);
    fprintf(h->out, " | r=%u upd=%u p_zlib=%d p_update_composes=%d\n", one, two, one == (uint32_t)ref, two == (uint32_t)ref);
    h->n_lines++;
}

static void gen_crc(hctx* h) {
    do_crc_big(h, (1ull << 32) + 13, 5);
    if (h->thorough) { do_crc_big(h, 1ull << 32, 1ull << 31); do_crc_big(h, (1ull << 33) + 7, (1ull << 32) + 1); }
    size_t maxlen = h->thorough ? 1025 : 257;
    uint8_t* buf = h_alloc(maxlen + 8);
    /* all lengths 0..maxlen; alignments cycle 0..15 (thorough: all 16 for lengths < 80) */
    for (size_t n = 0; n <= maxlen; n++) {
        int kinds = (n < 40) ? 5 : 1;
        for (int k = 0; k < kinds; k++) {
            h_fill(h, buf, n, k == 0 ? 0 : k);
            if (h->thorough && n < 80) { for (size_t al = 0; al < 16; al++) do_crc(h, buf, n, al); }
            else do_crc(h, buf, n, n % 16);
        }
    }
    /* every split of short strings, random splits of longer ones */
    for (size_t n = 0; n <= 24; n++) {
        h_fill(h, buf, n, 0);
        for (size_t k = 0; k <= n; k++) do_upd(h, buf, k, n - k);
    }
    long m = h->thorough ? 4000 : 400;
    for (long i = 0; i < m; i++) {
        size_t n = (size_t)h_below(h, maxlen);
        h_fill(h, buf, n, (int)h_below(h, 5));
        size_t k = (size_t)h_below(h, n + 1);
        do_upd(h, buf, k, n - k);
    }
    free(buf);
    gen_dmg(h);
}

static int replay_crc(hctx* h, const h_line* l) {
    if (!strcmp(l->op, "crc")) {
        size_t n; uint8_t* d = h_unhex(h_in(l, "data"), &n);
        do_crc(h, d, n, 0); free(d); return 1;
    }
    if (!strcmp(l->op, "crc_big")) { do_crc_big(h, strtoull(h_in(l, "len"), NULL, 10), strtoull(h_in(l, "split"), NULL, 10)); return 1; }
    if (!strcmp(l->op, "crc_upd")) {
        size_t na, nb; uint8_t* a = h_unhex(h_in(l, "a"), &na); uint8_t* b = h_unhex(h_in(l, "b"), &nb);
        uint8_t* d = h_alloc(na + nb); memcpy(d, a, na); memcpy(d + na, b, nb);
        do_upd(h, d, na, nb); free(a); free(b); free(d); return 1;
    }
    if (!strcmp(l->op, "crc_dmg")) {
        size_t n, n2; uint8_t* a = h_unhex(h_in(l, "data"), &n); uint8_t* b = h_unhex(h_in(l, "d2"), &n2);
        if (n != n2) { free(a); free(b); return 0; }
        /* re-emit the same pair: recover first differing bit and the pattern (window <= 32 by construction) */
        size_t s = 0; while (s < 8 * n && !(((a[s / 8] ^ b[s / 8]) >> (s % 8)) & 1)) s++;
        uint32_t pat = 0;
        for (unsigned t = 0; t < 32 && s + t < 8 * n; t++)
            if (((a[(s + t) / 8] ^ b[(s + t) / 8]) >> ((s + t) % 8)) & 1) pat |= 1u << t;
        do_dmg(h, a, n, s, 32, pat); free(a); free(b); return 1;
    }
    return 0;
}

const h_component comp_crc = { "crc", gen_crc, replay_crc };
