/*
 * harness <component> --seed N --tier quick|thorough --out FILE     generate + execute
 * harness replay --in FILE --out FILE                                re-execute op lines on the real code
 */
#include "common.h"
#include <ctype.h>

int h_parse_line(const char* s, h_line* l) {
    memset(l, 0, sizeof *l);
    l->storage = strdup(s);
    char* save = NULL; int side = 0;
    for (char* t = strtok_r(l->storage, " \t\r\n", &save); t; t = strtok_r(NULL, " \t\r\n", &save)) {
        if (!l->op) { l->op = t; continue; }
        if (strcmp(t, "|") == 0) { side = 1; continue; }
        char* eq = strchr(t, '=');
        if (!eq) return 1;
        *eq = 0;
        if (side == 0 && l->n_in < 400) { l->in[l->n_in].key = t; l->in[l->n_in++].val = eq + 1; }
        else if (side == 1 && l->n_out < 400) { l->out[l->n_out].key = t; l->out[l->n_out++].val = eq + 1; }
    }
    return l->op ? 0 : 1;
}
void h_free_line(h_line* l) { free(l->storage); }
const char* h_in(const h_line* l, const char* key) {
    for (int i = 0; i < l->n_in; i++) if (strcmp(l->in[i].key, key) == 0) return l->in[i].val;
    return NULL;
}
static int hv(int c) { return c <= '9' ? c - '0' : (c | 32) - 'a' + 10; }
uint8_t* h_unhex(const char* v, size_t* n) {
    *n = 0;
    if (!v || v[0] != 'x') return h_alloc(0);
    size_t len = strlen(v + 1) / 2;
    uint8_t* p = h_alloc(len);
    for (size_t i = 0; i < len; i++) p[i] = (uint8_t)(hv(v[1 + 2 * i]) * 16 + hv(v[2 + 2 * i]));
    *n = len;
    return p;
}
long long h_ll(const char* v) { return v ? strtoll(v, NULL, 10) : 0; }
int64_t* h_list(const char* v, size_t* n) {
    *n = 0;
    if (!v || strcmp(v, "-") == 0) return (int64_t*)h_alloc(0);
    size_t cnt = 1;
    for (const char* c = v; *c; c++) if (*c == ',') cnt++;
    int64_t* a = (int64_t*)h_alloc(cnt * sizeof(int64_t));
    const char* c = v;
    for (size_t i = 0; i < cnt; i++) { a[i] = strtoll(c, (char**)&c, 10); if (*c == ',') c++; }
    *n = cnt;
    return a;
}

int main(int argc, char** argv) {
    if (argc < 2) { fprintf(stderr, "usage\n"); return 2; }
    hctx h; memset(&h, 0, sizeof h);
    h.in_path = NULL;
    const char* comp = argv[1]; const char* outp = NULL; const char* inp = NULL;
    uint64_t seed = 1;
    for (int i = 2; i < argc; i++) {
        if (!strcmp(argv[i], "--seed") && i + 1 < argc) seed = strtoull(argv[++i], NULL, 10);
        else if (!strcmp(argv[i], "--tier") && i + 1 < argc) h.thorough = !strcmp(argv[++i], "thorough");
        else if (!strcmp(argv[i], "--out") && i + 1 < argc) outp = argv[++i];
        else if (!strcmp(argv[i], "--in") && i + 1 < argc) { inp = argv[++i]; h.in_path = inp; }
        else if (!strcmp(argv[i], "--shards") && i + 1 < argc) h.shards = atoi(argv[++i]);
        else if (!strcmp(argv[i], "--budget") && i + 1 < argc) h.budget = strtol(argv[++i], NULL, 10);
    }
    h.rng = seed * 0x2545F4914F6CDD1Dull + 0x1234567; h.seed = seed;
    h.out = outp ? fopen(outp, "w") : stdout;
    if (!h.out) { perror("out"); return 2; }
    if (!strcmp(comp, "replay")) {
        FILE* in = inp ? fopen(inp, "r") : stdin;
        if (!in) { perror("in"); return 2; }
        /* read all lines first and close the input: components may fork, and a child's exit()
         * would otherwise reposition the shared input descriptor */
        char** lines = NULL; size_t nl = 0, capl = 0;
        { char* ln = NULL; size_t cp = 0;
          while (getline(&ln, &cp, in) > 0) { if (nl == capl) { capl = capl * 2 + 64; lines = (char**)realloc(lines, capl * sizeof(char*)); } lines[nl++] = strdup(ln); }
          free(ln); }
        if (in != stdin) fclose(in);
        in = NULL;
        char* line = NULL;
        for (size_t li = 0; li < nl; li++) {
            line = lines[li];
            if (line[0] == '#' || line[0] == '\n') { free(line); continue; }
            h_line l;
            if (h_parse_line(line, &l)) { fprintf(stderr, "bad line\n"); return 2; }
            int done = 0;
            for (int c = 0; c < h_n_components && !done; c++)
                if (h_components[c]->replay) done = h_components[c]->replay(&h, &l);
            /* an operation that cannot be re-executed from its line alone (it needs a whole generated file, a schedule, ...)
             * is skipped with a note: a corpus may hold such lines; re-run the generator with the seed to reproduce them */
            if (!done) fprintf(h.out, "# not replayable from the line alone: %s\n", l.op);
            h_free_line(&l);
            free(line);
        }
        free(lines);
        line = NULL;
        (void)line;
    } else {
        int found = 0;
        for (int c = 0; c < h_n_components; c++)
            if (!strcmp(h_components[c]->name, comp)) { h_components[c]->gen(&h); found = 1; }
        if (!found) { fprintf(stderr, "unknown component %s\n", comp); return 2; }
    }
    if (h.out != stdout) fclose(h.out);
    return 0;
}
