/* C02 / C03 (batch part): column reader and batch reader consumption histories on files written
 * by the real writer.
 *
 *   cur t= opt= codec= mode= ncol= nrg= rg= col= bad= pg= defs= vals= ops= | pgw= out=
 *       one column-reader history on chunk (rg,col) of a file whose ncol x nrg chunks all hold the
 *       same rows (so that data_start_offset etc. vary); `pg` rows per page, `defs` logical
 *       definition level per row, `vals` the non-null values in order, `bad` index of a page whose
 *       payload gets one byte flipped after writing (CRC failure on load) or -1.
 *       ops: r<k> read_batch(k)  s<k> skip(k)  h has_next  m remaining  c free + get_column.
 *       out: one result per op, '/'-separated; read = n:defs:reps:vals ('.'-separated lists, vals =
 *       the first m slots of the value array, m = number of returned def levels equal to max_def).
 *   bat ncol= nrg= t= opt= names= codec= mode= pg= defs= vals= bs= proj= byname= | pgw= st= nb= b=
 *       a batch reader drained; chunk lists are row-group major, '/'-separated.
 *       b: batches '/'-separated, each rows;ncols;col;col…, col = n:bitmaphex:vals:view.
 *
 * Paging: every page is produced by exactly one write_batch call with page_size = 1 (the writer
 * flushes a page after a write_batch when values+levels+64 >= page_size), and is then confirmed
 * by walking the chunk's page headers with carquet's own thrift parser (`pgw`).
 * A 0 in `pg` is a data page WITHOUT values (F63; legal Parquet).  The real writer never emits one
 * (flush_current_page returns when the page writer holds nothing), so such files are made from the
 * written file by `splice_empty`: every chunk is copied page by page, an empty DATA_PAGE is put
 * wherever `pg` has a 0 (header by carquet's own parquet_write_page_header with a CRC; body: nothing
 * for a REQUIRED column, the length prefix 0 of an empty definition-level block for an OPTIONAL one,
 * through carquet's own Snappy compressor when the chunk is compressed), and the footer is
 * re-serialised by parquet_write_file_metadata from the parsed metadata with offsets and sizes adjusted.
 * Modes: 0 carquet_reader_open (fread), 1 carquet_reader_open with use_mmap, 2 open_buffer.
 * Byte arrays are read byte by byte by this (ASan-instrumented) file right after the call that
 * returned them and before the next call on that reader. */
#include "common.h"
#include "ropts.h"
#include <carquet/carquet.h>
#include "reader/reader_internal.h"
#include "thrift/parquet_types.h"
#include "core/buffer.h"
#include <unistd.h>

extern carquet_status_t carquet_snappy_compress(const uint8_t* src, size_t src_size, uint8_t* dst, size_t dst_capacity,
                                                size_t* dst_size);
extern uint32_t carquet_crc32(const uint8_t* data, size_t length);

#define T_BOOL 0
#define T_I32 1
#define T_I64 2
#define T_DBL 5
#define T_BA 6
#define MAXCOL 8

typedef struct {
    int type, opt;
    int nrows, npages; int* pg;
    int16_t* defs;            /* nrows logical definition levels (REQUIRED: all 0 = max_def) */
    int nvals;                /* non-null rows */
    uint64_t* fixed;          /* bit patterns */
    uint8_t** ba; int32_t* balen;
} chunk_t;

typedef struct {
    int ncol, nrg, codec;
    int type[MAXCOL], opt[MAXCOL];
    char names[MAXCOL][24];
    chunk_t* ch;              /* nrg * ncol, row-group major */
} fspec_t;

typedef struct {              /* a written file, loaded */
    char path[256];
    uint8_t* buf; size_t size;
} pfile_t;

static long st_cur, st_bat, st_ops[5], st_cross, st_err, st_zc, st_files, st_bigskip, st_empty, st_emptyfiles;

/* ---------- small helpers ---------- */
static size_t vsize(int t) {
    switch (t) { case T_BOOL: return 1; case T_I32: return 4; case T_I64: case T_DBL: return 8;
                 default: return sizeof(carquet_byte_array_t); }
}
static void free_chunk(chunk_t* c) {
    if (c->ba) { for (int i = 0; i < c->nvals; i++) free(c->ba[i]); }
    free(c->ba); free(c->balen); free(c->fixed); free(c->defs); free(c->pg);
    memset(c, 0, sizeof *c);
}
static void free_spec(fspec_t* s) {
    for (int i = 0; i < s->ncol * s->nrg; i++) free_chunk(&s->ch[i]);
    free(s->ch); s->ch = NULL;
}
static void copy_chunk(chunk_t* d, const chunk_t* s) {
    *d = *s;
    d->pg = (int*)h_alloc(sizeof(int) * (size_t)(s->npages ? s->npages : 1));
    memcpy(d->pg, s->pg, sizeof(int) * (size_t)s->npages);
    d->defs = (int16_t*)h_alloc(2 * (size_t)(s->nrows ? s->nrows : 1));
    memcpy(d->defs, s->defs, 2 * (size_t)s->nrows);
    if (s->type == T_BA) {
        d->fixed = NULL;
        d->ba = (uint8_t**)h_alloc(sizeof(uint8_t*) * (size_t)(s->nvals ? s->nvals : 1));
        d->balen = (int32_t*)h_alloc(4 * (size_t)(s->nvals ? s->nvals : 1));
        for (int i = 0; i < s->nvals; i++) {
            d->balen[i] = s->balen[i];
            d->ba[i] = h_alloc((size_t)s->balen[i]);
            memcpy(d->ba[i], s->ba[i], (size_t)s->balen[i]);
        }
    } else {
        d->ba = NULL; d->balen = NULL;
        d->fixed = (uint64_t*)h_alloc(8 * (size_t)(s->nvals ? s->nvals : 1));
        memcpy(d->fixed, s->fixed, 8 * (size_t)s->nvals);
    }
}
static void print_intlist(FILE* f, const int* a, int n) {
    if (n == 0) { fputc('-', f); return; }
    for (int i = 0; i < n; i++) fprintf(f, "%s%d", i ? "," : "", a[i]);
}
static void print_defs(FILE* f, const chunk_t* c) {
    if (c->nrows == 0) { fputc('-', f); return; }
    for (int i = 0; i < c->nrows; i++) fprintf(f, "%s%d", i ? "," : "", (int)c->defs[i]);
}
static void print_vals(FILE* f, const chunk_t* c) {
    if (c->nvals == 0) { fputc('-', f); return; }
    for (int i = 0; i < c->nvals; i++) {
        if (i) fputc(',', f);
        if (c->type == T_BA) h_hex(f, c->ba[i], (size_t)c->balen[i]);
        else fprintf(f, "%llu", (unsigned long long)c->fixed[i]);
    }
}

/* ---------- generation of chunk contents ---------- */
/* nullmode: 0 none, 1 all, 2 random 1/2, 3 alternating, 4 sparse 1/5, 5 dense nulls 4/5.
 * Inside a page no run of 8 equal levels unless the whole page is constant (stays clear of the
 * RLE encoder defect F1, which is another component's subject). */
static void gen_chunk(hctx* h, chunk_t* c, int type, int opt, int npages, const int* pg, int nullmode) {
    memset(c, 0, sizeof *c);
    c->type = type; c->opt = opt; c->npages = npages;
    c->pg = (int*)h_alloc(sizeof(int) * (size_t)(npages ? npages : 1));
    for (int i = 0; i < npages; i++) { c->pg[i] = pg[i]; c->nrows += pg[i]; }
    c->defs = (int16_t*)h_alloc(2 * (size_t)(c->nrows ? c->nrows : 1));
    int r = 0;
    for (int p = 0; p < npages; p++) {
        int pm = nullmode;
        if (nullmode == 6) pm = (int)h_below(h, 6);          /* per-page mode */
        for (int i = 0; i < pg[p]; i++, r++) {
            int d;
            if (!opt) { c->defs[r] = 0; continue; }
            switch (pm) {
            case 0: d = 1; break;
            case 1: d = 0; break;
            case 3: d = (i & 1) ? 0 : 1; break;
            case 4: d = h_chance(h, 1, 5) ? 0 : 1; break;
            case 5: d = h_chance(h, 4, 5) ? 0 : 1; break;
            default: d = (int)h_below(h, 2); break;
            }
            if (pm >= 2 && i >= 7) {
                int same = 1;
                for (int k = 1; k <= 7; k++) if (c->defs[r - k] != d) { same = 0; break; }
                if (same) d = !d;
            }
            c->defs[r] = (int16_t)d;
        }
    }
    int maxdef = opt ? 1 : 0;
    for (int i = 0; i < c->nrows; i++) if (c->defs[i] == maxdef) c->nvals++;
    size_t nv = (size_t)(c->nvals ? c->nvals : 1);
    if (type == T_BA) {
        c->ba = (uint8_t**)h_alloc(sizeof(uint8_t*) * nv);
        c->balen = (int32_t*)h_alloc(4 * nv);
        for (int i = 0; i < c->nvals; i++) {
            int len = h_chance(h, 1, 6) ? 0 : 1 + (int)h_below(h, 9);
            c->balen[i] = len; c->ba[i] = h_alloc((size_t)len);
            for (int k = 0; k < len; k++) c->ba[i][k] = (uint8_t)h_next(h);
            if (len >= 2) { c->ba[i][0] = (uint8_t)i; c->ba[i][1] = (uint8_t)(i >> 8); }
        }
    } else {
        c->fixed = (uint64_t*)h_alloc(8 * nv);
        for (int i = 0; i < c->nvals; i++) {
            uint64_t v = h_next(h);
            if (h_chance(h, 1, 16)) v = h_chance(h, 1, 2) ? 0 : ~0ull;
            if (type == T_BOOL) v &= 1;
            else if (type == T_I32) v = (uint32_t)((v & 0xffff0000u) | (uint32_t)i);
            else v = (v & ~0xffffull) | (uint64_t)(i & 0xffff);   /* distinct within a chunk */
            c->fixed[i] = v;
        }
    }
}

/* ---------- data pages without values (F63) ---------- */
static void put(uint8_t** out, size_t* n, size_t* cap, const void* src, size_t len) {
    if (*n + len > *cap) {
        size_t nc = (*n + len) * 2 + 64;
        uint8_t* nb = h_alloc(nc);
        if (*n) memcpy(nb, *out, *n);
        free(*out); *out = nb; *cap = nc;
    }
    if (len) memcpy(*out + *n, src, len);
    *n += len;
}

/* one data page with num_values = 0 for a column with `opt` (max_def 1) / without definition levels */
static int empty_page(int opt, int codec, uint8_t** out, size_t* n, size_t* cap, int32_t* usize, int32_t* csize) {
    uint8_t body[4] = { 0, 0, 0, 0 }; size_t bl = opt ? 4 : 0;
    uint8_t comp[128]; size_t cl = bl;
    if (codec && bl == 0) { comp[0] = 0; cl = 1; }     /* Snappy stream of no bytes: the length varint 0 (carquet's compressor refuses an empty input) */
    else if (codec) { if (carquet_snappy_compress(body, bl, comp, sizeof comp, &cl) != CARQUET_OK) return 1; }
    else if (bl) memcpy(comp, body, bl);
    parquet_page_header_t ph; memset(&ph, 0, sizeof ph);
    ph.type = CARQUET_PAGE_DATA;
    ph.uncompressed_page_size = (int32_t)bl; ph.compressed_page_size = (int32_t)cl;
    ph.has_crc = true; ph.crc = (int32_t)carquet_crc32(comp, cl);
    ph.data_page_header.num_values = 0;
    ph.data_page_header.encoding = CARQUET_ENCODING_PLAIN;
    ph.data_page_header.definition_level_encoding = CARQUET_ENCODING_RLE;
    ph.data_page_header.repetition_level_encoding = CARQUET_ENCODING_RLE;
    carquet_buffer_t hb; carquet_buffer_init(&hb);
    carquet_error_t err = CARQUET_ERROR_INIT;
    if (parquet_write_page_header(&ph, &hb, &err) != CARQUET_OK) { carquet_buffer_destroy(&hb); return 2; }
    put(out, n, cap, hb.data, hb.size);
    put(out, n, cap, comp, cl);
    *usize = (int32_t)(hb.size + bl); *csize = (int32_t)(hb.size + cl);
    carquet_buffer_destroy(&hb);
    st_empty++;
    return 0;
}

/* rebuild the written file `pf` with an empty data page wherever the spec's page list has a 0 */
static int splice_empty(const fspec_t* s, pfile_t* pf) {
    carquet_error_t err = CARQUET_ERROR_INIT;
    carquet_reader_options_t ro; carquet_reader_options_init(&ro);
    carquet_reader_t* rd = carquet_reader_open_buffer(pf->buf, pf->size, &ro, &err);
    if (!rd) return 20;
    parquet_file_metadata_t* md = &rd->metadata;
    if (md->num_row_groups != s->nrg) { carquet_reader_close(rd); return 21; }
    uint8_t* out = NULL; size_t n = 0, cap = 0;
    put(&out, &n, &cap, "PAR1", 4);
    int rc = 0;
    for (int g = 0; g < s->nrg && !rc; g++) {
        parquet_row_group_t* rg = &md->row_groups[g];
        if (rg->num_columns != s->ncol) { rc = 22; break; }
        int64_t rgadd = 0;
        if (rg->has_file_offset) rg->file_offset = (int64_t)n;
        for (int c = 0; c < s->ncol && !rc; c++) {
            const chunk_t* ch = &s->ch[g * s->ncol + c];
            parquet_column_chunk_t* cc = &rg->columns[c];
            parquet_column_metadata_t* cm = &cc->metadata;
            if (cm->has_dictionary_page_offset) { rc = 23; break; }
            int64_t off = cm->data_page_offset;
            int64_t newstart = (int64_t)n;
            for (int p = 0; p < ch->npages && !rc; p++) {
                if (ch->pg[p] == 0) {
                    int32_t us = 0, cs = 0;
                    if (empty_page(ch->opt, s->codec, &out, &n, &cap, &us, &cs)) { rc = 24; break; }
                    cm->total_uncompressed_size += us; cm->total_compressed_size += cs; rgadd += cs;
                    continue;
                }
                if (off < 0 || (size_t)off >= pf->size) { rc = 25; break; }
                parquet_page_header_t ph; size_t hs = 0;
                size_t avail = pf->size - (size_t)off; if (avail > 256) avail = 256;
                if (parquet_parse_page_header(pf->buf + off, avail, &ph, &hs, &err) != CARQUET_OK) { rc = 26; break; }
                if (ph.type != CARQUET_PAGE_DATA || ph.data_page_header.num_values != ch->pg[p]) { rc = 27; break; }
                size_t len = hs + (size_t)ph.compressed_page_size;
                if ((size_t)off + len > pf->size) { rc = 28; break; }
                put(&out, &n, &cap, pf->buf + off, len);
                off += (int64_t)len;
            }
            cm->data_page_offset = newstart;
            cc->file_offset = newstart;
        }
        rg->total_byte_size += rgadd;
        if (rg->has_total_compressed_size) rg->total_compressed_size += rgadd;
    }
    if (!rc) {
        carquet_buffer_t fb; carquet_buffer_init(&fb);
        if (parquet_write_file_metadata(md, &fb, &err) != CARQUET_OK) rc = 29;
        else {
            uint8_t le[4] = { (uint8_t)fb.size, (uint8_t)(fb.size >> 8), (uint8_t)(fb.size >> 16), (uint8_t)(fb.size >> 24) };
            put(&out, &n, &cap, fb.data, fb.size);
            put(&out, &n, &cap, le, 4);
            put(&out, &n, &cap, "PAR1", 4);
        }
        carquet_buffer_destroy(&fb);
    }
    carquet_reader_close(rd);
    if (rc) { free(out); return rc; }
    FILE* f = fopen(pf->path, "wb");
    if (!f) { free(out); return 30; }
    fwrite(out, 1, n, f); fclose(f);
    free(pf->buf);
    pf->buf = h_alloc(n); memcpy(pf->buf, out, n); pf->size = n;     /* exact-size copy */
    free(out);
    return 0;
}

/* ---------- writing with the real writer ---------- */
static int n_tmp;
static int write_spec(const fspec_t* s, pfile_t* pf) {
    carquet_error_t err = CARQUET_ERROR_INIT;
    snprintf(pf->path, sizeof pf->path, "/tmp/verif_cursor_%d_%d.parquet", (int)getpid(), n_tmp++);
    pf->buf = NULL; pf->size = 0;
    carquet_schema_t* sc = carquet_schema_create(&err);
    if (!sc) return 1;
    for (int c = 0; c < s->ncol; c++) {
        if (carquet_schema_add_column(sc, s->names[c], (carquet_physical_type_t)s->type[c], NULL,
                s->opt[c] ? CARQUET_REPETITION_OPTIONAL : CARQUET_REPETITION_REQUIRED, 0) != CARQUET_OK) return 2;
    }
    carquet_writer_options_t wo; carquet_writer_options_init(&wo);
    wo.page_size = 1;                       /* every write_batch closes a page */
    wo.compression = s->codec ? CARQUET_COMPRESSION_SNAPPY : CARQUET_COMPRESSION_UNCOMPRESSED;
    carquet_writer_t* w = carquet_writer_create(pf->path, sc, &wo, &err);
    if (!w) { carquet_schema_free(sc); return 3; }
    int rc = 0;
    for (int g = 0; g < s->nrg && !rc; g++) {
        for (int c = 0; c < s->ncol && !rc; c++) {
            const chunk_t* ch = &s->ch[g * s->ncol + c];
            int row = 0, val = 0;
            for (int p = 0; p < ch->npages && !rc; p++) {
                int rows = ch->pg[p], nn = 0;
                if (rows == 0) continue;                 /* a page without values: spliced in afterwards */
                for (int i = 0; i < rows; i++) if (ch->defs[row + i] == (ch->opt ? 1 : 0)) nn++;
                size_t vs = vsize(ch->type);
                uint8_t* vb = h_alloc(vs * (size_t)nn);
                for (int i = 0; i < nn; i++) {
                    switch (ch->type) {
                    case T_BOOL: vb[i] = (uint8_t)ch->fixed[val + i]; break;
                    case T_I32: { uint32_t x = (uint32_t)ch->fixed[val + i]; memcpy(vb + 4 * i, &x, 4); break; }
                    case T_I64: case T_DBL: memcpy(vb + 8 * i, &ch->fixed[val + i], 8); break;
                    default: { carquet_byte_array_t b; memset(&b, 0, sizeof b);
                               b.data = ch->ba[val + i]; b.length = ch->balen[val + i];
                               memcpy(vb + vs * (size_t)i, &b, sizeof b); break; }
                    }
                }
                int16_t* db = NULL;
                if (ch->opt) { db = (int16_t*)h_alloc(2 * (size_t)rows); memcpy(db, ch->defs + row, 2 * (size_t)rows); }
                if (carquet_writer_write_batch(w, c, vb, rows, db, NULL) != CARQUET_OK) rc = 4;
                free(vb); free(db);
                row += rows; val += nn;
            }
        }
        if (!rc && g + 1 < s->nrg && carquet_writer_new_row_group(w) != CARQUET_OK) rc = 5;
    }
    if (rc) { carquet_writer_abort(w); carquet_schema_free(sc); return rc; }
    if (carquet_writer_close(w) != CARQUET_OK) { carquet_schema_free(sc); return 6; }
    carquet_schema_free(sc);
    FILE* f = fopen(pf->path, "rb");
    if (!f) return 7;
    fseek(f, 0, SEEK_END); long n = ftell(f); fseek(f, 0, SEEK_SET);
    pf->buf = h_alloc((size_t)n); pf->size = (size_t)n;
    if (fread(pf->buf, 1, (size_t)n, f) != (size_t)n) { fclose(f); return 8; }
    fclose(f);
    st_files++;
    int anyempty = 0;
    for (int i = 0; i < s->ncol * s->nrg; i++) for (int p = 0; p < s->ch[i].npages; p++) if (s->ch[i].pg[p] == 0) anyempty = 1;
    if (anyempty) { int rc2 = splice_empty(s, pf); if (rc2) { fprintf(stderr, "splice_empty rc=%d\n", rc2); return rc2; } st_emptyfiles++; }
    return 0;
}
static void drop_file(pfile_t* pf) { if (pf->path[0]) unlink(pf->path); free(pf->buf); pf->buf = NULL; pf->path[0] = 0; }

static carquet_reader_t* open_mode(int mode, const pfile_t* pf) {
    carquet_error_t err = CARQUET_ERROR_INIT;
    carquet_reader_options_t ro; carquet_reader_options_init(&ro);
    h_vary_reader_options(&ro, pf->buf, pf->size);
    if (mode == 2) return carquet_reader_open_buffer(pf->buf, pf->size, &ro, &err);
    ro.use_mmap = (mode == 1);
    return carquet_reader_open(pf->path, &ro, &err);
}

/* rows per page of chunk (g,c) by walking the page headers; payload offsets for corruption */
/* `want` > 0: the number of pages the chunk was written with (pages without values at the end of a
 * chunk cannot be told from the value count) */
static int walk_pages(const pfile_t* pf, carquet_reader_t* rd, int g, int c, int* rows, size_t* payload, int maxp, int want) {
    const parquet_column_metadata_t* cm = &rd->metadata.row_groups[g].columns[c].metadata;
    int64_t off = cm->data_page_offset, seen = 0; int n = 0;
    while ((want > 0 ? n < want : seen < cm->num_values) && n < maxp) {
        if (off < 0 || (size_t)off >= pf->size) return -1;
        parquet_page_header_t ph; size_t hs = 0; carquet_error_t err = CARQUET_ERROR_INIT;
        size_t avail = pf->size - (size_t)off; if (avail > 256) avail = 256;
        if (parquet_parse_page_header(pf->buf + off, avail, &ph, &hs, &err) != CARQUET_OK) return -1;
        if (ph.type != CARQUET_PAGE_DATA) return -1;
        rows[n] = ph.data_page_header.num_values;
        if (payload) payload[n] = (size_t)off + hs;
        seen += ph.data_page_header.num_values; n++;
        off += (int64_t)hs + ph.compressed_page_size;
    }
    return n;
}

/* flip one payload byte of page `bad` of every chunk (all chunks hold the same rows in `cur` files) */
static int corrupt(pfile_t* pf, const fspec_t* s, int bad) {
    carquet_reader_t* rd = open_mode(2, pf);
    if (!rd) return 1;
    for (int g = 0; g < s->nrg; g++) for (int c = 0; c < s->ncol; c++) {
        int rows[64]; size_t pay[64];
        int n = walk_pages(pf, rd, g, c, rows, pay, 64, s->ch[g * s->ncol + c].npages);
        if (bad >= n) { carquet_reader_close(rd); return 2; }
        pf->buf[pay[bad]] ^= 0x5a;
    }
    carquet_reader_close(rd);
    FILE* f = fopen(pf->path, "wb");
    if (!f) return 3;
    fwrite(pf->buf, 1, pf->size, f); fclose(f);
    return 0;
}

/* ---------- printing what a read returned ---------- */
/* values: first m slots, m = number of def levels equal to max_def among the n returned */
static void print_read(FILE* f, int type, int maxdef, long long n, const int16_t* d, const int16_t* r, const uint8_t* v) {
    fprintf(f, "%lld:", n);
    long long m = 0;
    for (long long i = 0; i < n; i++) { fprintf(f, "%s%d", i ? "." : "", (int)d[i]); if (d[i] == maxdef) m++; }
    fputc(':', f);
    for (long long i = 0; i < n; i++) fprintf(f, "%s%d", i ? "." : "", (int)r[i]);
    fputc(':', f);
    for (long long i = 0; i < m; i++) {
        if (i) fputc('.', f);
        switch (type) {
        case T_BOOL: fprintf(f, "%u", (unsigned)v[i]); break;
        case T_I32: { uint32_t x; memcpy(&x, v + 4 * i, 4); fprintf(f, "%u", x); break; }
        case T_I64: case T_DBL: { uint64_t x; memcpy(&x, v + 8 * i, 8); fprintf(f, "%llu", (unsigned long long)x); break; }
        default: {
            carquet_byte_array_t b; memcpy(&b, v + sizeof b * (size_t)i, sizeof b);
            fputc('x', f);
            for (int32_t k = 0; k < b.length; k++) {          /* instrumented byte reads */
                volatile uint8_t by = b.data[k];
                fprintf(f, "%02x", (unsigned)by);
            }
            break; }
        }
    }
}

/* ---------- column reader histories ---------- */
typedef struct { char kind; long long k; } cop_t;

static void print_ops(FILE* f, const cop_t* ops, int n) {
    if (n == 0) { fputc('-', f); return; }
    for (int i = 0; i < n; i++) {
        if (i) fputc(',', f);
        if (ops[i].kind == 'r' || ops[i].kind == 's') fprintf(f, "%c%lld", ops[i].kind, ops[i].k);
        else fputc(ops[i].kind, f);
    }
}

/* cur line for chunk `ch` replicated ncol x nrg, opened in `mode`, chunk (rg,col) */
static void exec_cur(hctx* h, const pfile_t* pf, const fspec_t* s, int mode, int rg, int col, int bad,
                     const cop_t* ops, int nops) {
    const chunk_t* ch = &s->ch[0];
    FILE* f = h->out;
    fprintf(f, "cur t=%d opt=%d codec=%d mode=%d ncol=%d nrg=%d rg=%d col=%d bad=%d pg=", ch->type, ch->opt,
            s->codec, mode, s->ncol, s->nrg, rg, col, bad);
    print_intlist(f, ch->pg, ch->npages);
    fprintf(f, " defs="); print_defs(f, ch);
    fprintf(f, " vals="); print_vals(f, ch);
    fprintf(f, " ops="); print_ops(f, ops, nops);
    h_call(h);
    st_cur++; h->n_lines++;
    carquet_error_t err = CARQUET_ERROR_INIT;
    carquet_reader_t* rd = open_mode(mode, pf);
    if (!rd) { fprintf(f, " | out=OPENFAIL\n"); return; }
    if (mode == 1 && !carquet_reader_is_mmap(rd)) { fprintf(f, " | out=NOMMAP\n"); carquet_reader_close(rd); return; }
    int rows[64];
    int np = walk_pages(pf, rd, rg, col, rows, NULL, 64, ch->npages);
    fprintf(f, " | pgw="); print_intlist(f, rows, np < 0 ? 0 : np);
    carquet_column_reader_t* cr = carquet_reader_get_column(rd, rg, col, &err);
    if (!cr) { fprintf(f, " out=COLFAIL\n"); carquet_reader_close(rd); return; }
    int maxdef = ch->opt ? 1 : 0;
    size_t vs = vsize(ch->type);
    fprintf(f, " out=");
    for (int i = 0; i < nops; i++) {
        if (i) fputc('/', f);
        switch (ops[i].kind) {
        case 'r': {
            long long k = ops[i].k; size_t kk = k > 0 ? (size_t)k : 0;
            uint8_t* vb = h_alloc(kk * vs);
            int16_t* db = (int16_t*)h_alloc(kk * 2);
            int16_t* rb = (int16_t*)h_alloc(kk * 2);
            int64_t before = carquet_column_remaining(cr);
            int64_t n = carquet_column_read_batch(cr, vb, k, db, rb);
            if (n > 0 && before - n > 0 && n < k) st_err++;       /* short count with rows left */
            if (n < 0) fprintf(f, "%lld:::", (long long)n);
            else print_read(f, ch->type, maxdef, n, db, rb, vb);
            if (n > 1) st_cross++;
            free(vb); free(db); free(rb);
            st_ops[0]++;
            break; }
        case 's': {
            int64_t n = carquet_column_skip(cr, ops[i].k);
            fprintf(f, "%lld", (long long)n);
            if (ops[i].k > 1024) st_bigskip++;
            st_ops[1]++;
            break; }
        case 'h': fprintf(f, "%d", carquet_column_has_next(cr) ? 1 : 0); st_ops[2]++; break;
        case 'm': fprintf(f, "%lld", (long long)carquet_column_remaining(cr)); st_ops[3]++; break;
        default:
            carquet_column_reader_free(cr);
            cr = carquet_reader_get_column(rd, rg, col, &err);
            fputc(cr ? 'c' : 'X', f); st_ops[4]++;
            if (!cr) { fputc('\n', f); carquet_reader_close(rd); return; }
            break;
        }
    }
    fputc('\n', f);
    carquet_column_reader_free(cr);
    carquet_reader_close(rd);
}

/* build the replicated spec of a `cur` case (takes a copy of ch) */
static void cur_spec(fspec_t* s, const chunk_t* ch, int ncol, int nrg, int codec) {
    memset(s, 0, sizeof *s);
    s->ncol = ncol; s->nrg = nrg; s->codec = codec;
    s->ch = (chunk_t*)h_alloc(sizeof(chunk_t) * (size_t)(ncol * nrg));
    for (int c = 0; c < ncol; c++) { s->type[c] = ch->type; s->opt[c] = ch->opt; snprintf(s->names[c], sizeof s->names[c], "c%d", c); }
    for (int i = 0; i < ncol * nrg; i++) copy_chunk(&s->ch[i], ch);
}

/* ---------- batch reader runs ---------- */
static void exec_bat(hctx* h, const pfile_t* pf, const fspec_t* s, int mode, int bs, const int* proj, int nproj,
                     int byname, const char* unknown) {
    FILE* f = h->out;
    fprintf(f, "bat ncol=%d nrg=%d t=", s->ncol, s->nrg); print_intlist(f, s->type, s->ncol);
    fprintf(f, " opt="); print_intlist(f, s->opt, s->ncol);
    fprintf(f, " names=");
    for (int c = 0; c < s->ncol; c++) fprintf(f, "%s%s", c ? "," : "", s->names[c]);
    fprintf(f, " codec=%d mode=%d pg=", s->codec, mode);
    int nch = s->ncol * s->nrg;
    for (int i = 0; i < nch; i++) { if (i) fputc('/', f); print_intlist(f, s->ch[i].pg, s->ch[i].npages); }
    fprintf(f, " defs=");
    for (int i = 0; i < nch; i++) { if (i) fputc('/', f); print_defs(f, &s->ch[i]); }
    fprintf(f, " vals=");
    for (int i = 0; i < nch; i++) { if (i) fputc('/', f); print_vals(f, &s->ch[i]); }
    fprintf(f, " bs=%d proj=", bs); print_intlist(f, proj, nproj);
    fprintf(f, " byname=%d", byname);
    if (unknown) fprintf(f, " unknown=%s", unknown);
    h_call(h);
    st_bat++; h->n_lines++;
    carquet_reader_t* rd = open_mode(mode, pf);
    if (!rd) { fprintf(f, " | st=OPENFAIL\n"); return; }
    fprintf(f, " | pgw=");
    for (int g = 0; g < s->nrg; g++) for (int c = 0; c < s->ncol; c++) {
        int rows[64]; int np = walk_pages(pf, rd, g, c, rows, NULL, 64, s->ch[g * s->ncol + c].npages);
        if (g || c) fputc('/', f);
        print_intlist(f, rows, np < 0 ? 0 : np);
    }
    carquet_error_t err = CARQUET_ERROR_INIT;
    carquet_batch_reader_config_t cfg; carquet_batch_reader_config_init(&cfg);
    cfg.batch_size = bs; cfg.num_threads = 1;
    int32_t idx[16]; const char* nm[16];
    if (nproj > 0 && !byname) {
        for (int i = 0; i < nproj; i++) idx[i] = proj[i];
        cfg.column_indices = idx; cfg.num_columns = nproj;
    } else if (nproj > 0) {
        for (int i = 0; i < nproj; i++) nm[i] = (proj[i] >= 0 && proj[i] < s->ncol) ? s->names[proj[i]] : unknown;
        cfg.column_names = nm; cfg.num_column_names = nproj;
    }
    carquet_batch_reader_t* br = carquet_batch_reader_create(rd, &cfg, &err);
    if (!br) { fprintf(f, " st=null nb=0 b=-\n"); carquet_reader_close(rd); return; }
    long total = 0; for (int g = 0; g < s->nrg; g++) total += s->ch[g * s->ncol].nrows;
    long cap = total + 2 * s->nrg + 4, nb = 0; int aligned = 1;
    fprintf(f, " b=");
    const char* st = "ok";
    for (;;) {
        carquet_row_batch_t* b = NULL;
        carquet_status_t rc = carquet_batch_reader_next(br, &b);
        if (rc != CARQUET_OK || !b) { st = rc == CARQUET_ERROR_END_OF_DATA ? "eod" : (rc == CARQUET_OK ? "nobatch" : "err"); break; }
        if (nb) fputc('/', f);
        int64_t nr = carquet_row_batch_num_rows(b); int32_t nc = carquet_row_batch_num_columns(b);
        fprintf(f, "%lld;%d", (long long)nr, (int)nc);
        for (int32_t c = 0; c < nc; c++) {
            const void* data = NULL; const uint8_t* bm = NULL; int64_t n = 0;
            if (carquet_row_batch_column(b, c, &data, &bm, &n) != CARQUET_OK) { fprintf(f, ";E"); continue; }
            if (n != nr) aligned = 0;
            int fc = (nproj > 0) ? ((byname ? carquet_schema_find_column(carquet_reader_schema(rd), nm[c]) : proj[c])) : c;
            int type = (fc >= 0 && fc < s->ncol) ? s->type[fc] : T_I32;
            fprintf(f, ";%lld:", (long long)n);
            if (!bm) fputc('-', f);
            else { fputc('x', f); for (int64_t k = 0; k < (n + 7) / 8; k++) fprintf(f, "%02x", (unsigned)bm[k]); }
            fputc(':', f);
            int64_t m = 0;
            for (int64_t i = 0; i < n; i++) if (!bm || !(bm[i / 8] & (1 << (i % 8)))) m++;
            const uint8_t* v = (const uint8_t*)data;
            for (int64_t i = 0; i < m; i++) {
                if (i) fputc('.', f);
                switch (type) {
                case T_BOOL: fprintf(f, "%u", (unsigned)v[i]); break;
                case T_I32: { uint32_t x; memcpy(&x, v + 4 * i, 4); fprintf(f, "%u", x); break; }
                case T_I64: case T_DBL: { uint64_t x; memcpy(&x, v + 8 * i, 8); fprintf(f, "%llu", (unsigned long long)x); break; }
                default: {
                    carquet_byte_array_t ba; memcpy(&ba, v + sizeof ba * (size_t)i, sizeof ba);
                    fputc('x', f);
                    for (int32_t k = 0; k < ba.length; k++) { volatile uint8_t by = ba.data[k]; fprintf(f, "%02x", (unsigned)by); }
                    break; }
                }
            }
            int view = 0;
            if (n > 0 && data) {
                const uint8_t* base = rd->mmap_data;
                if (base && v >= base && v < base + rd->file_size) view = 1;
            }
            if (view) st_zc++;
            fprintf(f, ":%d", view);
        }
        carquet_row_batch_free(b);
        nb++;
        if (nb > cap) { st = "runaway"; break; }
    }
    if (nb == 0) fputc('-', f);
    fprintf(f, " st=%s nb=%ld p_aligned=%d\n", st, nb, aligned);
    carquet_batch_reader_free(br);
    carquet_reader_close(rd);
}

/* ---------- generators ---------- */
static const int TYPES[5] = { T_I32, T_I64, T_DBL, T_BA, T_BOOL };

/* all histories of length <= L over {read k, skip k (k in 0..N), has, rem} on one prepared file */
static void enum_hist(hctx* h, const pfile_t* pf, const fspec_t* s, int mode, int N, int L, cop_t* ops, int depth) {
    exec_cur(h, pf, s, mode, 0, 0, -1, ops, depth);
    if (depth == L) return;
    for (int k = 0; k <= N; k++) { ops[depth].kind = 'r'; ops[depth].k = k; enum_hist(h, pf, s, mode, N, L, ops, depth + 1); }
    for (int k = 0; k <= N; k++) { ops[depth].kind = 's'; ops[depth].k = k; enum_hist(h, pf, s, mode, N, L, ops, depth + 1); }
    ops[depth].kind = 'h'; enum_hist(h, pf, s, mode, N, L, ops, depth + 1);
    ops[depth].kind = 'm'; enum_hist(h, pf, s, mode, N, L, ops, depth + 1);
}

static void exhaustive_on(hctx* h, int type, int opt, int npages, const int* pg, int nullmode, int mode, int N, int L) {
    chunk_t ch; gen_chunk(h, &ch, type, opt, npages, pg, nullmode);
    fspec_t s; cur_spec(&s, &ch, 1, 1, 0);
    pfile_t pf;
    if (write_spec(&s, &pf) == 0) {
        cop_t ops[8];
        enum_hist(h, &pf, &s, mode, N, L, ops, 0);
    } else fprintf(h->out, "#stat write_failed 1\n");
    drop_file(&pf); free_spec(&s); free_chunk(&ch);
}

/* F63: put pages without values into a page list (before any page and at the end, one or two in a row) */
static int inject_zeros(hctx* h, int* pg, int np, int maxnp) {
    int tmp[32], n = 0;
    for (int p = 0; p <= np && n < maxnp; p++) {
        if (h_chance(h, 1, 3)) { int k = 1 + (int)h_below(h, 2); while (k-- > 0 && n < maxnp - (np - p)) tmp[n++] = 0; }
        if (p < np) tmp[n++] = pg[p];
    }
    for (int i = 0; i < n; i++) pg[i] = tmp[i];
    return n;
}

static int rand_ops(hctx* h, cop_t* ops, int maxn, int nrows, int maxpage) {
    int n = 1 + (int)h_below(h, (uint64_t)maxn);
    for (int i = 0; i < n; i++) {
        int w = (int)h_below(h, 20);
        if (w < 9) {
            ops[i].kind = 'r';
            int z = (int)h_below(h, 10);
            if (z == 0) ops[i].k = 0;
            else if (z == 1) ops[i].k = -1 - (long long)h_below(h, 3);
            else if (z == 2) ops[i].k = nrows + (long long)h_below(h, 4);
            else if (z == 3) ops[i].k = maxpage + (long long)h_below(h, 3) - 1;
            else ops[i].k = 1 + (long long)h_below(h, (uint64_t)(2 * maxpage + 1));
        } else if (w < 14) {
            ops[i].kind = 's';
            int z = (int)h_below(h, 8);
            if (z == 0) ops[i].k = 0;
            else if (z == 1) ops[i].k = -(long long)h_below(h, 3);
            else if (z == 2) ops[i].k = nrows + (long long)h_below(h, 3);
            else ops[i].k = 1 + (long long)h_below(h, (uint64_t)(2 * maxpage + 1));
        } else if (w < 16) ops[i].kind = 'h';
        else if (w < 18) ops[i].kind = 'm';
        else ops[i].kind = 'c';
    }
    return n;
}

static void gen_cursor(hctx* h) {
    int thorough = h->thorough;
    /* 0. the negative witnesses of F4 / F28 (fixed defects), by name */
    {
        int pg[2] = { 5, 3 };
        chunk_t ch; gen_chunk(h, &ch, T_I32, 1, 2, pg, 3);
        fspec_t s; cur_spec(&s, &ch, 1, 1, 0); pfile_t pf;
        if (write_spec(&s, &pf) == 0) {
            cop_t a[3] = { {'r', 2}, {'r', 1}, {'r', 7} };
            exec_cur(h, &pf, &s, 0, 0, 0, -1, a, 3);
            cop_t b[1] = { {'r', 7} };
            exec_cur(h, &pf, &s, 0, 0, 0, -1, b, 1);
        }
        drop_file(&pf); free_spec(&s); free_chunk(&ch);
        /* F5: column 0 zero-copy eligible with a 10-row first page, column 1 not; batch of 25 */
        {
            fspec_t b; memset(&b, 0, sizeof b);
            b.ncol = 2; b.nrg = 1; b.codec = 0;
            b.type[0] = T_I32; b.opt[0] = 0; b.type[1] = T_I64; b.opt[1] = 1;
            strcpy(b.names[0], "id"); strcpy(b.names[1], "v");
            b.ch = (chunk_t*)h_alloc(sizeof(chunk_t) * 2);
            int p0[2] = { 10, 15 }, p1[1] = { 25 };
            gen_chunk(h, &b.ch[0], T_I32, 0, 2, p0, 0);
            gen_chunk(h, &b.ch[1], T_I64, 1, 1, p1, 3);
            if (write_spec(&b, &pf) == 0) {
                for (int mode = 0; mode < 3; mode++) exec_bat(h, &pf, &b, mode, 25, NULL, 0, 0, NULL);
            }
            drop_file(&pf); free_spec(&b);
        }
        int pg2[3] = { 2, 2, 2 };
        gen_chunk(h, &ch, T_BA, 0, 3, pg2, 0);
        cur_spec(&s, &ch, 1, 1, 0);
        if (write_spec(&s, &pf) == 0) {
            cop_t b[2] = { {'r', 5}, {'r', 5} };
            exec_cur(h, &pf, &s, 0, 0, 0, -1, b, 2);
        }
        drop_file(&pf); free_spec(&s); free_chunk(&ch);
    }
    /* 0b. the negative witnesses of F63 (fixed defect): data pages without values in the middle, at the head,
     * at the end of a chunk, two in a row; REQUIRED (zero-copy view in the mapped modes), OPTIONAL, BYTE_ARRAY,
     * compressed; read whole, row by row, page by page, skipped over */
    {
        int pgs[6][5] = { {3, 0, 3, -1, -1}, {0, 6, -1, -1, -1}, {6, 0, -1, -1, -1}, {2, 0, 0, 2, -1}, {0, 0, 4, 0, -1},
                          {0, 2, 0, 3, 0} };
        for (int i = 0; i < 6; i++) {
            int np = 0; while (np < 5 && pgs[i][np] >= 0) np++;
            for (int v = 0; v < (thorough ? 4 : 2); v++) {
                int type = v == 0 ? T_I32 : (v == 1 ? T_I64 : (v == 2 ? T_BA : T_BOOL));
                int opt = v == 1 || (v == 3 && (i & 1));
                chunk_t ch; gen_chunk(h, &ch, type, opt, np, pgs[i], 3);
                fspec_t s; cur_spec(&s, &ch, 1 + (i & 1), 1 + (i % 3 == 2), v == 2 && (i & 1)); pfile_t pf;
                if (write_spec(&s, &pf) == 0) {
                    for (int mode = 0; mode < 3; mode++) {
                        cop_t a[3] = { {'r', ch.nrows}, {'h', 0}, {'m', 0} };
                        exec_cur(h, &pf, &s, mode, 0, 0, -1, a, 3);
                        cop_t b[9] = { {'r', 1}, {'r', 1}, {'r', 1}, {'r', 1}, {'h', 0}, {'m', 0}, {'r', 1}, {'r', 1}, {'r', 1} };
                        exec_cur(h, &pf, &s, mode, s.nrg - 1, s.ncol - 1, -1, b, 9);
                        cop_t c[5] = { {'r', 3}, {'r', 3}, {'h', 0}, {'m', 0}, {'r', 3} };
                        exec_cur(h, &pf, &s, mode, 0, 0, -1, c, 5);
                        cop_t d[6] = { {'r', 0}, {'s', 2}, {'r', 2}, {'m', 0}, {'c', 0}, {'r', 9} };
                        exec_cur(h, &pf, &s, mode, 0, 0, -1, d, 6);
                    }
                } else fprintf(h->out, "#stat write_failed 1\n");
                drop_file(&pf); free_spec(&s); free_chunk(&ch);
            }
        }
    }
    /* 1. small exhaustive scopes */
    if (!thorough) {
        int pg[2] = { 3, 2 };
        exhaustive_on(h, T_I32, 1, 2, pg, 3, 0, 4, 3);            /* all histories, length <= 3, k in 0..4 */
        /* ... and with pages without values (F63): length <= 2 on four chunks, length <= 3 (k in 0..3) on one */
        int pz[4][4] = { {0, 2, 1, -1}, {2, 0, 1, -1}, {2, 1, 0, -1}, {1, 0, 0, 2} };
        for (int i = 0; i < 4; i++) {
            int np = 0; while (np < 4 && pz[i][np] >= 0) np++;
            exhaustive_on(h, TYPES[i % 4], i != 1, np, pz[i], 2 + (i % 3), i % 3, 4, 2);
        }
        int pz3[3] = { 2, 0, 2 };
        exhaustive_on(h, T_I32, 0, 3, pz3, 0, 1, 3, 3);
        int pgs[6][3] = { {1, 1, 1}, {2, 3, 1}, {4, 1, 2}, {1, 4, 0}, {5, 0, 0}, {2, 2, 2} };
        for (int i = 0; i < 6; i++) {
            int np = pgs[i][2] ? 3 : (pgs[i][1] ? 2 : 1);
            exhaustive_on(h, TYPES[i % 5], i != 4, np, pgs[i], 2 + (i % 3), i % 3, 4, 2);
        }
    } else {
        /* ALL histories of length <= 3 over {read k, skip k, has, rem}, k in 0..4, for every chunk of
         * <= 10 rows in <= 3 pages with page sizes 1..4 */
        int cfg = 0;
        for (int np = 1; np <= 3; np++) {
            int tot = np == 1 ? 4 : (np == 2 ? 16 : 64);
            for (int code = 0; code < tot; code++) {
                int pg[3] = { 1 + code % 4, 1 + (code / 4) % 4, 1 + (code / 16) % 4 };
                int rows = 0; for (int i = 0; i < np; i++) rows += pg[i];
                if (rows > 10) continue;
                exhaustive_on(h, TYPES[cfg % 5], cfg % 7 != 0, np, pg, 2 + cfg % 5, cfg % 3, 4, 3);
                cfg++;
            }
        }
        /* all histories of length <= 4, k in 0..3, on a dozen small chunks */
        int l4[12][3] = { {2, 1, 0}, {1, 2, 1}, {3, 0, 0}, {1, 1, 1}, {2, 2, 0}, {1, 3, 0}, {3, 1, 1}, {2, 1, 2},
                          {1, 1, 0}, {4, 2, 0}, {2, 3, 1}, {1, 2, 3} };
        for (int i = 0; i < 12; i++) {
            int np = l4[i][2] ? 3 : (l4[i][1] ? 2 : 1);
            exhaustive_on(h, TYPES[i % 5], i % 4 != 3, np, l4[i], 2 + i % 5, i % 3, 3, 4);
        }
        /* F63: ALL histories of length <= 3 (k in 0..4) for every chunk of one or two pages with rows (1..3 rows
         * each) and pages without values at the head / between / at the end (0, 1 or 2 in a row at each place,
         * at most 3 in all) */
        for (int a = 1; a <= 3; a++) for (int b = 0; b <= 3; b++)
            for (int z0 = 0; z0 <= 2; z0++) for (int z1 = 0; z1 <= (b ? 2 : 0); z1++) for (int z2 = 0; z2 <= 2; z2++) {
                if (z0 + z1 + z2 == 0 || z0 + z1 + z2 > 3) continue;
                int pg[8], np = 0;
                for (int k = 0; k < z0; k++) pg[np++] = 0;
                pg[np++] = a;
                for (int k = 0; k < z1; k++) pg[np++] = 0;
                if (b) pg[np++] = b;
                for (int k = 0; k < z2; k++) pg[np++] = 0;
                exhaustive_on(h, TYPES[cfg % 5], cfg % 3 != 0, np, pg, 2 + cfg % 5, cfg % 3, 4, 3);
                cfg++;
            }
    }
    /* 2. random chunks x random histories, all types, three modes, optional CRC-damaged page */
    long nfiles = thorough ? 4000 : 150;
    for (long i = 0; i < nfiles; i++) {
        int np = 1 + (int)h_below(h, 6), pg[16], maxpage = 1;
        for (int p = 0; p < np; p++) { pg[p] = 1 + (int)h_below(h, h_chance(h, 1, 4) ? 40 : 9); if (pg[p] > maxpage) maxpage = pg[p]; }
        int type = TYPES[h_below(h, 5)], opt = !h_chance(h, 1, 4);
        if (i % 4 == 3) np = inject_zeros(h, pg, np, 12);              /* F63: pages without values */
        chunk_t ch; gen_chunk(h, &ch, type, opt, np, pg, (int)h_below(h, 7));
        int ncol = 1 + (int)h_below(h, 3), nrg = 1 + (int)h_below(h, 3), codec = h_chance(h, 1, 4);
        int bad = h_chance(h, 1, 8) ? (int)h_below(h, (uint64_t)np) : -1;
        if (bad >= 0 && pg[bad] == 0 && !opt) bad = -1;               /* no payload byte to damage */
        fspec_t s; cur_spec(&s, &ch, ncol, nrg, codec); pfile_t pf;
        int rc = write_spec(&s, &pf);
        if (rc == 0 && bad >= 0 && corrupt(&pf, &s, bad) != 0) rc = 99;
        if (rc == 0) {
            int nh = thorough ? 12 : 8;
            for (int k = 0; k < nh; k++) {
                cop_t ops[12]; int n = rand_ops(h, ops, 10, ch.nrows, maxpage);
                exec_cur(h, &pf, &s, (int)h_below(h, 3), (int)h_below(h, (uint64_t)nrg), (int)h_below(h, (uint64_t)ncol), bad, ops, n);
            }
        } else fprintf(h->out, "#stat write_failed 1\n");
        drop_file(&pf); free_spec(&s); free_chunk(&ch);
    }
    /* 3. chunks larger than the skip chunk size (1024) */
    for (int i = 0; i < (thorough ? 12 : 3); i++) {
        /* at least 3 * 1024 + 128 rows, so that a skip which over-advances by a whole chunk (C02b-1: skip(1500) taking 2048
         * rows) still finds rows to take and the rows read afterwards are visibly the wrong ones */
        int pg[3] = { 1100 + (int)h_below(h, 600), 1100 + (int)h_below(h, 700), 1000 + (int)h_below(h, 400) };
        chunk_t ch; gen_chunk(h, &ch, TYPES[i % 4], i % 2, 3, pg, 2);
        fspec_t s; cur_spec(&s, &ch, 1, 1, 0); pfile_t pf;
        if (write_spec(&s, &pf) == 0) {
            cop_t a[5] = { {'s', 1024}, {'m', 0}, {'s', 1025}, {'r', 3}, {'m', 0} };
            exec_cur(h, &pf, &s, i % 3, 0, 0, -1, a, 5);
            cop_t b[4] = { {'r', 1}, {'s', 2047 + (long long)h_below(h, 3)}, {'r', 2000}, {'h', 0} };
            exec_cur(h, &pf, &s, (i + 1) % 3, 0, 0, -1, b, 4);
            cop_t c[6] = { {'s', 1500}, {'m', 0}, {'r', 2}, {'s', 1025 + (long long)h_below(h, 1000)}, {'m', 0}, {'r', 5} };
            exec_cur(h, &pf, &s, (i + 2) % 3, 0, 0, -1, c, 6);
        }
        drop_file(&pf); free_spec(&s); free_chunk(&ch);
    }
    /* 4. batch reader: files mixing zero-copy-eligible and other columns, several row groups */
    long nb = thorough ? 1200 : 60;
    for (long i = 0; i < nb; i++) {
        fspec_t s; memset(&s, 0, sizeof s);
        s.ncol = 1 + (int)h_below(h, 4); s.nrg = 1 + (int)h_below(h, 3); s.codec = h_chance(h, 1, 5);
        s.ch = (chunk_t*)h_alloc(sizeof(chunk_t) * (size_t)(s.ncol * s.nrg));
        for (int c = 0; c < s.ncol; c++) {
            s.type[c] = TYPES[h_below(h, 5)]; s.opt[c] = h_chance(h, 1, 2);
            snprintf(s.names[c], sizeof s.names[c], "col%d", c);
        }
        if (s.ncol >= 2 && h_chance(h, 1, 8)) strcpy(s.names[s.ncol - 1], s.names[0]);   /* duplicate name */
        /* a name with a dot whose last component is the name of another column (a flat column may be called "a.b": the
         * name is the whole string, not a path) */
        else if (s.ncol >= 2 && h_chance(h, 1, 4)) snprintf(s.names[s.ncol - 1], sizeof s.names[s.ncol - 1], "g.%s", s.names[0]);
        int maxrows = 1;
        for (int g = 0; g < s.nrg; g++) {
            int rows = 1 + (int)h_below(h, h_chance(h, 1, 3) ? 60 : 14);
            if (rows > maxrows) maxrows = rows;
            for (int c = 0; c < s.ncol; c++) {
                int pg[16], np = 0, left = rows;
                while (left > 0 && np < 5) { int r = 1 + (int)h_below(h, (uint64_t)left); if (h_chance(h, 1, 2) && r > 1) r = 1 + r / 2; pg[np++] = r; left -= r; }
                if (left > 0) pg[np++] = left;
                if (i % 4 == 3 && h_chance(h, 2, 3)) np = inject_zeros(h, pg, np, 12);   /* F63: pages without values */
                gen_chunk(h, &s.ch[g * s.ncol + c], s.type[c], s.opt[c], np, pg, (int)h_below(h, 7));
            }
        }
        pfile_t pf;
        if (write_spec(&s, &pf) == 0) {
            int runs = thorough ? 8 : 5;
            for (int k = 0; k < runs; k++) {
                int bs;
                int z = (int)h_below(h, 6);
                if (z == 0) bs = 1; else if (z == 1) bs = maxrows + (int)h_below(h, 3);
                else if (z == 2) {                                     /* exactly the first page (with rows) of column 0 */
                    bs = 1;
                    for (int q = 0; q < s.ch[0].npages; q++) if (s.ch[0].pg[q] > 0) { bs = s.ch[0].pg[q]; break; }
                }
                else bs = 1 + (int)h_below(h, (uint64_t)maxrows + 2);
                int proj[8], np = 0, byname = 0; const char* unknown = NULL;
                int pz = (int)h_below(h, 4);
                if (pz >= 1) {
                    np = 1 + (int)h_below(h, (uint64_t)s.ncol + 1);
                    for (int q = 0; q < np; q++) proj[q] = (int)h_below(h, (uint64_t)s.ncol);
                    byname = pz >= 2;
                    if (byname && h_chance(h, 1, 12)) { proj[h_below(h, (uint64_t)np)] = -1; unknown = "nosuch"; }
                    if (!byname && h_chance(h, 1, 12)) proj[h_below(h, (uint64_t)np)] = s.ncol + (int)h_below(h, 2);
                }
                for (int mode = 0; mode < 3; mode++) exec_bat(h, &pf, &s, mode, bs, proj, np, byname, unknown);
            }
        } else fprintf(h->out, "#stat write_failed 1\n");
        drop_file(&pf); free_spec(&s);
    }
    fprintf(h->out, "#stat cur_histories %ld\n#stat bat_runs %ld\n#stat files_written %ld\n", st_cur, st_bat, st_files);
    fprintf(h->out, "#stat files_with_empty_pages %ld\n#stat empty_pages_spliced %ld\n", st_emptyfiles, st_empty);
    fprintf(h->out, "#stat op_read %ld\n#stat op_skip %ld\n#stat op_has %ld\n#stat op_rem %ld\n#stat op_recreate %ld\n",
            st_ops[0], st_ops[1], st_ops[2], st_ops[3], st_ops[4]);
    fprintf(h->out, "#stat reads_multi_row %ld\n#stat short_reads_on_error %ld\n#stat zero_copy_columns %ld\n#stat skips_over_1024 %ld\n",
            st_cross, st_err, st_zc, st_bigskip);
}

/* ---------- replay ---------- */
static char** split(const char* v, char sep, int* n) {
    *n = 0;
    char** out = (char**)h_alloc(sizeof(char*) * (strlen(v) + 2));
    const char* p = v;
    for (;;) {
        const char* q = strchr(p, sep);
        size_t len = q ? (size_t)(q - p) : strlen(p);
        char* t = (char*)h_alloc(len + 1); memcpy(t, p, len); t[len] = 0;
        out[(*n)++] = t;
        if (!q) break;
        p = q + 1;
    }
    return out;
}
static void free_split(char** a, int n) { for (int i = 0; i < n; i++) free(a[i]); free(a); }

/* chunk from the three list fields */
static void parse_chunk(chunk_t* c, int type, int opt, const char* pg, const char* defs, const char* vals) {
    memset(c, 0, sizeof *c); c->type = type; c->opt = opt;
    size_t n; int64_t* a = h_list(pg, &n);
    c->npages = (int)n; c->pg = (int*)h_alloc(sizeof(int) * (n ? n : 1));
    for (size_t i = 0; i < n; i++) { c->pg[i] = (int)a[i]; c->nrows += (int)a[i]; }
    free(a);
    a = h_list(defs, &n);
    c->defs = (int16_t*)h_alloc(2 * (n ? n : 1));
    for (size_t i = 0; i < n && (int)i < c->nrows; i++) c->defs[i] = (int16_t)a[i];
    free(a);
    int nv = 0; char** toks = NULL;
    if (strcmp(vals, "-") != 0) toks = split(vals, ',', &nv);
    c->nvals = nv;
    if (type == T_BA) {
        c->ba = (uint8_t**)h_alloc(sizeof(uint8_t*) * (size_t)(nv ? nv : 1));
        c->balen = (int32_t*)h_alloc(4 * (size_t)(nv ? nv : 1));
        for (int i = 0; i < nv; i++) { size_t l; c->ba[i] = h_unhex(toks[i], &l); c->balen[i] = (int32_t)l; }
    } else {
        c->fixed = (uint64_t*)h_alloc(8 * (size_t)(nv ? nv : 1));
        for (int i = 0; i < nv; i++) c->fixed[i] = strtoull(toks[i], NULL, 10);
    }
    if (toks) free_split(toks, nv);
}

static int replay_cursor(hctx* h, const h_line* l) {
    if (!strcmp(l->op, "cur")) {
        chunk_t ch;
        parse_chunk(&ch, (int)h_ll(h_in(l, "t")), (int)h_ll(h_in(l, "opt")), h_in(l, "pg"), h_in(l, "defs"), h_in(l, "vals"));
        fspec_t s; cur_spec(&s, &ch, (int)h_ll(h_in(l, "ncol")), (int)h_ll(h_in(l, "nrg")), (int)h_ll(h_in(l, "codec")));
        int bad = (int)h_ll(h_in(l, "bad"));
        cop_t ops[256]; int nops = 0;
        const char* o = h_in(l, "ops");
        if (o && strcmp(o, "-") != 0) {
            int n; char** t = split(o, ',', &n);
            for (int i = 0; i < n && nops < 256; i++) { ops[nops].kind = t[i][0]; ops[nops].k = t[i][1] ? strtoll(t[i] + 1, NULL, 10) : 0; nops++; }
            free_split(t, n);
        }
        pfile_t pf;
        int rc = write_spec(&s, &pf);
        if (rc == 0 && bad >= 0) rc = corrupt(&pf, &s, bad);
        if (rc == 0) exec_cur(h, &pf, &s, (int)h_ll(h_in(l, "mode")), (int)h_ll(h_in(l, "rg")), (int)h_ll(h_in(l, "col")), bad, ops, nops);
        else fprintf(stderr, "cursor replay: cannot write file (%d)\n", rc);
        drop_file(&pf); free_spec(&s); free_chunk(&ch);
        return 1;
    }
    if (!strcmp(l->op, "bat")) {
        fspec_t s; memset(&s, 0, sizeof s);
        s.ncol = (int)h_ll(h_in(l, "ncol")); s.nrg = (int)h_ll(h_in(l, "nrg")); s.codec = (int)h_ll(h_in(l, "codec"));
        size_t n; int64_t* a = h_list(h_in(l, "t"), &n);
        for (size_t i = 0; i < n && i < MAXCOL; i++) s.type[i] = (int)a[i];
        free(a);
        a = h_list(h_in(l, "opt"), &n);
        for (size_t i = 0; i < n && i < MAXCOL; i++) s.opt[i] = (int)a[i];
        free(a);
        int k; char** nm = split(h_in(l, "names"), ',', &k);
        for (int i = 0; i < k && i < MAXCOL; i++) snprintf(s.names[i], sizeof s.names[i], "%s", nm[i]);
        free_split(nm, k);
        int nch = s.ncol * s.nrg, n1, n2, n3;
        char** pg = split(h_in(l, "pg"), '/', &n1); char** df = split(h_in(l, "defs"), '/', &n2); char** vl = split(h_in(l, "vals"), '/', &n3);
        if (n1 != nch || n2 != nch || n3 != nch) { fprintf(stderr, "cursor replay: bad bat line\n"); return 1; }
        s.ch = (chunk_t*)h_alloc(sizeof(chunk_t) * (size_t)nch);
        for (int i = 0; i < nch; i++) parse_chunk(&s.ch[i], s.type[i % s.ncol], s.opt[i % s.ncol], pg[i], df[i], vl[i]);
        free_split(pg, n1); free_split(df, n2); free_split(vl, n3);
        int proj[16], np = 0;
        a = h_list(h_in(l, "proj"), &n);
        for (size_t i = 0; i < n && i < 16; i++) proj[np++] = (int)a[i];
        free(a);
        pfile_t pf;
        if (write_spec(&s, &pf) == 0)
            exec_bat(h, &pf, &s, (int)h_ll(h_in(l, "mode")), (int)h_ll(h_in(l, "bs")), proj, np, (int)h_ll(h_in(l, "byname")), h_in(l, "unknown"));
        drop_file(&pf); free_spec(&s);
        return 1;
    }
    return 0;
}

const h_component comp_cursor = { "cursor", gen_cursor, replay_cursor };
