/* C06: files produced by the reference writer of the Lean Spec (driver --gen reffiles) are read by the real
 * reader.  The component reads its input lines from h->in_path:
 *
 *   refread id=<n> desc=<features> cols=<ptype.tlen.maxdef.maxrep,...> nrg=<n> file=x<bytes>
 *           expect=<table> unsupported=<0|1> selfcheck=<0|1>
 *      | g<mode>_<bs>=<table as read> ...      mode 0 fread, 1 mmap, 2 buffer; bs 0 = one read_batch per chunk,
 *                                               otherwise batches of bs entries; `same` means "same as g0_0"
 *   table   := rowgroup ( '/' rowgroup )*      rowgroup := chunk ( '+' chunk )*
 *   chunk   := 'R' levels 'D' levels 'V' values [ '!' marker ]
 *   levels  := '-' | n (',' n)*                 values := '-' | hex (':' hex)*  (empty value: 'e')
 *   marker  := E<n> read_batch returned <0 after n entries | S<n> returned 0 with entries outstanding
 *            | O<n> returned more than asked | G<code> get_column failed | N<n> implausible remaining()
 *   a file that cannot be opened: the whole table is `!P<code>`; a wrong number of row groups / columns:
 *   `!M<nrg>.<ncol>`
 *
 * The bytes are written to a temp file; every chunk is read with definition- and repetition-level buffers of
 * exactly the requested size; BYTE_ARRAY contents are copied by instrumented harness code right after the
 * call that returned them (ASan sees stale pointers). */
#include "common.h"
#include "ropts.h"
#include <unistd.h>
#include <carquet/carquet.h>

typedef struct { char* p; size_t len, cap; } sbuf;
static void sb_put(sbuf* b, const char* s, size_t n) {
    if (b->len + n + 1 > b->cap) { b->cap = (b->len + n + 1) * 2 + 64; b->p = (char*)realloc(b->p, b->cap); }
    memcpy(b->p + b->len, s, n); b->len += n; b->p[b->len] = 0;
}
static void sb_str(sbuf* b, const char* s) { sb_put(b, s, strlen(s)); }
static void sb_int(sbuf* b, long long v) { char t[32]; snprintf(t, sizeof t, "%lld", v); sb_str(b, t); }
static void sb_hex(sbuf* b, const uint8_t* p, size_t n) {
    static const char d[] = "0123456789abcdef";
    if (n == 0) { sb_str(b, "e"); return; }
    for (size_t i = 0; i < n; i++) { char t[2] = { d[p[i] >> 4], d[p[i] & 15] }; sb_put(b, t, 2); }   /* instrumented byte reads */
}

typedef struct { int ptype, tlen, maxdef, maxrep; } rcol;

static int value_size(const rcol* c) {
    switch (c->ptype) {
    case 0: return 1; case 1: case 4: return 4; case 2: case 5: return 8; case 3: return 12;
    case 6: return (int)sizeof(carquet_byte_array_t); case 7: return c->tlen; default: return 0;
    }
}

static void read_chunk(sbuf* out, carquet_reader_t* rd, const rcol* c, int rg, int col, long bs) {
    carquet_error_t err; memset(&err, 0, sizeof err);
    carquet_column_reader_t* cr = carquet_reader_get_column(rd, rg, col, &err);
    if (!cr) { sb_str(out, "R-D-V-!G"); sb_int(out, (int)err.code); return; }
    int64_t n = carquet_column_remaining(cr);
    if (n < 0 || n > 1000000) { sb_str(out, "R-D-V-!N"); sb_int(out, n); carquet_column_reader_free(cr); return; }
    sbuf R = {0}, D = {0}, V = {0}; char marker[48] = "";
    int vs = value_size(c);
    int64_t total = 0; long nvals = 0;
    while (total < n) {
        int64_t want = bs > 0 && bs < n - total ? bs : n - total;
        uint8_t* vals = h_alloc((size_t)want * (size_t)vs);
        memset(vals, 0xEE, (size_t)want * (size_t)vs);
        int16_t* defs = (int16_t*)h_alloc((size_t)want * 2);
        int16_t* reps = (int16_t*)h_alloc((size_t)want * 2);
        for (int64_t i = 0; i < want; i++) { defs[i] = -7; reps[i] = -7; }
        int64_t got = carquet_column_read_batch(cr, vals, want, defs, reps);
        if (got < 0) { snprintf(marker, sizeof marker, "!E%lld", (long long)total); free(vals); free(defs); free(reps); break; }
        if (got == 0) { snprintf(marker, sizeof marker, "!S%lld", (long long)total); free(vals); free(defs); free(reps); break; }
        if (got > want) { snprintf(marker, sizeof marker, "!O%lld", (long long)total); free(vals); free(defs); free(reps); break; }
        int64_t nn = 0;
        for (int64_t i = 0; i < got; i++) {
            if (R.len) sb_str(&R, ","); sb_int(&R, reps[i]);
            if (D.len) sb_str(&D, ","); sb_int(&D, defs[i]);
            if (defs[i] == c->maxdef) nn++;
        }
        for (int64_t j = 0; j < nn; j++) {
            if (nvals++) sb_str(&V, ":");
            if (c->ptype == 6) {
                const carquet_byte_array_t* a = (const carquet_byte_array_t*)vals;
                if (a[j].length < 0 || a[j].length > 1000000) sb_str(&V, "BADLEN"); else sb_hex(&V, a[j].data, (size_t)a[j].length);
            } else sb_hex(&V, vals + (size_t)j * (size_t)vs, (size_t)vs);
        }
        total += got;
        free(vals); free(defs); free(reps);
    }
    sb_str(out, "R"); sb_str(out, R.len ? R.p : "-");
    sb_str(out, "D"); sb_str(out, D.len ? D.p : "-");
    sb_str(out, "V"); sb_str(out, nvals ? V.p : "-");
    sb_str(out, marker);
    free(R.p); free(D.p); free(V.p);
    carquet_column_reader_free(cr);
}

static char* read_table(const char* path, const uint8_t* fb, size_t fn, int mode, long bs, const rcol* cols, int ncols, int nrg) {
    sbuf out = {0};
    carquet_error_t err; memset(&err, 0, sizeof err);
    carquet_reader_options_t ro; carquet_reader_options_init(&ro);
    ro.use_mmap = mode == 1; ro.verify_checksums = true;
    h_vary_reader_options(&ro, fb, fn);
    carquet_reader_t* rd = mode == 2 ? carquet_reader_open_buffer(fb, fn, &ro, &err) : carquet_reader_open(path, &ro, &err);
    if (!rd) { sb_str(&out, "!P"); sb_int(&out, (int)err.code); return out.p; }
    if (carquet_reader_num_row_groups(rd) != nrg || carquet_reader_num_columns(rd) != ncols) {
        sb_str(&out, "!M"); sb_int(&out, carquet_reader_num_row_groups(rd)); sb_str(&out, "."); sb_int(&out, carquet_reader_num_columns(rd));
        carquet_reader_close(rd); return out.p;
    }
    if (nrg == 0) sb_str(&out, "-");
    for (int g = 0; g < nrg; g++) {
        if (g) sb_str(&out, "/");
        for (int c = 0; c < ncols; c++) { if (c) sb_str(&out, "+"); read_chunk(&out, rd, &cols[c], g, c, bs); }
    }
    carquet_reader_close(rd);
    return out.p;
}

/* the same file through the batch reader, every batch KEPT until the batch reader has been freed (the file reader is still
 * open): what a batch holds stays valid until the batch is freed, and data handed out as a view until the reader is closed.
 * The rendering (row count, null count, every value byte - BYTE_ARRAY bytes are read through their pointers, so ASan sees a
 * pointer into a dictionary or page that has been released meanwhile) must be the same in the three I/O modes. */
static char* read_batches_late(const char* path, const uint8_t* fb, size_t fn, int mode, long bs, const rcol* cols, int ncols) {
    sbuf out = {0};
    carquet_error_t err; memset(&err, 0, sizeof err);
    carquet_reader_options_t ro; carquet_reader_options_init(&ro);
    ro.use_mmap = mode == 1; ro.verify_checksums = true;
    carquet_reader_t* rd = mode == 2 ? carquet_reader_open_buffer(fb, fn, &ro, &err) : carquet_reader_open(path, &ro, &err);
    if (!rd) { sb_str(&out, "!P"); sb_int(&out, (int)err.code); return out.p; }
    carquet_batch_reader_config_t cfg; carquet_batch_reader_config_init(&cfg); cfg.batch_size = bs; cfg.num_threads = 1; cfg.use_mmap = mode == 1;
    carquet_batch_reader_t* br = carquet_batch_reader_create(rd, &cfg, &err);
    if (!br) { sb_str(&out, "!B"); sb_int(&out, (int)err.code); carquet_reader_close(rd); return out.p; }
    enum { KEEP = 4096 };
    carquet_row_batch_t** kept = (carquet_row_batch_t**)h_alloc(KEEP * sizeof *kept); long nk = 0; int last = 0;
    while (nk < KEEP) {
        carquet_row_batch_t* b = NULL;
        last = (int)carquet_batch_reader_next(br, &b);
        if (last != 0 || !b) break;
        kept[nk++] = b;
    }
    carquet_batch_reader_free(br);
    for (long i = 0; i < nk; i++) {
        carquet_row_batch_t* b = kept[i];
        sb_str(&out, "["); sb_int(&out, carquet_row_batch_num_rows(b));
        int nc = carquet_row_batch_num_columns(b);
        for (int c = 0; c < nc && c < ncols; c++) {
            const void* data = NULL; const uint8_t* bm = NULL; int64_t nv = 0;
            if (carquet_row_batch_column(b, c, &data, &bm, &nv) != CARQUET_OK) { sb_str(&out, "|!C"); continue; }
            int64_t nulls = 0;
            if (bm) for (int64_t q = 0; q < nv; q++) if (bm[q / 8] & (1u << (q % 8))) nulls++;
            sb_str(&out, "|"); sb_int(&out, nv); sb_str(&out, "n"); sb_int(&out, nulls); sb_str(&out, "v");
            if (!data) { sb_str(&out, "-"); continue; }
            int64_t nn = nv - nulls; int vs = value_size(&cols[c]);
            for (int64_t q = 0; q < nn; q++) {
                if (q) sb_str(&out, ":");
                if (cols[c].ptype == 6) {
                    const carquet_byte_array_t* a = (const carquet_byte_array_t*)data;
                    if (a[q].length < 0 || a[q].length > 1000000) sb_str(&out, "BADLEN"); else sb_hex(&out, a[q].data, (size_t)a[q].length);
                } else sb_hex(&out, (const uint8_t*)data + (size_t)q * (size_t)vs, (size_t)vs);
            }
        }
        sb_str(&out, "]");
    }
    sb_str(&out, "!L"); sb_int(&out, last);
    for (long i = 0; i < nk; i++) carquet_row_batch_free(kept[i]);
    free(kept);
    carquet_reader_close(rd);
    return out.p;
}

/* The batch reader against the column reader on the same file (columns without repetition): row i of a column is null in the
 * batch exactly when its definition level is below the column's maximum - the maximum counted along the whole path, so a leaf
 * under an OPTIONAL group is null when the group is absent - and the dense values are the column reader's values in order. */
typedef struct { sbuf flags, vals; long nvals; } colview;
static void view_free(colview* v, int n) { for (int i = 0; i < n; i++) { free(v[i].flags.p); free(v[i].vals.p); } }
static int views_from_columns(carquet_reader_t* rd, const rcol* cols, int ncols, int nrg, colview* v) {
    for (int g = 0; g < nrg; g++) for (int c = 0; c < ncols; c++) {
        carquet_error_t err; memset(&err, 0, sizeof err);
        carquet_column_reader_t* cr = carquet_reader_get_column(rd, g, c, &err);
        if (!cr) return 0;
        int64_t n = carquet_column_remaining(cr);
        if (n < 0 || n > 1000000) { carquet_column_reader_free(cr); return 0; }
        int vs = value_size(&cols[c]);
        uint8_t* vals = h_alloc((size_t)(n ? n : 1) * (size_t)vs);
        int16_t* defs = (int16_t*)h_alloc((size_t)(n ? n : 1) * 2);
        for (int64_t i = 0; i < n; i++) defs[i] = (int16_t)cols[c].maxdef;
        int64_t got = n ? carquet_column_read_batch(cr, vals, n, defs, NULL) : 0;
        if (got != n) { free(vals); free(defs); carquet_column_reader_free(cr); return 0; }
        int64_t nn = 0;
        for (int64_t i = 0; i < n; i++) { sb_str(&v[c].flags, defs[i] == cols[c].maxdef ? "0" : "1"); if (defs[i] == cols[c].maxdef) nn++; }
        for (int64_t j = 0; j < nn; j++) {
            if (v[c].nvals++) sb_str(&v[c].vals, ":");
            if (cols[c].ptype == 6) { const carquet_byte_array_t* a = (const carquet_byte_array_t*)vals; if (a[j].length < 0 || a[j].length > 1000000) sb_str(&v[c].vals, "BADLEN"); else sb_hex(&v[c].vals, a[j].data, (size_t)a[j].length); }
            else sb_hex(&v[c].vals, vals + (size_t)j * (size_t)vs, (size_t)vs);
        }
        free(vals); free(defs); carquet_column_reader_free(cr);
    }
    return 1;
}
static int views_from_batches(carquet_reader_t* rd, const rcol* cols, int ncols, long bs, colview* v) {
    carquet_error_t err; memset(&err, 0, sizeof err);
    carquet_batch_reader_config_t cfg; carquet_batch_reader_config_init(&cfg); cfg.batch_size = bs; cfg.num_threads = 1;
    carquet_batch_reader_t* br = carquet_batch_reader_create(rd, &cfg, &err);
    if (!br) return 0;
    int ok = 1;
    for (int guard = 0; guard < 100000; guard++) {
        carquet_row_batch_t* b = NULL;
        int st = (int)carquet_batch_reader_next(br, &b);
        if (st != 0 || !b) { if (st != 0 && st != (int)CARQUET_ERROR_END_OF_DATA) ok = 0; break; }
        for (int c = 0; c < ncols; c++) {
            const void* data = NULL; const uint8_t* bm = NULL; int64_t nv = 0;
            if (carquet_row_batch_column(b, c, &data, &bm, &nv) != CARQUET_OK) { ok = 0; continue; }
            int64_t nulls = 0;
            for (int64_t q = 0; q < nv; q++) { int isnull = bm && (bm[q / 8] & (1u << (q % 8))); sb_str(&v[c].flags, isnull ? "1" : "0"); if (isnull) nulls++; }
            int64_t nn = nv - nulls; int vs = value_size(&cols[c]);
            for (int64_t j = 0; data && j < nn; j++) {
                if (v[c].nvals++) sb_str(&v[c].vals, ":");
                if (cols[c].ptype == 6) { const carquet_byte_array_t* a = (const carquet_byte_array_t*)data; if (a[j].length < 0 || a[j].length > 1000000) sb_str(&v[c].vals, "BADLEN"); else sb_hex(&v[c].vals, a[j].data, (size_t)a[j].length); }
                else sb_hex(&v[c].vals, (const uint8_t*)data + (size_t)j * (size_t)vs, (size_t)vs);
            }
        }
        carquet_row_batch_free(b);
    }
    carquet_batch_reader_free(br);
    return ok;
}
/* 1 = agree, 0 = differ, -1 = not applicable (a reader could not be had) */
static int batch_vs_columns(const char* path, const rcol* cols, int ncols, int nrg, long bs) {
    carquet_error_t err; memset(&err, 0, sizeof err);
    carquet_reader_options_t ro; carquet_reader_options_init(&ro); ro.verify_checksums = true;
    carquet_reader_t* rd = carquet_reader_open(path, &ro, &err);
    if (!rd) return -1;
    colview a[64], b[64]; memset(a, 0, sizeof a); memset(b, 0, sizeof b);
    int res = -1;
    if (carquet_reader_num_row_groups(rd) == nrg && carquet_reader_num_columns(rd) == ncols && views_from_columns(rd, cols, ncols, nrg, a)) {
        int okb = views_from_batches(rd, cols, ncols, bs, b);
        res = okb;
        for (int c = 0; c < ncols && res == 1; c++) {
            if (strcmp(a[c].flags.p ? a[c].flags.p : "", b[c].flags.p ? b[c].flags.p : "") != 0) res = 0;
            if (strcmp(a[c].vals.p ? a[c].vals.p : "", b[c].vals.p ? b[c].vals.p : "") != 0) res = 0;
        }
    }
    view_free(a, ncols); view_free(b, ncols);
    carquet_reader_close(rd);
    return res;
}

static long n_files, n_unsup;
/* 0: `refread` (C06: what was read == what the file holds); 1: `refmodes` (C03: the three I/O modes and all batch sizes read
 * the same from a SUPPORTED reference file); 2: `refsafe` (C04: no crash / sanitizer report / hang on any reference file,
 * supported, unsupported or damaged).  The variants run the same reads and carry only their own predicate. */
static int g_ref_kind;

static void run_ref(hctx* h, const h_line* l) {
    static const long sizes[] = { 0, 1, 3, 7 };
    fprintf(h->out, g_ref_kind == 1 ? "refmodes" : g_ref_kind == 2 ? "refsafe" : "refread");
    for (int i = 0; i < l->n_in; i++) {
        if (g_ref_kind && (!strcmp(l->in[i].key, "expect") || !strcmp(l->in[i].key, "hyp") || !strcmp(l->in[i].key, "hypexp") || !strcmp(l->in[i].key, "selfcheck"))) continue;
        fprintf(h->out, " %s=%s", l->in[i].key, l->in[i].val);
    }
    h_call(h);
    rcol cols[64]; int ncols = 0;
    const char* cs = h_in(l, "cols");
    for (const char* c = cs; c && *c && ncols < 64; ) {
        rcol* k = &cols[ncols++];
        k->ptype = (int)strtol(c, (char**)&c, 10); if (*c == '.') c++;
        k->tlen = (int)strtol(c, (char**)&c, 10); if (*c == '.') c++;
        k->maxdef = (int)strtol(c, (char**)&c, 10); if (*c == '.') c++;
        k->maxrep = (int)strtol(c, (char**)&c, 10); if (*c == ',') c++;
    }
    int nrg = (int)h_ll(h_in(l, "nrg"));
    size_t fn; uint8_t* fb = h_unhex(h_in(l, "file"), &fn);
    char path[128]; snprintf(path, sizeof path, "/tmp/verif_rr_%d.parquet", (int)getpid());
    FILE* f = fopen(path, "wb");
    if (!f || fwrite(fb, 1, fn, f) != fn) { fprintf(h->out, " | err=tmpfile\n"); if (f) fclose(f); free(fb); return; }
    fclose(f);
    fprintf(h->out, " |");
    char* first = NULL; int all_same = 1;
    for (int mode = 0; mode < 3; mode++)
        for (int b = 0; b < 4; b++) {
            char* t = read_table(path, fb, fn, mode, sizes[b], cols, ncols, nrg);
            if (!first) { first = t; fprintf(h->out, " g%d_%ld=%s", mode, sizes[b], g_ref_kind ? "first" : t); }
            else { if (strcmp(t, first) != 0) all_same = 0; fprintf(h->out, " g%d_%ld=%s", mode, sizes[b], strcmp(t, first) == 0 ? "same" : t); free(t); }
        }
    free(first);
    if (g_ref_kind == 1) fprintf(h->out, " p_modes_agree=%d", all_same);
    if (g_ref_kind == 0 && !h_ll(h_in(l, "unsupported")) && ncols > 0 && ncols <= 64) {
        int flat = 1; for (int c = 0; c < ncols; c++) if (cols[c].maxrep > 0) flat = 0;
        if (flat) { int r1 = batch_vs_columns(path, cols, ncols, nrg, 5), r2 = batch_vs_columns(path, cols, ncols, nrg, 1000);
                    if (r1 >= 0 && r2 >= 0) fprintf(h->out, " p_batch_eq_columns=%d", r1 == 1 && r2 == 1); }
    }
    if (g_ref_kind == 1) {
        int flat = 1; for (int c = 0; c < ncols; c++) if (cols[c].maxrep > 0) flat = 0;
        if (flat && ncols > 0) {
            static const long bsz[] = { 1000, 3 };
            int agree = 1;
            for (int b = 0; b < 2; b++) {
                char* t0 = read_batches_late(path, fb, fn, 0, bsz[b], cols, ncols);
                for (int mode = 1; mode < 3; mode++) { char* t = read_batches_late(path, fb, fn, mode, bsz[b], cols, ncols); if (strcmp(t, t0) != 0) agree = 0; free(t); }
                free(t0);
            }
            fprintf(h->out, " p_batches_late_modes_agree=%d", agree);
        }
    }
    if (g_ref_kind == 2) fprintf(h->out, " p_safe=1");
    fputc('\n', h->out);
    h->n_lines++; n_files++;
    if (h_ll(h_in(l, "unsupported"))) n_unsup++;
    free(fb); unlink(path);
}

static void gen_refread(hctx* h) {
    if (!h->in_path) { fprintf(stderr, "refread: needs --in <lines from driver --gen reffiles>\n"); exit(2); }
    FILE* in = fopen(h->in_path, "r");
    if (!in) { perror("refread in"); exit(2); }
    char* line = NULL; size_t cap = 0;
    while (getline(&line, &cap, in) > 0) {
        if (line[0] == '#' || line[0] == '\n') { fputs(line, h->out); continue; }
        h_line l;
        if (h_parse_line(line, &l)) { fprintf(stderr, "refread: bad input line\n"); exit(2); }
        if (strcmp(l.op, "refread") != 0) { h_free_line(&l); continue; }   /* e.g. `refmut` base files for another component */
        if (g_ref_kind == 1 && h_ll(h_in(&l, "unsupported"))) { h_free_line(&l); continue; }
        run_ref(h, &l);
        h_free_line(&l);
    }
    free(line); fclose(in);
    fprintf(h->out, "#stat files %ld\n#stat unsupported_files %ld\n", n_files, n_unsup);
}

static int replay_refread(hctx* h, const h_line* l) {
    if (strcmp(l->op, "refread") != 0) return 0;
    run_ref(h, l); return 1;
}

const h_component comp_refread = { "refread", gen_refread, replay_refread };

static void gen_refmodes(hctx* h) { g_ref_kind = 1; gen_refread(h); g_ref_kind = 0; }
static void gen_refsafe(hctx* h) { g_ref_kind = 2; gen_refread(h); g_ref_kind = 0; }
static int replay_refvar(hctx* h, const h_line* l) {
    int k = !strcmp(l->op, "refmodes") ? 1 : !strcmp(l->op, "refsafe") ? 2 : 0;
    if (!k) return 0;
    g_ref_kind = k; run_ref(h, l); g_ref_kind = 0; return 1;
}
const h_component comp_refmodes = { "refmodes", gen_refmodes, replay_refvar };
const h_component comp_refsafe = { "refsafe", gen_refsafe, replay_refvar };
