/* C20: carquet_xxhash64 and the split-block Bloom filter (src/util/xxhash.c, src/metadata/bloom_filter.c).
 *
 *   xxh data=x.. seed=N | r=N p_ref=0/1
 *        carquet_xxhash64 on an exact-size buffer at a chosen misalignment; p_ref: equals the
 *        reference libxxhash XXH64 (header-only, XXH_INLINE_ALL)
 *   bloom req=N ins=<items> probe=<items> | null=0/1 size=N nblocks=N data=x.. chk=<bits> prb=<bits>
 *        wst=N wn=N p_wsame=0/1 rst=N rsize=N rdata=x.. rchk=<bits> p_nofn=0/1 p_reload=0/1
 *        create(req); typed inserts; check every inserted item and every probe; serialise with
 *        carquet_bloom_filter_write into an exact-size buffer; reload with carquet_bloom_filter_read;
 *        check every inserted item on the reloaded filter
 *   bloom_merge req=N req2=N ins=<items> ins2=<items> | st=N data=x.. chk=<bits> p_union=0/1 p_or=0/1
 *        two filters, merge the second into the first; chk = checks of ins ++ ins2 on the result
 *   bloom_create req=N | null=0/1 size=N nblocks=N p_rounded=0/1      (no insert; also huge sizes)
 *   bloom_load data=x.. | st=N size=N nblocks=N p_same=0/1            carquet_bloom_filter_read on arbitrary sizes
 *   bloom_write req=N cap=N | st=N n=N                                  capacity check of _write
 *   bloom_ndv ndv=N fpp=<double bits> | null=0/1 req=N size=N nblocks=N p_rounded=0/1 p_nofn=0/1
 *   bloom_null h=N | chk=0/1 size=N nblocks=N datanull=0/1 wst=N rst=N mst=N    NULL-argument behaviour
 *
 * items: comma list of  i<int32> l<int64> f<u32 bits> d<u64 bits> bx<hex> h<u64 hash>   ('-' = none)
 * status numbers: 0 OK, 1 INVALID_ARGUMENT, 2 OUT_OF_MEMORY, 3 ENCODE, 9 anything else
 */
#include "common.h"
#define XXH_INLINE_ALL
#include <xxhash.h>
#include <carquet/carquet.h>
#include <math.h>

uint64_t carquet_xxhash64(const void* data, size_t length, uint64_t seed);
carquet_bloom_filter_t* carquet_bloom_filter_create(size_t num_bytes);
carquet_bloom_filter_t* carquet_bloom_filter_create_with_ndv(int64_t ndv, double fpp);
void carquet_bloom_filter_destroy(carquet_bloom_filter_t* filter);
void carquet_bloom_filter_insert_hash(carquet_bloom_filter_t* filter, uint64_t hash);
void carquet_bloom_filter_insert_i32(carquet_bloom_filter_t* filter, int32_t value);
void carquet_bloom_filter_insert_i64(carquet_bloom_filter_t* filter, int64_t value);
void carquet_bloom_filter_insert_float(carquet_bloom_filter_t* filter, float value);
void carquet_bloom_filter_insert_double(carquet_bloom_filter_t* filter, double value);
void carquet_bloom_filter_insert_bytes(carquet_bloom_filter_t* filter, const uint8_t* data, size_t len);
bool carquet_bloom_filter_check_hash(const carquet_bloom_filter_t* filter, uint64_t hash);
bool carquet_bloom_filter_check_i32(const carquet_bloom_filter_t* filter, int32_t value);
bool carquet_bloom_filter_check_i64(const carquet_bloom_filter_t* filter, int64_t value);
bool carquet_bloom_filter_check_float(const carquet_bloom_filter_t* filter, float value);
bool carquet_bloom_filter_check_double(const carquet_bloom_filter_t* filter, double value);
bool carquet_bloom_filter_check_bytes(const carquet_bloom_filter_t* filter, const uint8_t* data, size_t len);
const uint8_t* carquet_bloom_filter_data(const carquet_bloom_filter_t* filter);
size_t carquet_bloom_filter_size(const carquet_bloom_filter_t* filter);
size_t carquet_bloom_filter_num_blocks(const carquet_bloom_filter_t* filter);
carquet_status_t carquet_bloom_filter_write(const carquet_bloom_filter_t* filter, uint8_t* output,
                                            size_t output_capacity, size_t* bytes_written);
carquet_status_t carquet_bloom_filter_read(carquet_bloom_filter_t** filter_out, const uint8_t* data, size_t data_size);
carquet_status_t carquet_bloom_filter_merge(carquet_bloom_filter_t* dest, const carquet_bloom_filter_t* src);

static int stnum(carquet_status_t s) {
    switch (s) {
    case CARQUET_OK: return 0;
    case CARQUET_ERROR_INVALID_ARGUMENT: return 1;
    case CARQUET_ERROR_OUT_OF_MEMORY: return 2;
    case CARQUET_ERROR_ENCODE: return 3;
    default: return 9;
    }
}

/* ---------------------------------------------------------------- xxhash ---- */

static long n_xxh, n_xxh_ge32;

static void do_xxh(hctx* h, const uint8_t* d, size_t n, uint64_t seed, size_t align) {
    uint8_t* blk = h_alloc(n + align);      /* byte n of p is the first byte past the allocation */
    uint8_t* p = blk + align;
    memcpy(p, d, n);
    fprintf(h->out, "xxh data="); h_hex(h->out, p, n);
    fprintf(h->out, " seed=%llu", (unsigned long long)seed); h_call(h);
    uint64_t r = carquet_xxhash64(p, n, seed);
    uint64_t ref = XXH64(p, n, seed);
    fprintf(h->out, " | r=%llu p_ref=%d\n", (unsigned long long)r, r == ref);
    h->n_lines++; n_xxh++; if (n >= 32) n_xxh_ge32++;
    free(blk);
}

/* lengths that do not fit 32 bits: `len` zero bytes in a MAP_NORESERVE mapping (address space, almost no memory); the
 * result must equal the reference XXH64 (the length enters the hash as a 64-bit quantity) */
#include <sys/mman.h>
static void do_xxh_big(hctx* h, uint64_t len, uint64_t seed) {
    fprintf(h->out, "xxhbig len=%llu seed=%llu", (unsigned long long)len, (unsigned long long)seed); h_call(h);
    void* m = mmap(NULL, (size_t)len + 4096, PROT_READ, MAP_PRIVATE | MAP_ANONYMOUS | MAP_NORESERVE, -1, 0);
    if (m == MAP_FAILED) { fprintf(h->out, " | skipped=1 triv=1\n"); h->n_lines++; return; }
    uint64_t r = carquet_xxhash64(m, (size_t)len, seed);
    uint64_t ref = XXH64(m, (size_t)len, seed);
    munmap(m, (size_t)len + 4096);
    fprintf(h->out, " | r=%llu p_ref=%d\n", (unsigned long long)r, r == ref);
    h->n_lines++; n_xxh++; n_xxh_ge32++;
}

/* filters whose size does not fit 32 bits (the bit array is untouched calloc memory: address space, hardly any RAM): the
 * size is the request rounded up to whole blocks, inserted values are found, values never inserted into an empty region
 * are not, and the filter written out announces and delivers its full size (into a no-reserve mapping) */
static void do_bloom_huge(hctx* h, uint64_t req, int full) {
    fprintf(h->out, "bloom_huge req=%llu full=%d", (unsigned long long)req, full); h_call(h);
    carquet_bloom_filter_t* f = carquet_bloom_filter_create((size_t)req);
    if (!f) { fprintf(h->out, " | skipped=1 triv=1\n"); h->n_lines++; return; }
    uint64_t want = (req + 31) / 32 * 32;
    int ok_size = (uint64_t)carquet_bloom_filter_size(f) == want;
    int ok_in = 1, ok_fresh = 1;
    for (int64_t v = -3; v < 40; v++) if (carquet_bloom_filter_check_i64(f, v * 1000003)) ok_fresh = 0;
    for (int64_t v = -3; v < 40; v++) carquet_bloom_filter_insert_i64(f, v * 1000003);
    for (int64_t v = -3; v < 40; v++) if (!carquet_bloom_filter_check_i64(f, v * 1000003)) ok_in = 0;
    /* the 43 values occupy at most 43 of 2^27 blocks: a probe of other values hits one of them with probability < 2^-20 */
    int stray = 0; for (int64_t v = 100; v < 140; v++) if (carquet_bloom_filter_check_i64(f, v * 7919 + 1)) stray++;
    int ok_write = 1;
    if (full) {
        void* m = mmap(NULL, (size_t)want + 4096, PROT_READ | PROT_WRITE, MAP_PRIVATE | MAP_ANONYMOUS | MAP_NORESERVE, -1, 0);
        if (m != MAP_FAILED) {
            /* too small by one block must be refused, the exact size accepted, and the reloaded filter is the same filter */
            size_t wrote = 0;
            if (carquet_bloom_filter_write(f, (uint8_t*)m, (size_t)want - 32, &wrote) == CARQUET_OK) ok_write = 0;
            if (carquet_bloom_filter_write(f, (uint8_t*)m, (size_t)want, &wrote) != CARQUET_OK || (uint64_t)wrote != want) ok_write = 0;
            else {
                carquet_bloom_filter_t* g = carquet_bloom_filter_from_data((const uint8_t*)m, (size_t)want);
                if (!g || (uint64_t)carquet_bloom_filter_size(g) != want) ok_write = 0;
                for (int64_t v = -3; g && v < 40; v++) if (!carquet_bloom_filter_check_i64(g, v * 1000003)) ok_write = 0;
                if (g) carquet_bloom_filter_destroy(g);
            }
            munmap(m, (size_t)want + 4096);
        }
    }
    fprintf(h->out, " | size=%llu stray=%d p_size_rounded=%d p_no_false_negative=%d p_fresh_rejects=%d p_few_strays=%d p_write_reload=%d\n",
            (unsigned long long)carquet_bloom_filter_size(f), stray, ok_size, ok_in, ok_fresh, stray <= 2, ok_write);
    carquet_bloom_filter_destroy(f);
    h->n_lines++;
}

/* ---------------------------------------------------------------- items ---- */

typedef struct { char kind; int64_t i; uint64_t u; uint8_t* b; size_t nb; } item;

static void item_free(item* it, size_t n) { for (size_t k = 0; k < n; k++) free(it[k].b); free(it); }

static void item_print(FILE* f, const item* it, size_t n) {
    if (n == 0) { fputc('-', f); return; }
    for (size_t k = 0; k < n; k++) {
        if (k) fputc(',', f);
        switch (it[k].kind) {
        case 'i': case 'l': fprintf(f, "%c%lld", it[k].kind, (long long)it[k].i); break;
        case 'f': case 'd': case 'h': fprintf(f, "%c%llu", it[k].kind, (unsigned long long)it[k].u); break;
        default: fputc('b', f); h_hex(f, it[k].b, it[k].nb); break;
        }
    }
}

static item* item_parse(const char* v, size_t* n) {
    *n = 0;
    if (!v || strcmp(v, "-") == 0) return (item*)h_alloc(0);
    size_t cnt = 1;
    for (const char* c = v; *c; c++) if (*c == ',') cnt++;
    item* it = (item*)calloc(cnt, sizeof(item));
    const char* c = v;
    for (size_t k = 0; k < cnt; k++) {
        const char* e = strchr(c, ','); size_t len = e ? (size_t)(e - c) : strlen(c);
        char* tok = (char*)malloc(len + 1); memcpy(tok, c, len); tok[len] = 0;
        it[k].kind = tok[0];
        if (tok[0] == 'i' || tok[0] == 'l') it[k].i = strtoll(tok + 1, NULL, 10);
        else if (tok[0] == 'b') it[k].b = h_unhex(tok + 1, &it[k].nb);
        else it[k].u = strtoull(tok + 1, NULL, 10);
        free(tok);
        c = e ? e + 1 : c + len;
    }
    *n = cnt;
    return it;
}

static void item_insert(carquet_bloom_filter_t* f, const item* it) {
    switch (it->kind) {
    case 'i': carquet_bloom_filter_insert_i32(f, (int32_t)it->i); break;
    case 'l': carquet_bloom_filter_insert_i64(f, it->i); break;
    case 'f': { uint32_t u = (uint32_t)it->u; float x; memcpy(&x, &u, 4); carquet_bloom_filter_insert_float(f, x); break; }
    case 'd': { double x; memcpy(&x, &it->u, 8); carquet_bloom_filter_insert_double(f, x); break; }
    case 'h': carquet_bloom_filter_insert_hash(f, it->u); break;
    default: {
        uint8_t* p = h_alloc(it->nb); memcpy(p, it->b, it->nb);      /* exact-size copy */
        carquet_bloom_filter_insert_bytes(f, p, it->nb); free(p); break; }
    }
}

static int item_check(const carquet_bloom_filter_t* f, const item* it) {
    switch (it->kind) {
    case 'i': return carquet_bloom_filter_check_i32(f, (int32_t)it->i);
    case 'l': return carquet_bloom_filter_check_i64(f, it->i);
    case 'f': { uint32_t u = (uint32_t)it->u; float x; memcpy(&x, &u, 4); return carquet_bloom_filter_check_float(f, x); }
    case 'd': { double x; memcpy(&x, &it->u, 8); return carquet_bloom_filter_check_double(f, x); }
    case 'h': return carquet_bloom_filter_check_hash(f, it->u);
    default: {
        uint8_t* p = h_alloc(it->nb); memcpy(p, it->b, it->nb);
        int r = carquet_bloom_filter_check_bytes(f, p, it->nb); free(p); return r; }
    }
}

/* prints "<bits>" for the checks of all items; returns 1 iff all were true */
static int checks_print(FILE* o, const carquet_bloom_filter_t* f, const item* it, size_t n, int first) {
    int all = 1;
    for (size_t k = 0; k < n; k++) {
        int r = item_check(f, &it[k]);
        fprintf(o, "%s%d", (k || !first) ? "," : "", r);
        if (!r) all = 0;
    }
    return all;
}

/* a dereference of every byte by harness code (not by a libc routine) */
static void hex_of_filter(FILE* o, const carquet_bloom_filter_t* f) {
    const uint8_t* d = carquet_bloom_filter_data(f);
    size_t n = carquet_bloom_filter_size(f);
    h_hex(o, d, n);
}

static item gen_item(hctx* h, int small_domain) {
    item it; memset(&it, 0, sizeof it);
    static const char kinds[] = "ilfdbh";
    it.kind = kinds[h_below(h, 6)];
    uint64_t r = h_next(h);
    switch (it.kind) {
    case 'i': it.i = small_domain ? (int64_t)h_below(h, 50) - 10 : (int32_t)r; break;
    case 'l': it.i = small_domain ? (int64_t)h_below(h, 50) - 10 : (int64_t)r; break;
    case 'f': { float x = small_domain ? (float)h_below(h, 40) * 0.5f - 3.0f : 0.0f; uint32_t u;
                if (small_domain) memcpy(&u, &x, 4); else u = (uint32_t)r;     /* any bit pattern incl. NaN, -0 */
                { static const uint32_t sp[] = { 0x00000000u, 0x80000000u, 0x7FC00000u, 0xFFC00000u, 0x7F800000u, 0xFF800000u, 0x00000001u, 0x80000001u, 0x7F7FFFFFu };
                  if (h_chance(h, 1, 5)) u = sp[h_below(h, 9)]; }                /* the special values exactly: the filter hashes the PLAIN bytes, -0.0 is not +0.0 */
                it.u = u; break; }
    case 'd': { double x = (double)h_below(h, 40) * 0.25 - 2.0; uint64_t u;
                if (small_domain) memcpy(&u, &x, 8); else u = r;
                { static const uint64_t sp[] = { 0x0000000000000000ull, 0x8000000000000000ull, 0x7FF8000000000000ull, 0xFFF8000000000000ull, 0x7FF0000000000000ull,
                                                 0xFFF0000000000000ull, 0x0000000000000001ull, 0x8000000000000001ull, 0x7FEFFFFFFFFFFFFFull };
                  if (h_chance(h, 1, 5)) u = sp[h_below(h, 9)]; }
                it.u = u; break; }
    case 'h': it.u = small_domain ? (h_below(h, 8) << 61 | h_below(h, 16)) : r; break;
    default: {
        size_t n = small_domain ? (size_t)h_below(h, 6) : (size_t)h_below(h, 80);
        it.nb = n; it.b = h_alloc(n); h_fill(h, it.b, n, small_domain ? 4 : (int)h_below(h, 5)); break; }
    }
    return it;
}

static item* gen_items(hctx* h, size_t n, int small_domain) {
    item* it = (item*)calloc(n ? n : 1, sizeof(item));
    for (size_t k = 0; k < n; k++) it[k] = gen_item(h, small_domain);
    return it;
}

/* ---------------------------------------------------------------- filter histories ---- */

static long n_hist, n_multiblock, n_inserts, hist_blocks[5];

static void do_bloom(hctx* h, size_t req, const item* ins, size_t ni, const item* pr, size_t np) {
    FILE* o = h->out;
    fprintf(o, "bloom req=%zu ins=", req); item_print(o, ins, ni);
    fprintf(o, " probe="); item_print(o, pr, np); h_call(h);
    carquet_bloom_filter_t* f = carquet_bloom_filter_create(req);
    if (!f) { fprintf(o, " | null=1\n"); h->n_lines++; return; }
    for (size_t k = 0; k < ni; k++) item_insert(f, &ins[k]);
    size_t size = carquet_bloom_filter_size(f), nb = carquet_bloom_filter_num_blocks(f);
    fprintf(o, " | null=0 size=%zu nblocks=%zu data=", size, nb); hex_of_filter(o, f);
    fprintf(o, " chk="); if (!ni) fputc('-', o);
    int nofn = checks_print(o, f, ins, ni, 1);
    fprintf(o, " prb="); if (!np) fputc('-', o);
    checks_print(o, f, pr, np, 1);
    /* serialise into an exact-size buffer, reload from an exact-size buffer */
    uint8_t* buf = h_alloc(size); size_t wn = (size_t)-1;
    carquet_status_t ws = carquet_bloom_filter_write(f, buf, size, &wn);
    int wsame = ws == CARQUET_OK && wn == size;
    if (wsame) { const uint8_t* d = carquet_bloom_filter_data(f); for (size_t k = 0; k < size; k++) if (buf[k] != d[k]) wsame = 0; }
    fprintf(o, " wst=%d wn=%zu p_wsame=%d", stnum(ws), ws == CARQUET_OK ? wn : 0, wsame);
    carquet_bloom_filter_t* g = NULL;
    carquet_status_t rs = carquet_bloom_filter_read(&g, buf, ws == CARQUET_OK ? wn : 0);
    free(buf);                                        /* the reloaded filter must not alias the input */
    int reload = 0;
    if (rs == CARQUET_OK && g) {
        fprintf(o, " rst=0 rsize=%zu rdata=", carquet_bloom_filter_size(g)); hex_of_filter(o, g);
        fprintf(o, " rchk="); if (!ni) fputc('-', o);
        reload = checks_print(o, g, ins, ni, 1);
        carquet_bloom_filter_destroy(g);
    } else {
        fprintf(o, " rst=%d rsize=0 rdata=x rchk=-", stnum(rs));
    }
    fprintf(o, " p_nofn=%d p_reload=%d%s\n", nofn, reload, ni == 0 ? " triv=1" : "");
    carquet_bloom_filter_destroy(f);
    h->n_lines++; n_hist++; n_inserts += (long)ni; if (nb > 1) n_multiblock++;
    hist_blocks[nb <= 1 ? 0 : nb <= 4 ? 1 : nb <= 16 ? 2 : nb <= 256 ? 3 : 4]++;
}

static long n_merge, n_merge_mismatch;

static void do_merge(hctx* h, size_t req, size_t req2, const item* a, size_t na, const item* b, size_t nb_) {
    FILE* o = h->out;
    fprintf(o, "bloom_merge req=%zu req2=%zu ins=", req, req2); item_print(o, a, na);
    fprintf(o, " ins2="); item_print(o, b, nb_); h_call(h);
    carquet_bloom_filter_t* f = carquet_bloom_filter_create(req);
    carquet_bloom_filter_t* g = carquet_bloom_filter_create(req2);
    if (!f || !g) { fprintf(o, " | null=1\n"); h->n_lines++; carquet_bloom_filter_destroy(f); carquet_bloom_filter_destroy(g); return; }
    for (size_t k = 0; k < na; k++) item_insert(f, &a[k]);
    for (size_t k = 0; k < nb_; k++) item_insert(g, &b[k]);
    size_t size = carquet_bloom_filter_size(f);
    uint8_t* before = h_alloc(size); { const uint8_t* d = carquet_bloom_filter_data(f); for (size_t k = 0; k < size; k++) before[k] = d[k]; }
    carquet_status_t st = carquet_bloom_filter_merge(f, g);
    fprintf(o, " | null=0 st=%d data=", stnum(st)); hex_of_filter(o, f);
    fprintf(o, " chk="); if (na + (st == CARQUET_OK ? nb_ : 0) == 0) fputc('-', o);
    int u1 = checks_print(o, f, a, na, 1);
    int u2 = (st == CARQUET_OK) ? checks_print(o, f, b, nb_, na == 0) : 1;
    /* word-wise OR when merged, untouched when refused */
    int por = 1; const uint8_t* d = carquet_bloom_filter_data(f); const uint8_t* s = carquet_bloom_filter_data(g);
    if (st == CARQUET_OK) { if (carquet_bloom_filter_size(g) != size) por = 0; else for (size_t k = 0; k < size; k++) if (d[k] != (uint8_t)(before[k] | s[k])) por = 0; }
    else for (size_t k = 0; k < size; k++) if (d[k] != before[k]) por = 0;
    fprintf(o, " p_union=%d p_or=%d%s\n", u1 && u2, por, (na + nb_ == 0) ? " triv=1" : "");
    free(before);
    carquet_bloom_filter_destroy(f); carquet_bloom_filter_destroy(g);
    h->n_lines++; n_merge++; if (st != CARQUET_OK) n_merge_mismatch++;
}

static void do_create(hctx* h, size_t req) {
    FILE* o = h->out;
    fprintf(o, "bloom_create req=%zu", req); h_call(h);
    carquet_bloom_filter_t* f = carquet_bloom_filter_create(req);
    if (!f) fprintf(o, " | null=1 size=0 nblocks=0 p_rounded=1\n");
    else {
        size_t size = carquet_bloom_filter_size(f), nb = carquet_bloom_filter_num_blocks(f);
        fprintf(o, " | null=0 size=%zu nblocks=%zu p_rounded=%d\n", size, nb,
                size % 32 == 0 && size >= 32 && size >= req && nb == size / 32);
        carquet_bloom_filter_destroy(f);
    }
    h->n_lines++;
}

static void do_load(hctx* h, const uint8_t* d, size_t n) {
    FILE* o = h->out;
    uint8_t* p = h_alloc(n); memcpy(p, d, n);
    fprintf(o, "bloom_load data="); h_hex(o, p, n); h_call(h);
    carquet_bloom_filter_t* g = NULL;
    carquet_status_t rs = carquet_bloom_filter_read(&g, p, n);
    int same = 1;
    if (rs == CARQUET_OK && g) {
        size_t size = carquet_bloom_filter_size(g); const uint8_t* q = carquet_bloom_filter_data(g);
        if (size != n) same = 0; else for (size_t k = 0; k < n; k++) if (q[k] != p[k]) same = 0;
        if (q == p) same = 0;                          /* must be a copy */
        fprintf(o, " | st=0 size=%zu nblocks=%zu p_same=%d\n", size, carquet_bloom_filter_num_blocks(g), same);
        carquet_bloom_filter_destroy(g);
    } else fprintf(o, " | st=%d size=0 nblocks=0 p_same=%d\n", stnum(rs), g == NULL);
    free(p);
    h->n_lines++;
}

static void do_write(hctx* h, size_t req, size_t cap) {
    FILE* o = h->out;
    fprintf(o, "bloom_write req=%zu cap=%zu", req, cap); h_call(h);
    carquet_bloom_filter_t* f = carquet_bloom_filter_create(req);
    if (!f) { fprintf(o, " | st=9 n=0\n"); h->n_lines++; return; }
    carquet_bloom_filter_insert_i32(f, 7);
    uint8_t* buf = h_alloc(cap); size_t wn = 0;
    carquet_status_t ws = carquet_bloom_filter_write(f, buf, cap, &wn);
    fprintf(o, " | st=%d n=%zu\n", stnum(ws), ws == CARQUET_OK ? wn : 0);
    free(buf); carquet_bloom_filter_destroy(f);
    h->n_lines++;
}

static void do_ndv(hctx* h, int64_t ndv, double fpp) {
    FILE* o = h->out;
    uint64_t fb; memcpy(&fb, &fpp, 8);
    fprintf(o, "bloom_ndv ndv=%lld fpp=%llu", (long long)ndv, (unsigned long long)fb); h_call(h);
    carquet_bloom_filter_t* f = carquet_bloom_filter_create_with_ndv(ndv, fpp);
    /* the same size expression as the C code (same compiler, same libm), so that the driver can
     * tie the resulting size to the model of `create` */
    size_t req = 0;
    if (!(ndv <= 0 || fpp <= 0.0 || fpp >= 1.0)) {
        double ln2_squared = 0.4804530139182014246671025263266649717305529515945455;
        double bits = -(double)ndv * log(fpp) / ln2_squared;
        req = (size_t)(bits / 8.0) + 1;
    }
    if (!f) fprintf(o, " | null=1 req=%zu size=0 nblocks=0 p_rounded=1 p_nofn=1\n", req);
    else {
        size_t size = carquet_bloom_filter_size(f), nb = carquet_bloom_filter_num_blocks(f);
        int nofn = 1;
        for (int64_t v = 0; v < ndv && v < 200; v++) carquet_bloom_filter_insert_i64(f, v * 7919);
        for (int64_t v = 0; v < ndv && v < 200; v++) if (!carquet_bloom_filter_check_i64(f, v * 7919)) nofn = 0;
        fprintf(o, " | null=0 req=%zu size=%zu nblocks=%zu p_rounded=%d p_nofn=%d\n", req, size, nb,
                size % 32 == 0 && size >= 32 && size >= req && nb == size / 32, nofn);
        carquet_bloom_filter_destroy(f);
    }
    h->n_lines++;
}

static void do_null(hctx* h, uint64_t hash) {
    FILE* o = h->out;
    fprintf(o, "bloom_null h=%llu", (unsigned long long)hash); h_call(h);
    carquet_bloom_filter_insert_hash(NULL, hash);
    carquet_bloom_filter_insert_i32(NULL, 1);
    int chk = carquet_bloom_filter_check_hash(NULL, hash);
    uint8_t* buf = h_alloc(32); size_t wn = 0; memset(buf, 0, 32);
    carquet_status_t ws = carquet_bloom_filter_write(NULL, buf, 32, &wn);
    carquet_bloom_filter_t* g = NULL;
    carquet_status_t rs = carquet_bloom_filter_read(&g, NULL, 32);
    carquet_bloom_filter_t* f = carquet_bloom_filter_create(32);
    carquet_status_t ms = carquet_bloom_filter_merge(f, NULL);
    carquet_status_t ms2 = carquet_bloom_filter_merge(NULL, f);
    fprintf(o, " | chk=%d size=%zu nblocks=%zu datanull=%d wst=%d rst=%d mst=%d mst2=%d triv=1\n", chk,
            carquet_bloom_filter_size(NULL), carquet_bloom_filter_num_blocks(NULL),
            carquet_bloom_filter_data(NULL) == NULL, stnum(ws), stnum(rs), stnum(ms), stnum(ms2));
    carquet_bloom_filter_destroy(f); carquet_bloom_filter_destroy(NULL); free(buf);
    h->n_lines++;
}

/* ---------------------------------------------------------------- generator ---- */

static size_t pick_req(hctx* h) {
    switch (h_below(h, 10)) {
    case 0: return (size_t)h_below(h, 34);                         /* 0..33: the minimum */
    case 1: { size_t k = 1 + (size_t)h_below(h, 12); return 32 * k + (size_t)h_below(h, 3) - 1; }   /* around a multiple */
    case 2: case 3: case 4: return 33 + (size_t)h_below(h, 300);   /* 2..11 blocks */
    case 5: case 6: return 64;                                      /* exactly two blocks */
    case 7: return 1000 + (size_t)h_below(h, 3200);
    case 8: return (size_t)h_below(h, h->thorough ? 65536 : 8192);
    default: return 96 + 32 * (size_t)h_below(h, 6);
    }
}

static void gen_bloom(hctx* h) {
    /* 1. hash function: every length 0..300 x seeds x misalignment */
    static const uint64_t seeds[] = { 0ull, 1ull, 2654435761ull, 0xFFFFFFFFFFFFFFFFull, 0x9E3779B185EBCA87ull };
    size_t maxlen = h->thorough ? 1100 : 300;
    uint8_t* buf = h_alloc(maxlen + 16);
    for (size_t n = 0; n <= maxlen; n++) {
        for (int s = 0; s < 5; s++) {
            h_fill(h, buf, n, s == 0 ? 0 : (int)h_below(h, 5));
            uint64_t seed = (s == 4 && (n & 1)) ? h_next(h) : seeds[s];
            if (h->thorough && n < 72) { for (size_t al = 0; al < 8; al++) do_xxh(h, buf, n, seed, al); }
            else do_xxh(h, buf, n, seed, (n + (size_t)s) % 8);
        }
    }
    free(buf);
    do_xxh_big(h, (1ull << 32) + 13, 0);
    do_bloom_huge(h, (1ull << 32) + 1, 0);
    /* thorough: two more sizes; the write-and-reload variant (full = 1) touches 8 GiB and more of real memory, which a run
     * under a memory limit does not have (seen: the sanitizer's allocator gives up) - only on request (VERIF_BLOOM_FULL) */
    if (h->thorough) { int full = getenv("VERIF_BLOOM_FULL") != NULL; do_bloom_huge(h, (1ull << 32) - 31, full); do_bloom_huge(h, (1ull << 32) + 33, full); }
    if (h->thorough) { do_xxh_big(h, (1ull << 32) - 33, 1); do_xxh_big(h, (1ull << 33) + 64, 2654435761ull); }

    /* 2. size rounding, incl. the requests whose rounding would wrap size_t */
    for (size_t r = 0; r <= 130; r++) do_create(h, r);
    { static const size_t big[] = { 4095, 4096, 4097, 65535, 65536, 65537, 1048576 + 1 };
      for (int k = 0; k < 7; k++) do_create(h, big[k]); }
    for (size_t d = 0; d <= 34; d++) do_create(h, SIZE_MAX - d);
    do_create(h, (size_t)1 << 63); do_create(h, ((size_t)1 << 63) + 1); do_create(h, SIZE_MAX / 2);

    /* 3. NULL arguments, capacity check of write, load of arbitrary sizes */
    do_null(h, 0); do_null(h, h_next(h));
    { static const size_t reqs[] = { 1, 32, 33, 100, 1000 };
      for (int k = 0; k < 5; k++) {
          size_t sz = (reqs[k] < 32 ? 32 : (reqs[k] + 31) / 32 * 32);
          do_write(h, reqs[k], 0); do_write(h, reqs[k], sz - 1); do_write(h, reqs[k], sz); do_write(h, reqs[k], sz + 1);
      } }
    { uint8_t* d = h_alloc(300);
      for (size_t n = 0; n <= 130; n++) { h_fill(h, d, n, (int)h_below(h, 5)); do_load(h, d, n); }
      h_fill(h, d, 288, 0); do_load(h, d, 288); do_load(h, d, 287); do_load(h, d, 289);
      free(d); }

    /* 4. the witness of F14 and its neighbours: upper hash half 1 in a filter of two blocks */
    { item w[4]; memset(w, 0, sizeof w);
      w[0].kind = 'h'; w[0].u = 0x0000000100000001ull;
      w[1].kind = 'h'; w[1].u = 0x8000000000000001ull;
      w[2].kind = 'h'; w[2].u = 0xFFFFFFFFFFFFFFFFull;
      w[3].kind = 'h'; w[3].u = 0x00000000FFFFFFFFull;
      for (int k = 0; k < 4; k++) { do_bloom(h, 64, &w[k], 1, w, 4); do_bloom(h, 96, &w[k], 1, w, 4); do_bloom(h, 32, &w[k], 1, w, 4); }
      do_bloom(h, 64, w, 4, w, 4); }

    /* 5. generated histories */
    long nh = h->thorough ? 6000 : 700;
    for (long c = 0; c < nh; c++) {
        size_t req = pick_req(h);
        int small_domain = h_chance(h, 1, 3);
        size_t ni = h_chance(h, 1, 25) ? 0 : (size_t)h_below(h, req > 2000 ? 60 : 24);
        size_t np = (size_t)h_below(h, 12);
        item* ins = gen_items(h, ni, small_domain);
        item* pr = gen_items(h, np, small_domain);
        do_bloom(h, req, ins, ni, pr, np);
        item_free(ins, ni); item_free(pr, np);
    }
    /* 6. merges: mostly equal sizes, some equal after rounding only, some different */
    long nm = h->thorough ? 2500 : 300;
    for (long c = 0; c < nm; c++) {
        size_t req = pick_req(h); if (req > 4096) req = 4096;
        size_t req2 = req;
        switch (h_below(h, 8)) {
        case 0: req2 = pick_req(h); if (req2 > 4096) req2 = 4096; break;
        case 1: req2 = req < 32 ? 32 : (req + 31) / 32 * 32; break;     /* same after rounding */
        case 2: req2 = req + 32; break;
        default: break;
        }
        int small_domain = h_chance(h, 1, 3);
        size_t na = (size_t)h_below(h, 16), nb = (size_t)h_below(h, 16);
        item* a = gen_items(h, na, small_domain);
        item* b = gen_items(h, nb, small_domain);
        do_merge(h, req, req2, a, na, b, nb);
        item_free(a, na); item_free(b, nb);
    }
    /* 7. create_with_ndv */
    { static const double fpps[] = { 0.5, 0.1, 0.05, 0.01, 0.001, 1e-6, 0.0, 1.0, -0.5, 0.999999 };
      static const int64_t ndvs[] = { -1, 0, 1, 2, 10, 100, 1000, 100000 };
      for (int a = 0; a < 8; a++) for (int b = 0; b < 10; b++) do_ndv(h, ndvs[a], fpps[b]); }

    fprintf(h->out, "#stat xxh_calls %ld\n#stat xxh_len_ge32 %ld\n", n_xxh, n_xxh_ge32);
    fprintf(h->out, "#stat histories %ld\n#stat histories_multiblock %ld\n#stat inserts %ld\n", n_hist, n_multiblock, n_inserts);
    fprintf(h->out, "#stat blocks_1 %ld\n#stat blocks_2_4 %ld\n#stat blocks_5_16 %ld\n#stat blocks_17_256 %ld\n#stat blocks_gt256 %ld\n",
            hist_blocks[0], hist_blocks[1], hist_blocks[2], hist_blocks[3], hist_blocks[4]);
    fprintf(h->out, "#stat merges %ld\n#stat merges_refused %ld\n", n_merge, n_merge_mismatch);
}

/* ---------------------------------------------------------------- replay ---- */

static int replay_bloom(hctx* h, const h_line* l) {
    if (!strcmp(l->op, "xxh")) {
        size_t n; uint8_t* d = h_unhex(h_in(l, "data"), &n);
        do_xxh(h, d, n, strtoull(h_in(l, "seed") ? h_in(l, "seed") : "0", NULL, 10), 0); free(d); return 1;
    }
    if (!strcmp(l->op, "bloom_huge")) { do_bloom_huge(h, strtoull(h_in(l, "req"), NULL, 10), (int)h_ll(h_in(l, "full"))); return 1; }
    if (!strcmp(l->op, "xxhbig")) {
        do_xxh_big(h, strtoull(h_in(l, "len"), NULL, 10), strtoull(h_in(l, "seed") ? h_in(l, "seed") : "0", NULL, 10)); return 1;
    }
    if (!strcmp(l->op, "bloom")) {
        size_t ni, np; item* ins = item_parse(h_in(l, "ins"), &ni); item* pr = item_parse(h_in(l, "probe"), &np);
        do_bloom(h, (size_t)strtoull(h_in(l, "req"), NULL, 10), ins, ni, pr, np);
        item_free(ins, ni); item_free(pr, np); return 1;
    }
    if (!strcmp(l->op, "bloom_merge")) {
        size_t na, nb; item* a = item_parse(h_in(l, "ins"), &na); item* b = item_parse(h_in(l, "ins2"), &nb);
        do_merge(h, (size_t)strtoull(h_in(l, "req"), NULL, 10), (size_t)strtoull(h_in(l, "req2"), NULL, 10), a, na, b, nb);
        item_free(a, na); item_free(b, nb); return 1;
    }
    if (!strcmp(l->op, "bloom_create")) { do_create(h, (size_t)strtoull(h_in(l, "req"), NULL, 10)); return 1; }
    if (!strcmp(l->op, "bloom_load")) { size_t n; uint8_t* d = h_unhex(h_in(l, "data"), &n); do_load(h, d, n); free(d); return 1; }
    if (!strcmp(l->op, "bloom_write")) {
        do_write(h, (size_t)strtoull(h_in(l, "req"), NULL, 10), (size_t)strtoull(h_in(l, "cap"), NULL, 10)); return 1; }
    if (!strcmp(l->op, "bloom_ndv")) {
        uint64_t fb = strtoull(h_in(l, "fpp"), NULL, 10); double fpp; memcpy(&fpp, &fb, 8);
        do_ndv(h, strtoll(h_in(l, "ndv"), NULL, 10), fpp); return 1; }
    if (!strcmp(l->op, "bloom_null")) { do_null(h, strtoull(h_in(l, "h"), NULL, 10)); return 1; }
    return 0;
}

const h_component comp_bloom = { "bloom", gen_bloom, replay_bloom };
