/* C13 harness, part 1: the canonical flat rendering of the Parquet metadata structs (a comma
 * separated token list in prefix order, mirrored by lean/Driver/Ops/Thrift.lean), its reader
 * (for replays) and the random generators.
 *
 *   int      decimal            optInt  '-' | int          bool  0 | 1     optBool '-' | 0 | 1
 *   bytes    x<hex>             optStr  '-' | x<hex>
 *   list     count, elements    optStruct '-' | '+', fields
 *   Statistics     bytes max, bytes min, optInt nulls, optInt distinct, bytes max_value, bytes min_value,
 *                  optBool max_exact, optBool min_exact
 *   LogicalType    '-' | id [, params]   (5: scale, precision; 7/8: utc, unit; 9: bit_width, signed)
 *   SchemaElement  optInt type, int type_length, optInt repetition, optStr name, int num_children,
 *                  optInt converted, int scale, int precision, optInt field_id, LogicalType
 *   KeyValue       optStr key, optStr value
 *   ColumnMetaData int type, list<int> encodings, list<bytes> path, int codec, int num_values,
 *                  int total_uncompressed, int total_compressed, list<KeyValue>, int data_page_offset,
 *                  optInt index_page_offset, optInt dictionary_page_offset, optStruct Statistics,
 *                  list<(int,int,int)> encoding_stats, optInt bloom_offset, optInt bloom_length
 *   ColumnChunk    optStr file_path, int file_offset, optStruct ColumnMetaData, optInt x4
 *   RowGroup       list<ColumnChunk>, int total_byte_size, int num_rows, optInt file_offset,
 *                  optInt total_compressed_size, optInt ordinal
 *   FileMetaData   int version, list<SchemaElement>, int num_rows, list<RowGroup>, list<KeyValue>, optStr created_by
 *   PageHeader     int type, int uncompressed, int compressed, optInt crc, then the member `type` selects:
 *                  0: int x4, optStruct Statistics   3: int x6, bool is_compressed, optStruct Statistics
 *                  2: int, int, bool is_sorted       other: nothing
 */
#ifndef VERIF_THRIFT_TOKENS_H
#define VERIF_THRIFT_TOKENS_H
#include "common.h"
#include "thrift/parquet_types.h"

/* ---- pool: everything a generated / re-read struct points to, freed per case ---- */
typedef struct tpool { void* p[65536]; int n; } tpool;
static void* tp_alloc(tpool* tp, size_t n) {
    if (tp->n >= 65536) { fprintf(stderr, "tpool full\n"); exit(3); }
    void* q = calloc(1, n ? n : 1);
    if (!q) { fprintf(stderr, "harness: out of memory\n"); exit(3); }
    tp->p[tp->n++] = q;
    return q;
}
static void tp_free(tpool* tp) { for (int i = 0; i < tp->n; i++) free(tp->p[i]); tp->n = 0; }

/* a bool read through its byte: after a C-union overlay (two members written by a malformed
 * stream) the byte may hold any value, and loading it as _Bool would be undefined */
#define BOOLV(x) (*(const unsigned char*)&(x) != 0)

/* ---- printing ---- */
typedef struct tout { FILE* f; int first; } tout;
static void tk_sep(tout* o) { if (!o->first) fputc(',', o->f); o->first = 0; }
static void tk_int(tout* o, long long v) { tk_sep(o); fprintf(o->f, "%lld", v); }
static void tk_none(tout* o) { tk_sep(o); fputc('-', o->f); }
static void tk_plus(tout* o) { tk_sep(o); fputc('+', o->f); }
static void tk_optint(tout* o, bool has, long long v) { if (has) tk_int(o, v); else tk_none(o); }
static void tk_optbool(tout* o, bool has, bool v) { if (has) tk_int(o, v ? 1 : 0); else tk_none(o); }
/* When set, binary values must lie inside [tk_lo, tk_hi): the statistics of a parsed page header
 * borrow from the input buffer.  After a C-union overlay the "pointers" are other members'
 * bytes; such values are printed empty instead of being dereferenced (the driver does not
 * compare member values of overlaid unions). */
static const uint8_t* tk_lo = NULL; static const uint8_t* tk_hi = NULL;
static void tk_bytes(tout* o, const uint8_t* p, long long n) {
    tk_sep(o);
    if (!p || n <= 0) { fputc('x', o->f); return; }
    if (tk_lo && !(p >= tk_lo && p <= tk_hi && n <= tk_hi - p)) { fputc('x', o->f); return; }
    h_hex(o->f, p, (size_t)n);
}
/* strings are read with an instrumented loop (not a libc routine) */
static void tk_optstr(tout* o, const char* s) {
    if (!s) { tk_none(o); return; }
    size_t n = 0; while (s[n]) n++;
    tk_sep(o); h_hex(o->f, (const uint8_t*)s, n);
}
static void tk_stats(tout* o, const parquet_statistics_t* s) {
    tk_bytes(o, s->max_deprecated, s->max_deprecated_len);
    tk_bytes(o, s->min_deprecated, s->min_deprecated_len);
    tk_optint(o, s->has_null_count, s->null_count);
    tk_optint(o, s->has_distinct_count, s->distinct_count);
    tk_bytes(o, s->max_value, s->max_value_len);
    tk_bytes(o, s->min_value, s->min_value_len);
    tk_optbool(o, s->has_is_max_value_exact, s->is_max_value_exact);
    tk_optbool(o, s->has_is_min_value_exact, s->is_min_value_exact);
}
static void tk_optstats(tout* o, bool has, const parquet_statistics_t* s) {
    if (!has) { tk_none(o); return; }
    tk_plus(o); tk_stats(o, s);
}
static void tk_logical(tout* o, bool has, const carquet_logical_type_t* lt) {
    if (!has) { tk_none(o); return; }
    tk_int(o, (int)lt->id);
    switch (lt->id) {
    case CARQUET_LOGICAL_DECIMAL: tk_int(o, lt->params.decimal.scale); tk_int(o, lt->params.decimal.precision); break;
    case CARQUET_LOGICAL_TIME: tk_int(o, lt->params.time.is_adjusted_to_utc ? 1 : 0); tk_int(o, (int)lt->params.time.unit); break;
    case CARQUET_LOGICAL_TIMESTAMP: tk_int(o, lt->params.timestamp.is_adjusted_to_utc ? 1 : 0); tk_int(o, (int)lt->params.timestamp.unit); break;
    case CARQUET_LOGICAL_INTEGER: tk_int(o, lt->params.integer.bit_width); tk_int(o, lt->params.integer.is_signed ? 1 : 0); break;
    default: break;
    }
}
static void tk_schema(tout* o, const parquet_schema_element_t* e) {
    tk_optint(o, e->has_type, (int32_t)e->type);
    tk_int(o, e->type_length);
    tk_optint(o, e->has_repetition, (int32_t)e->repetition_type);
    tk_optstr(o, e->name);
    tk_int(o, e->num_children);
    tk_optint(o, e->has_converted_type, (int32_t)e->converted_type);
    tk_int(o, e->scale);
    tk_int(o, e->precision);
    tk_optint(o, e->has_field_id, e->field_id);
    tk_logical(o, e->has_logical_type, &e->logical_type);
}
static void tk_kv(tout* o, const parquet_key_value_t* kv) { tk_optstr(o, kv->key); tk_optstr(o, kv->value); }
static void tk_colmeta(tout* o, const parquet_column_metadata_t* m) {
    tk_int(o, (int32_t)m->type);
    tk_int(o, m->num_encodings);
    for (int32_t i = 0; i < m->num_encodings; i++) tk_int(o, (int32_t)m->encodings[i]);
    tk_int(o, m->path_len);
    for (int32_t i = 0; i < m->path_len; i++) tk_optstr(o, m->path_in_schema[i] ? m->path_in_schema[i] : "");
    tk_int(o, (int32_t)m->codec);
    tk_int(o, m->num_values);
    tk_int(o, m->total_uncompressed_size);
    tk_int(o, m->total_compressed_size);
    tk_int(o, m->num_key_value);
    for (int32_t i = 0; i < m->num_key_value; i++) tk_kv(o, &m->key_value_metadata[i]);
    tk_int(o, m->data_page_offset);
    tk_optint(o, m->has_index_page_offset, m->index_page_offset);
    tk_optint(o, m->has_dictionary_page_offset, m->dictionary_page_offset);
    tk_optstats(o, m->has_statistics, &m->statistics);
    tk_int(o, m->num_encoding_stats);
    for (int32_t i = 0; i < m->num_encoding_stats; i++) {
        tk_int(o, (int32_t)m->encoding_stats[i].page_type);
        tk_int(o, (int32_t)m->encoding_stats[i].encoding);
        tk_int(o, m->encoding_stats[i].count);
    }
    tk_optint(o, m->has_bloom_filter_offset, m->bloom_filter_offset);
    tk_optint(o, m->has_bloom_filter_length, m->bloom_filter_length);
}
static void tk_chunk(tout* o, const parquet_column_chunk_t* c) {
    tk_optstr(o, c->file_path);
    tk_int(o, c->file_offset);
    if (c->has_metadata) { tk_plus(o); tk_colmeta(o, &c->metadata); } else tk_none(o);
    tk_optint(o, c->has_offset_index_offset, c->offset_index_offset);
    tk_optint(o, c->has_offset_index_length, c->offset_index_length);
    tk_optint(o, c->has_column_index_offset, c->column_index_offset);
    tk_optint(o, c->has_column_index_length, c->column_index_length);
}
static void tk_rowgroup(tout* o, const parquet_row_group_t* g) {
    tk_int(o, g->num_columns);
    for (int32_t i = 0; i < g->num_columns; i++) tk_chunk(o, &g->columns[i]);
    tk_int(o, g->total_byte_size);
    tk_int(o, g->num_rows);
    tk_optint(o, g->has_file_offset, g->file_offset);
    tk_optint(o, g->has_total_compressed_size, g->total_compressed_size);
    tk_optint(o, g->has_ordinal, g->ordinal);
}
static void tk_filemeta(tout* o, const parquet_file_metadata_t* m) {
    tk_int(o, m->version);
    tk_int(o, m->num_schema_elements);
    for (int32_t i = 0; i < m->num_schema_elements; i++) tk_schema(o, &m->schema[i]);
    tk_int(o, m->num_rows);
    tk_int(o, m->num_row_groups);
    for (int32_t i = 0; i < m->num_row_groups; i++) tk_rowgroup(o, &m->row_groups[i]);
    tk_int(o, m->num_key_value);
    for (int32_t i = 0; i < m->num_key_value; i++) tk_kv(o, &m->key_value_metadata[i]);
    tk_optstr(o, m->created_by);
}
static void tk_pagehdr(tout* o, const parquet_page_header_t* h) {
    tk_int(o, (int32_t)h->type);
    tk_int(o, h->uncompressed_page_size);
    tk_int(o, h->compressed_page_size);
    tk_optint(o, h->has_crc, h->crc);
    switch ((int32_t)h->type) {
    case CARQUET_PAGE_DATA:
        tk_int(o, h->data_page_header.num_values);
        tk_int(o, (int32_t)h->data_page_header.encoding);
        tk_int(o, (int32_t)h->data_page_header.definition_level_encoding);
        tk_int(o, (int32_t)h->data_page_header.repetition_level_encoding);
        tk_optstats(o, BOOLV(h->data_page_header.has_statistics), &h->data_page_header.statistics);
        break;
    case CARQUET_PAGE_DATA_V2:
        tk_int(o, h->data_page_header_v2.num_values);
        tk_int(o, h->data_page_header_v2.num_nulls);
        tk_int(o, h->data_page_header_v2.num_rows);
        tk_int(o, (int32_t)h->data_page_header_v2.encoding);
        tk_int(o, h->data_page_header_v2.definition_levels_byte_length);
        tk_int(o, h->data_page_header_v2.repetition_levels_byte_length);
        tk_int(o, BOOLV(h->data_page_header_v2.is_compressed) ? 1 : 0);
        tk_optstats(o, BOOLV(h->data_page_header_v2.has_statistics), &h->data_page_header_v2.statistics);
        break;
    case CARQUET_PAGE_DICTIONARY:
        tk_int(o, h->dictionary_page_header.num_values);
        tk_int(o, (int32_t)h->dictionary_page_header.encoding);
        tk_int(o, BOOLV(h->dictionary_page_header.is_sorted) ? 1 : 0);
        break;
    default: break;
    }
}

/* ---- reading tokens back (replay) ---- */
typedef struct tin { const char* s; tpool* tp; int bad; } tin;
static int ti_peek_none(tin* t) { return t->s[0] == '-' && (t->s[1] == ',' || t->s[1] == 0); }
static int ti_peek_plus(tin* t) { return t->s[0] == '+' && (t->s[1] == ',' || t->s[1] == 0); }
static void ti_next(tin* t) { while (*t->s && *t->s != ',') t->s++; if (*t->s == ',') t->s++; }
static long long ti_int(tin* t) { if (!*t->s) { t->bad = 1; return 0; } long long v = strtoll(t->s, NULL, 10); ti_next(t); return v; }
static bool ti_optint(tin* t, long long* v) { if (ti_peek_none(t)) { ti_next(t); *v = 0; return false; } *v = ti_int(t); return true; }
static uint8_t* ti_bytes(tin* t, int32_t* n) {
    *n = 0;
    if (t->s[0] != 'x') { t->bad = 1; ti_next(t); return NULL; }
    const char* e = t->s + 1; while (*e && *e != ',') e++;
    size_t len = (size_t)(e - (t->s + 1)) / 2;
    uint8_t* p = NULL;
    if (len) {
        p = (uint8_t*)tp_alloc(t->tp, len);
        for (size_t i = 0; i < len; i++) {
            int a = t->s[1 + 2 * i], b = t->s[2 + 2 * i];
            a = a <= '9' ? a - '0' : (a | 32) - 'a' + 10; b = b <= '9' ? b - '0' : (b | 32) - 'a' + 10;
            p[i] = (uint8_t)(a * 16 + b);
        }
    }
    *n = (int32_t)len; ti_next(t); return p;
}
static char* ti_optstr(tin* t) {
    if (ti_peek_none(t)) { ti_next(t); return NULL; }
    int32_t n; uint8_t* b = ti_bytes(t, &n);
    char* s = (char*)tp_alloc(t->tp, (size_t)n + 1);
    if (n) memcpy(s, b, (size_t)n);
    s[n] = 0; return s;
}
static void ti_stats(tin* t, parquet_statistics_t* s) {
    long long v;
    s->max_deprecated = ti_bytes(t, &s->max_deprecated_len);
    s->min_deprecated = ti_bytes(t, &s->min_deprecated_len);
    s->has_null_count = ti_optint(t, &v); s->null_count = v;
    s->has_distinct_count = ti_optint(t, &v); s->distinct_count = v;
    s->max_value = ti_bytes(t, &s->max_value_len);
    s->min_value = ti_bytes(t, &s->min_value_len);
    s->has_is_max_value_exact = ti_optint(t, &v); s->is_max_value_exact = v != 0;
    s->has_is_min_value_exact = ti_optint(t, &v); s->is_min_value_exact = v != 0;
}
static bool ti_optstats(tin* t, parquet_statistics_t* s) {
    if (ti_peek_none(t)) { ti_next(t); return false; }
    if (!ti_peek_plus(t)) { t->bad = 1; return false; }
    ti_next(t); ti_stats(t, s); return true;
}
static bool ti_logical(tin* t, carquet_logical_type_t* lt) {
    if (ti_peek_none(t)) { ti_next(t); return false; }
    lt->id = (carquet_logical_type_id_t)ti_int(t);
    switch (lt->id) {
    case CARQUET_LOGICAL_DECIMAL: lt->params.decimal.scale = (int32_t)ti_int(t); lt->params.decimal.precision = (int32_t)ti_int(t); break;
    case CARQUET_LOGICAL_TIME: lt->params.time.is_adjusted_to_utc = ti_int(t) != 0; lt->params.time.unit = (carquet_time_unit_t)ti_int(t); break;
    case CARQUET_LOGICAL_TIMESTAMP: lt->params.timestamp.is_adjusted_to_utc = ti_int(t) != 0; lt->params.timestamp.unit = (carquet_time_unit_t)ti_int(t); break;
    case CARQUET_LOGICAL_INTEGER: lt->params.integer.bit_width = (int8_t)ti_int(t); lt->params.integer.is_signed = ti_int(t) != 0; break;
    default: break;
    }
    return true;
}
static void ti_schema(tin* t, parquet_schema_element_t* e) {
    long long v;
    e->has_type = ti_optint(t, &v); e->type = (carquet_physical_type_t)(int32_t)v;
    e->type_length = (int32_t)ti_int(t);
    e->has_repetition = ti_optint(t, &v); e->repetition_type = (carquet_field_repetition_t)(int32_t)v;
    e->name = ti_optstr(t);
    e->num_children = (int32_t)ti_int(t);
    e->has_converted_type = ti_optint(t, &v); e->converted_type = (carquet_converted_type_t)(int32_t)v;
    e->scale = (int32_t)ti_int(t);
    e->precision = (int32_t)ti_int(t);
    e->has_field_id = ti_optint(t, &v); e->field_id = (int32_t)v;
    e->has_logical_type = ti_logical(t, &e->logical_type);
}
static void ti_kv(tin* t, parquet_key_value_t* kv) { kv->key = ti_optstr(t); kv->value = ti_optstr(t); }
static int32_t ti_count(tin* t) { long long n = ti_int(t); if (n < 0 || n > 200000) { t->bad = 1; return 0; } return (int32_t)n; }
static void ti_colmeta(tin* t, parquet_column_metadata_t* m) {
    long long v;
    m->type = (carquet_physical_type_t)(int32_t)ti_int(t);
    m->num_encodings = ti_count(t);
    m->encodings = (carquet_encoding_t*)tp_alloc(t->tp, sizeof(carquet_encoding_t) * (size_t)m->num_encodings);
    for (int32_t i = 0; i < m->num_encodings; i++) m->encodings[i] = (carquet_encoding_t)(int32_t)ti_int(t);
    m->path_len = ti_count(t);
    m->path_in_schema = (char**)tp_alloc(t->tp, sizeof(char*) * (size_t)m->path_len);
    for (int32_t i = 0; i < m->path_len; i++) m->path_in_schema[i] = ti_optstr(t);
    m->codec = (carquet_compression_t)(int32_t)ti_int(t);
    m->num_values = ti_int(t);
    m->total_uncompressed_size = ti_int(t);
    m->total_compressed_size = ti_int(t);
    m->num_key_value = ti_count(t);
    m->key_value_metadata = (parquet_key_value_t*)tp_alloc(t->tp, sizeof(parquet_key_value_t) * (size_t)m->num_key_value);
    for (int32_t i = 0; i < m->num_key_value; i++) ti_kv(t, &m->key_value_metadata[i]);
    m->data_page_offset = ti_int(t);
    m->has_index_page_offset = ti_optint(t, &v); m->index_page_offset = v;
    m->has_dictionary_page_offset = ti_optint(t, &v); m->dictionary_page_offset = v;
    m->has_statistics = ti_optstats(t, &m->statistics);
    m->num_encoding_stats = ti_count(t);
    m->encoding_stats = (parquet_page_encoding_stats_t*)tp_alloc(t->tp, sizeof(parquet_page_encoding_stats_t) * (size_t)m->num_encoding_stats);
    for (int32_t i = 0; i < m->num_encoding_stats; i++) {
        m->encoding_stats[i].page_type = (carquet_page_type_t)(int32_t)ti_int(t);
        m->encoding_stats[i].encoding = (carquet_encoding_t)(int32_t)ti_int(t);
        m->encoding_stats[i].count = (int32_t)ti_int(t);
    }
    m->has_bloom_filter_offset = ti_optint(t, &v); m->bloom_filter_offset = v;
    m->has_bloom_filter_length = ti_optint(t, &v); m->bloom_filter_length = (int32_t)v;
}
static void ti_chunk(tin* t, parquet_column_chunk_t* c) {
    long long v;
    c->file_path = ti_optstr(t);
    c->file_offset = ti_int(t);
    if (ti_peek_none(t)) { ti_next(t); c->has_metadata = false; }
    else if (ti_peek_plus(t)) { ti_next(t); c->has_metadata = true; ti_colmeta(t, &c->metadata); }
    else t->bad = 1;
    c->has_offset_index_offset = ti_optint(t, &v); c->offset_index_offset = v;
    c->has_offset_index_length = ti_optint(t, &v); c->offset_index_length = (int32_t)v;
    c->has_column_index_offset = ti_optint(t, &v); c->column_index_offset = v;
    c->has_column_index_length = ti_optint(t, &v); c->column_index_length = (int32_t)v;
}
static void ti_rowgroup(tin* t, parquet_row_group_t* g) {
    long long v;
    g->num_columns = ti_count(t);
    g->columns = (parquet_column_chunk_t*)tp_alloc(t->tp, sizeof(parquet_column_chunk_t) * (size_t)g->num_columns);
    for (int32_t i = 0; i < g->num_columns && !t->bad; i++) ti_chunk(t, &g->columns[i]);
    g->total_byte_size = ti_int(t);
    g->num_rows = ti_int(t);
    g->has_file_offset = ti_optint(t, &v); g->file_offset = v;
    g->has_total_compressed_size = ti_optint(t, &v); g->total_compressed_size = v;
    g->has_ordinal = ti_optint(t, &v); g->ordinal = (int16_t)v;
}
static void ti_filemeta(tin* t, parquet_file_metadata_t* m) {
    memset(m, 0, sizeof *m);
    m->version = (int32_t)ti_int(t);
    m->num_schema_elements = ti_count(t);
    m->schema = (parquet_schema_element_t*)tp_alloc(t->tp, sizeof(parquet_schema_element_t) * (size_t)m->num_schema_elements);
    for (int32_t i = 0; i < m->num_schema_elements && !t->bad; i++) ti_schema(t, &m->schema[i]);
    m->num_rows = ti_int(t);
    m->num_row_groups = ti_count(t);
    m->row_groups = (parquet_row_group_t*)tp_alloc(t->tp, sizeof(parquet_row_group_t) * (size_t)m->num_row_groups);
    for (int32_t i = 0; i < m->num_row_groups && !t->bad; i++) ti_rowgroup(t, &m->row_groups[i]);
    m->num_key_value = ti_count(t);
    m->key_value_metadata = (parquet_key_value_t*)tp_alloc(t->tp, sizeof(parquet_key_value_t) * (size_t)m->num_key_value);
    for (int32_t i = 0; i < m->num_key_value; i++) ti_kv(t, &m->key_value_metadata[i]);
    m->created_by = ti_optstr(t);
}
static void ti_pagehdr(tin* t, parquet_page_header_t* h) {
    long long v;
    memset(h, 0, sizeof *h);
    h->type = (carquet_page_type_t)(int32_t)ti_int(t);
    h->uncompressed_page_size = (int32_t)ti_int(t);
    h->compressed_page_size = (int32_t)ti_int(t);
    h->has_crc = ti_optint(t, &v); h->crc = (int32_t)v;
    switch ((int32_t)h->type) {
    case CARQUET_PAGE_DATA:
        h->data_page_header.num_values = (int32_t)ti_int(t);
        h->data_page_header.encoding = (carquet_encoding_t)(int32_t)ti_int(t);
        h->data_page_header.definition_level_encoding = (carquet_encoding_t)(int32_t)ti_int(t);
        h->data_page_header.repetition_level_encoding = (carquet_encoding_t)(int32_t)ti_int(t);
        h->data_page_header.has_statistics = ti_optstats(t, &h->data_page_header.statistics);
        break;
    case CARQUET_PAGE_DATA_V2:
        h->data_page_header_v2.num_values = (int32_t)ti_int(t);
        h->data_page_header_v2.num_nulls = (int32_t)ti_int(t);
        h->data_page_header_v2.num_rows = (int32_t)ti_int(t);
        h->data_page_header_v2.encoding = (carquet_encoding_t)(int32_t)ti_int(t);
        h->data_page_header_v2.definition_levels_byte_length = (int32_t)ti_int(t);
        h->data_page_header_v2.repetition_levels_byte_length = (int32_t)ti_int(t);
        h->data_page_header_v2.is_compressed = ti_int(t) != 0;
        h->data_page_header_v2.has_statistics = ti_optstats(t, &h->data_page_header_v2.statistics);
        break;
    case CARQUET_PAGE_DICTIONARY:
        h->dictionary_page_header.num_values = (int32_t)ti_int(t);
        h->dictionary_page_header.encoding = (carquet_encoding_t)(int32_t)ti_int(t);
        h->dictionary_page_header.is_sorted = ti_int(t) != 0;
        break;
    default: break;
    }
}

/* ---- random values ---- */
static int64_t g_i64(hctx* h) {
    static const int64_t ext[] = { 0, 1, -1, 63, 64, -64, -65, 127, 128, 8191, 8192, -8192, -8193, 32767, -32768,
        2147483647LL, -2147483647LL - 1, 4294967295LL, 9223372036854775807LL, -9223372036854775807LL - 1,
        9223372036854775806LL, -9223372036854775807LL, 1LL << 62, -(1LL << 62) };
    switch (h_below(h, 5)) {
    case 0: return ext[h_below(h, sizeof ext / sizeof ext[0])];
    case 1: return (int64_t)h_below(h, 300) - 100;
    case 2: return (int64_t)h_next(h);
    case 3: return (int64_t)(h_next(h) >> (h_below(h, 63) + 1));
    default: return -(int64_t)(h_next(h) >> (h_below(h, 63) + 1));
    }
}
static int32_t g_i32(hctx* h) {
    static const int32_t ext[] = { 0, 1, -1, 63, 64, -64, -65, 8191, 8192, 1048575, 1048576, 134217727, 134217728,
        2147483647, -2147483647 - 1, 2147483646, -2147483647 };
    switch (h_below(h, 4)) {
    case 0: return ext[h_below(h, sizeof ext / sizeof ext[0])];
    case 1: return (int32_t)h_below(h, 40) - 8;
    case 2: return (int32_t)h_next(h);
    default: return (int32_t)(h_next(h) >> (32 + h_below(h, 32)));
    }
}
static int16_t g_i16(hctx* h) {
    static const int16_t ext[] = { 0, 1, -1, 63, 64, -64, -65, 8191, 8192, 32767, -32768 };
    return h_chance(h, 1, 2) ? ext[h_below(h, sizeof ext / sizeof ext[0])] : (int16_t)h_next(h);
}
static size_t g_len(hctx* h) {
    switch (h_below(h, 8)) {
    case 0: return 0;
    case 1: return 127 + h_below(h, 3);           /* varint boundary of the length */
    case 2: return (h->thorough && h_chance(h, 1, 60)) ? 16383 + h_below(h, 3) : (h_chance(h, 1, 3) ? 300 : 20);
    default: return 1 + h_below(h, 12);
    }
}
/* bytes without NUL (C strings); non-ASCII included */
static char* g_str(hctx* h, tpool* tp) {
    size_t n = g_len(h);
    char* s = (char*)tp_alloc(tp, n + 1);
    for (size_t i = 0; i < n; i++) { uint8_t b = (uint8_t)h_next(h); s[i] = (char)(b ? b : 0xC3); }
    s[n] = 0; return s;
}
static char* g_optstr(hctx* h, tpool* tp) { return h_chance(h, 1, 4) ? NULL : g_str(h, tp); }
/* arbitrary binary; empty is NULL or a live pointer with length 0 */
static uint8_t* g_bin(hctx* h, tpool* tp, int32_t* n) {
    size_t len = h_chance(h, 1, 3) ? 0 : g_len(h);
    *n = (int32_t)len;
    if (len == 0 && h_chance(h, 1, 2)) return NULL;
    uint8_t* p = (uint8_t*)tp_alloc(tp, len);
    h_fill(h, p, len, (int)h_below(h, 5));
    return p;
}
static void g_stats(hctx* h, tpool* tp, parquet_statistics_t* s, int foreign) {
    memset(s, 0, sizeof *s);
    s->max_deprecated = g_bin(h, tp, &s->max_deprecated_len);
    s->min_deprecated = g_bin(h, tp, &s->min_deprecated_len);
    s->has_null_count = h_chance(h, 1, 2); s->null_count = g_i64(h);
    s->has_distinct_count = h_chance(h, 1, 2); s->distinct_count = g_i64(h);
    s->max_value = g_bin(h, tp, &s->max_value_len);
    s->min_value = g_bin(h, tp, &s->min_value_len);
    s->has_is_max_value_exact = h_chance(h, 1, 2); s->is_max_value_exact = h_chance(h, 1, 2);
    s->has_is_min_value_exact = h_chance(h, 1, 2); s->is_min_value_exact = h_chance(h, 1, 2);
    if (foreign) { /* the rendering prints a value only under its flag: keep hidden values zero */
        if (!s->has_null_count) s->null_count = 0;
        if (!s->has_distinct_count) s->distinct_count = 0;
    }
}
static void g_logical(hctx* h, carquet_logical_type_t* lt) {
    memset(lt, 0, sizeof *lt);
    lt->id = (carquet_logical_type_id_t)h_below(h, 15);
    switch (lt->id) {
    case CARQUET_LOGICAL_DECIMAL: lt->params.decimal.scale = g_i32(h); lt->params.decimal.precision = g_i32(h); break;
    case CARQUET_LOGICAL_TIME: lt->params.time.is_adjusted_to_utc = h_chance(h, 1, 2); lt->params.time.unit = (carquet_time_unit_t)h_below(h, 3); break;
    case CARQUET_LOGICAL_TIMESTAMP: lt->params.timestamp.is_adjusted_to_utc = h_chance(h, 1, 2); lt->params.timestamp.unit = (carquet_time_unit_t)h_below(h, 3); break;
    case CARQUET_LOGICAL_INTEGER: lt->params.integer.bit_width = (int8_t)(h_chance(h, 1, 2) ? (8 << h_below(h, 4)) : (int)h_next(h)); lt->params.integer.is_signed = h_chance(h, 1, 2); break;
    default: break;
    }
}
static void g_schema(hctx* h, tpool* tp, parquet_schema_element_t* e) {
    memset(e, 0, sizeof *e);
    e->has_type = h_chance(h, 2, 3); e->type = (carquet_physical_type_t)(h_chance(h, 3, 4) ? (int32_t)h_below(h, 8) : g_i32(h));
    e->type_length = h_chance(h, 1, 2) ? g_i32(h) : 0;
    e->has_repetition = h_chance(h, 2, 3); e->repetition_type = (carquet_field_repetition_t)(h_chance(h, 3, 4) ? (int32_t)h_below(h, 3) : g_i32(h));
    e->name = g_optstr(h, tp);
    e->num_children = h_chance(h, 1, 2) ? g_i32(h) : 0;
    e->has_converted_type = h_chance(h, 1, 3); e->converted_type = (carquet_converted_type_t)(h_chance(h, 3, 4) ? (int32_t)h_below(h, 22) : g_i32(h));
    e->scale = h_chance(h, 1, 3) ? g_i32(h) : 0;
    e->precision = h_chance(h, 1, 3) ? g_i32(h) : 0;
    e->has_field_id = h_chance(h, 1, 2); e->field_id = g_i32(h);
    e->has_logical_type = h_chance(h, 1, 2);
    if (e->has_logical_type) g_logical(h, &e->logical_type);
}
static void g_kv(hctx* h, tpool* tp, parquet_key_value_t* kv, int foreign) {
    (void)foreign;
    kv->key = h_chance(h, 1, 6) ? NULL : g_str(h, tp);
    kv->value = g_optstr(h, tp);
}
static int32_t g_count(hctx* h, int big) {
    switch (h_below(h, 8)) {
    case 0: return 0;
    case 1: return 14;
    case 2: return 15;
    case 3: return big ? 16 + (int32_t)h_below(h, 120) : 16;
    default: return 1 + (int32_t)h_below(h, 4);
    }
}
static void g_colmeta(hctx* h, tpool* tp, parquet_column_metadata_t* m, int foreign) {
    memset(m, 0, sizeof *m);
    m->type = (carquet_physical_type_t)(h_chance(h, 3, 4) ? (int32_t)h_below(h, 8) : g_i32(h));
    m->num_encodings = g_count(h, 0);
    m->encodings = (carquet_encoding_t*)tp_alloc(tp, sizeof(carquet_encoding_t) * (size_t)m->num_encodings);
    for (int32_t i = 0; i < m->num_encodings; i++) m->encodings[i] = (carquet_encoding_t)(h_chance(h, 3, 4) ? (int32_t)h_below(h, 10) : g_i32(h));
    m->path_len = g_count(h, 0);
    m->path_in_schema = (char**)tp_alloc(tp, sizeof(char*) * (size_t)m->path_len);
    for (int32_t i = 0; i < m->path_len; i++) m->path_in_schema[i] = g_str(h, tp);
    m->codec = (carquet_compression_t)(h_chance(h, 3, 4) ? (int32_t)h_below(h, 8) : g_i32(h));
    m->num_values = g_i64(h);
    m->total_uncompressed_size = g_i64(h);
    m->total_compressed_size = g_i64(h);
    m->num_key_value = h_chance(h, 1, 3) ? g_count(h, 0) : 0;
    m->key_value_metadata = (parquet_key_value_t*)tp_alloc(tp, sizeof(parquet_key_value_t) * (size_t)m->num_key_value);
    for (int32_t i = 0; i < m->num_key_value; i++) g_kv(h, tp, &m->key_value_metadata[i], foreign);
    m->data_page_offset = g_i64(h);
    m->has_index_page_offset = h_chance(h, 1, 3); m->index_page_offset = m->has_index_page_offset ? g_i64(h) : 0;
    m->has_dictionary_page_offset = h_chance(h, 1, 2); m->dictionary_page_offset = m->has_dictionary_page_offset ? g_i64(h) : 0;
    m->has_statistics = h_chance(h, 1, 2);
    if (m->has_statistics) g_stats(h, tp, &m->statistics, foreign);
    m->num_encoding_stats = h_chance(h, 1, 3) ? g_count(h, 0) : 0;
    m->encoding_stats = (parquet_page_encoding_stats_t*)tp_alloc(tp, sizeof(parquet_page_encoding_stats_t) * (size_t)m->num_encoding_stats);
    for (int32_t i = 0; i < m->num_encoding_stats; i++) {
        m->encoding_stats[i].page_type = (carquet_page_type_t)(int32_t)h_below(h, 4);
        m->encoding_stats[i].encoding = (carquet_encoding_t)(int32_t)h_below(h, 10);
        m->encoding_stats[i].count = g_i32(h);
    }
    m->has_bloom_filter_offset = h_chance(h, 1, 3); m->bloom_filter_offset = m->has_bloom_filter_offset ? g_i64(h) : 0;
    m->has_bloom_filter_length = h_chance(h, 1, 3); m->bloom_filter_length = m->has_bloom_filter_length ? g_i32(h) : 0;
}
static void g_chunk(hctx* h, tpool* tp, parquet_column_chunk_t* c, int foreign) {
    memset(c, 0, sizeof *c);
    c->file_path = h_chance(h, 1, 4) ? g_str(h, tp) : NULL;
    c->file_offset = g_i64(h);
    c->has_metadata = h_chance(h, 4, 5);
    if (c->has_metadata) g_colmeta(h, tp, &c->metadata, foreign);
    c->has_offset_index_offset = h_chance(h, 1, 3); c->offset_index_offset = c->has_offset_index_offset ? g_i64(h) : 0;
    c->has_offset_index_length = h_chance(h, 1, 3); c->offset_index_length = c->has_offset_index_length ? g_i32(h) : 0;
    c->has_column_index_offset = h_chance(h, 1, 3); c->column_index_offset = c->has_column_index_offset ? g_i64(h) : 0;
    c->has_column_index_length = h_chance(h, 1, 3); c->column_index_length = c->has_column_index_length ? g_i32(h) : 0;
}
static void g_rowgroup(hctx* h, tpool* tp, parquet_row_group_t* g, int foreign, int big) {
    memset(g, 0, sizeof *g);
    g->num_columns = g_count(h, big);
    g->columns = (parquet_column_chunk_t*)tp_alloc(tp, sizeof(parquet_column_chunk_t) * (size_t)g->num_columns);
    for (int32_t i = 0; i < g->num_columns; i++) g_chunk(h, tp, &g->columns[i], foreign);
    g->total_byte_size = g_i64(h);
    g->num_rows = g_i64(h);
    g->has_file_offset = h_chance(h, 1, 2); g->file_offset = g->has_file_offset ? g_i64(h) : 0;
    g->has_total_compressed_size = h_chance(h, 1, 2); g->total_compressed_size = g->has_total_compressed_size ? g_i64(h) : 0;
    g->has_ordinal = h_chance(h, 1, 2); g->ordinal = g->has_ordinal ? g_i16(h) : 0;
}
static void g_filemeta(hctx* h, tpool* tp, parquet_file_metadata_t* m, int foreign) {
    memset(m, 0, sizeof *m);
    int big = h_chance(h, 1, 6);
    m->version = g_i32(h);
    m->num_schema_elements = g_count(h, big);
    m->schema = (parquet_schema_element_t*)tp_alloc(tp, sizeof(parquet_schema_element_t) * (size_t)m->num_schema_elements);
    for (int32_t i = 0; i < m->num_schema_elements; i++) g_schema(h, tp, &m->schema[i]);
    m->num_rows = g_i64(h);
    m->num_row_groups = h_chance(h, 1, 8) ? g_count(h, 0) : (int32_t)h_below(h, 3);
    m->row_groups = (parquet_row_group_t*)tp_alloc(tp, sizeof(parquet_row_group_t) * (size_t)m->num_row_groups);
    for (int32_t i = 0; i < m->num_row_groups; i++) g_rowgroup(h, tp, &m->row_groups[i], foreign, big && i == 0);
    m->num_key_value = h_chance(h, 1, 2) ? g_count(h, 0) : 0;
    m->key_value_metadata = (parquet_key_value_t*)tp_alloc(tp, sizeof(parquet_key_value_t) * (size_t)m->num_key_value);
    for (int32_t i = 0; i < m->num_key_value; i++) g_kv(h, tp, &m->key_value_metadata[i], foreign);
    m->created_by = g_optstr(h, tp);
}
static void g_pagehdr(hctx* h, tpool* tp, parquet_page_header_t* p, int foreign) {
    memset(p, 0, sizeof *p);
    static const int32_t types[] = { 0, 0, 0, 2, 2, 3, 3, 1, 4, -1 };
    p->type = (carquet_page_type_t)types[h_below(h, 10)];
    p->uncompressed_page_size = g_i32(h);
    p->compressed_page_size = g_i32(h);
    p->has_crc = h_chance(h, 1, 2); p->crc = p->has_crc ? g_i32(h) : 0;
    switch ((int32_t)p->type) {
    case CARQUET_PAGE_DATA:
        p->data_page_header.num_values = g_i32(h);
        p->data_page_header.encoding = (carquet_encoding_t)(int32_t)h_below(h, 10);
        p->data_page_header.definition_level_encoding = (carquet_encoding_t)(int32_t)h_below(h, 10);
        p->data_page_header.repetition_level_encoding = (carquet_encoding_t)g_i32(h);
        p->data_page_header.has_statistics = h_chance(h, 1, 2);
        if (p->data_page_header.has_statistics) g_stats(h, tp, &p->data_page_header.statistics, foreign);
        break;
    case CARQUET_PAGE_DATA_V2:
        p->data_page_header_v2.num_values = g_i32(h);
        p->data_page_header_v2.num_nulls = g_i32(h);
        p->data_page_header_v2.num_rows = g_i32(h);
        p->data_page_header_v2.encoding = (carquet_encoding_t)(int32_t)h_below(h, 10);
        p->data_page_header_v2.definition_levels_byte_length = g_i32(h);
        p->data_page_header_v2.repetition_levels_byte_length = g_i32(h);
        p->data_page_header_v2.is_compressed = h_chance(h, 1, 2);
        p->data_page_header_v2.has_statistics = h_chance(h, 1, 2);
        if (p->data_page_header_v2.has_statistics) g_stats(h, tp, &p->data_page_header_v2.statistics, foreign);
        break;
    case CARQUET_PAGE_DICTIONARY:
        p->dictionary_page_header.num_values = g_i32(h);
        p->dictionary_page_header.encoding = (carquet_encoding_t)(int32_t)h_below(h, 10);
        p->dictionary_page_header.is_sorted = h_chance(h, 1, 2);
        break;
    default: break;
    }
}
#endif
