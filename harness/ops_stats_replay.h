/* part of ops_stats.c: re-execute recorded op lines on the real code */

static int rp_split(char* s, char sep, char** out, int max) {
    int n = 0; out[n++] = s;
    for (char* p = s; *p; p++) if (*p == sep && n < max) { *p = 0; out[n++] = p + 1; }
    return n;
}
static val_t rp_val(const char* s) {
    if (!s || s[0] == '~' || s[0] == '_' || s[0] == 0) return v_null();
    size_t n; uint8_t* p = h_unhex(s, &n);
    val_t v; v.p = p; v.len = (int)n; v.null = 0; return v;
}
static val_t* rp_rows(const char* s, int* n) {
    *n = 0;
    if (!s || !strcmp(s, "-")) return (val_t*)h_alloc(sizeof(val_t));
    char* d = strdup(s); char* parts[4096];
    int k = rp_split(d, '.', parts, 4096);
    val_t* r = (val_t*)h_alloc(sizeof(val_t) * (size_t)k);
    for (int i = 0; i < k; i++) r[i] = rp_val(parts[i]);
    *n = k; free(d); return r;
}
static int replay_stats(hctx* h, const h_line* l) {
    if (!strcmp(l->op, "fcmp")) {
        do_fcmp(h, (int)h_ll(h_in(l, "w")), strtoull(h_in(l, "a"), NULL, 10), strtoull(h_in(l, "b"), NULL, 10));
        return 1;
    }
    if (!strcmp(l->op, "sb")) {
        sb_case c; c.t = (int)h_ll(h_in(l, "t")); c.tl = (int)h_ll(h_in(l, "tl"));
        char* d = strdup(h_in(l, "ops")); char* toks[64];
        int n = strcmp(d, "-") ? rp_split(d, ',', toks, 64) : 0;
        c.nops = n; c.ops = (sb_op*)h_alloc(sizeof(sb_op) * (size_t)(n ? n : 1));
        for (int i = 0; i < n; i++) {
            sb_op* o = &c.ops[i]; memset(o, 0, sizeof *o); o->kind = toks[i][0];
            if (o->kind == 'N') o->n = strtoll(toks[i] + 1, NULL, 10);
            else if (o->kind == 'V') {
                char* colon = strchr(toks[i], ':'); o->n = strtoll(toks[i] + 1, NULL, 10);
                size_t fl; o->flat = h_unhex(colon ? colon + 1 : "x", &fl); o->flat_len = (int)fl;
            } else { o->vals = rp_rows(toks[i] + 1, &o->nvals); }
        }
        int w = type_width(c.t, c.tl);
        do_sb(h, &c, c.t == T_FLBA && (w > 256 || w <= 0));
        sb_free(&c); free(d); return 1;
    }
    if (!strcmp(l->op, "pw")) {
        pw_case c; c.t = (int)h_ll(h_in(l, "t")); c.maxdef = (int)h_ll(h_in(l, "maxdef"));
        char* d = strdup(h_in(l, "batches")); char* toks[64];
        int n = strcmp(d, "-") ? rp_split(d, ';', toks, 64) : 0;
        c.nb = n; c.b = (pw_batch*)h_alloc(sizeof(pw_batch) * (size_t)(n ? n : 1));
        for (int i = 0; i < n; i++) {
            pw_batch* b = &c.b[i]; memset(b, 0, sizeof *b);
            char* f[3]; int k = rp_split(toks[i], ':', f, 3);
            b->n = atoi(f[0]); size_t dl; b->dense = h_unhex(k > 1 ? f[1] : "x", &dl); b->dense_len = (int)dl;
            const char* ds = k > 2 ? f[2] : "n";
            b->has_defs = ds[0] != 'n';
            b->defs = (int16_t*)h_alloc(sizeof(int16_t) * (size_t)(b->n ? b->n : 1));
            for (int r = 0; r < b->n; r++) b->defs[r] = (b->has_defs && ds[0] != 'e' && (int)strlen(ds) > r) ? (int16_t)(ds[r] - '0') : 0;
        }
        do_pw(h, &c); pw_free(&c); free(d); return 1;
    }
    if (!strcmp(l->op, "scmp") || !strcmp(l->op, "sovl")) {
        bounded b; memset(&b, 0, sizeof b); b.t = (int)h_ll(h_in(l, "t"));
        b.smin = rp_val(h_in(l, "smin")); b.smax = rp_val(h_in(l, "smax")); b.rows = rp_rows(h_in(l, "data"), &b.n);
        if (!strcmp(l->op, "scmp")) { val_t v = rp_val(h_in(l, "v")); do_scmp(h, &b, v); v_free(&v); }
        else { val_t q1 = rp_val(h_in(l, "qmin")), q2 = rp_val(h_in(l, "qmax")); do_sovl(h, &b, &q1, &q2); v_free(&q1); v_free(&q2); }
        bounded_free(&b); return 1;
    }
    if (!strcmp(l->op, "pmm")) {
        int t = (int)h_ll(h_in(l, "t")), tl = (int)h_ll(h_in(l, "tl"));
        char* d = strdup(h_in(l, "pages")); char* toks[16]; pm_page pg[16];
        int n = strcmp(d, "-") ? rp_split(d, ';', toks, 16) : 0;
        for (int i = 0; i < n; i++) {
            char* f[4]; int k = rp_split(toks[i], ':', f, 4);
            pg[i].nc = strtoll(f[0], NULL, 10); pg[i].mn = rp_val(k > 1 ? f[1] : "~"); pg[i].mx = rp_val(k > 2 ? f[2] : "~");
            pg[i].isnull = k > 3 ? atoi(f[3]) : 0;
        }
        int nr; val_t* rows = rp_rows(h_in(l, "data"), &nr);
        val_t q1 = rp_val(h_in(l, "qmin")), q2 = rp_val(h_in(l, "qmax"));
        do_pmm(h, t, tl, pg, n, (int)h_ll(h_in(l, "idx")), &q1, &q2, rows, nr);
        for (int i = 0; i < n; i++) { v_free(&pg[i].mn); v_free(&pg[i].mx); }
        for (int i = 0; i < nr; i++) v_free(&rows[i]);
        free(rows); v_free(&q1); v_free(&q2); free(d); return 1;
    }
    if (!strcmp(l->op, "rgm")) {
        rg_case c; memset(&c, 0, sizeof c);
        c.t = (int)h_ll(h_in(l, "t")); c.tl = (int)h_ll(h_in(l, "tl"));
        char* d = strdup(h_in(l, "groups")); char* toks[32];
        c.ng = rp_split(d, ';', toks, 32);
        c.g = (rg_group*)h_alloc(sizeof(rg_group) * (size_t)c.ng);
        for (int i = 0; i < c.ng; i++) {
            rg_group* g = &c.g[i]; memset(g, 0, sizeof *g);
            char* at = strchr(toks[i], '@'); if (at) *at = 0;
            g->rows = rp_rows(toks[i], &g->n);
            rg_stats* s = &g->st; s->mn = v_null(); s->mx = v_null(); s->mnd = v_null(); s->mxd = v_null();
            const char* ss = at ? at + 1 : "N";
            if (ss[0] == 'N') { s->none = 1; continue; }
            char* sd = strdup(ss + 1); char* f[5]; int k = rp_split(sd, ':', f, 5);
            if (k > 0) s->mn = rp_val(f[0]);
            if (k > 1) s->mx = rp_val(f[1]);
            if (k > 2) s->mnd = rp_val(f[2]);
            if (k > 3) s->mxd = rp_val(f[3]);
            if (k > 4 && f[4][0] != '~') { s->has_nc = 1; s->nc = strtoll(f[4], NULL, 10); }
            free(sd);
        }
        c.op = (int)h_ll(h_in(l, "op")); c.probe = rp_val(h_in(l, "probe"));
        c.maxidx = (int)h_ll(h_in(l, "maxidx")); c.col = (int)h_ll(h_in(l, "col"));
        do_rgm(h, &c, c.t == T_BOOL);
        rg_free(&c); free(d); return 1;
    }
    return 0;
}
