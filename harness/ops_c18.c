/* C18: truncated files are rejected; failed writes are never reported OK; abort leaves nothing.
 *
 *   trunc <case as in wr> | n=<file length> file=x.. acc=<k.mode.nrg.rows,...>
 *        every proper prefix (k = 0..n-1 bytes) is offered to the three open paths
 *        (mode 0 fread, 1 mmap, 2 buffer); acc lists the accepted ones.
 *   sink <case> kind=<0 byte budget | 1 op budget | 3 /dev/full | 4 one transient failure> k=<budget> buf=<0 unbuffered | 1 64-byte buffer | 2 default>
 *        | st=<statuses> sunk=<bytes the sink accepted> sunkh=<FNV-1a 64 of them> ev=<call.offered.taken of every sink operation>
 *          failed=<0/1 sink reported a failure> p_fail_surfaces=0/1 p_ok_implies_bytes=0/1 p_close_ok_implies_bytes=0/1
 *        the writer runs on a fopencookie stream (create_file) or, for kind 3, on a path-based
 *        writer over a stream whose close fails is not constructible, so kind 3 uses /dev/full.
 *   abort <case> at=<step index> | removed=0/1 p_no_file=0/1
 */
#define _GNU_SOURCE
#include <stdio.h>
extern int h_fail_fclose;   /* io_wrap.c */
#include "filecase.h"
#include <errno.h>
#include <sys/stat.h>
#include "ropts.h"

/* ---------- truncation ---------- */
static void try_open(hctx* h, const char* path, const uint8_t* buf, size_t k, int mode, int* first) {
    carquet_error_t err; memset(&err, 0, sizeof err);
    carquet_reader_options_t ro; carquet_reader_options_init(&ro);
    h_vary_reader_options(&ro, buf, k);
    carquet_reader_t* rd = NULL;
    uint8_t* exact = NULL;
    if (mode == 0) rd = carquet_reader_open(path, &ro, &err);
    else if (mode == 1) { ro.use_mmap = true; rd = carquet_reader_open(path, &ro, &err); }
    else { exact = h_alloc(k); memcpy(exact, buf, k); rd = carquet_reader_open_buffer(exact, k, &ro, &err); }
    if (rd) {
        fprintf(h->out, "%s%zu.%d.%d.%lld", *first ? "" : ",", k, mode, carquet_reader_num_row_groups(rd), (long long)carquet_reader_num_rows(rd));
        *first = 0;
        /* an accepted prefix must at least be readable without a crash */
        int nrg = carquet_reader_num_row_groups(rd), nc = carquet_reader_num_columns(rd);
        for (int g = 0; g < nrg && g < 4; g++) for (int c = 0; c < nc && c < 4; c++) {
            carquet_column_reader_t* cr = carquet_reader_get_column(rd, g, c, &err);
            if (cr) { uint8_t tmp[16 * 64]; int16_t d[64]; (void)!carquet_column_read_batch(cr, tmp, 8, d, NULL); carquet_column_reader_free(cr); }
        }
        carquet_reader_close(rd);
    }
    free(exact);
}

static void run_trunc(hctx* h, fcase* fc) {
    char path[128], ppath[128];
    snprintf(path, sizeof path, "/tmp/verif_c18_%d.parquet", (int)getpid());
    snprintf(ppath, sizeof ppath, "/tmp/verif_c18_%d_p.parquet", (int)getpid());
    fprintf(h->out, "trunc"); { /* reuse the wr printer without its op name */
        long pos = ftell(h->out); (void)pos; }
    /* print_case prints "wr cols=..."; emit it through a temp to drop the leading op */
    { FILE* save = h->out; char* mem = NULL; size_t msz = 0; FILE* ms = open_memstream(&mem, &msz);
      h->out = ms; print_case(h, fc); fclose(ms); h->out = save; fputs(mem + 2, h->out); free(mem); }
    h_call(h);
    int st[MAXSTEP + 2], nst = 0;
    if (write_file(fc, path, st, &nst) != 0) { fprintf(h->out, " | err=create\n"); h->n_lines++; return; }
    FILE* f = fopen(path, "rb"); fseek(f, 0, SEEK_END); long n = ftell(f); fseek(f, 0, SEEK_SET);
    uint8_t* buf = h_alloc((size_t)n); if (fread(buf, 1, (size_t)n, f) != (size_t)n) n = 0; fclose(f);
    fprintf(h->out, " | n=%ld file=", n); h_hex(h->out, buf, (size_t)n); fprintf(h->out, " acc=");
    int first = 1;
    for (long k = 0; k < n; k++) {
        FILE* pf = fopen(ppath, "wb"); fwrite(buf, 1, (size_t)k, pf); fclose(pf);
        for (int mode = 0; mode < 3; mode++) try_open(h, ppath, buf, (size_t)k, mode, &first);
    }
    if (first) fputc('-', h->out);
    fputc('\n', h->out); h->n_lines++;
    free(buf); unlink(path); unlink(ppath);
}

/* ---------- failing sink ---------- */
#define SINK_MAXEV 4096
typedef struct { long byte_budget, op_budget; int transient; int terr; long sunk; int failed; uint8_t* data; size_t cap;
                 int call;                       /* index of the writer API call in progress (close = nsteps, the harness's own flush/close = nsteps + 1) */
                 int nev; int ev_call[SINK_MAXEV]; long ev_n[SINK_MAXEV], ev_r[SINK_MAXEV]; } sink_t;
static ssize_t sink_write_(void* c, const char* b, size_t n);
/* every operation the stream asks of the sink is logged: (API call, bytes offered, bytes taken) -- the oracle stdio and the
 * sink actually played, compared by the driver with the environment it runs the writer model in */
static ssize_t sink_write(void* c, const char* b, size_t n) {
    sink_t* s = (sink_t*)c;
    ssize_t r = sink_write_(c, b, n);
    if (s->nev < SINK_MAXEV) { s->ev_call[s->nev] = s->call; s->ev_n[s->nev] = (long)n; s->ev_r[s->nev] = (long)r; }
    s->nev++;
    return r;
}
static ssize_t sink_write_(void* c, const char* b, size_t n) {
    sink_t* s = (sink_t*)c;
    /* transient: only this one operation fails - with EIO, or with an errno some callers treat as "try again" (EINTR, EAGAIN):
     * stdio has dropped what it could not deliver either way, so the failure must still surface */
    if (s->op_budget == 0) { static const int terrs[] = { EIO, EINTR, EAGAIN, ENOSPC }; s->failed = 1; errno = s->transient ? terrs[s->terr & 3] : EIO; if (s->transient) s->op_budget = -1; return 0; }
    if (s->op_budget > 0) s->op_budget--;
    size_t take = n;
    if (s->byte_budget >= 0 && (long)take > s->byte_budget) take = (size_t)s->byte_budget;
    if (s->sunk + (long)take > (long)s->cap) { s->cap = (size_t)(s->sunk + (long)take) * 2 + 64; s->data = (uint8_t*)realloc(s->data, s->cap); }
    if (take) memcpy(s->data + s->sunk, b, take);
    s->sunk += (long)take;
    if (s->byte_budget >= 0) s->byte_budget -= (long)take;
    if (take < n) { s->failed = 1; errno = ENOSPC; return (ssize_t)take; }   /* short write = error for stdio */
    return (ssize_t)n;
}
static int sink_close(void* c) { (void)c; return 0; }

/* c05 != 0: the line is judged for C05 only (OK from close => the sink holds exactly the file of the fault-free run) */
static int g_sink_c05;
static void run_sink(hctx* h, fcase* fc, int kind, long k, const uint8_t* good, size_t ngood, int bufmode) {
    fprintf(h->out, g_sink_c05 ? "sinkok" : "sink");
    { FILE* save = h->out; char* mem = NULL; size_t msz = 0; FILE* ms = open_memstream(&mem, &msz);
      h->out = ms; print_case(h, fc); fclose(ms); h->out = save; fputs(mem + 2, h->out); free(mem); }
    fprintf(h->out, " kind=%d k=%ld buf=%d", kind, k, bufmode);
    h_call(h);
    carquet_error_t err; memset(&err, 0, sizeof err);
    carquet_schema_t* sc = carquet_schema_create(&err);
    for (int i = 0; i < fc->ncols; i++)
        (void)!add_case_column(sc, &fc->cols[i]);
    carquet_writer_options_t wo; carquet_writer_options_init(&wo);
    wo.compression = (carquet_compression_t)fc->codec; wo.page_size = fc->page;
    static sink_t s; memset(&s, 0, sizeof s); s.byte_budget = kind == 0 ? k : -1; s.op_budget = (kind == 1 || kind == 4) ? k : -1; s.transient = kind == 4; s.terr = (int)((k + (long)bufmode) & 3);
    FILE* fp = NULL; carquet_writer_t* w = NULL;
    char fpath[128]; snprintf(fpath, sizeof fpath, "/tmp/verif_c18_%d_fc.parquet", (int)getpid());
    if (kind == 3) { w = carquet_writer_create("/dev/full", sc, &wo, &err); }
    else if (kind == 5) { w = carquet_writer_create(fpath, sc, &wo, &err); }   /* path-based writer whose fclose will fail */
    else {
        cookie_io_functions_t io = { NULL, sink_write, NULL, sink_close };
        fp = fopencookie(&s, "wb", io);
        if (bufmode == 0) setvbuf(fp, NULL, _IONBF, 0);           /* unbuffered: failures surface at the fwrite */
        else if (bufmode == 1) { static char small_buf[64]; setvbuf(fp, small_buf, _IOFBF, sizeof small_buf); }   /* small buffer: flushes and direct
                                                                       * writes in the middle of an fwrite (glibc ignores the size when no buffer is given) */
        /* bufmode 2: default (large, 8 KiB) buffer: failures are absorbed until flush */
        w = carquet_writer_create_file(fp, sc, &wo, &err);
    }
    int any_bad = 0; int first = 1; int last_close = -1;
    fprintf(h->out, " | st=");
    if (!w) { fprintf(h->out, "create-failed"); any_bad = 1; }
    else {
        for (int i = 0; i < fc->nsteps; i++) {
            const fstep* t = &fc->steps[i]; int r;
            s.call = i;
            if (t->kind == 1) r = (int)carquet_writer_new_row_group(w);
            else {
                void* v = batch_values(&fc->cols[t->col], t);
                int16_t* d = NULL;
                if (t->has_defs) { d = (int16_t*)h_alloc((size_t)(t->nrows ? t->nrows : 1) * 2); for (int q = 0; q < t->nrows; q++) d[q] = t->defs[q]; }
                int16_t* rl = batch_reps(t);
                r = (int)carquet_writer_write_batch(w, t->col, v, t->nrows, d, rl);
                free(v); free(d); free(rl);
            }
            fprintf(h->out, "%s%d", first ? "" : ",", r); first = 0; if (r != 0) any_bad = 1;
        }
        s.call = fc->nsteps;
        if (kind == 5) h_fail_fclose = 1;          /* every write and the flush succeed; close(2) reports a deferred error */
        int r = (int)carquet_writer_close(w); last_close = r;
        if (kind == 5) { h_fail_fclose = 0; unlink(fpath); }
        fprintf(h->out, "%s%d", first ? "" : ",", r); if (r != 0) any_bad = 1;
    }
    int failed = s.failed;
    if (kind == 3) failed = 1;                      /* /dev/full: every flush fails with ENOSPC */
    if (kind == 5) failed = 1;                      /* fclose reported failure: OK from close would be a lie */
    s.call = fc->nsteps + 1;
    if (fp) { if (fflush(fp) != 0) { /* the harness's own flush: bytes still buffered never reached the sink */ } fclose(fp); }
    int ok_bytes = 1;
    if (!any_bad && kind != 3 && kind != 5) ok_bytes = ((size_t)s.sunk == ngood && memcmp(s.data, good, ngood) == 0);
    /* the caller carried on after a failed call: OK from close must still mean the sink holds the whole file */
    int close_ok_bytes = 1;
    if (w && kind != 3 && kind != 5 && last_close == 0) close_ok_bytes = ((size_t)s.sunk == ngood && memcmp(s.data, good, ngood) == 0);
    /* what the sink holds (FNV-1a 64 of its bytes) and the operations it was asked to do */
    { uint64_t hh = 0xcbf29ce484222325ULL; for (long q = 0; q < s.sunk; q++) { hh ^= s.data[q]; hh *= 0x100000001b3ULL; }
      fprintf(h->out, " sunk=%ld sunkh=%llu ev=", s.sunk, (unsigned long long)hh);
      if (s.nev == 0 || s.nev > SINK_MAXEV) fprintf(h->out, s.nev == 0 ? "-" : "overflow");
      else for (int q = 0; q < s.nev; q++) fprintf(h->out, "%s%d.%ld.%ld", q ? "," : "", s.ev_call[q], s.ev_n[q], s.ev_r[q]);
      if (getenv("VERIF_SINK_DUMP")) { fprintf(h->out, " sunkx="); h_hex(h->out, s.data, (size_t)s.sunk); } }   /* development aid: the bytes themselves */
    if (g_sink_c05) fprintf(h->out, " failed=%d close=%d p_close_ok_implies_file=%d\n", failed, last_close, close_ok_bytes);
    else fprintf(h->out, " failed=%d p_fail_surfaces=%d p_ok_implies_bytes=%d p_close_ok_implies_bytes=%d\n", failed, (!failed) || any_bad, ok_bytes, close_ok_bytes);
    h->n_lines++;
    carquet_schema_free(sc); free(s.data);
}

/* ---------- abort ---------- */
#include <sys/resource.h>
#include <sys/wait.h>
#include <signal.h>
static void run_abort(hctx* h, fcase* fc, int at);
/* abort while the device refuses further bytes (RLIMIT_FSIZE = lim, SIGXFSZ ignored, so writes fail with EFBIG): whatever
 * the stdio buffer still holds cannot be flushed when abort closes the stream; the file must be gone all the same.
 * Runs in a forked child (the limit is per process). */
static void run_abort_limited(hctx* h, fcase* fc, int at, long lim) {
    char path[128]; snprintf(path, sizeof path, "/tmp/verif_c18_%d_ab.parquet", (int)getpid());
    fprintf(h->out, "abort");
    { FILE* save = h->out; char* mem = NULL; size_t msz = 0; FILE* ms = open_memstream(&mem, &msz);
      h->out = ms; print_case(h, fc); fclose(ms); h->out = save; fputs(mem + 2, h->out); free(mem); }
    fprintf(h->out, " at=%d lim=%ld", at, lim); h_call(h);
    fflush(NULL);
    pid_t pid = fork();
    if (pid == 0) {
        signal(SIGXFSZ, SIG_IGN);
        struct rlimit rl; getrlimit(RLIMIT_FSIZE, &rl); rl.rlim_cur = (rlim_t)lim; setrlimit(RLIMIT_FSIZE, &rl);
        carquet_error_t err; memset(&err, 0, sizeof err);
        carquet_schema_t* sc = carquet_schema_create(&err);
        for (int i = 0; i < fc->ncols; i++)
            (void)!add_case_column(sc, &fc->cols[i]);
        carquet_writer_options_t wo; carquet_writer_options_init(&wo);
        wo.compression = (carquet_compression_t)fc->codec; wo.page_size = fc->page;
        carquet_writer_t* w = carquet_writer_create(path, sc, &wo, &err);
        for (int i = 0; w && i < fc->nsteps && i < at; i++) {
            const fstep* t = &fc->steps[i];
            if (t->kind == 1) (void)!carquet_writer_new_row_group(w);
            else {
                void* v = batch_values(&fc->cols[t->col], t);
                int16_t* d = NULL;
                if (t->has_defs) { d = (int16_t*)h_alloc((size_t)(t->nrows ? t->nrows : 1) * 2); for (int q = 0; q < t->nrows; q++) d[q] = t->defs[q]; }
                int16_t* rl = batch_reps(t);
                (void)!carquet_writer_write_batch(w, t->col, v, t->nrows, d, rl);
                free(v); free(d); free(rl);
            }
        }
        if (w) carquet_writer_abort(w);
        carquet_schema_free(sc);
        struct stat sb; _exit(stat(path, &sb) == 0 ? 9 : 0);
    }
    int st = 0; waitpid(pid, &st, 0);
    int rc = WIFEXITED(st) ? WEXITSTATUS(st) : 1000 + WTERMSIG(st);
    struct stat sb; int exists = stat(path, &sb) == 0;
    fprintf(h->out, " | rc=%d removed=%d p_no_file=%d\n", rc, !exists, !exists && rc == 0);
    if (exists) unlink(path);
    h->n_lines++;
}
/* abort releases everything the writer owns: after abort (and after the schema is freed) no block allocated between create
 * and abort may be unreachable (LeakSanitizer's recoverable check; the table of completed row groups grows at the 5th, 9th,
 * 17th row group, so long histories are part of the cases) */
extern int __lsan_do_recoverable_leak_check(void) __attribute__((weak));
static int g_abort_longpath;    /* > 0: the output file lies that many 60-character directories deep (a path of 100 .. 700 bytes) */
static void run_abort(hctx* h, fcase* fc, int at) {
    char path[1024]; snprintf(path, sizeof path, "/tmp/verif_c18_%d_ab.parquet", (int)getpid());
    char top[64]; top[0] = 0;
    if (g_abort_longpath > 0) {
        snprintf(top, sizeof top, "/tmp/verif_c18_%d_deep", (int)getpid());
        int k = snprintf(path, sizeof path, "%s", top); mkdir(path, 0700);
        for (int d = 0; d < g_abort_longpath && k < 900; d++) { k += snprintf(path + k, sizeof path - (size_t)k, "/d%02d_%s", d, "abcdefghijklmnopqrstuvwxyzabcdefghijklmnopqrstuvwxyzabcd"); mkdir(path, 0700); }
        snprintf(path + k, sizeof path - (size_t)k, "/out.parquet");
    }
    fprintf(h->out, "abort");
    { FILE* save = h->out; char* mem = NULL; size_t msz = 0; FILE* ms = open_memstream(&mem, &msz);
      h->out = ms; print_case(h, fc); fclose(ms); h->out = save; fputs(mem + 2, h->out); free(mem); }
    fprintf(h->out, " at=%d", at); if (g_abort_longpath > 0) fprintf(h->out, " deep=%d", g_abort_longpath); h_call(h);
    carquet_error_t err; memset(&err, 0, sizeof err);
    carquet_schema_t* sc = carquet_schema_create(&err);
    for (int i = 0; i < fc->ncols; i++)
        (void)!add_case_column(sc, &fc->cols[i]);
    carquet_writer_options_t wo; carquet_writer_options_init(&wo);
    wo.compression = (carquet_compression_t)fc->codec; wo.page_size = fc->page;
    carquet_writer_t* w = carquet_writer_create(path, sc, &wo, &err);
    for (int i = 0; w && i < fc->nsteps && i < at; i++) {
        const fstep* t = &fc->steps[i];
        if (t->kind == 1) (void)!carquet_writer_new_row_group(w);
        else {
            void* v = batch_values(&fc->cols[t->col], t);
            int16_t* d = NULL;
            if (t->has_defs) { d = (int16_t*)h_alloc((size_t)(t->nrows ? t->nrows : 1) * 2); for (int q = 0; q < t->nrows; q++) d[q] = t->defs[q]; }
            int16_t* rl = batch_reps(t);
            (void)!carquet_writer_write_batch(w, t->col, v, t->nrows, d, rl);
            free(v); free(d); free(rl);
        }
    }
    int w_created = w != NULL;
    if (w) carquet_writer_abort(w);
    w = NULL;
    struct stat sb; int exists = stat(path, &sb) == 0;
    carquet_schema_free(sc); sc = NULL;
    int leak = __lsan_do_recoverable_leak_check ? __lsan_do_recoverable_leak_check() : 0;
    fprintf(h->out, " | created=%d removed=%d p_no_file=%d p_no_leak=%d\n", w_created, !exists, !exists, !leak);
    if (exists) unlink(path);
    if (top[0]) { char cmd[160]; snprintf(cmd, sizeof cmd, "rm -rf %s", top); if (system(cmd) != 0) { /* best effort */ } }
    h->n_lines++;
}
/* abort of a writer with a WIDE schema after `nrg` completed row groups: the per-row-group metadata (one entry per column) is
 * then larger than the default block of the writer's arena and goes into blocks of its own - which abort must release too */
static void run_abort_wide(hctx* h, int ncols, int nrg) {
    char path[128]; snprintf(path, sizeof path, "/tmp/verif_c18_%d_aw.parquet", (int)getpid());
    fprintf(h->out, "abortw ncols=%d nrg=%d", ncols, nrg); h_call(h);
    carquet_error_t err; memset(&err, 0, sizeof err);
    carquet_schema_t* sc = carquet_schema_create(&err);
    for (int i = 0; sc && i < ncols; i++) { char nm[24]; snprintf(nm, sizeof nm, "w%d", i); (void)!carquet_schema_add_column(sc, nm, CARQUET_PHYSICAL_INT32, NULL, CARQUET_REPETITION_REQUIRED, 0); }
    carquet_writer_options_t wo; carquet_writer_options_init(&wo);
    carquet_writer_t* w = sc ? carquet_writer_create(path, sc, &wo, &err) : NULL;
    int okw = w != NULL;
    for (int g = 0; w && g < nrg; g++) {
        for (int c = 0; c < ncols; c++) { int32_t v[2] = { g * 1000 + c, c - g }; if (carquet_writer_write_batch(w, c, v, 2, NULL, NULL) != CARQUET_OK) okw = 0; }
        if (carquet_writer_new_row_group(w) != CARQUET_OK) okw = 0;
    }
    if (w) carquet_writer_abort(w);
    struct stat sb; int exists = stat(path, &sb) == 0;
    if (sc) carquet_schema_free(sc);
    int leak = __lsan_do_recoverable_leak_check ? __lsan_do_recoverable_leak_check() : 0;
    fprintf(h->out, " | writes_ok=%d removed=%d p_no_file=%d p_no_leak=%d\n", okw, !exists, !exists, !leak);
    if (exists) unlink(path);
    h->n_lines++;
}
/* many small row groups in one writer: 9..19 of them, one or two REQUIRED fixed-width columns */
static void many_rg_case(hctx* h, fcase* fc, int* rg_end, int* nrg_out) {
    memset(fc, 0, sizeof *fc);
    fc->ncols = 1 + (int)h_below(h, 2);
    for (int i = 0; i < fc->ncols; i++) { snprintf(fc->cols[i].name, sizeof fc->cols[i].name, "m%d", i); fc->cols[i].rep = 0; fc->cols[i].ptype = h_chance(h, 1, 2) ? 1 : 2; }
    fc->codec = h_chance(h, 1, 2) ? 0 : 1; fc->page = 4096;
    int nrg = 9 + (int)h_below(h, 11), ns = 0;
    for (int g = 0; g < nrg; g++) {
        int rows = 1 + (int)h_below(h, 5);
        for (int c = 0; c < fc->ncols; c++) {
            fstep* t = &fc->steps[ns++]; t->kind = 0; t->col = c; t->nrows = rows; t->nvals = rows; t->has_defs = 0; t->has_reps = 0;
            t->defs = (uint8_t*)h_alloc((size_t)rows); memset(t->defs, 1, (size_t)rows);
            t->vals = (uint8_t**)h_alloc((size_t)rows * sizeof(uint8_t*)); t->vlen = (int*)h_alloc((size_t)rows * sizeof(int));
            int w = fc->cols[c].ptype == 1 ? 4 : 8;
            for (int j = 0; j < rows; j++) { t->vals[j] = h_alloc((size_t)w); for (int b = 0; b < w; b++) t->vals[j][b] = (uint8_t)h_below(h, 256); t->vlen[j] = w; }
        }
        fc->steps[ns++].kind = 1; rg_end[g] = ns;
    }
    fc->nsteps = ns; *nrg_out = nrg;
}

static uint8_t* good_bytes(fcase* fc, size_t* n) {
    char path[128]; snprintf(path, sizeof path, "/tmp/verif_c18_%d_g.parquet", (int)getpid());
    int st[MAXSTEP + 2], nst = 0; *n = 0;
    if (write_file(fc, path, st, &nst) != 0) return h_alloc(0);
    FILE* f = fopen(path, "rb"); fseek(f, 0, SEEK_END); long sz = ftell(f); fseek(f, 0, SEEK_SET);
    uint8_t* p = h_alloc((size_t)sz); if (fread(p, 1, (size_t)sz, f) != (size_t)sz) sz = 0; fclose(f); unlink(path);
    *n = (size_t)sz; return p;
}

/* a BYTE_ARRAY value that looks like the tail of a Parquet file: <thrift-ish bytes><len LE>"PAR1" */
static void plant_fake_footer(hctx* h, fcase* fc) {
    for (int i = 0; i < fc->nsteps; i++) {
        fstep* s = &fc->steps[i];
        if (s->kind != 0 || fc->cols[s->col].ptype != 6 || s->nvals == 0) continue;
        int j = (int)h_below(h, (uint64_t)s->nvals);
        /* FileMetaData{1: version=1, 2: schema=[{4: name="a"}]} and nothing else (required
         * num_rows and row_groups missing), then its length and the magic */
        static const uint8_t v1[] = { 0x15, 0x02, 0x19, 0x1C, 0x48, 0x01, 0x61, 0x00, 0x00, 0x09, 0x00, 0x00, 0x00, 'P', 'A', 'R', '1' };
        /* FileMetaData{2: schema=[{4: name="b"}]} in long-form field header (version missing too) */
        static const uint8_t v2[] = { 0x09, 0x04, 0x1C, 0x48, 0x01, 0x62, 0x00, 0x00, 0x08, 0x00, 0x00, 0x00, 'P', 'A', 'R', '1' };
        /* FileMetaData with all four required fields, then 6: created_by announcing 127 bytes of which 2 exist: the decoder
         * fails INSIDE a field value after everything required has been seen */
        static const uint8_t v4[] = { 0x15, 0x02, 0x19, 0x2C, 0x48, 0x01, 0x72, 0x15, 0x02, 0x00, 0x15, 0x02, 0x25, 0x00, 0x18, 0x01, 0x78, 0x00,
                                      0x16, 0x00, 0x19, 0x0C, 0x28, 0x7F, 0x41, 0x42, 0x1A, 0x00, 0x00, 0x00, 'P', 'A', 'R', '1' };
        /* a COMPLETE FileMetaData{1: version=1, 2: schema=[{4: name="a"}], 3: num_rows=0, 4: row_groups=[]}:
         * the prefix ending here is itself a (tiny) complete Parquet file - the exception C18 allows */
        static const uint8_t v3[] = { 0x15, 0x02, 0x19, 0x1C, 0x48, 0x01, 0x61, 0x00, 0x16, 0x00, 0x19, 0x0C, 0x00, 0x0D, 0x00, 0x00, 0x00, 'P', 'A', 'R', '1' };
        static int planted; int pick4 = planted++ % 4; (void)h;
        const uint8_t* v = pick4 == 0 ? v1 : pick4 == 1 ? v2 : pick4 == 2 ? v4 : v3;
        int n = pick4 == 0 ? (int)sizeof v1 : pick4 == 1 ? (int)sizeof v2 : pick4 == 2 ? (int)sizeof v4 : (int)sizeof v3;
        free(s->vals[j]); s->vals[j] = h_alloc((size_t)n); memcpy(s->vals[j], v, (size_t)n); s->vlen[j] = n;
        return;
    }
}

/* A history whose row groups are larger than the default stdio buffer (8 KiB): one REQUIRED BYTE_ARRAY column, uncompressed, row
 * groups of about `target[g]` bytes: fwrite then flushes the full buffer, writes whole blocks directly and keeps the rest. */
static void gen_big_case(hctx* h, fcase* fc, const long* target, int ng_) {
    memset(fc, 0, sizeof *fc);
    fc->ncols = 1; snprintf(fc->cols[0].name, sizeof fc->cols[0].name, "c0"); fc->cols[0].rep = 0; fc->cols[0].ptype = 6; fc->cols[0].tlen = 0;
    fc->codec = 0; fc->page = 1024 * 1024;
    int ns = 0;
    for (int g = 0; g < ng_; g++) {
        long left = target[g];
        int nv = (int)(left / 3000) + 1;
        fstep* s = &fc->steps[ns++];
        s->kind = 0; s->col = 0; s->nrows = nv; s->has_defs = 0; s->defs = h_alloc((size_t)nv); memset(s->defs, 1, (size_t)nv);
        s->nvals = nv; s->vals = (uint8_t**)h_alloc((size_t)nv * sizeof(uint8_t*)); s->vlen = (int*)h_alloc((size_t)nv * sizeof(int));
        for (int j = 0; j < nv; j++) {
            int n = (j == nv - 1) ? (int)left : 3000; if (n < 0) n = 0; left -= n;
            s->vals[j] = h_alloc((size_t)n); s->vlen[j] = n;
            uint8_t fill = (uint8_t)h_next(h); for (int q = 0; q < n; q++) s->vals[j][q] = (uint8_t)(fill + q / 7);
        }
        if (g + 1 < ng_) { fc->steps[ns].kind = 1; ns++; }
    }
    fc->nsteps = ns;
}

/* directed: an INT32 column whose PLAIN bytes contain, at several places, a 32-bit value in 0xFFFFFFF8..0xFFFFFFFF followed
 * by 0x31524150 ("PAR1"): the prefix cut right behind such a pair ends in <huge footer length> "PAR1" — the lengths for which
 * `footer_len + 8` wraps in 32-bit arithmetic.  Every such prefix must be refused by every open path without touching memory
 * outside the file. */
static void huge_len_case(fcase* fc) {
    memset(fc, 0, sizeof *fc);
    fc->ncols = 1; snprintf(fc->cols[0].name, sizeof fc->cols[0].name, "v"); fc->cols[0].rep = 0; fc->cols[0].ptype = 1; fc->cols[0].tlen = 0;
    fc->codec = 0; fc->page = 1 << 20; fc->nsteps = 1;
    fstep* t = &fc->steps[0]; t->kind = 0; t->col = 0; t->has_defs = 0; t->has_reps = 0;
    static const int32_t v[] = { 5, -8, 0x31524150, 6, -1, 0x31524150, -5, 0x31524150, 7, -7, 0x31524150, 2147483647, 0x31524150, 9 };
    int n = (int)(sizeof v / sizeof v[0]);
    t->nrows = n; t->nvals = n; t->defs = (uint8_t*)h_alloc((size_t)n); memset(t->defs, 1, (size_t)n);
    t->vals = (uint8_t**)h_alloc((size_t)n * sizeof(uint8_t*)); t->vlen = (int*)h_alloc((size_t)n * sizeof(int));
    for (int i = 0; i < n; i++) { t->vals[i] = h_alloc(4); memcpy(t->vals[i], &v[i], 4); t->vlen[i] = 4; }
}

/* directed: one REQUIRED BYTE_ARRAY column whose values are FileMetaData structs lacking every possible subset of the four
 * required fields (1 version, 2 schema, 3 num_rows, 4 row_groups; mask bit i = field i+1 present; 15 = complete, the exception
 * C18 allows), each followed by its length and the magic: the prefix cut right behind value j ends in
 * <struct lacking fields> <len> "PAR1".  Every open path must refuse each of them except the complete one. */
static int build_footer_subset(uint8_t* o, int mask) {
    int n = 0, last = 0;
    int variant = mask >> 4; mask &= 15;     /* 0: as stated; 1: the struct's STOP byte is missing (input ends at a field boundary);
                                              * 2: one row group whose struct ends at a field boundary, no STOP bytes at all */
    if (mask & 1) { o[n++] = (uint8_t)(((1 - last) << 4) | 5); o[n++] = 2; last = 1; }
    if (mask & 2) { o[n++] = (uint8_t)(((2 - last) << 4) | 9); o[n++] = 0x1C; o[n++] = 0x48; o[n++] = 1; o[n++] = 'a'; o[n++] = 0; last = 2; }
    if (mask & 4) { o[n++] = (uint8_t)(((3 - last) << 4) | 6); o[n++] = 0; last = 3; }
    if ((mask & 8) && variant == 2) { o[n++] = (uint8_t)(((4 - last) << 4) | 9); o[n++] = 0x1C; o[n++] = 0x19; o[n++] = 0x0C; o[n++] = 0x16; o[n++] = 0; o[n++] = 0x16; o[n++] = 0; last = 4; }
    else if (mask & 8) { o[n++] = (uint8_t)(((4 - last) << 4) | 9); o[n++] = 0x0C; last = 4; }
    if (variant == 0) o[n++] = 0;
    int len = n;
    o[n++] = (uint8_t)len; o[n++] = 0; o[n++] = 0; o[n++] = 0; o[n++] = 'P'; o[n++] = 'A'; o[n++] = 'R'; o[n++] = '1';
    return n;
}
static void subset_footers_case(fcase* fc) {
    memset(fc, 0, sizeof *fc);
    fc->ncols = 1; snprintf(fc->cols[0].name, sizeof fc->cols[0].name, "s"); fc->cols[0].rep = 0; fc->cols[0].ptype = 6; fc->cols[0].tlen = 0;
    fc->codec = 0; fc->page = 1 << 20; fc->nsteps = 1;
    fstep* t = &fc->steps[0]; t->kind = 0; t->col = 0; t->has_defs = 0; t->has_reps = 0;
    int n = 19;      /* 16 subsets, then the complete struct cut before its STOP byte (16 + 15, 32 + 15) and one lacking a field cut likewise */
    t->nrows = n; t->nvals = n; t->defs = (uint8_t*)h_alloc((size_t)n); memset(t->defs, 1, (size_t)n);
    t->vals = (uint8_t**)h_alloc((size_t)n * sizeof(uint8_t*)); t->vlen = (int*)h_alloc((size_t)n * sizeof(int));
    for (int i = 0; i < n; i++) { uint8_t tmp[64]; int l = build_footer_subset(tmp, i < 16 ? i : i == 16 ? 16 + 15 : i == 17 ? 32 + 15 : 16 + 11); t->vals[i] = h_alloc((size_t)l); memcpy(t->vals[i], tmp, (size_t)l); t->vlen[i] = l; }
}

static void gen_c18(hctx* h) {
    { fcase fc; huge_len_case(&fc); run_trunc(h, &fc); free_case(&fc); }
    { fcase fc; subset_footers_case(&fc); run_trunc(h, &fc); free_case(&fc); }
    for (int rep = 0; rep < (h->thorough ? 6 : 1); rep++) {
        fcase fc; int rg_end[24], nrg; many_rg_case(h, &fc, rg_end, &nrg);
        static const int after[] = { 4, 5, 6, 8, 9, 10, 16, 17 };
        for (int q = 0; q < 8; q++) if (after[q] <= nrg) run_abort(h, &fc, rg_end[after[q] - 1]);
        run_abort(h, &fc, fc.nsteps - 1); run_abort(h, &fc, fc.nsteps);
        free_case(&fc);
    }
    { static const int wide[] = { 103, 120, 210 };
      for (int wi = 0; wi < (h->thorough ? 3 : 2); wi++) for (int g = 2; g <= (h->thorough ? 6 : 4); g++) run_abort_wide(h, wide[wi] + (int)h_below(h, 9), g); }
    long files = h->thorough ? 100 : 8;
    for (long i = 0; i < files; i++) {
        fcase fc; gen_case(h, &fc, 1);
        if (i % 2 == 0) { /* make sure a BYTE_ARRAY column exists and carries a fake footer */
            fc.cols[0].ptype = 6; fc.cols[0].tlen = 0; fc.cols[0].rep = 0;
            for (int s = 0; s < fc.nsteps; s++) if (fc.steps[s].kind == 0 && fc.steps[s].col == 0) {
                fstep* t = &fc.steps[s];
                for (int j = 0; j < t->nvals; j++) free(t->vals[j]);
                free(t->vals); free(t->vlen);
                t->has_defs = 0; memset(t->defs, 1, (size_t)t->nrows); t->nvals = t->nrows;
                t->vals = (uint8_t**)h_alloc((size_t)(t->nvals ? t->nvals : 1) * sizeof(uint8_t*));
                t->vlen = (int*)h_alloc((size_t)(t->nvals ? t->nvals : 1) * sizeof(int));
                for (int j = 0; j < t->nvals; j++) gen_value(h, &fc.cols[0], &t->vals[j], &t->vlen[j]);
            }
            fc.codec = 0; plant_fake_footer(h, &fc);
        }
        run_trunc(h, &fc);
        free_case(&fc);
    }
    long hist = h->thorough ? 12 : 3;
    for (long i = 0; i < hist; i++) {
        fcase fc; gen_case(h, &fc, 1);
        size_t ng; uint8_t* good = good_bytes(&fc, &ng);
        long stepk = h->thorough ? 1 : (long)(ng / 40 + 1);
        for (int bufmode = 0; bufmode < 3; bufmode++) {
            for (long k = 0; k <= (long)ng; k += stepk) run_sink(h, &fc, 0, k, good, ng, bufmode);
            for (long k = 0; k < 12; k++) run_sink(h, &fc, 1, k, good, ng, bufmode);
            for (long k = 0; k < 12; k++) run_sink(h, &fc, 4, k, good, ng, bufmode);   /* one failing operation, caller carries on */
        }
        run_sink(h, &fc, 3, 0, good, ng, 2);
        run_sink(h, &fc, 5, 0, good, ng, 2);       /* path-based writer, everything written and flushed, fclose fails */
        if (i == 0 || (h->thorough && i % 2 == 0)) {   /* row groups around and beyond the 8 KiB buffer, faults at the block boundaries and at every operation */
            long tg[3]; int ntg = 2;
            if (i % 4 == 0) { tg[0] = 16400 + (long)h_below(h, 3000); tg[1] = 1500 + (long)h_below(h, 1500); }
            else { tg[0] = 2000 + (long)h_below(h, 3000); tg[1] = 8192 - 60 + (long)h_below(h, 120) - tg[0]; tg[2] = 16384 + (long)h_below(h, 3000); ntg = 3; }
            fcase big; gen_big_case(h, &big, tg, ntg);
            size_t nb; uint8_t* gb = good_bytes(&big, &nb);
            for (int bufmode = 0; bufmode < 3; bufmode++) {
                long ks[24]; int nk = 0; int full = bufmode == 2 || h->thorough;
                static const long marks[] = { 0, 3, 4, 5, 8191, 8192, 8193, 16383, 16384, 16385, 24576, 24577 };
                for (int q = 0; q < 12; q++) if (marks[q] <= (long)nb && (full || q == 5)) ks[nk++] = marks[q];
                if (full) { ks[nk++] = (long)nb - 9; ks[nk++] = (long)nb - 4; } ks[nk++] = (long)nb - 1; ks[nk++] = (long)nb;
                for (int q = 0; q < (full ? 3 : 0); q++) ks[nk++] = (long)h_below(h, nb + 1);
                for (int q = 0; q < nk; q++) if (ks[q] >= 0) run_sink(h, &big, 0, ks[q], gb, nb, bufmode);
                for (long k = 0; k < (full ? 7 : 2); k++) { run_sink(h, &big, 1, k, gb, nb, bufmode); run_sink(h, &big, 4, k, gb, nb, bufmode); }
            }
            run_sink(h, &big, 3, 0, gb, nb, 2);     /* /dev/full with row groups larger than the stream's buffer: the failure surfaces before close */
            free(gb); free_case(&big);
        }
        for (int at = 0; at <= fc.nsteps; at++) run_abort(h, &fc, at);
        if (i < 3) { static const int deep[] = { 4, 5, 10 }; g_abort_longpath = deep[i]; run_abort(h, &fc, 0); run_abort(h, &fc, fc.nsteps / 2); run_abort(h, &fc, fc.nsteps); g_abort_longpath = 0; }
        { static const long lims[] = { 0, 4, 16, 100 };
          for (int li = 0; li < 4; li++) for (int at = 0; at <= fc.nsteps; at += (h->thorough ? 1 : 1 + fc.nsteps / 4)) run_abort_limited(h, &fc, at, lims[li]); }
        free(good); free_case(&fc);
    }
}

/* C05 under a faulty sink: the caller carries on after a failed call (or retries it); whenever close then says OK the
 * bytes the sink received must be the file (which the `wr` component ties to the model and the layout theorems) */
static void gen_c05sink(hctx* h) {
    long hist = h->thorough ? 40 : 6;
    g_sink_c05 = 1;
    for (long i = 0; i < hist; i++) {
        fcase fc; gen_case(h, &fc, 1);
        size_t ng; uint8_t* good = good_bytes(&fc, &ng);
        for (int bufmode = 0; bufmode < 3; bufmode++) {
            for (long k = 0; k < 16; k++) run_sink(h, &fc, 4, k, good, ng, bufmode);
            for (long k = 0; k < 6; k++) run_sink(h, &fc, 1, k, good, ng, bufmode);
        }
        free(good); free_case(&fc);
    }
    g_sink_c05 = 0;
}

static int replay_c05sink(hctx* h, const h_line* l) {
    if (strcmp(l->op, "sinkok")) return 0;
    fcase fc; if (parse_case(l, &fc)) { fprintf(stderr, "bad case\n"); return 1; }
    size_t ng; uint8_t* good = good_bytes(&fc, &ng);
    g_sink_c05 = 1; run_sink(h, &fc, (int)h_ll(h_in(l, "kind")), (long)h_ll(h_in(l, "k")), good, ng, (int)h_ll(h_in(l, "buf"))); g_sink_c05 = 0;
    free(good); free_case(&fc); return 1;
}

const h_component comp_c05sink = { "c05sink", gen_c05sink, replay_c05sink };

static int replay_c18(hctx* h, const h_line* l) {
    if (!strcmp(l->op, "abortw")) { run_abort_wide(h, (int)h_ll(h_in(l, "ncols")), (int)h_ll(h_in(l, "nrg"))); return 1; }
    if (strcmp(l->op, "trunc") && strcmp(l->op, "sink") && strcmp(l->op, "abort")) return 0;
    fcase fc; if (parse_case(l, &fc)) { fprintf(stderr, "bad case\n"); return 1; }
    if (!strcmp(l->op, "trunc")) run_trunc(h, &fc);
    else if (!strcmp(l->op, "abort") && h_in(l, "lim")) run_abort_limited(h, &fc, (int)h_ll(h_in(l, "at")), (long)h_ll(h_in(l, "lim")));
    else if (!strcmp(l->op, "abort")) { g_abort_longpath = h_in(l, "deep") ? (int)h_ll(h_in(l, "deep")) : 0; run_abort(h, &fc, (int)h_ll(h_in(l, "at"))); g_abort_longpath = 0; }
    else { size_t ng; uint8_t* good = good_bytes(&fc, &ng); run_sink(h, &fc, (int)h_ll(h_in(l, "kind")), (long)h_ll(h_in(l, "k")), good, ng, (int)h_ll(h_in(l, "buf"))); free(good); }
    free_case(&fc); return 1;
}

const h_component comp_c18 = { "c18", gen_c18, replay_c18 };
