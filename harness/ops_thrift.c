/* C13: Thrift compact codec and Parquet metadata structures, on the real entry points.
 *
 *   th_wfm v=<tokens>                 | st= out=x..          parquet_write_file_metadata
 *   th_wph v=<tokens>                 | st= out=x..          parquet_write_page_header
 *   th_pfm b=x.. [exp=<tokens> how=rt|fe] | st= [v=<tokens>] parquet_parse_file_metadata (exact-size buffer)
 *   th_pph b=x.. [exp=<tokens> how=rt|fe] | st= used= [v=<tokens>]   parquet_parse_page_header
 *   th_skip ty=<wire type> b=x..      | st= pos= lvl= pend=  thrift_skip on a fresh decoder
 *   th_rd k=<kind> b=x..              | st= pos= r=..        one decoder primitive
 *   th_enc prog=<tokens>              | st= out=x.. lvl=     a program of encoder calls
 *   th_wci bo=<int> p=<n,{nc,min,max,np}*> | st= out=x..     column index builder: create, add_page*, set_boundary_order, serialize
 *   th_woi tr=<0|1> p=<n,{off,csz,fri,usz}*> | st= out=x..   offset index builder: create(tr), add_page*, serialize
 *     (`min`/`max`: `-` = NULL pointer, `x..` = pointer + length, `x` = non-NULL pointer with length 0)
 * `exp` is the structure the bytes were made from: how=rt by carquet's own writer (the driver
 * normalises it to the serialised fields), how=fe by the independent encoder of
 * thrift_foreign.h (must come back exactly).  Token grammar: thrift_tokens.h. */
#include "thrift_foreign.h"
#include "core/buffer.h"
#include "core/arena.h"

static long st_fm, st_ph, st_fe, st_mut, st_err, st_ok, st_unknown, st_long, st_deep, st_ci, st_oi;

/* metadata/page_index.c exports its builders and serialisers but declares them in no header */
typedef struct carquet_column_index_builder carquet_column_index_builder_t;
typedef struct carquet_offset_index_builder carquet_offset_index_builder_t;
carquet_column_index_builder_t* carquet_column_index_builder_create(carquet_physical_type_t type, int32_t type_length);
void carquet_column_index_builder_destroy(carquet_column_index_builder_t* b);
carquet_status_t carquet_column_index_add_page(carquet_column_index_builder_t* b, int64_t null_count, const void* mn,
                                               int32_t mn_len, const void* mx, int32_t mx_len, bool is_null_page);
void carquet_column_index_set_boundary_order(carquet_column_index_builder_t* b, int32_t order);
carquet_status_t carquet_column_index_serialize(const carquet_column_index_builder_t* b, carquet_buffer_t* out);
carquet_offset_index_builder_t* carquet_offset_index_builder_create(bool track_uncompressed);
void carquet_offset_index_builder_destroy(carquet_offset_index_builder_t* b);
carquet_status_t carquet_offset_index_add_page(carquet_offset_index_builder_t* b, int64_t offset, int32_t compressed_size,
                                               int64_t first_row_index, int32_t uncompressed_size);
carquet_status_t carquet_offset_index_serialize(const carquet_offset_index_builder_t* b, carquet_buffer_t* out);

static uint8_t* exact_copy(const uint8_t* p, size_t n) { uint8_t* q = h_alloc(n); if (n) memcpy(q, p, n); return q; }

/* ---- write ops ---- */
static uint8_t* do_wfm(hctx* h, const parquet_file_metadata_t* m, size_t* n) {
    tout o = { h->out, 1 };
    fprintf(h->out, "th_wfm v="); tk_filemeta(&o, m); h_call(h);
    carquet_buffer_t buf; carquet_buffer_init(&buf);
    carquet_status_t st = parquet_write_file_metadata(m, &buf, NULL);
    fprintf(h->out, " | st=%d out=", (int)st); h_hex(h->out, buf.data, buf.size); fputc('\n', h->out);
    h->n_lines++; st_fm++;
    uint8_t* r = exact_copy(buf.data, buf.size); *n = buf.size;
    carquet_buffer_destroy(&buf);
    return r;
}
static uint8_t* do_wph(hctx* h, const parquet_page_header_t* p, size_t* n) {
    tout o = { h->out, 1 };
    fprintf(h->out, "th_wph v="); tk_pagehdr(&o, p); h_call(h);
    carquet_buffer_t buf; carquet_buffer_init(&buf);
    carquet_status_t st = parquet_write_page_header(p, &buf, NULL);
    fprintf(h->out, " | st=%d out=", (int)st); h_hex(h->out, buf.data, buf.size); fputc('\n', h->out);
    h->n_lines++; st_ph++;
    uint8_t* r = exact_copy(buf.data, buf.size); *n = buf.size;
    carquet_buffer_destroy(&buf);
    return r;
}

/* ---- page index serialisers: `p` is the token list "n,{..}*" (see the header comment) ---- */
static char** split_tokens(const char* p, size_t* n) {
    char* c = strdup(p); size_t cap = 16, k = 0; char** v = (char**)malloc(cap * sizeof *v);
    for (char* t = c;; ) {
        char* e = strchr(t, ',');
        if (e) *e = 0;
        if (k == cap) { cap *= 2; v = (char**)realloc(v, cap * sizeof *v); }
        v[k++] = t;
        if (!e) break;
        t = e + 1;
    }
    *n = k; return v;      /* v[0] is the strdup'ed block */
}
static void do_wci(hctx* h, long long bo, const char* p) {
    fprintf(h->out, "th_wci bo=%lld p=%s", bo, p); h_call(h);
    size_t nt; char** t = split_tokens(p, &nt);
    long long n = nt ? h_ll(t[0]) : 0;
    carquet_column_index_builder_t* b = carquet_column_index_builder_create(CARQUET_PHYSICAL_BYTE_ARRAY, 0);
    for (long long i = 0; b && i < n && 1 + 4 * (size_t)i + 3 < nt; i++) {
        char** q = t + 1 + 4 * i;
        size_t mnl = 0, mxl = 0; uint8_t *mn = NULL, *mx = NULL;      /* exact-size copies; NULL for "-" */
        if (strcmp(q[1], "-")) { uint8_t* u = h_unhex(q[1], &mnl); mn = exact_copy(u, mnl); free(u); }
        if (strcmp(q[2], "-")) { uint8_t* u = h_unhex(q[2], &mxl); mx = exact_copy(u, mxl); free(u); }
        (void)carquet_column_index_add_page(b, (int64_t)h_ll(q[0]), mn, (int32_t)mnl, mx, (int32_t)mxl, h_ll(q[3]) != 0);
        free(mn); free(mx);                                              /* the builder owns copies */
    }
    carquet_column_index_set_boundary_order(b, (int32_t)bo);
    carquet_buffer_t buf; carquet_buffer_init(&buf);
    carquet_status_t st = carquet_column_index_serialize(b, &buf);
    fprintf(h->out, " | st=%d out=", (int)st); h_hex(h->out, buf.data, buf.size); fputc('\n', h->out);
    h->n_lines++; st_ci++;
    carquet_buffer_destroy(&buf);
    carquet_column_index_builder_destroy(b);
    free(t[0]); free(t);
}
static void do_woi(hctx* h, int tr, const char* p) {
    fprintf(h->out, "th_woi tr=%d p=%s", tr, p); h_call(h);
    size_t nt; char** t = split_tokens(p, &nt);
    long long n = nt ? h_ll(t[0]) : 0;
    carquet_offset_index_builder_t* b = carquet_offset_index_builder_create(tr != 0);
    for (long long i = 0; b && i < n && 1 + 4 * (size_t)i + 3 < nt; i++) {
        char** q = t + 1 + 4 * i;
        (void)carquet_offset_index_add_page(b, (int64_t)h_ll(q[0]), (int32_t)h_ll(q[1]), (int64_t)h_ll(q[2]), (int32_t)h_ll(q[3]));
    }
    carquet_buffer_t buf; carquet_buffer_init(&buf);
    carquet_status_t st = carquet_offset_index_serialize(b, &buf);
    fprintf(h->out, " | st=%d out=", (int)st); h_hex(h->out, buf.data, buf.size); fputc('\n', h->out);
    h->n_lines++; st_oi++;
    carquet_buffer_destroy(&buf);
    carquet_offset_index_builder_destroy(b);
    free(t[0]); free(t);
}
/* generated page lists: 0, 1, 14, 15, 16, 17 (list-header switch), 33 (second builder growth) and random sizes */
static void gen_page_index(hctx* h) {
    static const int sizes[] = { 0, 1, 2, 14, 15, 16, 17, 33, 64 };
    long rounds = h->thorough ? 400 : 60;
    for (long r = 0; r < rounds; r++) {
        int n = r < 9 ? sizes[r] : (int)h_below(h, 40);
        char* s = NULL; size_t sn = 0; FILE* f = open_memstream(&s, &sn);
        fprintf(f, "%d", n);
        for (int i = 0; i < n; i++) {
            fprintf(f, ",%lld,", (long long)g_i64(h));
            for (int k = 0; k < 2; k++) {
                int kind = (int)h_below(h, 8);
                if (kind == 0) fputc('-', f);                        /* NULL pointer */
                else if (kind == 1) fputc('x', f);                   /* non-NULL, length 0: stored as NULL */
                else { uint8_t t[40]; size_t bn = 1 + h_below(h, kind == 2 ? 40 : 8); h_fill(h, t, bn, 0); h_hex(f, t, bn); }
                fputc(',', f);
            }
            fprintf(f, "%d", (int)h_below(h, 2));
        }
        fclose(f);
        static const long long bos[] = { 0, 1, 2, -1, 2147483647, -2147483647 - 1 };
        do_wci(h, r % 5 == 0 ? bos[h_below(h, 6)] : (long long)h_below(h, 3), s);
        free(s);
        s = NULL; sn = 0; f = open_memstream(&s, &sn);
        fprintf(f, "%d", n);
        for (int i = 0; i < n; i++)
            fprintf(f, ",%lld,%d,%lld,%d", (long long)g_i64(h), (int)g_i32(h), (long long)g_i64(h), (int)g_i32(h));
        fclose(f);
        do_woi(h, (int)(r % 2), s);
        free(s);
    }
    fprintf(h->out, "#stat column_index_serialize %ld\n#stat offset_index_serialize %ld\n", st_ci, st_oi);
}

/* ---- parse ops; `exp` (may be NULL) is an already rendered token string ---- */
static void do_pfm(hctx* h, const uint8_t* b, size_t n, const char* exp, const char* how) {
    uint8_t* d = exact_copy(b, n);
    fprintf(h->out, "th_pfm b="); h_hex(h->out, d, n);
    if (exp) fprintf(h->out, " exp=%s how=%s", exp, how);
    h_call(h);
    carquet_arena_t arena; carquet_arena_init(&arena);
    parquet_file_metadata_t m;
    carquet_error_t err; memset(&err, 0, sizeof err);
    carquet_status_t st = parquet_parse_file_metadata(d, n, &arena, &m, &err);
    fprintf(h->out, " | st=%d", (int)st);
    if (st == CARQUET_OK) { tout o = { h->out, 1 }; fprintf(h->out, " v="); tk_filemeta(&o, &m); st_ok++; } else st_err++;
    fputc('\n', h->out);
    h->n_lines++;
    carquet_arena_destroy(&arena);
    free(d);
}
static void do_pph(hctx* h, const uint8_t* b, size_t n, const char* exp, const char* how) {
    uint8_t* d = exact_copy(b, n);
    fprintf(h->out, "th_pph b="); h_hex(h->out, d, n);
    if (exp) fprintf(h->out, " exp=%s how=%s", exp, how);
    h_call(h);
    parquet_page_header_t p; size_t used = 0;
    carquet_error_t err; memset(&err, 0, sizeof err);
    carquet_status_t st = parquet_parse_page_header(d, n, &p, &used, &err);
    fprintf(h->out, " | st=%d used=%zu", (int)st, used);
    /* the statistics of a parsed page header may point into `d`: print before freeing it */
    if (st == CARQUET_OK) { tout o = { h->out, 1 }; fprintf(h->out, " v="); tk_lo = d; tk_hi = d + n; tk_pagehdr(&o, &p); tk_lo = tk_hi = NULL; st_ok++; } else st_err++;
    fputc('\n', h->out);
    h->n_lines++;
    free(d);
}
/* render a struct into a malloc'ed string */
static char* render_fm(const parquet_file_metadata_t* m) {
    char* s = NULL; size_t n = 0; FILE* f = open_memstream(&s, &n);
    tout o = { f, 1 }; tk_filemeta(&o, m); fclose(f); return s;
}
static char* render_ph(const parquet_page_header_t* p) {
    char* s = NULL; size_t n = 0; FILE* f = open_memstream(&s, &n);
    tout o = { f, 1 }; tk_pagehdr(&o, p); fclose(f); return s;
}

/* ---- primitives ---- */
static void do_skip(hctx* h, int ty, const uint8_t* b, size_t n) {
    uint8_t* d = exact_copy(b, n);
    fprintf(h->out, "th_skip ty=%d b=", ty); h_hex(h->out, d, n); h_call(h);
    thrift_decoder_t dec; thrift_decoder_init(&dec, d, n);
    thrift_skip(&dec, (thrift_type_t)ty);
    fprintf(h->out, " | st=%d pos=%zu lvl=%d pend=%d\n", (int)dec.status, dec.reader.pos, dec.nesting_level, dec.bool_pending ? 1 : 0);
    h->n_lines++;
    free(d);
}
static const char* const rd_kinds[] = { "varint", "zz", "i16", "i32", "byte", "double", "bool", "binary", "listb", "mapb", "fieldb", "uuid" };
static void do_rd(hctx* h, const char* k, const uint8_t* b, size_t n) {
    uint8_t* d = exact_copy(b, n);
    fprintf(h->out, "th_rd k=%s b=", k); h_hex(h->out, d, n); h_call(h);
    thrift_decoder_t dec; thrift_decoder_init(&dec, d, n);
    FILE* o = h->out;
    char res[256]; res[0] = 0;
    if (!strcmp(k, "varint")) { uint64_t v = thrift_read_varint(&dec); snprintf(res, sizeof res, "r=%llu", (unsigned long long)v); }
    else if (!strcmp(k, "zz")) { int64_t v = thrift_read_zigzag(&dec); snprintf(res, sizeof res, "r=%lld", (long long)v); }
    else if (!strcmp(k, "i16")) { int16_t v = thrift_read_i16(&dec); snprintf(res, sizeof res, "r=%d", (int)v); }
    else if (!strcmp(k, "i32")) { int32_t v = thrift_read_i32(&dec); snprintf(res, sizeof res, "r=%d", (int)v); }
    else if (!strcmp(k, "byte")) { int8_t v = thrift_read_byte(&dec); snprintf(res, sizeof res, "r=%d", (int)v); }
    else if (!strcmp(k, "double")) { double v = thrift_read_double(&dec); uint64_t u; memcpy(&u, &v, 8); snprintf(res, sizeof res, "r=%llu", (unsigned long long)u); }
    else if (!strcmp(k, "bool")) { bool v = thrift_read_bool(&dec); snprintf(res, sizeof res, "r=%d", v ? 1 : 0); }
    else if (!strcmp(k, "binary")) {
        int32_t len = -7; const uint8_t* p = thrift_read_binary(&dec, &len);
        fprintf(o, " | st=%d pos=%zu r=%d null=%d data=", (int)dec.status, dec.reader.pos, (int)len, p ? 0 : 1);
        h_hex(o, p, p ? (size_t)len : 0); fputc('\n', o); h->n_lines++; free(d); return;
    }
    else if (!strcmp(k, "listb")) { thrift_type_t et; int32_t c; thrift_read_list_begin(&dec, &et, &c); snprintf(res, sizeof res, "r=%d et=%d", (int)c, (int)et); }
    else if (!strcmp(k, "mapb")) { thrift_type_t kt, vt; int32_t c; thrift_read_map_begin(&dec, &kt, &vt, &c); snprintf(res, sizeof res, "r=%d kt=%d vt=%d", (int)c, (int)kt, (int)vt); }
    else if (!strcmp(k, "fieldb")) {
        /* two field headers inside one struct: exercises the last-field-id slot */
        thrift_read_struct_begin(&dec);
        thrift_type_t t1 = 0, t2 = 0; int16_t f1 = 0, f2 = 0;
        bool m1 = thrift_read_field_begin(&dec, &t1, &f1);
        bool m2 = thrift_read_field_begin(&dec, &t2, &f2);
        snprintf(res, sizeof res, "r=%d t1=%d f1=%d m2=%d t2=%d f2=%d pend=%d bv=%d", m1 ? 1 : 0, (int)t1, (int)f1, m2 ? 1 : 0, (int)t2, (int)f2,
                 dec.bool_pending ? 1 : 0, dec.bool_value ? 1 : 0);
    }
    else if (!strcmp(k, "uuid")) {
        uint8_t u[16]; thrift_read_uuid(&dec, u);
        fprintf(o, " | st=%d pos=%zu data=", (int)dec.status, dec.reader.pos); h_hex(o, u, 16); fputc('\n', o); h->n_lines++; free(d); return;
    }
    fprintf(o, " | st=%d pos=%zu %s\n", (int)dec.status, dec.reader.pos, res);
    h->n_lines++;
    free(d);
}

/* encoder program: tokens  sb | se | fs | fh,ty,id | i16,v | i32,v | i64,v | by,v | bo,v | db,bits |
 * bin,x.. | str,x.. | strnull | uu,x(16 bytes) | lb,ty,n | mb,kt,vt,n | vi,u64 */
static void do_enc(hctx* h, const char* prog) {
    fprintf(h->out, "th_enc prog=%s", prog); h_call(h);
    carquet_buffer_t buf; carquet_buffer_init(&buf);
    thrift_encoder_t enc; thrift_encoder_init(&enc, &buf);
    tpool* tp = (tpool*)calloc(1, sizeof(tpool));
    tin t = { prog, tp, 0 };
    while (*t.s && !t.bad) {
        char op[8]; size_t k = 0;
        while (t.s[k] && t.s[k] != ',' && k < 7) { op[k] = t.s[k]; k++; }
        op[k] = 0; ti_next(&t);
        if (!strcmp(op, "sb")) thrift_write_struct_begin(&enc);
        else if (!strcmp(op, "se")) thrift_write_struct_end(&enc);
        else if (!strcmp(op, "fs")) thrift_write_field_stop(&enc);
        else if (!strcmp(op, "fh")) { int ty = (int)ti_int(&t); int16_t id = (int16_t)ti_int(&t); thrift_write_field_header(&enc, ty, id); }
        else if (!strcmp(op, "i16")) thrift_write_i16(&enc, (int16_t)ti_int(&t));
        else if (!strcmp(op, "i32")) thrift_write_i32(&enc, (int32_t)ti_int(&t));
        else if (!strcmp(op, "i64")) thrift_write_i64(&enc, (int64_t)ti_int(&t));
        else if (!strcmp(op, "by")) thrift_write_byte(&enc, (int8_t)ti_int(&t));
        else if (!strcmp(op, "bo")) thrift_write_bool(&enc, ti_int(&t) != 0);
        else if (!strcmp(op, "db")) { uint64_t u = strtoull(t.s, NULL, 10); ti_next(&t); double v; memcpy(&v, &u, 8); thrift_write_double(&enc, v); }
        else if (!strcmp(op, "bin")) { int32_t n; uint8_t* p = ti_bytes(&t, &n); thrift_write_binary(&enc, p, n); }
        else if (!strcmp(op, "str")) { char* s = ti_optstr(&t); thrift_write_string(&enc, s); }
        else if (!strcmp(op, "strnull")) thrift_write_string(&enc, NULL);
        else if (!strcmp(op, "uu")) { int32_t n; uint8_t* p = ti_bytes(&t, &n); if (n == 16) thrift_write_uuid(&enc, p); }
        else if (!strcmp(op, "lb")) { int ty = (int)ti_int(&t); int32_t n = (int32_t)ti_int(&t); thrift_write_list_begin(&enc, ty, n); }
        else if (!strcmp(op, "mb")) { int kt = (int)ti_int(&t); int vt = (int)ti_int(&t); int32_t n = (int32_t)ti_int(&t); thrift_write_map_begin(&enc, kt, vt, n); }
        else if (!strcmp(op, "vi")) { uint64_t u = strtoull(t.s, NULL, 10); ti_next(&t); thrift_write_varint(&enc, u); }
        else t.bad = 1;
    }
    fprintf(h->out, " | st=%d out=", (int)enc.status); h_hex(h->out, buf.data, buf.size);
    fprintf(h->out, " lvl=%d bad=%d\n", enc.nesting_level, t.bad);
    h->n_lines++;
    carquet_buffer_destroy(&buf);
    tp_free(tp); free(tp);
}

/* ---- generators ---- */
static void mutate_and_parse(hctx* h, const uint8_t* b, size_t n, int is_ph, int rounds) {
    for (int r = 0; r < rounds; r++) {
        size_t m = n;
        uint8_t* c = (uint8_t*)malloc(n + 8);
        memcpy(c, b, n);
        switch (h_below(h, 5)) {
        case 0: if (n) c[h_below(h, n)] ^= (uint8_t)(1u << h_below(h, 8)); break;
        case 1: if (n) c[h_below(h, n)] = (uint8_t)h_next(h); break;
        case 2: m = n ? h_below(h, n) : 0; break;                                   /* truncate */
        case 3: { size_t at = h_below(h, n + 1); memmove(c + at + 1, c + at, n - at); c[at] = (uint8_t)h_next(h); m = n + 1; break; }
        default: if (n > 1) { size_t at = h_below(h, n - 1); memmove(c + at, c + at + 1, n - at - 1); m = n - 1; } break;
        }
        if (is_ph) do_pph(h, c, m, NULL, NULL); else do_pfm(h, c, m, NULL, NULL);
        st_mut++;
        free(c);
    }
}
/* FileMetaData whose list at `which` announces `count` elements and carries `n_elems` one-byte
 * ones (empty structs / zero varints / empty strings): the VALIDATE_COUNT and
 * count-vs-remaining guards */
static void limit_case(hctx* h, int which, uint32_t count, uint32_t n_elems, int close) {
    fbuf b; memset(&b, 0, sizeof b); b.h = h;
    int closers = 1;
    switch (which) {
    case 0: fb_put(&b, 0x29); fb_put(&b, 0xFC); break;                                               /* schema */
    case 1: fb_put(&b, 0x49); fb_put(&b, 0xFC); break;                                               /* row groups */
    case 2: fb_put(&b, 0x59); fb_put(&b, 0xFC); break;                                               /* key/value */
    case 3: fb_put(&b, 0x49); fb_put(&b, 0x1C); fb_put(&b, 0x19); fb_put(&b, 0xFC); closers = 2; break;   /* columns */
    default:
        fb_put(&b, 0x49); fb_put(&b, 0x1C); fb_put(&b, 0x19); fb_put(&b, 0x1C); fb_put(&b, 0x3C); closers = 4;
        if (which == 4) { fb_put(&b, 0x29); fb_put(&b, 0xF5); }                                      /* encodings */
        else if (which == 5) { fb_put(&b, 0x39); fb_put(&b, 0xF8); }                                 /* path */
        else if (which == 6) { fb_put(&b, 0x89); fb_put(&b, 0xFC); }                                 /* column key/value */
        else { fb_put(&b, 0xD9); fb_put(&b, 0xFC); }                                                 /* encoding stats */
        break;
    }
    fe_varint(&b, count);
    for (uint32_t i = 0; i < n_elems; i++) fb_put(&b, 0x00);
    if (close) for (int i = 0; i < closers; i++) fb_put(&b, 0x00);
    do_pfm(h, b.p, b.n, NULL, NULL);
    free(b.p);
}
/* `depth` nested containers.  kind 0: list<list<…>>, 1: struct{1: struct{…}}, 2: map<byte, map<…>>,
 * 3: list<struct{1: list<struct{…}>}>.  via 0: thrift_skip directly; via 1: as an unknown field
 * (id 100) of a page header */
static void nest_case(hctx* h, int kind, size_t depth, int via) {
    fbuf b; memset(&b, 0, sizeof b); b.h = h;
    int ty = kind == 1 ? 12 : kind == 2 ? 11 : 9;
    if (via == 1) { fb_put(&b, (uint8_t)ty); fe_zz(&b, 100); }
    switch (kind) {
    case 0: for (size_t i = 0; i < depth; i++) fb_put(&b, 0x19); fb_put(&b, 0x03); break;
    case 1: for (size_t i = 0; i < depth; i++) fb_put(&b, 0x1C); for (size_t i = 0; i <= depth; i++) fb_put(&b, 0x00); break;
    case 2: for (size_t i = 0; i < depth; i++) { fb_put(&b, 0x01); fb_put(&b, 0x3B); fb_put(&b, 0x07); } fb_put(&b, 0x00); break;
    default:
        for (size_t i = 0; i < depth; i++) fb_put(&b, i % 2 == 0 ? 0x1C : 0x19);
        if (depth % 2 == 0) fb_put(&b, 0x03);
        for (size_t i = 0; i < (depth + 1) / 2; i++) fb_put(&b, 0x00);
        break;
    }
    if (via == 1) { fb_put(&b, 0x00); do_pph(h, b.p, b.n, NULL, NULL); }
    else do_skip(h, ty, b.p, b.n);
    st_deep++;
    free(b.p);
}

static void gen_prims(hctx* h) {
    uint8_t buf[64];
    /* varints: every length 1..11, truncated, boundary values */
    for (int len = 0; len <= 12; len++) {
        for (int v = 0; v < 3; v++) {
            for (int i = 0; i < len; i++) buf[i] = (uint8_t)(0x80 | (v == 0 ? 0x7F : v == 1 ? 0x00 : h_next(h)));
            if (len) buf[len - 1] &= 0x7F;
            for (size_t k = 0; k < 4; k++) do_rd(h, rd_kinds[k], buf, (size_t)len);
            if (len) { buf[len - 1] |= 0x80; do_rd(h, "varint", buf, (size_t)len); do_rd(h, "i32", buf, (size_t)len); }
        }
    }
    long m = h->thorough ? 3000 : 300;
    for (long i = 0; i < m; i++) {
        fbuf b; memset(&b, 0, sizeof b); b.h = h;
        const char* k = rd_kinds[h_below(h, 12)];
        switch (h_below(h, 4)) {
        case 0: fe_zz(&b, g_i64(h)); break;
        case 1: fe_varint(&b, h_next(h) >> h_below(h, 64)); break;
        case 2: { size_t n = h_below(h, 20); for (size_t j = 0; j < n; j++) fb_put(&b, (uint8_t)h_next(h)); break; }
        default: { size_t n = h_below(h, 6); fe_varint(&b, n + h_below(h, 2)); for (size_t j = 0; j < n; j++) fb_put(&b, (uint8_t)h_next(h)); break; }
        }
        size_t extra = h_below(h, 3); for (size_t j = 0; j < extra; j++) fb_put(&b, (uint8_t)h_next(h));
        do_rd(h, k, b.p ? b.p : buf, b.n);
        free(b.p);
    }
    /* binary length guards: len = remaining, remaining+1, 2^31-1, 2^31, 2^32-1, 2^32 (truncation to int32) */
    { static const uint64_t lens[] = { 3, 4, 0x7FFFFFFFull, 0x80000000ull, 0xFFFFFFFFull, 0x100000000ull, 0x100000003ull };
      for (size_t i = 0; i < sizeof lens / sizeof lens[0]; i++) { fbuf b; memset(&b, 0, sizeof b); b.h = h; fe_varint(&b, lens[i]); fb_put(&b, 1); fb_put(&b, 2); fb_put(&b, 3); do_rd(h, "binary", b.p, b.n); do_skip(h, 8, b.p, b.n); free(b.p); } }
    /* list / map headers: count against remaining bytes, negative counts */
    { static const uint64_t cnts[] = { 0, 1, 2, 3, 4, 14, 15, 16, 0x7FFFFFFFull, 0x80000000ull, 0xFFFFFFFFull, 0x100000002ull };
      for (size_t i = 0; i < sizeof cnts / sizeof cnts[0]; i++) for (int et = 0; et < 16; et += 5) {
        fbuf b; memset(&b, 0, sizeof b); b.h = h; fb_put(&b, (uint8_t)(0xF0 | et)); fe_varint(&b, cnts[i]); fb_put(&b, 1); fb_put(&b, 1); fb_put(&b, 1);
        do_rd(h, "listb", b.p, b.n); do_skip(h, 9, b.p, b.n); free(b.p);
        memset(&b, 0, sizeof b); b.h = h; fe_varint(&b, cnts[i]); fb_put(&b, (uint8_t)(0x30 | et)); fb_put(&b, 1); fb_put(&b, 1); fb_put(&b, 1);
        do_rd(h, "mapb", b.p, b.n); do_skip(h, 11, b.p, b.n); free(b.p);
      } }
    /* thrift_skip ignores the result of carquet_buffer_reader_skip: BYTE / DOUBLE / UUID elements and fields with fewer
     * bytes left than their width are "skipped" without consuming and without error (the iterations the linear-time
     * bound of C04_thrift_skip_linear has to pay for).  count = bytes left (largest accepted) and bytes left + 1 (refused). */
    { static const int wt[] = { 3, 7, 13 }; static const int width[] = { 1, 8, 16 };
      for (int k = 0; k < 3; k++) for (int have = 0; have <= 2 * width[k] + 1; have++) for (int over = 0; over <= 1; over++) {
        int cnt = have + over;
        fbuf b; memset(&b, 0, sizeof b); b.h = h;
        if (cnt < 15) fb_put(&b, (uint8_t)((cnt << 4) | wt[k])); else { fb_put(&b, (uint8_t)(0xF0 | wt[k])); fe_varint(&b, (uint64_t)cnt); }
        for (int j = 0; j < have; j++) fb_put(&b, (uint8_t)(j + 1));
        do_skip(h, 9, b.p, b.n); do_skip(h, 10, b.p, b.n); free(b.p);
        memset(&b, 0, sizeof b); b.h = h; fe_varint(&b, (uint64_t)(cnt ? cnt : 1)); fb_put(&b, (uint8_t)((wt[k] << 4) | wt[(k + 1 + over) % 3]));
        for (int j = 0; j + 1 < have; j++) fb_put(&b, (uint8_t)(j + 1));
        do_skip(h, 11, b.p, b.n); free(b.p);
        memset(&b, 0, sizeof b); b.h = h; fb_put(&b, (uint8_t)(0x10 | wt[k]));
        for (int j = 0; j < have && j < width[k] - 1 + over; j++) fb_put(&b, (uint8_t)(j + 1));
        if (over) fb_put(&b, 0x00);
        do_skip(h, 12, b.p, b.n); free(b.p);
      } }
    /* skip: every wire type 0..15 on short random / truncated inputs */
    for (int ty = 0; ty < 16; ty++) for (int r = 0; r < (h->thorough ? 60 : 12); r++) {
        size_t n = h_below(h, 20); for (size_t j = 0; j < n; j++) buf[j] = (uint8_t)h_next(h);
        do_skip(h, ty, buf, n);
    }
    /* skip on well-formed values of every type produced by the independent encoder, with trailing bytes */
    for (long i = 0; i < (h->thorough ? 4000 : 500); i++) {
        fbuf b; memset(&b, 0, sizeof b); b.h = h;
        int ty = 3 + (int)h_below(h, 11);
        fe_value(&b, ty, 3);
        size_t extra = h_below(h, 3); for (size_t j = 0; j < extra; j++) fb_put(&b, (uint8_t)h_next(h));
        do_skip(h, ty, b.p ? b.p : buf, b.n);
        free(b.p);
    }
    /* bool elements: the F9 shapes, exhaustively small */
    for (int et = 1; et <= 2; et++) for (int n = 0; n <= 3; n++) {
        fbuf b; memset(&b, 0, sizeof b); b.h = h; fb_put(&b, (uint8_t)((n << 4) | et));
        for (int j = 0; j < n; j++) fb_put(&b, (uint8_t)(j % 3)); fb_put(&b, 0x55);
        do_skip(h, 9, b.p, b.n); do_skip(h, 10, b.p, b.n); free(b.p);
        if (n) { memset(&b, 0, sizeof b); b.h = h; fe_varint(&b, (uint64_t)n); fb_put(&b, (uint8_t)((et << 4) | 3 - et));
            for (int j = 0; j < 2 * n; j++) fb_put(&b, (uint8_t)(1 + j % 2)); fb_put(&b, 0x55); do_skip(h, 11, b.p, b.n); free(b.p); }
    }
    /* field headers */
    for (long i = 0; i < (h->thorough ? 2000 : 300); i++) {
        fbuf b; memset(&b, 0, sizeof b); b.h = h; int last = 0; b.longforms = 1;
        if (h_chance(h, 1, 2)) { fe_field(&b, &last, g_i16(h), (int)h_below(h, 16)); fe_field(&b, &last, h_chance(h, 1, 2) ? last + (int)h_below(h, 20) : g_i16(h), (int)h_below(h, 16)); }
        else { size_t n = h_below(h, 8); for (size_t j = 0; j < n; j++) fb_put(&b, (uint8_t)h_next(h)); }
        do_rd(h, "fieldb", b.p ? b.p : buf, b.n);
        free(b.p);
    }
}

static void gen_enc(hctx* h) {
    long m = h->thorough ? 1500 : 200;
    for (long i = 0; i < m; i++) {
        char* s = NULL; size_t sn = 0; FILE* f = open_memstream(&s, &sn);
        int n = 1 + (int)h_below(h, 14), first = 1, depth = 0;
        int deep = h_chance(h, 1, 25);
        if (deep) { int k = 30 + (int)h_below(h, 6); for (int j = 0; j < k; j++) { fprintf(f, "%ssb", first ? "" : ","); first = 0; } depth = k; }
        for (int j = 0; j < n; j++) {
            if (!first) fputc(',', f); first = 0;
            switch (h_below(h, 16)) {
            case 0: fprintf(f, "sb"); depth++; break;
            case 1: fprintf(f, "se"); break;
            case 2: case 3: case 4: {
                static const int ids[] = { 1, 2, 15, 16, 17, 100, 32767, -1, -32768, 0 };
                fprintf(f, "fh,%d,%d", (int)h_below(h, 16), h_chance(h, 1, 2) ? ids[h_below(h, 10)] : (int)g_i16(h)); break; }
            case 5: fprintf(f, "i16,%d", (int)g_i16(h)); break;
            case 6: fprintf(f, "i32,%d", (int)g_i32(h)); break;
            case 7: fprintf(f, "i64,%lld", (long long)g_i64(h)); break;
            case 8: fprintf(f, "by,%d", (int)(int8_t)h_next(h)); break;
            case 9: fprintf(f, "bo,%d", (int)h_below(h, 2)); break;
            case 10: fprintf(f, "db,%llu", (unsigned long long)h_next(h)); break;
            case 11: { size_t bn = g_len(h) % 200; fprintf(f, "bin,"); uint8_t t[200]; h_fill(h, t, bn, 0); h_hex(f, t, bn); break; }
            case 12: { static const int cnt[] = { 0, 1, 14, 15, 16, 127, 128, 2147483647, -1, -2147483647 - 1 };
                fprintf(f, "lb,%d,%d", (int)h_below(h, 16), cnt[h_below(h, 10)]); break; }
            case 13: { static const int cnt[] = { 0, 1, 14, 15, 300, -1 };
                fprintf(f, "mb,%d,%d,%d", (int)h_below(h, 16), (int)h_below(h, 16), cnt[h_below(h, 6)]); break; }
            case 14: fprintf(f, h_chance(h, 1, 3) ? "strnull" : "fs"); break;
            default: fprintf(f, "vi,%llu", (unsigned long long)(h_next(h) >> h_below(h, 64))); break;
            }
        }
        fclose(f);
        do_enc(h, s);
        free(s);
    }
    do_enc(h, "vi,0,vi,127,vi,128,vi,16383,vi,16384,vi,18446744073709551615,i64,9223372036854775807,i64,-9223372036854775808,i32,2147483647,i32,-2147483648,i16,32767,i16,-32768");
}

static void gen_thrift(hctx* h) {
    tpool* tp = (tpool*)calloc(1, sizeof(tpool));
    gen_prims(h);
    gen_enc(h);
    long n_fm = h->thorough ? 700 : 120, n_ph = h->thorough ? 4000 : 400;
    /* own output: write, parse back (expect the serialised fields), mutate */
    for (long i = 0; i < n_fm; i++) {
        parquet_file_metadata_t m; g_filemeta(h, tp, &m, 0);
        size_t n; uint8_t* b = do_wfm(h, &m, &n);
        char* exp = render_fm(&m);
        do_pfm(h, b, n, exp, "rt");
        if (i % 4 == 0) mutate_and_parse(h, b, n, 0, 3);
        free(exp); free(b); tp_free(tp);
    }
    for (long i = 0; i < n_ph; i++) {
        parquet_page_header_t p; g_pagehdr(h, tp, &p, 0);
        size_t n; uint8_t* b = do_wph(h, &p, &n);
        char* exp = render_ph(&p);
        do_pph(h, b, n, exp, "rt");
        if (i % 4 == 0) mutate_and_parse(h, b, n, 1, 3);
        if (i % 16 == 0) for (size_t k = 0; k <= n; k++) do_pph(h, b, k, NULL, NULL);      /* every prefix */
        free(exp); free(b); tp_free(tp);
    }
    /* the independent encoder: long forms, unknown fields of every wire type */
    for (long i = 0; i < n_fm; i++) {
        parquet_file_metadata_t m; g_filemeta(h, tp, &m, 1);
        fbuf b; memset(&b, 0, sizeof b); b.h = h; b.unknowns = (i % 3) != 0; b.longforms = (i % 2) != 0;
        fe_filemeta(&b, &m);
        char* exp = render_fm(&m);
        do_pfm(h, b.p, b.n, exp, "fe"); st_fe++; st_unknown += b.n_unknown; st_long += b.n_long;
        if (i % 4 == 0) mutate_and_parse(h, b.p, b.n, 0, 3);
        if (i % 32 == 0 && b.n < 400) for (size_t k = 0; k <= b.n; k++) do_pfm(h, b.p, k, NULL, NULL);
        free(exp); free(b.p); tp_free(tp);
    }
    for (long i = 0; i < n_ph; i++) {
        parquet_page_header_t p; g_pagehdr(h, tp, &p, 1);
        fbuf b; memset(&b, 0, sizeof b); b.h = h; b.unknowns = (i % 3) != 0; b.longforms = (i % 2) != 0;
        fe_pagehdr(&b, &p);
        char* exp = render_ph(&p);
        do_pph(h, b.p, b.n, exp, "fe"); st_fe++; st_unknown += b.n_unknown; st_long += b.n_long;
        if (i % 4 == 0) mutate_and_parse(h, b.p, b.n, 1, 3);
        free(exp); free(b.p); tp_free(tp);
    }
    /* random bytes */
    for (long i = 0; i < (h->thorough ? 3000 : 300); i++) {
        uint8_t r[48]; size_t n = h_below(h, 48); for (size_t j = 0; j < n; j++) r[j] = (uint8_t)h_next(h);
        if (i % 2) do_pfm(h, r, n, NULL, NULL); else do_pph(h, r, n, NULL, NULL);
    }
    /* VALIDATE_COUNT guards: max, max+1 for each of the eight lists; count = remaining, remaining+1 */
    { static const uint32_t lim[] = { 10000, 100000, 10000, 10000, 100, 100, 10000, 100 };
      for (int w = 0; w < 8; w++) {
          limit_case(h, w, lim[w], lim[w], 1); limit_case(h, w, lim[w] + 1, lim[w] + 1, 1);
          limit_case(h, w, 3, 3, 1); limit_case(h, w, 5, 5, 0); limit_case(h, w, 5, 4, 0); limit_case(h, w, 0xFFFFFFFFu, 2, 1);
      } }
    gen_page_index(h);
    /* nesting: around THRIFT_MAX_NESTING, then far beyond (an error, not a crash) */
    for (int kind = 0; kind < 4; kind++) {
        for (size_t d = 28; d <= 36; d++) { nest_case(h, kind, d, 0); nest_case(h, kind, d, 1); }
        nest_case(h, kind, 1, 0); nest_case(h, kind, 2, 1); nest_case(h, kind, 100, 0); nest_case(h, kind, 1000, 1);
    }
    fprintf(h->out, "#stat write_file_metadata %ld\n#stat write_page_header %ld\n#stat foreign_encodings %ld\n"
                    "#stat foreign_unknown_fields %ld\n#stat foreign_long_form_headers %ld\n#stat mutated %ld\n"
                    "#stat parse_ok %ld\n#stat parse_error %ld\n#stat nesting_cases %ld\n",
            st_fm, st_ph, st_fe, st_unknown, st_long, st_mut, st_ok, st_err, st_deep);
    /* last, because before the F8 repair these end the process: 200000 nested containers */
    nest_case(h, 0, 200000, 0);
    nest_case(h, 3, 200000, 1);
    nest_case(h, 2, 200000, 0);
    free(tp);
}

static int replay_thrift(hctx* h, const h_line* l) {
    if (strncmp(l->op, "th_", 3) != 0) return 0;
    tpool* tp = (tpool*)calloc(1, sizeof(tpool));
    int done = 1;
    if (!strcmp(l->op, "th_wfm")) {
        tin t = { h_in(l, "v"), tp, 0 }; parquet_file_metadata_t m; ti_filemeta(&t, &m);
        size_t n; uint8_t* b = do_wfm(h, &m, &n); char* exp = render_fm(&m); do_pfm(h, b, n, exp, "rt"); free(exp); free(b);
    } else if (!strcmp(l->op, "th_wph")) {
        tin t = { h_in(l, "v"), tp, 0 }; parquet_page_header_t p; ti_pagehdr(&t, &p);
        size_t n; uint8_t* b = do_wph(h, &p, &n); char* exp = render_ph(&p); do_pph(h, b, n, exp, "rt"); free(exp); free(b);
    } else if (!strcmp(l->op, "th_pfm") || !strcmp(l->op, "th_pph")) {
        size_t n; uint8_t* b = h_unhex(h_in(l, "b"), &n);
        if (!strcmp(l->op, "th_pfm")) do_pfm(h, b, n, h_in(l, "exp"), h_in(l, "how")); else do_pph(h, b, n, h_in(l, "exp"), h_in(l, "how"));
        free(b);
    } else if (!strcmp(l->op, "th_skip")) {
        size_t n; uint8_t* b = h_unhex(h_in(l, "b"), &n); do_skip(h, (int)h_ll(h_in(l, "ty")), b, n); free(b);
    } else if (!strcmp(l->op, "th_rd")) {
        size_t n; uint8_t* b = h_unhex(h_in(l, "b"), &n); do_rd(h, h_in(l, "k"), b, n); free(b);
    } else if (!strcmp(l->op, "th_enc")) {
        do_enc(h, h_in(l, "prog") ? h_in(l, "prog") : "");
    } else if (!strcmp(l->op, "th_wci")) {
        do_wci(h, h_ll(h_in(l, "bo")), h_in(l, "p") ? h_in(l, "p") : "0");
    } else if (!strcmp(l->op, "th_woi")) {
        do_woi(h, (int)h_ll(h_in(l, "tr")), h_in(l, "p") ? h_in(l, "p") : "0");
    } else done = 0;
    tp_free(tp); free(tp);
    return done;
}

const h_component comp_thrift = { "thrift", gen_thrift, replay_thrift };
