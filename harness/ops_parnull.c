/* C07 (nullable columns): many OPTIONAL columns read by the batch reader with num_threads >= 2 must
 * give the same values, row counts and NULL BITMAPS as single-threaded.  Complements ops_par.c, whose
 * files have REQUIRED columns only: per-column work that touches a structure shared by the workers of
 * one next() call (the batch and its arena) shows up in the bitmaps of nullable columns.
 *   parnull cols=<n> rows=<n> bs=<batch size> mode=<0 fread|1 mmap|2 buffer> nt=<threads> rep=<k>
 *           | st=<final status> nb=<batches> rows=<rows> dg=<digest> ref=<single-threaded digest> p_same_as_single=0/1 */
#include "common.h"
#include <unistd.h>
#include <carquet/carquet.h>

static uint64_t pn_fnv(uint64_t h, const uint8_t* p, size_t n) { for (size_t i = 0; i < n; i++) { h ^= p[i]; h *= 0x100000001B3ull; } return h; }

static int pn_write(const char* path, int cols, long rows, uint64_t seed) {
    carquet_error_t err; memset(&err, 0, sizeof err);
    carquet_schema_t* sc = carquet_schema_create(&err); if (!sc) return 1;
    for (int c = 0; c < cols; c++) { char nm[16]; snprintf(nm, sizeof nm, "n%d", c);
        if (carquet_schema_add_column(sc, nm, CARQUET_PHYSICAL_INT32, NULL, CARQUET_REPETITION_OPTIONAL, 0) != CARQUET_OK) return 2; }
    carquet_writer_options_t wo; carquet_writer_options_init(&wo); wo.page_size = 8192;
    carquet_writer_t* w = carquet_writer_create(path, sc, &wo, &err); if (!w) return 3;
    enum { G = 8192 };
    int32_t* v = (int32_t*)h_alloc(G * 4); int16_t* d = (int16_t*)h_alloc(G * 2);
    uint64_t x = seed * 0x9E3779B97F4A7C15ull + 1;
    for (long g0 = 0; g0 < rows; g0 += G) {
        long gn = rows - g0 < G ? rows - g0 : G;
        if (g0 > 0 && carquet_writer_new_row_group(w) != CARQUET_OK) return 4;
        for (int c = 0; c < cols; c++) {
            long nn = 0;
            for (long i = 0; i < gn; i++) { x ^= x << 13; x ^= x >> 7; x ^= x << 17; d[i] = (int16_t)((x >> 20) % 3 != 0); if (d[i]) v[nn++] = (int32_t)(x >> 32); }
            if (carquet_writer_write_batch(w, c, v, gn, d, NULL) != CARQUET_OK) return 5;
        }
    }
    free(v); free(d);
    int rc = carquet_writer_close(w) == CARQUET_OK ? 0 : 6;
    carquet_schema_free(sc);
    return rc;
}

typedef struct { int st; long nb, rows; uint64_t dg; } pn_res;
static void pn_read(const char* path, const uint8_t* buf, size_t n, int mode, int nt, long bs, pn_res* r) {
    memset(r, 0, sizeof *r); r->dg = 0xCBF29CE484222325ull;
    carquet_error_t err; memset(&err, 0, sizeof err);
    carquet_reader_options_t ro; carquet_reader_options_init(&ro); ro.use_mmap = mode == 1;
    carquet_reader_t* rd = mode == 2 ? carquet_reader_open_buffer(buf, n, &ro, &err) : carquet_reader_open(path, &ro, &err);
    if (!rd) { r->st = -1; return; }
    carquet_batch_reader_config_t cfg; carquet_batch_reader_config_init(&cfg); cfg.batch_size = bs; cfg.num_threads = nt; cfg.use_mmap = mode == 1;
    carquet_batch_reader_t* br = carquet_batch_reader_create(rd, &cfg, &err);
    if (!br) { carquet_reader_close(rd); r->st = -2; return; }
    for (;;) {
        carquet_row_batch_t* b = NULL; carquet_status_t st = carquet_batch_reader_next(br, &b);
        if (st != CARQUET_OK || !b) { r->st = (int)st; break; }
        long nr = (long)carquet_row_batch_num_rows(b); int nc = carquet_row_batch_num_columns(b);
        r->nb++; r->rows += nr;
        for (int c = 0; c < nc; c++) {
            const void* data = NULL; const uint8_t* bm = NULL; int64_t nv = 0;
            if (carquet_row_batch_column(b, c, &data, &bm, &nv) != CARQUET_OK) { r->dg ^= 0xDEAD; continue; }
            r->dg = pn_fnv(r->dg, (const uint8_t*)&nv, 8);
            long nulls = 0;
            if (bm) { r->dg = pn_fnv(r->dg, bm, (size_t)((nv + 7) / 8)); for (int64_t i = 0; i < nv; i++) if (bm[i / 8] & (1u << (i % 8))) nulls++; }
            if (data) r->dg = pn_fnv(r->dg, (const uint8_t*)data, (size_t)(nv - nulls) * 4);   /* values are dense */
        }
        carquet_row_batch_free(b);
    }
    carquet_batch_reader_free(br); carquet_reader_close(rd);
}

static void gen_parnull(hctx* h) {
    char path[128]; snprintf(path, sizeof path, "/tmp/verif_pn_%d.parquet", (int)getpid());
    int cols = 16; long rows = h->thorough ? 262144 : 65536;
    long mism = 0, lines = 0;
    for (int rep = 0; rep < (h->thorough ? 4 : 2); rep++) {
        uint64_t seed = h_next(h);
        if (pn_write(path, cols, rows, seed) != 0) { fprintf(h->out, "parnull cols=%d rows=%ld bs=0 mode=0 nt=0 rep=%d | st=-9 nb=0 rows=0 dg=0 ref=1 p_same_as_single=0\n", cols, rows, rep); h->n_lines++; continue; }
        FILE* f = fopen(path, "rb"); fseek(f, 0, SEEK_END); long sz = ftell(f); fseek(f, 0, SEEK_SET);
        uint8_t* buf = h_alloc((size_t)sz); if (fread(buf, 1, (size_t)sz, f) != (size_t)sz) sz = 0; fclose(f);
        static const long bss[3] = { 256, 1024, 77 };
        long bs = bss[(rep + (int)h_below(h, 3)) % 3];
        for (int mode = 0; mode < 3; mode++) {
            pn_res ref; pn_read(path, buf, (size_t)sz, mode, 1, bs, &ref);
            static const int nts[4] = { 2, 4, 8, 16 };
            for (int ti = 0; ti < 4; ti++) {
                fprintf(h->out, "parnull cols=%d rows=%ld bs=%ld mode=%d nt=%d rep=%d", cols, rows, bs, mode, nts[ti], rep); h_call(h);
                pn_res r; pn_read(path, buf, (size_t)sz, mode, nts[ti], bs, &r);
                int same = r.st == ref.st && r.nb == ref.nb && r.rows == ref.rows && r.dg == ref.dg && ref.rows == rows;
                fprintf(h->out, " | st=%d nb=%ld rows=%ld dg=%llu ref=%llu p_same_as_single=%d\n", r.st, r.nb, r.rows, (unsigned long long)r.dg, (unsigned long long)ref.dg, same);
                h->n_lines++; lines++; if (!same) mism++;
            }
        }
        free(buf);
    }
    unlink(path);
    fprintf(h->out, "#stat parnull_lines %ld\n#stat parnull_mismatches %ld\n", lines, mism);
}
static int replay_parnull(hctx* h, const h_line* l) { (void)h; (void)l; return 0; }
const h_component comp_parnull = { "parnull", gen_parnull, replay_parnull };
