/* C07, ThreadSanitizer step (THOROUGH tier only).  check.py builds one harness variant per property, so this
 * component of the ASan harness calls tools/par_tsan.sh, which builds the components `par` and `pardict` once more with
 * clang-14 -fsanitize=thread + LLVM libomp + the Archer OMPT tool (TSan then knows OpenMP's fork/join/barrier/critical
 * synchronisation), runs them at the same seed and tier, and leaves the op lines and the sanitizer reports in files.
 * The outcome becomes ONE line:
 *
 *   par_tsan seed tier | rc reports lazy_init harness_thread_leak other lines_true lines_false first_other
 *                        p_no_unexplained_race p_predicates_true        (or: skipped=1 triv=1 when clang/libomp/Archer are missing)
 *
 * lazy_init = reports located in src/util/crc32.c, src/simd/dispatch.c, src/simd/detect.c: the lazily initialised
 * tables, whose races are the subject of C07_lazy_init_* under the stated memory-model assumption (formally C11 data
 * races; listed in the evidence as an assumption, not hidden).  harness_thread_leak = TSan's "thread leak" for the
 * harness's own detached pool threads.  Anything else is `other` and fails the line. */
#include "common.h"
#include <unistd.h>
#include <sys/wait.h>

static void verif_root(char* out, size_t cap) {
    /* this file is compiled with its absolute path: <verif>/harness/ops_partsan.c */
    snprintf(out, cap, "%s", __FILE__);
    char* s = strrchr(out, '/'); if (s) *s = 0;
    s = strrchr(out, '/'); if (s) *s = 0;
}

static void do_par_tsan(hctx* h, unsigned long long seed, const char* tier) {
    fprintf(h->out, "par_tsan seed=%llu tier=%s", seed, tier);
    h_call(h);
    char root[512]; verif_root(root, sizeof root);
    const char* bdir = getenv("VERIF_BUILD_DIR");
    char build[600]; if (bdir && *bdir) snprintf(build, sizeof build, "%s", bdir); else snprintf(build, sizeof build, "%s/build", root);
    char tag[64]; snprintf(tag, sizeof tag, "p%ld", (long)getpid());
    char cmd[1400];
    snprintf(cmd, sizeof cmd, "PAR_TSAN_TAG=%s ASAN_OPTIONS= LD_PRELOAD= sh '%s/tools/par_tsan.sh' clang %llu %s 2>&1", tag, root, seed, tier);
    fflush(NULL);
    FILE* p = popen(cmd, "r");
    if (!p) { fprintf(h->out, " | rc=-1 p_step_ran=0\n"); h->n_lines++; return; }
    char* line = NULL; size_t cap = 0; long hrc = -1; int skipped = 0;
    while (getline(&line, &cap, p) > 0) {
        if (!strncmp(line, "harness_rc=", 11)) hrc = strtol(line + 11, NULL, 10);
        if (!strncmp(line, "SKIP:", 5)) skipped = 1;
    }
    int st = pclose(p);
    int rc = WIFEXITED(st) ? WEXITSTATUS(st) : 128;
    if (skipped || rc == 77) {
        fprintf(h->out, " | skipped=1 triv=1\n#stat tsan_step_skipped_no_toolchain 1\n"); h->n_lines++; free(line); return;
    }
    char path[800]; long reports = 0, lazy = 0, leak = 0, other = 0, ltrue = 0, lfalse = 0; char first_other[200] = "-";
    snprintf(path, sizeof path, "%s/par-tsan-clang-%s.err", build, tag);
    FILE* f = fopen(path, "r");
    if (f) {
        while (getline(&line, &cap, f) > 0) {
            if (strstr(line, "WARNING: ThreadSanitizer")) reports++;
            if (!strstr(line, "SUMMARY: ThreadSanitizer")) continue;
            if (strstr(line, "src/util/crc32.c") || strstr(line, "src/simd/dispatch.c") || strstr(line, "src/simd/detect.c")) lazy++;
            else if (strstr(line, "thread leak")) leak++;
            else {
                if (!other) { size_t k = 0; for (const char* c = line + 9; *c && *c != '\n' && k < sizeof first_other - 1; c++) first_other[k++] = (*c == ' ' || *c == '=' || *c == '|') ? '_' : *c; first_other[k] = 0; }
                other++;
            }
        }
        fclose(f);
    }
    int have_err = f != NULL;
    unlink(path);
    snprintf(path, sizeof path, "%s/par-tsan-clang-%s.ops", build, tag);
    f = fopen(path, "r");
    if (f) {
        while (getline(&line, &cap, f) > 0) {
            if (line[0] == '#') continue;
            const char* q = line; int bad = 0, good = 0;
            while ((q = strstr(q, " p_")) != NULL) { const char* e = strchr(q + 1, '='); if (e && e[1] == '0') bad = 1; if (e && e[1] == '1') good = 1; q += 3; }
            if (bad) lfalse++; else if (good) ltrue++;
        }
        fclose(f);
    }
    int have_ops = f != NULL;
    unlink(path);
    free(line);
    int ran = rc == 0 && hrc == 0 && have_err && have_ops && ltrue > 0;
    fprintf(h->out, " | rc=%d harness_rc=%ld reports=%ld lazy_init=%ld harness_thread_leak=%ld other=%ld lines_true=%ld lines_false=%ld first_other=%s"
                    " p_step_ran=%d p_no_unexplained_race=%d p_predicates_true=%d\n",
            rc, hrc, reports, lazy, leak, other, ltrue, lfalse, first_other, ran, other == 0, lfalse == 0);
    fprintf(h->out, "#stat tsan_reports %ld\n#stat tsan_reports_lazy_init_sites %ld\n#stat tsan_reports_elsewhere %ld\n#stat tsan_lines %ld\n",
            reports, lazy, other, ltrue + lfalse);
    h->n_lines++;
}

static void gen_partsan(hctx* h) {
    if (!h->thorough) { fprintf(h->out, "#stat tsan_step_is_thorough_tier_only 1\n"); return; }
    do_par_tsan(h, (unsigned long long)h->seed, "thorough");
}
static int replay_partsan(hctx* h, const h_line* l) {
    if (strcmp(l->op, "par_tsan") != 0) return 0;
    const char* t = h_in(l, "tier");
    do_par_tsan(h, (unsigned long long)h_ll(h_in(l, "seed")), t && !strcmp(t, "thorough") ? "thorough" : "quick");
    return 1;
}
const h_component comp_partsan = { "partsan", gen_partsan, replay_partsan };
