/*
 * Allocation fault injection (C19).  The harness is linked with
 *   -Wl,--wrap=malloc,--wrap=calloc,--wrap=realloc
 * so every allocation request made by carquet (and by the harness itself) passes through here
 * and then reaches the sanitizer's allocator.  Disarmed by default: no behavioural change for
 * components that do not use it.
 */
#include <stddef.h>
#include "common.h"

void* __real_malloc(size_t);
void* __real_calloc(size_t, size_t);
void* __real_realloc(void*, size_t);

long h_alloc_count = 0;        /* requests seen while counting */
long h_alloc_fail_at = 0;      /* 1-based index of the request that fails; 0 = never */
int  h_alloc_counting = 0;     /* only count between h_alloc_arm()/h_alloc_disarm() */
long h_alloc_fired = 0;        /* how many injected failures actually happened */

void h_alloc_arm(long fail_at) { h_alloc_count = 0; h_alloc_fail_at = fail_at; h_alloc_counting = 1; }
long h_alloc_disarm(void) { h_alloc_counting = 0; h_alloc_fail_at = 0; return h_alloc_count; }

static int should_fail(void) {
    if (!h_alloc_counting) return 0;
    long n = __atomic_add_fetch(&h_alloc_count, 1, __ATOMIC_SEQ_CST);
    if (h_alloc_fail_at && n == h_alloc_fail_at) { h_alloc_fired++; return 1; }
    return 0;
}
void* __wrap_malloc(size_t n) { return should_fail() ? NULL : __real_malloc(n); }
void* __wrap_calloc(size_t a, size_t b) { return should_fail() ? NULL : __real_calloc(a, b); }
void* __wrap_realloc(void* p, size_t n) { return should_fail() ? NULL : __real_realloc(p, n); }
