/*
 * Allocation fault injection (C19).  The harness is linked with
 *   -Wl,--wrap=malloc,--wrap=calloc,--wrap=realloc
 * so every allocation request made by carquet (and by the harness itself) passes through here
 * and then reaches the sanitizer's allocator.  Disarmed by default: no behavioural change for
 * components that do not use it.
 *
 * Two ways to choose the failing requests:
 *   h_alloc_arm(k)            the k-th request after arming fails (k = 0: count only)
 *   h_alloc_arm_set(v, n)     the requests whose 1-based indices are listed in v[0..n) fail
 *   h_alloc_arm_arena(k)      the k-th *arena* request (carquet_arena_alloc/_calloc/_alloc_aligned/
 *                             _strdup/_strndup/_memdup called from outside arena.c) returns NULL, as it
 *                             would if the arena needed a new block at that moment and malloc refused;
 *                             malloc-level requests are neither counted nor failed in this mode
 * strdup() is interposed as well (it is an allocation request the library makes).
 * When a failure is injected the return addresses of the requesting stack are recorded in
 * h_alloc_fail_pcs (frame-pointer walk, no allocation, no symbolisation), so that the caller can
 * name the call site afterwards.
 */
#include <stddef.h>
#include <unistd.h>
#include "common.h"

void* __real_malloc(size_t);
void* __real_calloc(size_t, size_t);
void* __real_realloc(void*, size_t);
char* __real_strdup(const char*);

long h_alloc_count = 0;        /* requests seen while counting */
long h_alloc_fail_at = 0;      /* 1-based index of the request that fails; 0 = never */
int  h_alloc_counting = 0;     /* only count between h_alloc_arm()/h_alloc_disarm() */
long h_alloc_fired = 0;        /* how many injected failures actually happened */
static int h_alloc_level = 0;  /* 0: malloc/calloc/realloc/strdup requests; 1: arena requests */
static const long* h_alloc_set = NULL;
static int h_alloc_set_n = 0;

void* h_alloc_fail_pcs[H_ALLOC_MAX_PCS];
int   h_alloc_fail_npcs = 0;
long  h_alloc_first_fired_at = 0;
int   h_alloc_report_fd = -1;  /* if >= 0: the record of the first injected failure is also written there at once
                                  (so that it survives a crash of the code under test) */

void h_alloc_arm(long fail_at) {
    h_alloc_level = 0;
    h_alloc_count = 0; h_alloc_fail_at = fail_at; h_alloc_set = NULL; h_alloc_set_n = 0;
    h_alloc_fail_npcs = 0; h_alloc_first_fired_at = 0; h_alloc_counting = 1;
}
void h_alloc_arm_arena(long fail_at) { h_alloc_arm(fail_at); h_alloc_level = 1; }
void h_alloc_arm_set(const long* idx, int n) {
    h_alloc_level = 0;
    h_alloc_count = 0; h_alloc_fail_at = 0; h_alloc_set = idx; h_alloc_set_n = n;
    h_alloc_fail_npcs = 0; h_alloc_first_fired_at = 0; h_alloc_counting = 1;
}
long h_alloc_disarm(void) { h_alloc_counting = 0; h_alloc_fail_at = 0; h_alloc_set = NULL; h_alloc_set_n = 0; return h_alloc_count; }
long h_alloc_seen(void) { return h_alloc_count; }

/* frame-pointer walk (the harness and carquet are compiled with -fno-omit-frame-pointer) */
__attribute__((no_sanitize("address", "undefined"), noinline))
static void record_stack(void** fp0) {
    void** fp = fp0;
    int n = 0;
    char* lo = (char*)&fp;
    while (fp && n < H_ALLOC_MAX_PCS) {
        if ((char*)fp < lo || (char*)fp > lo + (8 << 20) || ((uintptr_t)fp & 7)) break;
        void* ret = fp[1];
        if (!ret) break;
        h_alloc_fail_pcs[n++] = ret;
        void** next = (void**)fp[0];
        if (next <= fp) break;
        fp = next;
    }
    h_alloc_fail_npcs = n;
}

static int should_fail_at(void** fp, int level) {
    if (!h_alloc_counting || level != h_alloc_level) return 0;
    long n = __atomic_add_fetch(&h_alloc_count, 1, __ATOMIC_SEQ_CST);
    int fail = 0;
    if (h_alloc_fail_at && n == h_alloc_fail_at) fail = 1;
    for (int i = 0; i < h_alloc_set_n && !fail; i++) if (h_alloc_set[i] == n) fail = 1;
    if (fail) {
        if (!h_alloc_first_fired_at) {
            h_alloc_first_fired_at = n; record_stack(fp);
            if (h_alloc_report_fd >= 0) {
                long hdr[3] = { 1 /* message tag */, n, h_alloc_fail_npcs };
                ssize_t w = write(h_alloc_report_fd, hdr, sizeof hdr);
                w = write(h_alloc_report_fd, h_alloc_fail_pcs, sizeof(void*) * (size_t)h_alloc_fail_npcs);
                (void)w;
            }
        }
        h_alloc_fired++;
        return 1;
    }
    return 0;
}
static int should_fail(void** fp) { return should_fail_at(fp, 0); }
void* __wrap_malloc(size_t n) { return should_fail((void**)__builtin_frame_address(0)) ? NULL : __real_malloc(n); }
void* __wrap_calloc(size_t a, size_t b) { return should_fail((void**)__builtin_frame_address(0)) ? NULL : __real_calloc(a, b); }
void* __wrap_realloc(void* p, size_t n) { return should_fail((void**)__builtin_frame_address(0)) ? NULL : __real_realloc(p, n); }
char* __wrap_strdup(const char* p) { return should_fail((void**)__builtin_frame_address(0)) ? NULL : __real_strdup(p); }

/* arena entry points as seen from the other translation units */
struct carquet_arena;
void* __real_carquet_arena_alloc(struct carquet_arena*, size_t);
void* __real_carquet_arena_calloc(struct carquet_arena*, size_t, size_t);
void* __real_carquet_arena_alloc_aligned(struct carquet_arena*, size_t, size_t);
char* __real_carquet_arena_strdup(struct carquet_arena*, const char*);
char* __real_carquet_arena_strndup(struct carquet_arena*, const char*, size_t);
void* __real_carquet_arena_memdup(struct carquet_arena*, const void*, size_t);
#define AFAIL() should_fail_at((void**)__builtin_frame_address(0), 1)
void* __wrap_carquet_arena_alloc(struct carquet_arena* a, size_t n) { return (n && AFAIL()) ? NULL : __real_carquet_arena_alloc(a, n); }
void* __wrap_carquet_arena_calloc(struct carquet_arena* a, size_t c, size_t n) { return (c && n && AFAIL()) ? NULL : __real_carquet_arena_calloc(a, c, n); }
void* __wrap_carquet_arena_alloc_aligned(struct carquet_arena* a, size_t n, size_t al) { return (n && AFAIL()) ? NULL : __real_carquet_arena_alloc_aligned(a, n, al); }
char* __wrap_carquet_arena_strdup(struct carquet_arena* a, const char* s) { return (s && AFAIL()) ? NULL : __real_carquet_arena_strdup(a, s); }
char* __wrap_carquet_arena_strndup(struct carquet_arena* a, const char* s, size_t n) { return (s && AFAIL()) ? NULL : __real_carquet_arena_strndup(a, s, n); }
void* __wrap_carquet_arena_memdup(struct carquet_arena* a, const void* s, size_t n) { return (s && n && AFAIL()) ? NULL : __real_carquet_arena_memdup(a, s, n); }
