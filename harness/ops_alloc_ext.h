/* C19, second wave of scenarios (included by ops_alloc.c after its scenario infrastructure).
 *
 * Allocation sites that carquet's own writer/reader pair never reaches are driven here:
 *   dict / dskip / dbatch / dstats   a file assembled by the harness with the library's internal serialisers
 *                        (parquet_write_page_header, carquet_rle_encode_*, carquet_snappy_compress, carquet_crc32, and
 *                        an independent Thrift encoder for the footer so that the fields carquet never writes -
 *                        column key/value metadata, encoding_stats, file_path, chunk statistics - are present):
 *                        dictionary pages (fixed width and BYTE_ARRAY, RLE_DICTIONARY and PLAIN_DICTIONARY tags),
 *                        several data pages per chunk, a nested OPTIONAL group (max_def 2), page CRCs.
 *                        dict = whole-chunk column reads, dskip = carquet_column_skip across pages interleaved
 *                        with reads, dbatch = batch reader, dstats = column_statistics / row_group_matches /
 *                        filter_row_groups after an open under faults.
 *   bloom                carquet_bloom_filter_create / insert_* / check_* / write / read / merge / destroy
 *   statsb               carquet_statistics_builder_create / add_values / add_byte_arrays / add_nulls / build
 *                        (with an arena and with malloc) / destroy
 *   pgidx                column index builder and offset index builder: create, > 16 add_page (growth), serialize
 *   schemag              schema builder with carquet_schema_add_group mixed with add_column
 *   wrep                 write of a table with a REPEATED column (repetition levels) and groups in the schema;
 *                        judged by byte equality with the fault-free file
 */
#ifndef VERIF_OPS_ALLOC_EXT_H
#define VERIF_OPS_ALLOC_EXT_H

#include "thrift_foreign.h"

/* ---- internal entry points without a public header ---- */
typedef struct carquet_bloom_filter carquet_bloom_filter_t;
carquet_bloom_filter_t* carquet_bloom_filter_create(size_t num_bytes);
carquet_bloom_filter_t* carquet_bloom_filter_create_with_ndv(int64_t ndv, double fpp);
void carquet_bloom_filter_destroy(carquet_bloom_filter_t* filter);
void carquet_bloom_filter_insert_i32(carquet_bloom_filter_t* filter, int32_t value);
void carquet_bloom_filter_insert_i64(carquet_bloom_filter_t* filter, int64_t value);
void carquet_bloom_filter_insert_double(carquet_bloom_filter_t* filter, double value);
void carquet_bloom_filter_insert_bytes(carquet_bloom_filter_t* filter, const uint8_t* data, size_t len);
bool carquet_bloom_filter_check_i32(const carquet_bloom_filter_t* filter, int32_t value);
bool carquet_bloom_filter_check_i64(const carquet_bloom_filter_t* filter, int64_t value);
bool carquet_bloom_filter_check_double(const carquet_bloom_filter_t* filter, double value);
bool carquet_bloom_filter_check_bytes(const carquet_bloom_filter_t* filter, const uint8_t* data, size_t len);
size_t carquet_bloom_filter_size(const carquet_bloom_filter_t* filter);
carquet_status_t carquet_bloom_filter_write(const carquet_bloom_filter_t* filter, uint8_t* output,
                                            size_t output_capacity, size_t* bytes_written);
carquet_status_t carquet_bloom_filter_read(carquet_bloom_filter_t** filter_out, const uint8_t* data, size_t data_size);
carquet_status_t carquet_bloom_filter_merge(carquet_bloom_filter_t* dest, const carquet_bloom_filter_t* src);

typedef struct carquet_statistics_builder carquet_statistics_builder_t;
carquet_statistics_builder_t* carquet_statistics_builder_create(carquet_physical_type_t type, int32_t type_length);
void carquet_statistics_builder_destroy(carquet_statistics_builder_t* b);
void carquet_statistics_add_nulls(carquet_statistics_builder_t* b, int64_t count);
carquet_status_t carquet_statistics_add_values(carquet_statistics_builder_t* b, const void* values, int64_t n);
carquet_status_t carquet_statistics_add_byte_arrays(carquet_statistics_builder_t* b, const carquet_byte_array_t* v, int64_t n);
carquet_status_t carquet_statistics_build(const carquet_statistics_builder_t* b, carquet_arena_t* arena, parquet_statistics_t* stats);

typedef struct carquet_column_index_builder carquet_column_index_builder_t;
typedef struct carquet_offset_index_builder carquet_offset_index_builder_t;
carquet_column_index_builder_t* carquet_column_index_builder_create(carquet_physical_type_t type, int32_t type_length);
void carquet_column_index_builder_destroy(carquet_column_index_builder_t* b);
carquet_status_t carquet_column_index_add_page(carquet_column_index_builder_t* b, int64_t null_count, const void* mn,
                                               int32_t mn_len, const void* mx, int32_t mx_len, bool is_null_page);
void carquet_column_index_set_boundary_order(carquet_column_index_builder_t* b, int32_t order);
carquet_status_t carquet_column_index_serialize(const carquet_column_index_builder_t* b, carquet_buffer_t* out);
carquet_status_t carquet_column_index_page_might_match(const carquet_column_index_builder_t* b, int32_t page_idx,
                                                       const void* mn, const void* mx, int32_t value_len, bool* might);
carquet_offset_index_builder_t* carquet_offset_index_builder_create(bool track_uncompressed);
void carquet_offset_index_builder_destroy(carquet_offset_index_builder_t* b);
carquet_status_t carquet_offset_index_add_page(carquet_offset_index_builder_t* b, int64_t offset, int32_t compressed_size,
                                               int64_t first_row_index, int32_t uncompressed_size);
carquet_status_t carquet_offset_index_serialize(const carquet_offset_index_builder_t* b, carquet_buffer_t* out);

carquet_status_t carquet_snappy_compress(const uint8_t* src, size_t src_size, uint8_t* dst, size_t dst_capacity, size_t* dst_size);
size_t carquet_snappy_compress_bound(size_t src_size);
uint32_t carquet_crc32(const uint8_t* data, size_t length);

void* __real_calloc(size_t, size_t);
void* __real_realloc(void*, size_t);

/* ------------------------------------------------------------------------------------------ */
/* the table of the hand-built file                                                            */
/* ------------------------------------------------------------------------------------------ */
#define DCOLS 6
typedef struct { const char* name; carquet_physical_type_t type; int tlen; int max_def; int dict; int dict_tag; } dcol_def;
/* leaves in schema order; ddbl and dfix live in the OPTIONAL group "grp" */
static const dcol_def dcols[DCOLS] = {
    {"di32", CARQUET_PHYSICAL_INT32, 0, 0, 1, CARQUET_ENCODING_RLE_DICTIONARY},
    {"di64", CARQUET_PHYSICAL_INT64, 0, 1, 1, CARQUET_ENCODING_RLE_DICTIONARY},
    {"dstr", CARQUET_PHYSICAL_BYTE_ARRAY, 0, 1, 1, CARQUET_ENCODING_PLAIN_DICTIONARY},
    {"ddbl", CARQUET_PHYSICAL_DOUBLE, 0, 1, 1, CARQUET_ENCODING_PLAIN_DICTIONARY},
    {"dfix", CARQUET_PHYSICAL_FIXED_LEN_BYTE_ARRAY, 5, 2, 1, CARQUET_ENCODING_RLE_DICTIONARY},
    {"pstr", CARQUET_PHYSICAL_BYTE_ARRAY, 0, 0, 0, CARQUET_ENCODING_PLAIN},
};
static int dcol_width(int c) {
    switch (dcols[c].type) {
    case CARQUET_PHYSICAL_INT32: return 4;
    case CARQUET_PHYSICAL_INT64: case CARQUET_PHYSICAL_DOUBLE: return 8;
    case CARQUET_PHYSICAL_FIXED_LEN_BYTE_ARRAY: return dcols[c].tlen;
    default: return 0;
    }
}
#define DMAXDICT 12
#define DMAXSTR 14
typedef struct {
    int rows;
    int16_t* defs;          /* rows definition levels */
    int nn;                 /* non-null values */
    uint32_t* idx;          /* nn dictionary indices (dictionary columns) */
    int ndict;
    uint8_t dict[DMAXDICT][16]; int dlen[DMAXDICT];    /* dictionary entries (fixed: width bytes; BYTE_ARRAY: dlen bytes) */
    uint8_t* vals;          /* dense values: fixed width: nn * width bytes; BYTE_ARRAY: nn entries of 16 bytes */
    int* vlen;              /* BYTE_ARRAY: nn lengths */
} dchunk;

static void dchunk_make(dchunk* k, uint64_t tseed, int rows, int g, int c) {
    uint64_t s = tseed * 7777777ull + (uint64_t)g * 104729ull + (uint64_t)c * 1299709ull + 5;
    memset(k, 0, sizeof *k);
    k->rows = rows;
    size_t r = (size_t)rows;
    k->defs = (int16_t*)h_alloc(2 * r); k->idx = (uint32_t*)h_alloc(4 * r); k->vals = h_alloc(16 * r); k->vlen = (int*)h_alloc(sizeof(int) * r);
    int w = dcol_width(c), md = dcols[c].max_def;
    int phase = (int)(sm_next(&s) % 3);
    k->ndict = dcols[c].dict ? 3 + (int)(sm_next(&s) % (DMAXDICT - 3)) : 0;
    for (int d = 0; d < k->ndict; d++) {
        int len = w ? w : (int)(sm_next(&s) % DMAXSTR);
        k->dlen[d] = len;
        for (int j = 0; j < len; j++) k->dict[d][j] = w ? (uint8_t)sm_next(&s) : (uint8_t)('A' + sm_next(&s) % 26);
        if (dcols[c].type == CARQUET_PHYSICAL_DOUBLE) { double v = (double)(int32_t)sm_next(&s) / 16.0; memcpy(k->dict[d], &v, 8); }
    }
    for (int i = 0; i < rows; i++) {
        /* strictly alternating / cycling level patterns (short runs only) */
        k->defs[i] = md == 0 ? 0 : md == 1 ? (int16_t)((i + phase) & 1) : (int16_t)((i + phase) % 3);
        if (k->defs[i] != md) continue;
        uint8_t* v = k->vals + 16 * (size_t)k->nn;
        if (dcols[c].dict) {
            uint32_t d = (uint32_t)(sm_next(&s) % (uint64_t)k->ndict);
            k->idx[k->nn] = d; k->vlen[k->nn] = k->dlen[d];
            memcpy(v, k->dict[d], 16);
        } else {
            int len = (int)(sm_next(&s) % DMAXSTR);
            k->vlen[k->nn] = len;
            for (int j = 0; j < len; j++) v[j] = (uint8_t)('a' + sm_next(&s) % 26);
        }
        k->nn++;
    }
}
static void dchunk_free(dchunk* k) { free(k->defs); free(k->idx); free(k->vals); free(k->vlen); }

/* rows [r0, r1) of page pi when a chunk of `rows` rows is cut into `np` pages */
static void dpage_rows(int rows, int np, int pi, int* r0, int* r1) { *r0 = rows * pi / np; *r1 = rows * (pi + 1) / np; }

static int bits_for(int maxv) { int b = 0; while ((1 << b) <= maxv) b++; return maxv == 0 ? 0 : b; }

static void buf_le32(carquet_buffer_t* b, uint32_t v) { uint8_t t[4] = {(uint8_t)v, (uint8_t)(v >> 8), (uint8_t)(v >> 16), (uint8_t)(v >> 24)}; (void)carquet_buffer_append(b, t, 4); }

/* header + (compressed) body of one page appended to `file`; returns 0 on failure */
static int dpage_emit(carquet_buffer_t* file, parquet_page_header_t* ph, const carquet_buffer_t* body, int codec, int with_crc,
                      int64_t* unc_total, int64_t* cmp_total) {
    const uint8_t* stored = body->data; size_t stored_n = body->size;
    uint8_t* cbuf = NULL;
    if (codec == CARQUET_COMPRESSION_SNAPPY) {
        size_t cap = carquet_snappy_compress_bound(body->size);
        cbuf = h_alloc(cap);
        if (carquet_snappy_compress(body->data, body->size, cbuf, cap, &stored_n) != CARQUET_OK) { free(cbuf); return 0; }
        stored = cbuf;
    }
    ph->uncompressed_page_size = (int32_t)body->size;
    ph->compressed_page_size = (int32_t)stored_n;
    ph->has_crc = with_crc != 0;
    ph->crc = with_crc ? (int32_t)carquet_crc32(stored, stored_n) : 0;
    size_t before = file->size;
    int ok = parquet_write_page_header(ph, file, NULL) == CARQUET_OK && carquet_buffer_append(file, stored, stored_n) == CARQUET_OK;
    *unc_total += (int64_t)(file->size - before - stored_n) + (int64_t)body->size;
    *cmp_total += (int64_t)(file->size - before);
    free(cbuf);
    return ok;
}

static char* dstrdup(const char* s) { size_t n = strlen(s); char* r = (char*)h_alloc(n + 1); memcpy(r, s, n + 1); return r; }

/* The whole file.  np = data pages per chunk.  Everything that goes into the footer is kept in `pool` until the
 * footer has been serialised. */
static uint8_t* dfile_build(uint64_t tseed, int rows, int rg, int np, int codec, size_t* out_len) {
    carquet_buffer_t file; carquet_buffer_init(&file);
    (void)carquet_buffer_append(&file, (const uint8_t*)"PAR1", 4);
    parquet_file_metadata_t md; memset(&md, 0, sizeof md);
    static tpool pool; pool.n = 0;
    int ok = 1;
    /* schema: root, di32, di64, dstr, grp{ddbl, dfix}, pstr */
    md.version = 1;
    md.num_schema_elements = DCOLS + 2;
    md.schema = (parquet_schema_element_t*)tp_alloc(&pool, sizeof(parquet_schema_element_t) * (DCOLS + 2));
    memset(md.schema, 0, sizeof(parquet_schema_element_t) * (DCOLS + 2));
    md.schema[0].name = "schema"; md.schema[0].num_children = 5;
    {
        int e = 1;
        for (int c = 0; c < DCOLS; c++) {
            if (c == 3) {
                md.schema[e].name = "grp"; md.schema[e].num_children = 2; md.schema[e].has_repetition = true;
                md.schema[e].repetition_type = CARQUET_REPETITION_OPTIONAL; e++;
            }
            parquet_schema_element_t* el = &md.schema[e++];
            el->name = (char*)dcols[c].name; el->has_type = true; el->type = dcols[c].type; el->type_length = dcols[c].tlen;
            el->has_repetition = true;
            int own_opt = c == 3 ? 0 : c == 4 ? 1 : dcols[c].max_def;
            el->repetition_type = own_opt ? CARQUET_REPETITION_OPTIONAL : CARQUET_REPETITION_REQUIRED;
        }
    }
    md.num_rows = (int64_t)rows * rg;
    md.num_row_groups = rg;
    md.row_groups = (parquet_row_group_t*)tp_alloc(&pool, sizeof(parquet_row_group_t) * (size_t)rg);
    memset(md.row_groups, 0, sizeof(parquet_row_group_t) * (size_t)rg);
    md.num_key_value = 2;
    md.key_value_metadata = (parquet_key_value_t*)tp_alloc(&pool, sizeof(parquet_key_value_t) * 2);
    md.key_value_metadata[0].key = "writer.origin"; md.key_value_metadata[0].value = "verification harness";
    md.key_value_metadata[1].key = "flag.only"; md.key_value_metadata[1].value = NULL;
    md.created_by = "verif-harness version 1 (build c19)";
    for (int g = 0; g < rg && ok; g++) {
        parquet_row_group_t* rgm = &md.row_groups[g];
        rgm->num_columns = DCOLS; rgm->num_rows = rows;
        rgm->columns = (parquet_column_chunk_t*)tp_alloc(&pool, sizeof(parquet_column_chunk_t) * DCOLS);
        memset(rgm->columns, 0, sizeof(parquet_column_chunk_t) * DCOLS);
        rgm->has_file_offset = true; rgm->file_offset = (int64_t)file.size;
        rgm->has_ordinal = true; rgm->ordinal = (int16_t)g;
        for (int c = 0; c < DCOLS && ok; c++) {
            dchunk k; dchunk_make(&k, tseed, rows, g, c);
            parquet_column_chunk_t* ch = &rgm->columns[c];
            parquet_column_metadata_t* m = &ch->metadata;
            ch->has_metadata = true; ch->file_offset = (int64_t)file.size;
            if (c == 1) ch->file_path = "";                          /* an (empty) file_path string: parsed, not followed */
            m->type = dcols[c].type; m->codec = (carquet_compression_t)codec; m->num_values = rows;
            m->num_encodings = 3;
            m->encodings = (carquet_encoding_t*)tp_alloc(&pool, sizeof(carquet_encoding_t) * 3);
            m->encodings[0] = CARQUET_ENCODING_PLAIN; m->encodings[1] = CARQUET_ENCODING_RLE; m->encodings[2] = (carquet_encoding_t)dcols[c].dict_tag;
            m->path_len = (c == 3 || c == 4) ? 2 : 1;
            m->path_in_schema = (char**)tp_alloc(&pool, sizeof(char*) * 2);
            m->path_in_schema[0] = (c == 3 || c == 4) ? "grp" : (char*)dcols[c].name;
            m->path_in_schema[1] = (char*)dcols[c].name;
            m->num_key_value = c == 0 ? 2 : 0;
            if (m->num_key_value) {
                m->key_value_metadata = (parquet_key_value_t*)tp_alloc(&pool, sizeof(parquet_key_value_t) * 2);
                m->key_value_metadata[0].key = "col.note"; m->key_value_metadata[0].value = "dictionary encoded";
                m->key_value_metadata[1].key = "col.flag"; m->key_value_metadata[1].value = NULL;
            }
            m->num_encoding_stats = 2;
            m->encoding_stats = (parquet_page_encoding_stats_t*)tp_alloc(&pool, sizeof(parquet_page_encoding_stats_t) * 2);
            m->encoding_stats[0].page_type = CARQUET_PAGE_DICTIONARY; m->encoding_stats[0].encoding = CARQUET_ENCODING_PLAIN; m->encoding_stats[0].count = dcols[c].dict;
            m->encoding_stats[1].page_type = CARQUET_PAGE_DATA; m->encoding_stats[1].encoding = (carquet_encoding_t)dcols[c].dict_tag; m->encoding_stats[1].count = np;
            /* chunk statistics: true bounds of the fixed-width columns 0, 1, 3 and of the string column 2 */
            if (c <= 3 && k.nn > 0) {
                int lo = 0, hi = 0;
                for (int i = 1; i < k.nn; i++) {
                    const uint8_t* v = k.vals + 16 * (size_t)i; const uint8_t* vl = k.vals + 16 * (size_t)lo; const uint8_t* vh = k.vals + 16 * (size_t)hi;
                    int lt, gt;
                    if (c == 0) { int32_t a, b, d; memcpy(&a, v, 4); memcpy(&b, vl, 4); memcpy(&d, vh, 4); lt = a < b; gt = a > d; }
                    else if (c == 1) { int64_t a, b, d; memcpy(&a, v, 8); memcpy(&b, vl, 8); memcpy(&d, vh, 8); lt = a < b; gt = a > d; }
                    else if (c == 3) { double a, b, d; memcpy(&a, v, 8); memcpy(&b, vl, 8); memcpy(&d, vh, 8); lt = a < b; gt = a > d; }
                    else {
                        int n1 = k.vlen[i] < k.vlen[lo] ? k.vlen[i] : k.vlen[lo]; int r1 = memcmp(v, vl, (size_t)n1);
                        lt = r1 < 0 || (r1 == 0 && k.vlen[i] < k.vlen[lo]);
                        int n2 = k.vlen[i] < k.vlen[hi] ? k.vlen[i] : k.vlen[hi]; int r2 = memcmp(v, vh, (size_t)n2);
                        gt = r2 > 0 || (r2 == 0 && k.vlen[i] > k.vlen[hi]);
                    }
                    if (lt) lo = i;
                    if (gt) hi = i;
                }
                int wl = c == 2 ? k.vlen[lo] : dcol_width(c), wh = c == 2 ? k.vlen[hi] : dcol_width(c);
                m->has_statistics = true;
                m->statistics.min_value = (uint8_t*)tp_alloc(&pool, 16); memcpy(m->statistics.min_value, k.vals + 16 * (size_t)lo, 16); m->statistics.min_value_len = wl;
                m->statistics.max_value = (uint8_t*)tp_alloc(&pool, 16); memcpy(m->statistics.max_value, k.vals + 16 * (size_t)hi, 16); m->statistics.max_value_len = wh;
                if (c == 1) {    /* the deprecated pair as well */
                    m->statistics.min_deprecated = m->statistics.min_value; m->statistics.min_deprecated_len = wl;
                    m->statistics.max_deprecated = m->statistics.max_value; m->statistics.max_deprecated_len = wh;
                }
                m->statistics.has_null_count = true; m->statistics.null_count = rows - k.nn;
                m->statistics.has_distinct_count = c == 0; m->statistics.distinct_count = k.ndict;
            }
            int64_t unc_total = 0, cmp_total = 0;
            carquet_buffer_t body; carquet_buffer_init(&body);
            if (dcols[c].dict) {
                for (int d = 0; d < k.ndict; d++) {
                    if (dcols[c].type == CARQUET_PHYSICAL_BYTE_ARRAY) buf_le32(&body, (uint32_t)k.dlen[d]);
                    (void)carquet_buffer_append(&body, k.dict[d], (size_t)k.dlen[d]);
                }
                parquet_page_header_t ph; memset(&ph, 0, sizeof ph);
                ph.type = CARQUET_PAGE_DICTIONARY;
                ph.dictionary_page_header.num_values = k.ndict;
                ph.dictionary_page_header.encoding = dcols[c].dict_tag == CARQUET_ENCODING_PLAIN_DICTIONARY ? CARQUET_ENCODING_PLAIN_DICTIONARY : CARQUET_ENCODING_PLAIN;
                /* column 3 leaves dictionary_page_offset out: its dictionary page is found at data_page_offset */
                if (c != 3) { m->has_dictionary_page_offset = true; m->dictionary_page_offset = (int64_t)file.size; }
                else m->data_page_offset = (int64_t)file.size;
                ok = ok && dpage_emit(&file, &ph, &body, codec, (g + c) & 1, &unc_total, &cmp_total);
            }
            if (!(dcols[c].dict && c == 3)) m->data_page_offset = (int64_t)file.size;
            int dense = 0;
            for (int pi = 0; pi < np && ok; pi++) {
                int r0, r1; dpage_rows(rows, np, pi, &r0, &r1);
                if (r1 == r0) continue;
                carquet_buffer_clear(&body);
                int nnp = 0;
                for (int i = r0; i < r1; i++) nnp += k.defs[i] == dcols[c].max_def;
                if (dcols[c].max_def > 0) {
                    carquet_buffer_t lv; carquet_buffer_init(&lv);
                    ok = ok && carquet_rle_encode_levels(k.defs + r0, r1 - r0, bits_for(dcols[c].max_def), &lv) == CARQUET_OK;
                    buf_le32(&body, (uint32_t)lv.size);
                    (void)carquet_buffer_append(&body, lv.data, lv.size);
                    carquet_buffer_destroy(&lv);
                }
                if (dcols[c].dict) {
                    int bw = bits_for(k.ndict - 1); if (bw == 0) bw = 1;
                    (void)carquet_buffer_append_byte(&body, (uint8_t)bw);
                    ok = ok && carquet_rle_encode_all(k.idx + dense, nnp, bw, &body) == CARQUET_OK;
                } else {
                    for (int i = 0; i < nnp; i++) {
                        buf_le32(&body, (uint32_t)k.vlen[dense + i]);
                        (void)carquet_buffer_append(&body, k.vals + 16 * (size_t)(dense + i), (size_t)k.vlen[dense + i]);
                    }
                }
                dense += nnp;
                parquet_page_header_t ph; memset(&ph, 0, sizeof ph);
                ph.type = CARQUET_PAGE_DATA;
                ph.data_page_header.num_values = r1 - r0;
                ph.data_page_header.encoding = (carquet_encoding_t)dcols[c].dict_tag;
                ph.data_page_header.definition_level_encoding = CARQUET_ENCODING_RLE;
                ph.data_page_header.repetition_level_encoding = CARQUET_ENCODING_RLE;
                ok = ok && dpage_emit(&file, &ph, &body, codec, (g + c + pi) & 1, &unc_total, &cmp_total);
            }
            carquet_buffer_destroy(&body);
            m->total_uncompressed_size = unc_total; m->total_compressed_size = cmp_total;
            rgm->total_byte_size += unc_total;
            rgm->has_total_compressed_size = true; rgm->total_compressed_size += cmp_total;
            dchunk_free(&k);
        }
    }
    uint8_t* out = NULL;
    if (ok) {
        fbuf fb; memset(&fb, 0, sizeof fb);
        fe_filemeta(&fb, &md);
        uint8_t tail[8] = {(uint8_t)fb.n, (uint8_t)(fb.n >> 8), (uint8_t)(fb.n >> 16), (uint8_t)(fb.n >> 24), 'P', 'A', 'R', '1'};
        *out_len = file.size + fb.n + 8;
        out = h_alloc(*out_len);
        memcpy(out, file.data, file.size); memcpy(out + file.size, fb.p, fb.n); memcpy(out + file.size + fb.n, tail, 8);
        free(fb.p);
    }
    tp_free(&pool);
    carquet_buffer_destroy(&file);
    return out;
}

/* ---- reading the hand-built file ---------------------------------------------------------- */
/* compare what one read delivered (rows [pos, pos+got) of the chunk) with the intended chunk */
static int dchunk_check(const dchunk* k, int c, int pos, int got, const void* vals, const int16_t* defs, int want_defs) {
    int dense0 = 0, nn = 0, md = dcols[c].max_def;
    for (int i = 0; i < pos; i++) dense0 += k->defs[i] == md;
    for (int i = 0; i < got; i++) {
        if (want_defs && defs[i] != k->defs[pos + i]) return 0;
        nn += k->defs[pos + i] == md;
    }
    int w = dcol_width(c);
    for (int i = 0; i < nn; i++) {
        const uint8_t* want = k->vals + 16 * (size_t)(dense0 + i);
        if (w) { if (memcmp((const uint8_t*)vals + (size_t)w * (size_t)i, want, (size_t)w)) return 0; }
        else {
            const carquet_byte_array_t* ba = (const carquet_byte_array_t*)vals + i;
            if (ba->length != k->vlen[dense0 + i]) return 0;
            if (ba->length > 0 && (!ba->data || memcmp(ba->data, want, (size_t)ba->length))) return 0;    /* dereferences the bytes now */
        }
    }
    return 1;
}

/* column reads (variant 0: whole chunk in read_batch calls of `step` rows; variant 1: skip / read interleaved).
 * A short skip (fewer values skipped than asked for while values remain) is the way that call reports a failure:
 * it is recorded as a failed call, and the reader must then really stand `returned` values further. */
static void scn_dict_cols(const scn_params* p, int variant) {
    int cap = p->rows + 8;
    void* vals = __real_malloc((size_t)cap * 16);
    int16_t* defs = (int16_t*)__real_malloc((size_t)cap * 2);
    dchunk* ks = (dchunk*)__real_malloc(sizeof(dchunk) * (size_t)(p->rg * DCOLS));
    for (int g = 0; g < p->rg; g++) for (int c = 0; c < DCOLS; c++) dchunk_make(&ks[g * DCOLS + c], p->tseed, p->rows, g, c);
    carquet_error_t err = CARQUET_ERROR_INIT;
    int ok = 1, bad = 0;
    scn_arm(p);
    carquet_reader_t* r = scn_open(g_in_path, p->mode, g_in_buf, g_in_len, &err);
    call_recx(r == NULL, CK_OPEN, p->mode, r ? (r->mmap_info != NULL) : 0);
    if (!r) goto done;
    if (carquet_reader_num_columns(r) != DCOLS || carquet_reader_num_row_groups(r) != p->rg) { ok = 0; goto done; }
    {   /* what the parser made of the fields carquet's own writer never emits */
        const parquet_file_metadata_t* m = &r->metadata;
        if (m->num_key_value != 2 || !m->key_value_metadata || !m->key_value_metadata[0].key || strcmp(m->key_value_metadata[0].key, "writer.origin") ||
            !m->key_value_metadata[0].value || strcmp(m->key_value_metadata[0].value, "verification harness") ||
            !m->key_value_metadata[1].key || strcmp(m->key_value_metadata[1].key, "flag.only") || m->key_value_metadata[1].value) ok = 0;
        if (!m->created_by || strncmp(m->created_by, "verif-harness", 13)) ok = 0;
        for (int g = 0; ok && g < p->rg; g++) for (int c = 0; ok && c < DCOLS; c++) {
            const parquet_column_metadata_t* cm = &m->row_groups[g].columns[c].metadata;
            int pl = (c == 3 || c == 4) ? 2 : 1;
            if (cm->path_len != pl || !cm->path_in_schema) { ok = 0; break; }
            for (int i = 0; i < pl; i++) if (!cm->path_in_schema[i]) ok = 0;
            if (ok && strcmp(cm->path_in_schema[pl - 1], dcols[c].name)) ok = 0;
            if (cm->num_encodings != 3 || !cm->encodings || cm->encodings[2] != (carquet_encoding_t)dcols[c].dict_tag) ok = 0;
            if (cm->num_encoding_stats != 2 || !cm->encoding_stats || cm->encoding_stats[1].count != p->nb) ok = 0;
            if (c == 0 && (cm->num_key_value != 2 || !cm->key_value_metadata || !cm->key_value_metadata[0].key || !cm->key_value_metadata[0].value ||
                           strcmp(cm->key_value_metadata[0].value, "dictionary encoded") || !cm->key_value_metadata[1].key || cm->key_value_metadata[1].value)) ok = 0;
            if (c == 1 && !m->row_groups[g].columns[c].file_path) ok = 0;
        }
        const carquet_schema_t* sc = carquet_reader_schema(r);
        for (int c = 0; ok && c < DCOLS; c++) {
            if (carquet_schema_find_column(sc, dcols[c].name) != c) ok = 0;
            else if (sc->max_def_levels[c] != dcols[c].max_def || sc->max_rep_levels[c] != 0) ok = 0;
        }
    }
    for (int g = 0; ok && !bad && g < p->rg; g++) {
        for (int c = 0; ok && !bad && c < DCOLS; c++) {
            const dchunk* k = &ks[g * DCOLS + c];
            carquet_column_reader_t* cr = carquet_reader_get_column(r, g, c, &err);
            call_recx(cr == NULL, CK_GET_COLUMN, g * DCOLS + c, 0);
            if (!cr) { bad = 1; break; }
            int pos = 0, calls = 0;
            int step = variant == 0 ? (c % 2 ? cap : 1 + p->rows / 3) : 1 + p->rows / 5;
            while (pos < p->rows && carquet_column_has_next(cr) && calls < 40) {
                int do_skip = variant == 1 && (calls % 2 == 0);
                calls++;
                if (do_skip) {
                    int want = step + (calls % 3);
                    if (want > p->rows - pos) want = p->rows - pos;
                    int64_t before = carquet_column_remaining(cr);
                    int64_t s = carquet_column_skip(cr, want);
                    int64_t after = carquet_column_remaining(cr);
                    int shortfall = s < want;
                    call_recx(shortfall, CK_SKIP, want, s);
                    if (s < 0 || s > want || before - after != s) { ok = 0; break; }      /* the count returned must be the truth */
                    pos += (int)s;
                    if (shortfall) { bad = 1; break; }
                } else {
                    int want = step; if (want > cap) want = cap;
                    int64_t got = carquet_column_read_batch(cr, vals, want, dcols[c].max_def ? defs : NULL, NULL);
                    call_recx(got < 0, CK_READ, want, got);
                    if (got < 0) { bad = 1; break; }
                    if (got == 0) break;
                    if (got > want || pos + got > p->rows) { ok = 0; break; }
                    if (!dchunk_check(k, c, pos, (int)got, vals, defs, dcols[c].max_def > 0)) { ok = 0; break; }
                    pos += (int)got;
                }
            }
            if (ok && !bad && pos != p->rows) ok = 0;
            carquet_column_reader_free(cr);
        }
    }
done:
    if (r) carquet_reader_close(r);
    R->nreq = h_alloc_disarm();
    /* values delivered before an error must be right as well: same = 0 overrides "an error was reported" */
    if (!ok) R->same = 0; else if (R->err < 0) R->same = 1;
    for (int i = 0; i < p->rg * DCOLS; i++) dchunk_free(&ks[i]);
    free(ks); free(vals); free(defs);
}

/* batch reader over the hand-built file */
static void scn_dict_batch(const scn_params* p) {
    dchunk* ks = (dchunk*)__real_malloc(sizeof(dchunk) * (size_t)(p->rg * DCOLS));
    for (int g = 0; g < p->rg; g++) for (int c = 0; c < DCOLS; c++) dchunk_make(&ks[g * DCOLS + c], p->tseed, p->rows, g, c);
    int16_t* defs = (int16_t*)__real_malloc((size_t)(p->rows + 8) * 2);
    carquet_error_t err = CARQUET_ERROR_INIT;
    carquet_batch_reader_t* br = NULL;
    int ok = 1;
    scn_arm(p);
    carquet_reader_t* r = scn_open(g_in_path, p->mode, g_in_buf, g_in_len, &err);
    call_rec(r == NULL);
    if (!r) goto out;
    carquet_batch_reader_config_t cfg; carquet_batch_reader_config_init(&cfg);
    cfg.batch_size = p->rows + 8;
    cfg.num_threads = 1;
    br = carquet_batch_reader_create(r, &cfg, &err);
    call_rec(br == NULL);
    if (!br) goto out;
    for (int g = 0; g <= p->rg; g++) {
        carquet_row_batch_t* b = NULL;
        carquet_status_t st = carquet_batch_reader_next(br, &b);
        if (g == p->rg) { call_rec(st != CARQUET_ERROR_END_OF_DATA); if (b) carquet_row_batch_free(b); break; }
        call_rec(st != CARQUET_OK);
        if (st != CARQUET_OK) break;
        int64_t nrows = carquet_row_batch_num_rows(b);
        if (nrows != p->rows || carquet_row_batch_num_columns(b) != DCOLS) ok = 0;
        for (int c = 0; ok && c < DCOLS; c++) {
            const dchunk* k = &ks[g * DCOLS + c];
            const void* data = NULL; const uint8_t* bm = NULL; int64_t nv = 0;
            if (carquet_row_batch_column(b, c, &data, &bm, &nv) != CARQUET_OK || nv != nrows || !data || !bm) { ok = 0; break; }
            /* the bitmap says "null" exactly where the definition level is below the maximum */
            for (int i = 0; i < nv; i++) {
                int isnull = (bm[i / 8] >> (i % 8)) & 1;
                if (isnull != (k->defs[i] != dcols[c].max_def)) ok = 0;
                defs[i] = k->defs[i];
            }
            if (ok && !dchunk_check(k, c, 0, (int)nv, data, defs, 0)) ok = 0;
        }
        carquet_row_batch_free(b);
    }
out:
    if (br) carquet_batch_reader_free(br);
    if (r) carquet_reader_close(r);
    R->nreq = h_alloc_disarm();
    if (!ok) R->same = 0; else if (R->err < 0) R->same = 1;
    for (int i = 0; i < p->rg * DCOLS; i++) dchunk_free(&ks[i]);
    free(ks); free(defs);
}

/* statistics API over the hand-built file: the chunk statistics are parsed during open (arena copies of the
 * min/max byte strings); the API calls themselves do not allocate.  The digest covers everything they return. */
static void scn_dict_stats(const scn_params* p) {
    carquet_error_t err = CARQUET_ERROR_INIT;
    uint64_t d = fnv_init();
    int ok = 1;
    scn_arm(p);
    carquet_reader_t* r = scn_open(g_in_path, p->mode, g_in_buf, g_in_len, &err);
    call_rec(r == NULL);
    if (!r) goto out;
    for (int g = 0; g < p->rg; g++) {
        for (int c = 0; c < DCOLS; c++) {
            carquet_column_statistics_t cs; memset(&cs, 0, sizeof cs);
            carquet_status_t st = carquet_reader_column_statistics(r, g, c, &cs);
            call_rec(st != CARQUET_OK);
            if (st != CARQUET_OK) goto out;
            d = fnv_u64(d, (uint64_t)cs.has_min_max | (uint64_t)cs.has_null_count << 1 | (uint64_t)cs.has_distinct_count << 2);
            d = fnv_u64(d, (uint64_t)cs.null_count); d = fnv_u64(d, (uint64_t)cs.num_values);
            if (cs.has_min_max) {
                if (!cs.min_value || !cs.max_value || cs.min_value_size < 0 || cs.max_value_size < 0) { ok = 0; goto out; }
                d = fnv_u64(d, (uint64_t)cs.min_value_size); d = fnv_add(d, cs.min_value, (size_t)cs.min_value_size);
                d = fnv_u64(d, (uint64_t)cs.max_value_size); d = fnv_add(d, cs.max_value, (size_t)cs.max_value_size);
            }
            if ((c == 0 || c == 1 || c == 3) && !cs.has_min_max) ok = 0;     /* the file carries them (an empty string minimum counts as absent) */
        }
    }
    {
        /* predicates on column 0 (INT32): a probe inside the first group's range, and one above everything */
        dchunk k;
        for (int which = 0; which < 2; which++) {
            int32_t probe = 0x7fffffff;
            if (which == 0) { probe = 0; }
            (void)k;
            for (int op = 0; op < 6; op++) {
                for (int g = 0; g < p->rg; g++) {
                    bool mm = false;
                    carquet_status_t st = carquet_reader_row_group_matches(r, g, 0, (carquet_compare_op_t)op, &probe, 4, &mm);
                    call_rec(st != CARQUET_OK);
                    if (st != CARQUET_OK) goto out;
                    d = fnv_u64(d, (uint64_t)mm);
                }
                int32_t idx[8]; memset(idx, 0xff, sizeof idx);
                int32_t n = carquet_reader_filter_row_groups(r, 0, (carquet_compare_op_t)op, &probe, 4, idx, 8);
                call_rec(n < 0);
                if (n < 0) goto out;
                d = fnv_u64(d, (uint64_t)n);
                for (int i = 0; i < n && i < 8; i++) d = fnv_u64(d, (uint64_t)idx[i]);
            }
        }
    }
out:
    if (r) carquet_reader_close(r);
    R->nreq = h_alloc_disarm();
    R->digest = d;
    if (!ok) R->same = 0; else if (R->err < 0) R->same = 1;       /* and the parent compares the digest with the fault-free run */
}

/* ------------------------------------------------------------------------------------------ */
/* Bloom filter API                                                                             */
/* ------------------------------------------------------------------------------------------ */
static void scn_bloom(const scn_params* p) {
    int n = p->rows;
    uint64_t s = p->tseed * 31 + 7;
    int32_t* v32 = (int32_t*)__real_malloc(4 * (size_t)n); int64_t* v64 = (int64_t*)__real_malloc(8 * (size_t)n);
    double* vd = (double*)__real_malloc(8 * (size_t)n); uint8_t* vb = (uint8_t*)__real_malloc(16 * (size_t)n);
    for (int i = 0; i < n; i++) {
        v32[i] = (int32_t)sm_next(&s); v64[i] = (int64_t)sm_next(&s); vd[i] = (double)(int32_t)sm_next(&s) / 3.0;
        for (int j = 0; j < 16; j++) vb[16 * i + j] = (uint8_t)sm_next(&s);
    }
    size_t nbytes = (size_t)(32 * (1 + p->shape));
    uint8_t* ser = (uint8_t*)__real_malloc(nbytes + 64);
    carquet_bloom_filter_t *f = NULL, *f2 = NULL, *f3 = NULL;
    uint64_t d = fnv_init();
    int ok = 1;
    scn_arm(p);
    f = p->mode ? carquet_bloom_filter_create_with_ndv(n * 4, 0.01) : carquet_bloom_filter_create(nbytes);
    call_rec(f == NULL);
    if (!f) goto out;
    for (int i = 0; i < n; i++) {
        carquet_bloom_filter_insert_i32(f, v32[i]); carquet_bloom_filter_insert_i64(f, v64[i]);
        carquet_bloom_filter_insert_double(f, vd[i]); carquet_bloom_filter_insert_bytes(f, vb + 16 * i, (size_t)(i % 17));
    }
    for (int i = 0; i < n; i++)
        if (!carquet_bloom_filter_check_i32(f, v32[i]) || !carquet_bloom_filter_check_i64(f, v64[i]) ||
            !carquet_bloom_filter_check_double(f, vd[i]) || !carquet_bloom_filter_check_bytes(f, vb + 16 * i, (size_t)(i % 17))) ok = 0;
    size_t fsz = carquet_bloom_filter_size(f);
    if (p->mode) { free(ser); ser = (uint8_t*)__real_malloc(fsz + 64); }
    size_t written = 0;
    carquet_status_t st = carquet_bloom_filter_write(f, ser, fsz, &written);
    call_rec(st != CARQUET_OK);
    if (st != CARQUET_OK) goto out;
    if (written != fsz) ok = 0;
    d = fnv_add(d, ser, written);
    st = carquet_bloom_filter_read(&f2, ser, written);
    call_rec(st != CARQUET_OK);
    if (st != CARQUET_OK) { f2 = NULL; goto out; }
    for (int i = 0; i < n; i++) if (!carquet_bloom_filter_check_i64(f2, v64[i]) || !carquet_bloom_filter_check_bytes(f2, vb + 16 * i, (size_t)(i % 17))) ok = 0;
    f3 = carquet_bloom_filter_create(fsz);
    call_rec(f3 == NULL);
    if (!f3) goto out;
    carquet_bloom_filter_insert_i32(f3, 12345);
    st = carquet_bloom_filter_merge(f3, f2);
    call_rec(st != CARQUET_OK);
    if (st != CARQUET_OK) goto out;
    if (!carquet_bloom_filter_check_i32(f3, 12345)) ok = 0;
    for (int i = 0; i < n; i++) if (!carquet_bloom_filter_check_i32(f3, v32[i]) || !carquet_bloom_filter_check_double(f3, vd[i])) ok = 0;
    {
        size_t w3 = 0;
        uint8_t* ser3 = (uint8_t*)__real_malloc(fsz + 1);
        if (carquet_bloom_filter_write(f3, ser3, fsz, &w3) == CARQUET_OK) d = fnv_add(d, ser3, w3); else ok = 0;
        free(ser3);
    }
out:
    carquet_bloom_filter_destroy(f); carquet_bloom_filter_destroy(f2); carquet_bloom_filter_destroy(f3);
    R->nreq = h_alloc_disarm();
    R->digest = d;
    if (!ok) R->same = 0; else if (R->err < 0) R->same = 1;
    free(v32); free(v64); free(vd); free(vb); free(ser);
}

/* ------------------------------------------------------------------------------------------ */
/* statistics builder                                                                           */
/* ------------------------------------------------------------------------------------------ */
static uint64_t stats_digest(uint64_t d, const parquet_statistics_t* s) {
    d = fnv_u64(d, (uint64_t)s->has_null_count); d = fnv_u64(d, (uint64_t)s->null_count);
    d = fnv_u64(d, (uint64_t)s->has_distinct_count);
    d = fnv_u64(d, s->min_value ? 1 + (uint64_t)s->min_value_len : 0); if (s->min_value) d = fnv_add(d, s->min_value, (size_t)s->min_value_len);
    d = fnv_u64(d, s->max_value ? 1 + (uint64_t)s->max_value_len : 0); if (s->max_value) d = fnv_add(d, s->max_value, (size_t)s->max_value_len);
    d = fnv_u64(d, (uint64_t)s->has_is_min_value_exact | (uint64_t)s->is_min_value_exact << 1 | (uint64_t)s->has_is_max_value_exact << 2 | (uint64_t)s->is_max_value_exact << 3);
    return d;
}
static void scn_statsb(const scn_params* p) {
    int n = p->rows;
    uint64_t s = p->tseed * 131 + 3;
    int64_t* v64 = (int64_t*)__real_malloc(8 * (size_t)n);
    carquet_byte_array_t* ba = (carquet_byte_array_t*)__real_malloc(sizeof(carquet_byte_array_t) * (size_t)n);
    uint8_t* bytes = (uint8_t*)__real_malloc(16 * (size_t)n);
    for (int i = 0; i < n; i++) {
        v64[i] = (int64_t)sm_next(&s);
        int len = 1 + (int)(sm_next(&s) % 15);
        for (int j = 0; j < len; j++) bytes[16 * i + j] = (uint8_t)('a' + sm_next(&s) % 26);
        ba[i].data = bytes + 16 * i; ba[i].length = len;
    }
    {   /* lengths of the smallest and the largest string (unsigned lexicographic order) */
        int lo = 0, hi = 0;
        for (int i = 1; i < n; i++) {
            int m1 = ba[i].length < ba[lo].length ? ba[i].length : ba[lo].length; int r1 = memcmp(ba[i].data, ba[lo].data, (size_t)m1);
            if (r1 < 0 || (r1 == 0 && ba[i].length < ba[lo].length)) lo = i;
            int m2 = ba[i].length < ba[hi].length ? ba[i].length : ba[hi].length; int r2 = memcmp(ba[i].data, ba[hi].data, (size_t)m2);
            if (r2 > 0 || (r2 == 0 && ba[i].length > ba[hi].length)) hi = i;
        }
        R->naux = 2; R->aux[0] = ba[lo].length; R->aux[1] = ba[hi].length;
    }
    carquet_statistics_builder_t *b1 = NULL, *b2 = NULL;
    carquet_arena_t ar; int have_arena = 0;
    parquet_statistics_t s1, s2, s3; memset(&s1, 0, sizeof s1); memset(&s2, 0, sizeof s2); memset(&s3, 0, sizeof s3);
    int built2 = 0;
    uint64_t d = fnv_init();
    int ok = 1;
    /* the arena is nearly full (`shape` bytes left in its first block), so that the builder's copies of min and max need a
     * second block: a malloc-level failure can then hit carquet_arena_memdup */
    if (carquet_arena_init(&ar) == CARQUET_OK) {
        have_arena = 1;
        size_t left = (size_t)p->shape;
        size_t fill = CARQUET_ARENA_DEFAULT_BLOCK_SIZE > left + 16 ? CARQUET_ARENA_DEFAULT_BLOCK_SIZE - left - 16 : 0;
        if (fill) (void)carquet_arena_alloc_aligned(&ar, fill, 1);
    }
    scn_arm(p);
    b1 = carquet_statistics_builder_create(CARQUET_PHYSICAL_INT64, 0);
    call_rec(b1 == NULL);
    if (!b1) goto out;
    b2 = carquet_statistics_builder_create(CARQUET_PHYSICAL_BYTE_ARRAY, 0);
    call_rec(b2 == NULL);
    if (!b2) goto out;
    carquet_status_t st = carquet_statistics_add_values(b1, v64, n);
    call_rec(st != CARQUET_OK);
    if (st != CARQUET_OK) goto out;
    carquet_statistics_add_nulls(b1, 3);
    st = carquet_statistics_add_byte_arrays(b2, ba, n);
    call_rec(st != CARQUET_OK);
    if (st != CARQUET_OK) goto out;
    st = carquet_statistics_build(b1, have_arena ? &ar : NULL, &s1);         /* copies go to the arena */
    call_rec(st != CARQUET_OK);
    if (st != CARQUET_OK) goto out;
    d = stats_digest(d, &s1);
    if (!s1.min_value || !s1.max_value || s1.null_count != 3) ok = 0;
    st = carquet_statistics_build(b2, NULL, &s2);                            /* copies are malloc'ed: the caller frees them */
    call_rec(st != CARQUET_OK);
    built2 = st == CARQUET_OK;
    if (st != CARQUET_OK) goto out;
    d = stats_digest(d, &s2);
    if (!s2.min_value || !s2.max_value) ok = 0;
    st = carquet_statistics_build(b2, have_arena ? &ar : NULL, &s3);
    call_rec(st != CARQUET_OK);
    if (st != CARQUET_OK) goto out;
    d = stats_digest(d, &s3);
    if (!s3.min_value || !s3.max_value) ok = 0;
out:
    (void)built2;
    /* statistics built without an arena belong to the caller, also when build reported an error half-way */
    free(s2.min_value); free(s2.max_value);
    carquet_statistics_builder_destroy(b1); carquet_statistics_builder_destroy(b2);
    R->nreq = h_alloc_disarm();
    if (have_arena) carquet_arena_destroy(&ar);
    R->digest = d;
    if (!ok) R->same = 0; else if (R->err < 0) R->same = 1;
    free(v64); free(ba); free(bytes);
}

/* ------------------------------------------------------------------------------------------ */
/* page index builders                                                                          */
/* ------------------------------------------------------------------------------------------ */
static void scn_pgidx(const scn_params* p) {
    int np = p->rows;                       /* pages: > 16 so that both builders grow (twice when > 32) */
    uint64_t s = p->tseed * 17 + 11;
    int64_t* mins = (int64_t*)__real_malloc(8 * (size_t)np); int64_t* maxs = (int64_t*)__real_malloc(8 * (size_t)np);
    for (int i = 0; i < np; i++) { int64_t a = (int64_t)(sm_next(&s) % 100000), b = a + (int64_t)(sm_next(&s) % 1000); mins[i] = a; maxs[i] = b; }
    carquet_column_index_builder_t* ci = NULL; carquet_offset_index_builder_t* oi = NULL;
    carquet_buffer_t out1, out2; carquet_buffer_init(&out1); carquet_buffer_init(&out2);
    uint64_t d = fnv_init();
    int ok = 1;
    {   /* sizes of the two serialisations (fault-free, before arming): the request-count model needs them */
        carquet_column_index_builder_t* c0 = carquet_column_index_builder_create(CARQUET_PHYSICAL_INT64, 0);
        carquet_offset_index_builder_t* o0 = carquet_offset_index_builder_create(p->mode != 0);
        if (c0 && o0) {
            for (int i = 0; i < np; i++) {
                int nullpage = (i % 7) == 6;
                (void)carquet_column_index_add_page(c0, i % 5, nullpage ? NULL : &mins[i], 8, nullpage ? NULL : &maxs[i], 8, nullpage);
                (void)carquet_offset_index_add_page(o0, 4 + 1000 * (int64_t)i, 900 + i, 10 * (int64_t)i, 1800 + i);
            }
            (void)carquet_column_index_serialize(c0, &out1); (void)carquet_offset_index_serialize(o0, &out2);
            R->naux = 2; R->aux[0] = (long)out1.size; R->aux[1] = (long)out2.size;
        }
        carquet_column_index_builder_destroy(c0); carquet_offset_index_builder_destroy(o0);
        carquet_buffer_destroy(&out1); carquet_buffer_destroy(&out2);
        carquet_buffer_init(&out1); carquet_buffer_init(&out2);
    }
    scn_arm(p);
    ci = carquet_column_index_builder_create(CARQUET_PHYSICAL_INT64, 0);
    call_rec(ci == NULL);
    if (!ci) goto out;
    oi = carquet_offset_index_builder_create(p->mode != 0);
    call_rec(oi == NULL);
    if (!oi) goto out;
    for (int i = 0; i < np; i++) {
        int nullpage = (i % 7) == 6;
        carquet_status_t st = carquet_column_index_add_page(ci, i % 5, nullpage ? NULL : &mins[i], 8, nullpage ? NULL : &maxs[i], 8, nullpage);
        call_rec(st != CARQUET_OK);
        if (st != CARQUET_OK) goto out;
        st = carquet_offset_index_add_page(oi, 4 + 1000 * (int64_t)i, 900 + i, 10 * (int64_t)i, 1800 + i);
        call_rec(st != CARQUET_OK);
        if (st != CARQUET_OK) goto out;
    }
    carquet_column_index_set_boundary_order(ci, 0);
    {
        carquet_status_t st = carquet_column_index_serialize(ci, &out1);
        call_rec(st != CARQUET_OK);
        if (st != CARQUET_OK) goto out;
        d = fnv_u64(d, out1.size); d = fnv_add(d, out1.data, out1.size);
        st = carquet_offset_index_serialize(oi, &out2);
        call_rec(st != CARQUET_OK);
        if (st != CARQUET_OK) goto out;
        d = fnv_u64(d, out2.size); d = fnv_add(d, out2.data, out2.size);
        for (int i = 0; i < np; i += 3) {
            bool mm = false; int64_t lo = 500, hi = 60000;
            st = carquet_column_index_page_might_match(ci, i, &lo, &hi, 8, &mm);
            if (st != CARQUET_OK) ok = 0;
            d = fnv_u64(d, (uint64_t)mm);
        }
    }
out:
    carquet_column_index_builder_destroy(ci); carquet_offset_index_builder_destroy(oi);
    carquet_buffer_destroy(&out1); carquet_buffer_destroy(&out2);
    R->nreq = h_alloc_disarm();
    R->digest = d;
    if (!ok) R->same = 0; else if (R->err < 0) R->same = 1;
    free(mins); free(maxs);
}

/* ------------------------------------------------------------------------------------------ */
/* schema builder with groups                                                                   */
/* ------------------------------------------------------------------------------------------ */
static void scn_schemag(const scn_params* p) {
    int n = 70 + p->rows;                  /* elements beyond the initial capacity of 64 */
    long namelen = 4 + (p->shape > 0 ? p->shape : 0);
    static char name[NAMECAP];
    carquet_error_t err = CARQUET_ERROR_INIT;
    int* isgroup = (int*)__real_malloc(sizeof(int) * (size_t)n);
    scn_arm(p);
    carquet_schema_t* s = carquet_schema_create(&err);
    call_rec(s == NULL);
    int failed = 0;
    if (s) {
        for (int i = 0; i < n && !failed; i++) {
            make_name(name, i, namelen);
            isgroup[i] = (i % 4) == 1;
            if (isgroup[i]) {
                int32_t e = carquet_schema_add_group(s, name, (carquet_field_repetition_t)(i % 3), i % 8 == 1 ? -1 : 0);
                call_rec(e < 0);
                if (e < 0) failed = 1;
                else if (e != i + 1) { R->same = 0; }
            } else {
                carquet_status_t st = carquet_schema_add_column(s, name, CARQUET_PHYSICAL_INT64, NULL, (carquet_field_repetition_t)(i % 3), 0);
                call_rec(st != CARQUET_OK);
                if (st != CARQUET_OK) failed = 1;
            }
        }
    }
    R->nreq = h_alloc_disarm();
    if (s && R->err < 0 && R->same != 0) {
        int ok = carquet_schema_num_elements(s) == n + 1;
        int leaves = 0;
        for (int i = 0; ok && i < n; i++) {
            make_name(name, i, namelen);
            const carquet_schema_node_t* nd = carquet_schema_get_element(s, i + 1);
            const char* nm = nd ? carquet_schema_node_name(nd) : NULL;
            if (!nm || strcmp(nm, name)) ok = 0;
            else if (carquet_schema_node_is_leaf(nd) != !isgroup[i]) ok = 0;
            else if ((int)carquet_schema_node_repetition(nd) != i % 3) ok = 0;
            else if (!isgroup[i] && carquet_schema_find_column(s, name) != leaves) ok = 0;
            leaves += !isgroup[i];
        }
        if (ok && carquet_schema_num_columns(s) != leaves) ok = 0;
        R->same = ok;
    }
    if (s) carquet_schema_free(s);
    free(isgroup);
}

/* ------------------------------------------------------------------------------------------ */
/* write with a REPEATED column                                                                 */
/* ------------------------------------------------------------------------------------------ */
static uint64_t file_bytes_digest(const char* path, int* ok) {
    uint64_t d = fnv_init();
    FILE* f = fopen(path, "rb");
    *ok = 0;
    if (!f) return d;
    uint8_t buf[4096]; size_t n, total = 0;
    while ((n = fread(buf, 1, sizeof buf, f)) > 0) { d = fnv_add(d, buf, n); total += n; }
    fclose(f);
    d = fnv_u64(d, total);
    *ok = total >= 12;
    return d;
}
/* number of values of the REPEATED column and of non-null strings (the same generator walk as scn_wrep) */
static void wrep_counts(uint64_t tseed, int rows, int* n1o, int* n2o) {
    uint64_t sd = tseed * 911 + 13;
    int n1 = 0, n2 = 0;
    for (int i = 0; i < rows; i++) {
        (void)sm_next(&sd);
        int cnt = 1 + (int)(sm_next(&sd) % 3);
        for (int j = 0; j < cnt; j++) { (void)sm_next(&sd); n1++; }
        if (i & 1) { int len = (int)(sm_next(&sd) % 12); for (int j = 0; j < len; j++) (void)sm_next(&sd); n2++; }
    }
    *n1o = n1; *n2o = n2;
}
static void scn_wrep(const scn_params* p) {
    int rows = p->rows;
    uint64_t sd = p->tseed * 911 + 13;
    /* column 0: INT32 REQUIRED (one value per row); column 1: INT32 REPEATED (0..3 values per row, rep level 0 opens a row);
     * column 2: BYTE_ARRAY OPTIONAL */
    int32_t* c0 = (int32_t*)__real_malloc(4 * (size_t)rows);
    int32_t* c1 = (int32_t*)__real_malloc(4 * (size_t)rows * 4); int16_t* r1 = (int16_t*)__real_malloc(2 * (size_t)rows * 4); int n1 = 0;
    carquet_byte_array_t* c2 = (carquet_byte_array_t*)__real_malloc(sizeof(carquet_byte_array_t) * (size_t)rows);
    int16_t* d2 = (int16_t*)__real_malloc(2 * (size_t)rows); uint8_t* strs = (uint8_t*)__real_malloc(16 * (size_t)rows); int n2 = 0;
    for (int i = 0; i < rows; i++) {
        c0[i] = (int32_t)sm_next(&sd);
        int cnt = 1 + (int)(sm_next(&sd) % 3);
        for (int j = 0; j < cnt; j++) { c1[n1] = (int32_t)sm_next(&sd); r1[n1] = j ? 1 : 0; n1++; }
        d2[i] = (int16_t)(i & 1);
        if (d2[i]) { int len = (int)(sm_next(&sd) % 12); for (int j = 0; j < len; j++) strs[16 * n2 + j] = (uint8_t)('a' + sm_next(&sd) % 26); c2[n2].data = strs + 16 * n2; c2[n2].length = len; n2++; }
    }
    carquet_writer_options_t opt; carquet_writer_options_init(&opt);
    opt.compression = (carquet_compression_t)p->codec;
    if (p->nb > 1) opt.page_size = 64;
    carquet_error_t err = CARQUET_ERROR_INIT;
    carquet_writer_t* w = NULL; carquet_schema_t* s = NULL;
    carquet_status_t st = CARQUET_OK;
    int closed = 0;
    scn_arm(p);
    s = carquet_schema_create(&err);
    call_rec(s == NULL);
    if (!s) goto out;
    {
        int32_t ge = carquet_schema_add_group(s, "meta", CARQUET_REPETITION_OPTIONAL, -1);
        call_rec(ge < 0);
        if (ge < 0) goto out;
        st = carquet_schema_add_column(s, "id", CARQUET_PHYSICAL_INT32, NULL, CARQUET_REPETITION_REQUIRED, 0);
        call_rec(st != CARQUET_OK); if (st != CARQUET_OK) goto out;
        st = carquet_schema_add_column(s, "tags", CARQUET_PHYSICAL_INT32, NULL, CARQUET_REPETITION_REPEATED, 0);
        call_rec(st != CARQUET_OK); if (st != CARQUET_OK) goto out;
        st = carquet_schema_add_column(s, "note", CARQUET_PHYSICAL_BYTE_ARRAY, NULL, CARQUET_REPETITION_OPTIONAL, 0);
        call_rec(st != CARQUET_OK); if (st != CARQUET_OK) goto out;
    }
    w = carquet_writer_create(g_tmp_path, s, &opt, &err);
    call_rec(w == NULL);
    if (!w) goto out;
    for (int g = 0; g < p->rg; g++) {
        int nbat = p->nb > 1 ? p->nb : 1;
        for (int bi = 0; bi < nbat; bi++) {
            int a = rows * bi / nbat, b = rows * (bi + 1) / nbat;
            if (a == b) continue;
            st = carquet_writer_write_batch(w, 0, c0 + a, b - a, NULL, NULL);
            call_rec(st != CARQUET_OK); if (st != CARQUET_OK) goto out;
        }
        st = carquet_writer_write_batch(w, 1, c1, n1, NULL, r1);
        call_rec(st != CARQUET_OK); if (st != CARQUET_OK) goto out;
        st = carquet_writer_write_batch(w, 2, c2, rows, d2, NULL);
        call_rec(st != CARQUET_OK); if (st != CARQUET_OK) goto out;
        if (g + 1 < p->rg) { st = carquet_writer_new_row_group(w); call_rec(st != CARQUET_OK); if (st != CARQUET_OK) goto out; }
    }
    st = carquet_writer_close(w);
    call_rec(st != CARQUET_OK);
    closed = 1;
out:
    if (w && !closed) { if (p->cleanup) (void)carquet_writer_close(w); else carquet_writer_abort(w); }
    if (s) carquet_schema_free(s);
    R->nreq = h_alloc_disarm();
    if (R->err < 0) { int ok = 0; R->digest = file_bytes_digest(g_tmp_path, &ok); R->same = ok; }   /* the parent compares with the fault-free file */
    free(c0); free(c1); free(r1); free(c2); free(d2); free(strs);
}

#endif
