/* C07: what ops_par.c (files from carquet's own writer) and ops_pardict.c (dictionary-encoded files from the Lean
 * reference writer) share: the CARQUET_VERIF event recorder, the seeded schedule perturbation, the thread pools.
 * All definitions live in ops_par.c (the library has ONE callback `carquet_verif_event`). */
#ifndef VERIF_OPS_PAR_SHARED_H
#define VERIF_OPS_PAR_SHARED_H
#include "common.h"
#include <pthread.h>

/* keep the global names of this component out of everybody else's way */
#define mix64 par_mix64
#define fnv par_fnv
#define fnv_u64 par_fnv_u64
#define scratch_dir par_scratch_dir
#define slurp par_slurp
#define rec_begin par_rec_begin
#define rec_end par_rec_end
#define print_trace par_print_trace
#define trace_threads par_trace_threads
#define pool_run par_pool_run
#define g_ev par_g_ev
#define g_nev par_g_nev
#define g_crit_sched par_g_crit_sched
#define g_ipool par_g_ipool
#define g_rpool par_g_rpool

/* one recorded event.  Sites: 1 fseek (a = offset, b = position before), 2 fread (a = bytes requested, b = position
 * before), 3 lazy initialiser begins, 4 lazy table complete, 5 entered an `omp critical` section (recorded while the
 * lock is held), 6 about to leave it (lock still held).  Sites 0 (I/O yield point), 7 (about to enter a critical
 * section) and 8 (just left one) are schedule points only and are never recorded. */
typedef struct { int thread; int site; const void* obj; long a, b; } par_ev;
#define PAR_EV_CAP 400000
extern par_ev* g_ev;
extern long g_nev;
extern int g_crit_sched;       /* perturb at sites 7/8 too */

void carquet_verif_event(int site, const void* object, long a, long b);
void rec_begin(int record, int sched_on, uint64_t sched_seed);
void rec_end(void);
void print_trace(FILE* f, const char* key);
int trace_threads(void);

uint64_t mix64(uint64_t z);
uint64_t fnv(uint64_t h, const uint8_t* p, size_t n);
uint64_t fnv_u64(uint64_t h, uint64_t v);
#define FNV0 0xCBF29CE484222325ull
const char* scratch_dir(void);
uint8_t* slurp(const char* path, long* n);

#define PAR_MAXN 16
typedef struct { pthread_t th; pthread_mutex_t mu; pthread_cond_t cv; void* (*fn)(void*); void* arg; int has_job, started; } pool_thr;
extern pool_thr g_ipool[2][PAR_MAXN];   /* independent readers, by num_threads class (1, >1) */
extern pool_thr g_rpool[8];             /* batch reader: one thread per num_threads value */
void pool_run(pool_thr* pool, int n, void* (*fn)(void*), void** args);

#endif
