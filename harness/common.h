/*
 * Correspondence harness for carquet: shared helpers.
 * Every component file (ops_*.c) registers one generator and one replayer.
 * Line syntax (mirrors lean/Carquet/Util.lean):  op k=v k=v | k=v k=v
 *   left of '|'  : inputs of the operation
 *   right of '|' : what the real code returned (and C-side property verdicts, p_<name>=0/1)
 * Byte strings are x<hex> (empty: x); lists are comma separated (empty: -).
 */
#ifndef VERIF_HARNESS_COMMON_H
#define VERIF_HARNESS_COMMON_H
#include <stdint.h>
#include <stddef.h>
#include <stdio.h>
#include <stdlib.h>
#include <string.h>
#include <stdbool.h>

typedef struct {
    uint64_t rng;          /* splitmix64 state; the only source of randomness */
    int thorough;          /* tier */
    FILE* out;             /* op lines */
    uint64_t seed;         /* --seed as given */
    int shards;            /* this process is one of `shards` parallel ones (distinct seeds): divide case counts */
    long budget;           /* number of generated cases wanted for this tier (component scales it) */
    /* distribution statistics, printed as "#stat key value" lines at the end */
    long n_lines;
    const char* in_path;   /* --in FILE: inputs produced by the Lean side (components with a pregen step) */
} hctx;

/* hang detector for forked children: fires after `cpu_s` seconds of CPU time consumed by this process (user + system),
 * so a loaded machine or a slow sanitizer allocation does not look like a hang; wall-clock backstop 30x. */
#include <sys/time.h>
#include <signal.h>
#include <unistd.h>
static inline void h_cpu_alarm(int cpu_s, void (*handler)(int)) {
    struct itimerval it; memset(&it, 0, sizeof it); it.it_value.tv_sec = cpu_s;
    signal(SIGPROF, handler); setitimer(ITIMER_PROF, &it, NULL);
    signal(SIGALRM, handler); alarm((unsigned)cpu_s * 30u);
}
static inline void h_cpu_alarm_off(void) {
    struct itimerval it; memset(&it, 0, sizeof it); setitimer(ITIMER_PROF, &it, NULL); alarm(0);
}

static inline uint64_t h_next(hctx* h) {
    uint64_t z = (h->rng += 0x9E3779B97F4A7C15ull);
    z = (z ^ (z >> 30)) * 0xBF58476D1CE4E5B9ull;
    z = (z ^ (z >> 27)) * 0x94D049BB133111EBull;
    return z ^ (z >> 31);
}
static inline uint64_t h_below(hctx* h, uint64_t n) { return n ? h_next(h) % n : 0; }
static inline int h_chance(hctx* h, int num, int den) { return (int)h_below(h, (uint64_t)den) < num; }

/* Call after printing the input part of a line and before touching the real code: if the
 * real code then aborts (sanitizer, signal), the unfinished last line names the input. */
static void h_watchdog_fire(int sig) {
    (void)sig;
    static const char m[] = "\nverif-harness: the operation on the unfinished last line used up its CPU-time budget (hang)\n";
    if (write(2, m, sizeof m - 1) < 0) { }
    _exit(78);
}
/* Every operation also gets a CPU-time budget (process CPU time, all threads; 300 s in the quick tier, 1500 s in the thorough
 * tier - two orders of magnitude above what any operation needs): a decoder that never returns ends the run here, with the
 * unfinished line as the failing input, instead of waiting for the orchestrator's component timeout.  Forked children set
 * their own, tighter timers (h_cpu_alarm); a parent blocked in waitpid uses no CPU. */
static inline void h_call(hctx* h) {
    fflush(h->out);
    struct itimerval it; memset(&it, 0, sizeof it); it.it_value.tv_sec = h->thorough ? 1500 : 300;
    signal(SIGPROF, h_watchdog_fire); setitimer(ITIMER_PROF, &it, NULL);
}

/* exact-size heap buffer (so that ASan sees a one-byte overrun); size 0 gives a valid 1-byte
 * allocation whose single byte is poisoned by never being declared to the callee */
static inline uint8_t* h_alloc(size_t n) {
    uint8_t* p = (uint8_t*)malloc(n ? n : 1);
    if (!p) { fprintf(stderr, "harness: out of memory\n"); exit(3); }
    return p;
}

static inline void h_hex(FILE* f, const uint8_t* p, size_t n) {
    static const char d[] = "0123456789abcdef";
    fputc('x', f);
    for (size_t i = 0; i < n; i++) { fputc(d[p[i] >> 4], f); fputc(d[p[i] & 15], f); }
}

/* fill with a seeded pattern: kind 0 random, 1 zeros, 2 0xff, 3 repetitive, 4 ramp */
static inline void h_fill(hctx* h, uint8_t* p, size_t n, int kind) {
    uint8_t a = (uint8_t)h_next(h), b = (uint8_t)h_next(h);
    size_t per = 1 + (size_t)h_below(h, 7);
    for (size_t i = 0; i < n; i++) {
        switch (kind) {
        case 0: p[i] = (uint8_t)h_next(h); break;
        case 1: p[i] = 0; break;
        case 2: p[i] = 0xff; break;
        case 3: p[i] = (i % per) ? a : b; break;
        default: p[i] = (uint8_t)(a + i); break;
        }
    }
}

/* ---- replay support: parse one op line ---- */
typedef struct { char* key; char* val; } h_kv;
typedef struct { char* op; h_kv in[400]; int n_in; h_kv out[400]; int n_out; char* storage; } h_line;
int h_parse_line(const char* s, h_line* l);              /* 0 ok */
void h_free_line(h_line* l);
const char* h_in(const h_line* l, const char* key);       /* NULL if absent */
uint8_t* h_unhex(const char* v, size_t* n);               /* malloc'ed exact size */
long long h_ll(const char* v);
int64_t* h_list(const char* v, size_t* n);                /* comma list, '-' empty */

/* ---- allocation fault injection (alloc_wrap.c) ---- */
void h_alloc_arm(long fail_at);   /* start counting requests; the fail_at-th (1-based) returns NULL; 0 = count only */
long h_alloc_disarm(void);        /* stop; returns the number of requests seen */
void h_alloc_arm_set(const long* idx, int n);  /* same, failing every request whose 1-based index is listed (array must outlive the armed phase) */
void h_alloc_arm_arena(long fail_at);  /* count arena requests (made from outside arena.c) instead; the fail_at-th returns NULL */
long h_alloc_seen(void);          /* requests seen so far since arming (does not stop) */
extern long h_alloc_fired;        /* cumulative number of injected failures */
#define H_ALLOC_MAX_PCS 24
extern void* h_alloc_fail_pcs[H_ALLOC_MAX_PCS];  /* return addresses of the first failed request since arming */
extern int h_alloc_fail_npcs;
extern long h_alloc_first_fired_at;              /* index of that request (0: none fired since arming) */
extern int h_alloc_report_fd;                    /* >= 0: {tag 1, index, npcs, pcs[]} of that request is written to this fd when it fires */

/* ---- component registry ---- */
typedef void (*h_gen_fn)(hctx* h);
typedef int (*h_replay_fn)(hctx* h, const h_line* l);     /* 1 if the op was handled */
typedef struct { const char* name; h_gen_fn gen; h_replay_fn replay; } h_component;
extern const h_component* const h_components[];
extern const int h_n_components;

#endif
