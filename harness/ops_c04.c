/* C04: no input file can make the reader memory-unsafe, hang or leak.
 *
 *   c04 mode=<0 fread|1 mmap|2 buffer> mut=<description> file=x<bytes (only when <= 6000 bytes)>
 *       | rc=<child wait status> sum=<child summary> p_safe=0/1
 * Structure-aware mutations of valid files (footer fields through carquet's own thrift structs,
 * page-header fields, payload bytes, truncations, random bytes); every mutated file is exercised
 * by a fixed API call sequence in a forked child (10 s alarm, LeakSanitizer at exit, exact-size
 * caller buffers sized from the PUBLIC schema accessors).  p_safe = child exited 0. */
#define _GNU_SOURCE
#include <stdio.h>
#include "filecase.h"
#include <signal.h>
#include <sys/wait.h>
#include "thrift/parquet_types.h"
#include "core/arena.h"
#include "core/buffer.h"

typedef struct { uint8_t* b; size_t n; } blob;

static blob blob_dup(const uint8_t* p, size_t n) { blob r; r.b = h_alloc(n); memcpy(r.b, p, n); r.n = n; return r; }

static blob make_base(hctx* h, int want_codec) {
    char path[128]; snprintf(path, sizeof path, "/tmp/verif_c04_%d.parquet", (int)getpid());
    for (;;) {
        fcase fc; gen_case(h, &fc, h_chance(h, 1, 2));
        if (want_codec >= 0) fc.codec = want_codec;
        int st[MAXSTEP + 2], nst = 0, ok = write_file(&fc, path, st, &nst) == 0;
        for (int i = 0; i < nst; i++) if (st[i] != 0) ok = 0;
        free_case(&fc);
        if (!ok) continue;
        FILE* f = fopen(path, "rb"); fseek(f, 0, SEEK_END); long n = ftell(f); fseek(f, 0, SEEK_SET);
        blob r; r.b = h_alloc((size_t)n); r.n = (size_t)n; if (fread(r.b, 1, (size_t)n, f) != (size_t)n) r.n = 0; fclose(f); unlink(path);
        if (r.n >= 12) return r;
        free(r.b);
    }
}

static int64_t weird64(hctx* h, int64_t v, int64_t fsize) {
    switch (h_below(h, 14)) {
    case 0: return 0; case 1: return -1; case 2: return v + 1; case 3: return v - 1; case 4: return fsize; case 5: return fsize - 1;
    case 6: return fsize + 1; case 7: return (int64_t)1 << 62; case 8: return INT64_MIN; case 9: return INT64_MAX; case 10: return 2147483647LL;
    case 11: return 4294967296LL + v; case 12: return fsize - 7 - (int64_t)h_below(h, 4); default: return (int64_t)h_below(h, (uint64_t)(fsize > 0 ? fsize : 1));
    }
}
static int32_t weird32(hctx* h, int32_t v) {
    switch (h_below(h, 10)) {
    case 0: return 0; case 1: return -1; case 2: return v + 1; case 3: return v - 1; case 4: return INT32_MAX; case 5: return INT32_MIN;
    case 6: return 1 << 30; case 7: return v * 2 + 3; case 8: return 65536; default: return (int32_t)h_below(h, 1000);
    }
}

/* footer mutation through carquet's own structs */
static blob mutate_footer(hctx* h, blob base, char* desc, size_t dn) {
    uint32_t flen = (uint32_t)base.b[base.n - 8] | ((uint32_t)base.b[base.n - 7] << 8) | ((uint32_t)base.b[base.n - 6] << 16) | ((uint32_t)base.b[base.n - 5] << 24);
    size_t fstart = base.n - 8 - flen;
    carquet_arena_t arena; carquet_arena_init(&arena);
    parquet_file_metadata_t md; carquet_error_t err; memset(&err, 0, sizeof err);
    if (parquet_parse_file_metadata(base.b + fstart, flen, &arena, &md, &err) != CARQUET_OK) { carquet_arena_destroy(&arena); snprintf(desc, dn, "footer-unparsed"); return blob_dup(base.b, base.n); }
    int64_t fs = (int64_t)base.n;
    int nrg = md.num_row_groups, nse = md.num_schema_elements;
    int g = nrg ? (int)h_below(h, (uint64_t)nrg) : -1;
    parquet_row_group_t* rg = g >= 0 ? &md.row_groups[g] : NULL;
    int c = (rg && rg->num_columns) ? (int)h_below(h, (uint64_t)rg->num_columns) : -1;
    parquet_column_metadata_t* cm = c >= 0 ? &rg->columns[c].metadata : NULL;
    int e = nse ? (int)h_below(h, (uint64_t)nse) : -1;
    int which = (int)h_below(h, 26);
    switch (which) {
    case 0: md.num_rows = weird64(h, md.num_rows, fs); snprintf(desc, dn, "num_rows=%lld", (long long)md.num_rows); break;
    case 1: if (nse > 1) md.num_schema_elements = nse - 1; snprintf(desc, dn, "drop-schema-element"); break;
    case 2: if (e >= 0) { md.schema[e].num_children = weird32(h, md.schema[e].num_children); snprintf(desc, dn, "schema[%d].num_children=%d", e, md.schema[e].num_children); } break;
    case 3: if (e >= 0) { md.schema[e].has_type = true; md.schema[e].type = (carquet_physical_type_t)h_below(h, 10); snprintf(desc, dn, "schema[%d].type=%d", e, (int)md.schema[e].type); } break;
    case 4: if (e >= 0) { md.schema[e].type_length = weird32(h, md.schema[e].type_length); snprintf(desc, dn, "schema[%d].type_length=%d", e, md.schema[e].type_length); } break;
    case 5: if (e >= 0) { md.schema[e].has_repetition = true; md.schema[e].repetition_type = (carquet_field_repetition_t)h_below(h, 5); snprintf(desc, dn, "schema[%d].rep=%d", e, (int)md.schema[e].repetition_type); } break;
    case 6: if (nrg) md.num_row_groups = nrg - 1; snprintf(desc, dn, "drop-row-group"); break;
    case 7: if (rg) { rg->num_rows = weird64(h, rg->num_rows, fs); snprintf(desc, dn, "rg[%d].num_rows=%lld", g, (long long)rg->num_rows); } break;
    case 8: if (rg && rg->num_columns) { rg->num_columns--; snprintf(desc, dn, "rg[%d].drop-column", g); } break;
    case 9: if (cm) { cm->type = (carquet_physical_type_t)h_below(h, 9); snprintf(desc, dn, "rg[%d].col[%d].type=%d", g, c, (int)cm->type); } break;
    case 10: if (cm) { static const int cc[] = { 0, 1, 2, 3, 4, 5, 6, 7, 8, 99 }; cm->codec = (carquet_compression_t)cc[h_below(h, 10)]; snprintf(desc, dn, "rg[%d].col[%d].codec=%d", g, c, (int)cm->codec); } break;
    case 11: case 12: if (cm) { cm->num_values = weird64(h, cm->num_values, fs); snprintf(desc, dn, "rg[%d].col[%d].num_values=%lld", g, c, (long long)cm->num_values); } break;
    case 13: if (cm) { cm->total_compressed_size = weird64(h, cm->total_compressed_size, fs); snprintf(desc, dn, "rg[%d].col[%d].total_compressed=%lld", g, c, (long long)cm->total_compressed_size); } break;
    case 14: if (cm) { cm->total_uncompressed_size = weird64(h, cm->total_uncompressed_size, fs); snprintf(desc, dn, "rg[%d].col[%d].total_uncompressed=%lld", g, c, (long long)cm->total_uncompressed_size); } break;
    case 15: case 16: case 17: if (cm) { cm->data_page_offset = weird64(h, cm->data_page_offset, fs); snprintf(desc, dn, "rg[%d].col[%d].data_page_offset=%lld", g, c, (long long)cm->data_page_offset); } break;
    case 18: case 19: if (cm) { cm->has_dictionary_page_offset = true; cm->dictionary_page_offset = h_chance(h, 1, 3) ? cm->data_page_offset : weird64(h, cm->data_page_offset, fs); snprintf(desc, dn, "rg[%d].col[%d].dictionary_page_offset=%lld", g, c, (long long)cm->dictionary_page_offset); } break;
    case 20: if (rg && c >= 0) { rg->columns[c].file_offset = weird64(h, rg->columns[c].file_offset, fs); snprintf(desc, dn, "rg[%d].col[%d].file_offset=%lld", g, c, (long long)rg->columns[c].file_offset); } break;
    case 21: md.version = weird32(h, md.version); snprintf(desc, dn, "version=%d", md.version); break;
    case 22: if (cm && cm->num_encodings) { cm->encodings[0] = (carquet_encoding_t)h_below(h, 12); snprintf(desc, dn, "rg[%d].col[%d].encodings[0]=%d", g, c, (int)cm->encodings[0]); } break;
    case 23: if (rg && rg->num_columns > 1) { parquet_column_chunk_t t = rg->columns[0]; rg->columns[0] = rg->columns[1]; rg->columns[1] = t; snprintf(desc, dn, "rg[%d].swap-columns", g); } break;
    case 24: if (e >= 0) { md.schema[e].has_repetition = false; snprintf(desc, dn, "schema[%d].no-repetition", e); } break;
    default: if (rg) { rg->total_byte_size = weird64(h, rg->total_byte_size, fs); snprintf(desc, dn, "rg[%d].total_byte_size", g); } break;
    }
    if (!desc[0]) snprintf(desc, dn, "footer-noop-%d", which);
    carquet_buffer_t out; carquet_buffer_init(&out);
    blob r;
    if (parquet_write_file_metadata(&md, &out, NULL) != CARQUET_OK) { r = blob_dup(base.b, base.n); }
    else {
        r.n = fstart + out.size + 8; r.b = h_alloc(r.n);
        memcpy(r.b, base.b, fstart); memcpy(r.b + fstart, out.data, out.size);
        uint32_t L = (uint32_t)out.size; r.b[r.n - 8] = (uint8_t)L; r.b[r.n - 7] = (uint8_t)(L >> 8); r.b[r.n - 6] = (uint8_t)(L >> 16); r.b[r.n - 5] = (uint8_t)(L >> 24);
        memcpy(r.b + r.n - 4, "PAR1", 4);
    }
    carquet_buffer_destroy(&out); carquet_arena_destroy(&arena);
    return r;
}

/* page header mutation: first page of a random chunk (or a later page found by walking) */
static blob mutate_page(hctx* h, blob base, char* desc, size_t dn) {
    uint32_t flen = (uint32_t)base.b[base.n - 8] | ((uint32_t)base.b[base.n - 7] << 8) | ((uint32_t)base.b[base.n - 6] << 16) | ((uint32_t)base.b[base.n - 5] << 24);
    size_t fstart = base.n - 8 - flen;
    carquet_arena_t arena; carquet_arena_init(&arena);
    parquet_file_metadata_t md; carquet_error_t err; memset(&err, 0, sizeof err);
    blob r = blob_dup(base.b, base.n);
    if (parquet_parse_file_metadata(base.b + fstart, flen, &arena, &md, &err) != CARQUET_OK || md.num_row_groups == 0) { carquet_arena_destroy(&arena); snprintf(desc, dn, "page-none"); return r; }
    parquet_row_group_t* rg = &md.row_groups[h_below(h, (uint64_t)md.num_row_groups)];
    if (rg->num_columns == 0) { carquet_arena_destroy(&arena); snprintf(desc, dn, "page-none"); return r; }
    parquet_column_metadata_t* cm = &rg->columns[h_below(h, (uint64_t)rg->num_columns)].metadata;
    size_t off = (size_t)cm->data_page_offset, end = off + (size_t)cm->total_compressed_size;
    /* walk to a random page */
    int hops = (int)h_below(h, 3);
    parquet_page_header_t ph; size_t hs = 0;
    for (;;) {
        if (off + 8 > fstart || off >= end) { carquet_arena_destroy(&arena); snprintf(desc, dn, "page-none"); return r; }
        size_t avail = fstart - off; if (avail > 256) avail = 256;
        if (parquet_parse_page_header(base.b + off, avail, &ph, &hs, &err) != CARQUET_OK) { carquet_arena_destroy(&arena); snprintf(desc, dn, "page-unparsed"); return r; }
        if (hops-- <= 0 || off + hs + (size_t)ph.compressed_page_size >= end) break;
        off += hs + (size_t)ph.compressed_page_size;
    }
    int which = (int)h_below(h, 17);
    long eof_delta = 0; int eof_directed = 0; int patch_snappy = 0;
    if (which >= 14) {
        /* the page claims a few bytes more than its body holds and carries no checksum: a compressed stream followed by
         * whatever comes next in the file (codecs that know where their stream ends see trailing bytes) */
        static const int extra[] = { 1, 2, 5, 8, 13 };
        if (cm->codec == CARQUET_COMPRESSION_SNAPPY && ph.compressed_page_size >= 8 && h_chance(h, 1, 2)) {
            /* a SNAPPY body whose first element is turned into a literal with a 4-byte length of 2^31 and more (tag 0xFC,
             * length bytes .. .. .. 80/FF), the checksum dropped: the length must be refused, not used */
            patch_snappy = 1 + (int)h_below(h, 2); ph.has_crc = false;
            snprintf(desc, dn, "page.snappy-literal-len-2^31.no-crc.%d", patch_snappy);
        } else {
        ph.compressed_page_size += extra[h_below(h, 5)]; ph.has_crc = false;
        snprintf(desc, dn, "page.compressed+%d.no-crc", (int)(ph.compressed_page_size));
        }
    }
    else
    if (which >= 12) {
        /* boundary-directed at the guard "the page body lies inside the file": make the body end exactly at,
         * just before and just past the end of the FILE (not of the data region): offsets are taken relative
         * to the last byte, so the footer is what gets overrun */
        static const long deltas[] = { -1, 0, 1, 2, 7, 8 };
        eof_directed = 1; eof_delta = deltas[h_below(h, 6)] + (h_chance(h, 1, 2) ? (long)hs : 0);
        ph.compressed_page_size = (int32_t)((long)base.n - (long)(off + hs) + eof_delta);
        if (h_chance(h, 1, 2)) ph.uncompressed_page_size = ph.compressed_page_size;
        snprintf(desc, dn, "page.compressed_to_eof%+ld", eof_delta);
    }
    else switch (which) {
    case 0: { static const int t[] = { 1, 2, 3, 7, -1 }; ph.type = (carquet_page_type_t)t[h_below(h, 5)];
              if (ph.type == CARQUET_PAGE_DICTIONARY) { int32_t nv = ph.data_page_header.num_values; memset(&ph.dictionary_page_header, 0, sizeof ph.dictionary_page_header); ph.dictionary_page_header.num_values = nv; }
              snprintf(desc, dn, "page.type=%d", (int)ph.type); break; }
    case 1: case 2: ph.uncompressed_page_size = weird32(h, ph.uncompressed_page_size); snprintf(desc, dn, "page.uncompressed=%d", ph.uncompressed_page_size); break;
    case 3: case 4: ph.compressed_page_size = weird32(h, ph.compressed_page_size); snprintf(desc, dn, "page.compressed=%d", ph.compressed_page_size); break;
    case 5: ph.has_crc = true; ph.crc ^= (int32_t)(1u << h_below(h, 32)); snprintf(desc, dn, "page.crc-flip"); break;
    case 6: case 7: case 8: ph.data_page_header.num_values = weird32(h, ph.data_page_header.num_values); snprintf(desc, dn, "page.num_values=%d", ph.data_page_header.num_values); break;
    case 9: { static const int en[] = { 2, 3, 4, 5, 6, 7, 8, 9, 99 }; ph.data_page_header.encoding = (carquet_encoding_t)en[h_below(h, 9)]; snprintf(desc, dn, "page.encoding=%d", (int)ph.data_page_header.encoding); break; }
    case 10: ph.has_crc = false; snprintf(desc, dn, "page.no-crc"); break;
    default: { /* flip a byte inside the payload, keep header */
        size_t plen = (size_t)ph.compressed_page_size; if (plen == 0 || off + hs + plen > fstart) { snprintf(desc, dn, "page-empty"); break; }
        size_t k = (size_t)h_below(h, plen); r.b[off + hs + k] ^= (uint8_t)(1u << h_below(h, 8)); snprintf(desc, dn, "payload-flip@%zu", off + hs + k);
        carquet_arena_destroy(&arena); return r; }
    }
    carquet_buffer_t out; carquet_buffer_init(&out);
    if (eof_directed) {
        for (int pass = 0; pass < 3; pass++) {
            carquet_buffer_clear(&out);
            if (parquet_write_page_header(&ph, &out, NULL) != CARQUET_OK) break;
            long newn = (long)base.n - (long)hs + (long)out.size;
            int32_t want = (int32_t)(newn - (long)(off + out.size) + eof_delta - (eof_delta >= (long)hs ? (long)hs - (long)out.size : 0));
            if (want == ph.compressed_page_size) break;
            ph.compressed_page_size = want;
        }
        carquet_buffer_clear(&out);
    }
    if (parquet_write_page_header(&ph, &out, NULL) == CARQUET_OK) {
        blob m; m.n = base.n - hs + out.size; m.b = h_alloc(m.n);
        memcpy(m.b, base.b, off); memcpy(m.b + off, out.data, out.size); memcpy(m.b + off + out.size, base.b + off + hs, base.n - off - hs);
        if (patch_snappy) {
            uint8_t* body = m.b + off + out.size; size_t k = 0;
            while (k < 5 && (body[k] & 0x80)) k++;        /* the uncompressed-length preamble */
            k++;
            if (k + 5 <= (size_t)ph.compressed_page_size) { body[k] = 0xFC; body[k + 1] = 0; body[k + 2] = 0; body[k + 3] = 0; body[k + 4] = patch_snappy == 1 ? 0x80 : 0xFF; }
        }
        if (out.size != hs) { char t[32]; snprintf(t, sizeof t, " (shift %+ld)", (long)out.size - (long)hs); strncat(desc, t, dn - strlen(desc) - 1); }
        free(r.b); r = m;
    }
    carquet_buffer_destroy(&out); carquet_arena_destroy(&arena);
    return r;
}

static blob mutate_raw(hctx* h, blob base, char* desc, size_t dn) {
    blob r;
    switch (h_below(h, 6)) {
    case 0: { size_t k = (size_t)h_below(h, base.n); r = blob_dup(base.b, k); snprintf(desc, dn, "truncate@%zu", k); return r; }
    case 1: { r = blob_dup(base.b, base.n); size_t k = (size_t)h_below(h, base.n); r.b[k] ^= (uint8_t)(1u << h_below(h, 8)); snprintf(desc, dn, "bitflip@%zu", k); return r; }
    case 2: { r = blob_dup(base.b, base.n); uint32_t L = (uint32_t)weird32(h, 0); r.b[r.n - 8] = (uint8_t)L; r.b[r.n - 7] = (uint8_t)(L >> 8); r.b[r.n - 6] = (uint8_t)(L >> 16); r.b[r.n - 5] = (uint8_t)(L >> 24); snprintf(desc, dn, "footer_len=%u", L); return r; }
    case 3: { size_t n = (size_t)h_below(h, 64); r.b = h_alloc(n); r.n = n; h_fill(h, r.b, n, 0); if (n >= 12 && h_chance(h, 1, 2)) { memcpy(r.b, "PAR1", 4); memcpy(r.b + n - 4, "PAR1", 4); } snprintf(desc, dn, "random-%zu", n); return r; }
    case 4: { r = blob_dup(base.b, base.n); size_t fl = (size_t)(r.b[r.n - 8] | (r.b[r.n - 7] << 8)); if (fl + 8 < r.n && fl > 0) { size_t k = r.n - 8 - fl + (size_t)h_below(h, fl); r.b[k] = (uint8_t)h_next(h); snprintf(desc, dn, "footer-byte@%zu", k); } else snprintf(desc, dn, "noop"); return r; }
    default: { r = blob_dup(base.b, base.n); size_t k = (size_t)h_below(h, base.n), len = 1 + (size_t)h_below(h, 8); for (size_t i = k; i < k + len && i < r.n; i++) r.b[i] = (uint8_t)h_next(h); snprintf(desc, dn, "garbage@%zu+%zu", k, len); return r; }
    }
}

/* boundary-directed cases for every guard of the three open paths (size >= 12, leading magic,
 * trailing magic, footer_len <= size - 8): one per guard value and its neighbours */
enum { N_DIRECTED = 10 };
static blob mutate_directed(blob base, int i, char* desc, size_t dn) {
    blob r = blob_dup(base.b, base.n);
    uint32_t L = 0;
    switch (i) {
    case 0: r.b[0] ^= 0x01; snprintf(desc, dn, "head-magic-flip@0"); return r;
    case 1: r.b[3] ^= 0x80; snprintf(desc, dn, "head-magic-flip@3"); return r;
    case 2: r.b[r.n - 1] ^= 0x01; snprintf(desc, dn, "tail-magic-flip@last"); return r;
    case 3: r.b[r.n - 4] ^= 0x10; snprintf(desc, dn, "tail-magic-flip@first"); return r;
    case 4: L = (uint32_t)(r.n - 8); snprintf(desc, dn, "footer_len=size-8"); break;
    case 5: L = (uint32_t)(r.n - 7); snprintf(desc, dn, "footer_len=size-7"); break;
    case 6: L = (uint32_t)(r.n - 12); snprintf(desc, dn, "footer_len=size-12"); break;
    case 7: L = 0; snprintf(desc, dn, "footer_len=0"); break;
    case 8: { free(r.b); r.n = 12; r.b = h_alloc(12); memcpy(r.b, "PAR1", 4); memset(r.b + 4, 0, 4); memcpy(r.b + 8, "PAR1", 4); snprintf(desc, dn, "twelve-bytes"); return r; }
    default: { free(r.b); r.n = 11; r.b = h_alloc(11); memcpy(r.b, "PAR1", 4); memset(r.b + 4, 0, 3); memcpy(r.b + 7, "PAR1", 4); snprintf(desc, dn, "eleven-bytes"); return r; }
    }
    r.b[r.n - 8] = (uint8_t)L; r.b[r.n - 7] = (uint8_t)(L >> 8); r.b[r.n - 6] = (uint8_t)(L >> 16); r.b[r.n - 5] = (uint8_t)(L >> 24);
    return r;
}

/* ---- the API call sequence, run in a child ---- */
static size_t api_value_size(const carquet_schema_t* sc, int col) {
    /* column -> element through the public accessors: leaves are the elements that are leaves, in order */
    int n = carquet_schema_num_elements(sc), k = -1;
    for (int i = 0; i < n; i++) {
        const carquet_schema_node_t* nd = carquet_schema_get_element(sc, i);
        if (!nd || !carquet_schema_node_is_leaf(nd)) continue;
        if (++k == col) {
            switch (carquet_schema_node_physical_type(nd)) {
            case CARQUET_PHYSICAL_BOOLEAN: return 1; case CARQUET_PHYSICAL_INT32: case CARQUET_PHYSICAL_FLOAT: return 4;
            case CARQUET_PHYSICAL_INT64: case CARQUET_PHYSICAL_DOUBLE: return 8; case CARQUET_PHYSICAL_INT96: return 12;
            case CARQUET_PHYSICAL_BYTE_ARRAY: return sizeof(carquet_byte_array_t);
            case CARQUET_PHYSICAL_FIXED_LEN_BYTE_ARRAY: { int32_t tl = carquet_schema_node_type_length(nd); return tl > 0 && tl < 4096 ? (size_t)tl : 0; }
            default: return 0;
            }
        }
    }
    return 0;
}
static int is_byte_array(const carquet_schema_t* sc, int col) {
    int n = carquet_schema_num_elements(sc), k = -1;
    for (int i = 0; i < n; i++) { const carquet_schema_node_t* nd = carquet_schema_get_element(sc, i); if (!nd || !carquet_schema_node_is_leaf(nd)) continue; if (++k == col) return carquet_schema_node_physical_type(nd) == CARQUET_PHYSICAL_BYTE_ARRAY; }
    return 0;
}

/* the maximum definition level of column `col`, from the public accessors: the number of OPTIONAL / REPEATED nodes on the
 * path root .. leaf (the schema is a depth-first list with child counts) */
static int api_max_def(const carquet_schema_t* sc, int col) {
    int n = carquet_schema_num_elements(sc), k = -1;
    int left[64], defs[64], depth = 0;      /* stack of (children still to come, definition level below the node) */
    for (int i = 0; i < n; i++) {
        const carquet_schema_node_t* nd = carquet_schema_get_element(sc, i);
        if (!nd) return 0;
        int base = depth ? defs[depth - 1] : 0;
        int own = (i == 0) ? 0 : (carquet_schema_node_repetition(nd) == CARQUET_REPETITION_REQUIRED ? 0 : 1);
        if (depth) left[depth - 1]--;
        if (carquet_schema_node_is_leaf(nd)) {
            if (++k == col) return base + own;
        } else if (depth < 63) {
            const parquet_schema_element_t* pe = (const parquet_schema_element_t*)nd;
            left[depth] = pe->num_children; defs[depth] = base + own; depth++;
        }
        while (depth && left[depth - 1] <= 0) depth--;
    }
    return 0;
}

/* The child leaves through _exit after an explicit leak check: exit() would let stdio reposition the
 * replay input stream it shares with the parent (lines replayed twice or cut short). */
extern int __lsan_do_recoverable_leak_check(void) __attribute__((weak));
static void child_exit(int code) {
    if (__lsan_do_recoverable_leak_check && __lsan_do_recoverable_leak_check()) _exit(23);
    _exit(code);
}

static void child_exercise(const char* path, const uint8_t* buf, size_t n, int mode, int out_fd) {
    char sum[256]; uint64_t digest = 1469598103934665603ull; long reads = 0, errs = 0;
    carquet_error_t err; memset(&err, 0, sizeof err); memset(err.message, 'x', sizeof err.message);
    carquet_reader_options_t ro; carquet_reader_options_init(&ro);
    uint8_t* exact = NULL; carquet_reader_t* rd;
    if (mode == 0) rd = carquet_reader_open(path, &ro, &err);
    else if (mode == 1) { ro.use_mmap = true; rd = carquet_reader_open(path, &ro, &err); }
    else { exact = h_alloc(n); memcpy(exact, buf, n); rd = carquet_reader_open_buffer(exact, n, &ro, &err); }
    if (!rd) {
        int nul = memchr(err.message, 0, sizeof err.message) != NULL;
        snprintf(sum, sizeof sum, "open-error code=%d nul=%d", (int)err.code, nul);
        if (write(out_fd, sum, strlen(sum)) < 0) {}
        free(exact);
        child_exit((err.code != 0 && nul) ? 0 : 41);
    }
    int nrg = carquet_reader_num_row_groups(rd), nc = carquet_reader_num_columns(rd);
    const carquet_schema_t* sc = carquet_reader_schema(rd);
    /* out-of-range indices must be errors */
    int badidx = 0;
    { carquet_column_reader_t* x;
      if ((x = carquet_reader_get_column(rd, -1, 0, &err))) { badidx = 1; carquet_column_reader_free(x); }
      if ((x = carquet_reader_get_column(rd, nrg, 0, &err))) { badidx = 1; carquet_column_reader_free(x); }
      if ((x = carquet_reader_get_column(rd, 0, -1, &err))) { badidx = 1; carquet_column_reader_free(x); }
      if ((x = carquet_reader_get_column(rd, 0, nc, &err))) { badidx = 1; carquet_column_reader_free(x); } }
    /* ... through the statistics API too: row_group_matches / filter_row_groups / column_statistics with a row group or a
     * column outside the file - near misses and far ones - and probe sizes that do and do not fit any type */
    { static const int32_t far[] = { -1, 0, 1, 2147483647, -2147483647 - 1, 1 << 28, -(1 << 28), 65536 };
      uint8_t probe[16]; memset(probe, 0x5A, sizeof probe);
      static const int32_t psz[] = { 4, 8, 1, 3, 12, 0 };
      for (int q = 0; q < 8; q++) for (int z = 0; z < 6; z++) {
          int32_t bc = q == 1 ? nc : q == 2 ? nc + 1 : far[q];
          int32_t bg = q == 1 ? nrg : q == 2 ? nrg + 1 : far[q];
          bool mm = false; int32_t idx[4];
          if (carquet_reader_row_group_matches(rd, 0, bc, CARQUET_COMPARE_EQ, probe, psz[z], &mm) == CARQUET_OK) badidx = 1;
          if (carquet_reader_row_group_matches(rd, bg, 0, CARQUET_COMPARE_GE, probe, psz[z], &mm) == CARQUET_OK) badidx = 1;
          /* filter_row_groups keeps a row group it cannot judge (documented: conservative): only called, for what it touches */
          (void)carquet_reader_filter_row_groups(rd, bc, CARQUET_COMPARE_LT, probe, psz[z], idx, 4);
      }
    }
    for (int g = 0; g < nrg && g < 3; g++) for (int c = 0; c < nc && c < 5; c++) {
        carquet_column_reader_t* cr = carquet_reader_get_column(rd, g, c, &err);
        if (!cr) { errs++; continue; }
        size_t vs = api_value_size(sc, c); int ba = is_byte_array(sc, c);
        if (vs == 0) { carquet_column_reader_free(cr); continue; }
        static const int64_t sizes[] = { 0, 3, 1, 1000, 7 };
        for (int it = 0; it < 40; it++) {
            int64_t k = sizes[it % 5];
            uint8_t* vals = h_alloc((size_t)k * vs); int16_t* d = (int16_t*)h_alloc((size_t)k * 2); int16_t* r = (int16_t*)h_alloc((size_t)k * 2);
            int64_t got = carquet_column_read_batch(cr, vals, k, d, r);
            reads++;
            if (got > k) { free(vals); free(d); free(r); child_exit(42); }                         /* more than asked */
            if (got > 0) {
                int64_t nn = 0; for (int64_t i = 0; i < got; i++) { digest = (digest ^ (uint64_t)(uint16_t)d[i]) * 1099511628211ull; nn++; }
                if (!ba) for (size_t i = 0; i < (size_t)got * vs; i++) digest = (digest ^ vals[i]) * 1099511628211ull;   /* may read uninitialised-but-in-bounds bytes */
                else {
                    /* BYTE_ARRAY: the dense entries (one per row at the maximum definition level; all rows of a column without
                     * definition levels) must be byte ranges inside buffers the library owns: a negative length is no such
                     * range, and every byte of every value is read here (exact-size buffers under ASan) */
                    const carquet_byte_array_t* a = (const carquet_byte_array_t*)vals;
                    int md = api_max_def(sc, c); int64_t dense = 0;
                    for (int64_t i = 0; i < got; i++) if (md == 0 || d[i] == md) dense++;
                    for (int64_t j = 0; j < dense; j++) {
                        if (a[j].length < 0) { free(vals); free(d); free(r); child_exit(43); }
                        for (int32_t q = 0; q < a[j].length; q++) digest = (digest ^ a[j].data[q]) * 1099511628211ull;
                    }
                }
            }
            free(vals); free(d); free(r);
            if (got < 0) { errs++; break; }
            if (it == 3) (void)carquet_column_skip(cr, 5);
            if (got == 0 && k > 0) break;
            (void)carquet_column_has_next(cr); (void)carquet_column_remaining(cr);
        }
        carquet_column_reader_free(cr);
    }
    /* batch reader */
    { carquet_batch_reader_config_t cfg; carquet_batch_reader_config_init(&cfg); cfg.batch_size = 7;
      carquet_batch_reader_t* br = carquet_batch_reader_create(rd, &cfg, &err);
      if (br) {
          for (int it = 0; it < 12; it++) {
              carquet_row_batch_t* rb = NULL;
              carquet_status_t s = carquet_batch_reader_next(br, &rb);
              if (s != CARQUET_OK || !rb) {
                  if (rb) carquet_row_batch_free(rb);
                  /* a caller may ask again after an error or after the end (valid calls): the answer must again be a status */
                  for (int again = 0; again < 2; again++) { rb = NULL; (void)!carquet_batch_reader_next(br, &rb); if (rb) carquet_row_batch_free(rb); }
                  break;
              }
              int64_t rows = carquet_row_batch_num_rows(rb); int32_t cols = carquet_row_batch_num_columns(rb);
              for (int32_t c = 0; c < cols && c < 5; c++) {
                  const void* data = NULL; const uint8_t* nulls = NULL; int64_t nv = 0;
                  if (carquet_row_batch_column(rb, c, &data, &nulls, &nv) == CARQUET_OK && nulls && nv > 0)
                      for (int64_t i = 0; i < (nv + 7) / 8; i++) digest = (digest ^ nulls[i]) * 1099511628211ull;
              }
              digest ^= (uint64_t)rows;
              carquet_row_batch_free(rb);
          }
          carquet_batch_reader_free(br);
      } }
    carquet_reader_close(rd);
    free(exact);
    snprintf(sum, sizeof sum, "opened nrg=%d nc=%d reads=%ld errs=%ld badidx=%d", nrg, nc, reads, errs, badidx);
    if (write(out_fd, sum, strlen(sum)) < 0) {}
    child_exit(badidx ? 43 : 0);
}

static void on_alarm_c04(int s) { (void)s; _exit(77); }

static void exercise(hctx* h, blob f, int mode, const char* desc) {
    char path[128]; snprintf(path, sizeof path, "/tmp/verif_c04_%d_m.parquet", (int)getpid());
    FILE* pf = fopen(path, "wb"); fwrite(f.b, 1, f.n, pf); fclose(pf);
    char d2[200]; size_t j = 0; for (const char* c = desc; *c && j < sizeof d2 - 1; c++) d2[j++] = (*c == ' ' || *c == '=') ? '_' : *c; d2[j] = 0;
    fprintf(h->out, "c04 mode=%d mut=%s", mode, d2);
    if (f.n <= 6000) { fprintf(h->out, " file="); h_hex(h->out, f.b, f.n); } else fprintf(h->out, " filelen=%zu", f.n);
    h_call(h);
    int p[2]; if (pipe(p) != 0) return;
    fflush(NULL);
    pid_t pid = fork();
    if (pid == 0) { close(p[0]); h_cpu_alarm(10, on_alarm_c04); child_exercise(path, f.b, f.n, mode, p[1]); _exit(0); }
    close(p[1]);
    char sum[300]; ssize_t got = read(p[0], sum, sizeof sum - 1); if (got < 0) got = 0; sum[got] = 0; close(p[0]);
    for (char* c = sum; *c; c++) if (*c == ' ' || *c == '=') *c = '_';
    int st = 0; waitpid(pid, &st, 0);
    int rc = WIFEXITED(st) ? WEXITSTATUS(st) : 1000 + WTERMSIG(st);
    fprintf(h->out, " | rc=%d sum=%s p_safe=%d\n", rc, sum[0] ? sum : "-", rc == 0);
    h->n_lines++;
    unlink(path);
}

/* directed: a schema that is one chain of n nested groups (num_children = 1 each) ending in an INT32 leaf, no row groups.
 * Hand-serialised compact Thrift (8 bytes per group element).  The reader must either reject it (element-count limit) or
 * walk it without exhausting the stack. */
static void put_varint(uint8_t** p, uint64_t v) { while (v >= 0x80) { *(*p)++ = (uint8_t)(v | 0x80); v >>= 7; } *(*p)++ = (uint8_t)v; }
static blob deep_chain(long n) {
    size_t cap = 64 + 8 * (size_t)(n + 2);
    uint8_t* b = h_alloc(cap); uint8_t* p = b;
    memcpy(p, "PAR1", 4); p += 4;
    uint8_t* f0 = p;
    *p++ = 0x15; *p++ = 0x02;                                   /* 1: version = 1 */
    *p++ = 0x19; *p++ = 0xFC; put_varint(&p, (uint64_t)n + 2);  /* 2: schema, list<struct> of n + 2 elements */
    *p++ = 0x48; *p++ = 0x01; *p++ = 'r'; *p++ = 0x15; *p++ = 0x02; *p++ = 0x00;          /* root: name, num_children = 1 */
    for (long i = 0; i < n; i++) { *p++ = 0x35; *p++ = 0x00; *p++ = 0x18; *p++ = 0x01; *p++ = 'g'; *p++ = 0x15; *p++ = 0x02; *p++ = 0x00; }
    *p++ = 0x15; *p++ = 0x02; *p++ = 0x25; *p++ = 0x00; *p++ = 0x18; *p++ = 0x01; *p++ = 'x'; *p++ = 0x00;   /* leaf INT32 REQUIRED */
    *p++ = 0x16; *p++ = 0x00;                                   /* 3: num_rows = 0 */
    *p++ = 0x19; *p++ = 0x0C;                                   /* 4: row_groups = [] */
    *p++ = 0x00;
    uint32_t L = (uint32_t)(p - f0);
    *p++ = (uint8_t)L; *p++ = (uint8_t)(L >> 8); *p++ = (uint8_t)(L >> 16); *p++ = (uint8_t)(L >> 24);
    memcpy(p, "PAR1", 4); p += 4;
    blob r; r.b = b; r.n = (size_t)(p - b); return r;
}

/* directed: a chain of n nested groups that each CLAIM `claim` children (up to INT32_MAX) while only one element follows;
 * no row groups.  A traversal whose child loop is bounded by the claimed count alone, and not by the end of the element
 * array, spins claim iterations per group: open must stay proportional to the input size (a few dozen bytes). */
static blob fat_chain(long n, uint32_t claim) {
    size_t cap = 64 + 16 * (size_t)(n + 2);
    uint8_t* b = h_alloc(cap); uint8_t* p = b;
    uint64_t zz = ((uint64_t)claim << 1);
    memcpy(p, "PAR1", 4); p += 4;
    uint8_t* f0 = p;
    *p++ = 0x15; *p++ = 0x02;
    *p++ = 0x19; *p++ = 0xFC; put_varint(&p, (uint64_t)n + 2);
    *p++ = 0x48; *p++ = 0x01; *p++ = 'r'; *p++ = 0x15; put_varint(&p, zz); *p++ = 0x00;
    for (long i = 0; i < n; i++) { *p++ = 0x35; *p++ = 0x00; *p++ = 0x18; *p++ = 0x01; *p++ = 'g'; *p++ = 0x15; put_varint(&p, zz); *p++ = 0x00; }
    *p++ = 0x15; *p++ = 0x02; *p++ = 0x25; *p++ = 0x00; *p++ = 0x18; *p++ = 0x01; *p++ = 'x'; *p++ = 0x00;
    *p++ = 0x16; *p++ = 0x00;
    *p++ = 0x19; *p++ = 0x0C;
    *p++ = 0x00;
    uint32_t L = (uint32_t)(p - f0);
    *p++ = (uint8_t)L; *p++ = (uint8_t)(L >> 8); *p++ = (uint8_t)(L >> 16); *p++ = (uint8_t)(L >> 24);
    memcpy(p, "PAR1", 4); p += 4;
    blob r; r.b = b; r.n = (size_t)(p - b); return r;
}

/* directed: a v1 data page of an OPTIONAL INT64 column whose definition-level block announces k bytes more (or fewer)
 * than the page body holds behind the 4-byte prefix; the levels themselves (one RLE run "N times 1") are complete,
 * the page promises N = 200000 values and holds none.  Every variant must be refused (or read short) without touching
 * memory outside the file.  Built from a file of carquet's own writer by re-serialising page header and footer. */
static blob levels_overhang(int k) {
    char path[128]; snprintf(path, sizeof path, "/tmp/verif_c04_%d_lo.parquet", (int)getpid());
    blob none; none.b = h_alloc(0); none.n = 0;
    carquet_error_t err; memset(&err, 0, sizeof err);
    carquet_schema_t* sc = carquet_schema_create(&err);
    (void)!carquet_schema_add_column(sc, "v", CARQUET_PHYSICAL_INT64, NULL, CARQUET_REPETITION_OPTIONAL, 0);
    carquet_writer_options_t wo; carquet_writer_options_init(&wo); wo.compression = CARQUET_COMPRESSION_UNCOMPRESSED;
    carquet_writer_t* w = carquet_writer_create(path, sc, &wo, &err);
    if (!w) { carquet_schema_free(sc); return none; }
    int64_t one = 7; int16_t d1 = 1;
    (void)!carquet_writer_write_batch(w, 0, &one, 1, &d1, NULL);
    int ok = carquet_writer_close(w) == CARQUET_OK; carquet_schema_free(sc);
    if (!ok) return none;
    FILE* f = fopen(path, "rb"); fseek(f, 0, SEEK_END); long n = ftell(f); fseek(f, 0, SEEK_SET);
    uint8_t* fb = h_alloc((size_t)n); if (fread(fb, 1, (size_t)n, f) != (size_t)n) n = 0; fclose(f); unlink(path);
    if (n < 12) { free(fb); return none; }
    uint32_t flen = (uint32_t)fb[n - 8] | ((uint32_t)fb[n - 7] << 8) | ((uint32_t)fb[n - 6] << 16) | ((uint32_t)fb[n - 5] << 24);
    size_t fstart = (size_t)n - 8 - flen;
    carquet_arena_t arena; carquet_arena_init(&arena);
    parquet_file_metadata_t md; parquet_page_header_t ph; size_t hs = 0;
    if (parquet_parse_file_metadata(fb + fstart, flen, &arena, &md, &err) != CARQUET_OK || md.num_row_groups != 1 ||
        parquet_parse_page_header(fb + 4, fstart - 4, &ph, &hs, &err) != CARQUET_OK) { carquet_arena_destroy(&arena); free(fb); return none; }
    const int32_t N = 200000;
    uint8_t run[8]; int rl = 0; { uint32_t v = (uint32_t)N << 1; while (v >= 0x80) { run[rl++] = (uint8_t)(v | 0x80); v >>= 7; } run[rl++] = (uint8_t)v; run[rl++] = 0x01; }
    uint8_t body[16]; uint32_t L = (uint32_t)(rl + k);
    body[0] = (uint8_t)L; body[1] = (uint8_t)(L >> 8); body[2] = (uint8_t)(L >> 16); body[3] = (uint8_t)(L >> 24); memcpy(body + 4, run, (size_t)rl);
    size_t bl = 4 + (size_t)rl;
    ph.uncompressed_page_size = ph.compressed_page_size = (int32_t)bl; ph.has_crc = false;
    ph.data_page_header.num_values = N; memset(&ph.data_page_header.statistics, 0, sizeof ph.data_page_header.statistics); ph.data_page_header.has_statistics = false;
    carquet_buffer_t hb, fbuf; carquet_buffer_init(&hb); carquet_buffer_init(&fbuf);
    blob r = none;
    if (parquet_write_page_header(&ph, &hb, NULL) == CARQUET_OK) {
        parquet_row_group_t* rg = &md.row_groups[0]; parquet_column_metadata_t* cm = &rg->columns[0].metadata;
        md.num_rows = N; rg->num_rows = N; cm->num_values = N;
        cm->total_compressed_size = (int64_t)(hb.size + bl); cm->total_uncompressed_size = (int64_t)bl; cm->data_page_offset = 4;
        rg->columns[0].file_offset = 4; rg->total_byte_size = (int64_t)(hb.size + bl);
        if (parquet_write_file_metadata(&md, &fbuf, NULL) == CARQUET_OK) {
            r.n = 4 + hb.size + bl + fbuf.size + 8; r.b = h_alloc(r.n); uint8_t* p = r.b;
            memcpy(p, "PAR1", 4); p += 4; memcpy(p, hb.data, hb.size); p += hb.size; memcpy(p, body, bl); p += bl;
            memcpy(p, fbuf.data, fbuf.size); p += fbuf.size;
            uint32_t FL = (uint32_t)fbuf.size; *p++ = (uint8_t)FL; *p++ = (uint8_t)(FL >> 8); *p++ = (uint8_t)(FL >> 16); *p++ = (uint8_t)(FL >> 24);
            memcpy(p, "PAR1", 4);
            free(none.b);
        }
    }
    carquet_buffer_destroy(&hb); carquet_buffer_destroy(&fbuf); carquet_arena_destroy(&arena); free(fb);
    return r;
}

/* directed: a legal LZ4_RAW page no carquet compressor would write: the last match (offset 16, length `ml`) ends exactly `tail`
 * (5 or 6) bytes before the end of the page - the minimum the block format allows.  A decoder that copies matches in whole
 * 8-byte strides overruns a destination of exactly uncompressed_page_size bytes.  One REQUIRED INT32 column, 8 values. */
static blob lz4_tail(hctx* h, int lit, int ml, int tail) {
    char path[128]; snprintf(path, sizeof path, "/tmp/verif_c04_%d_lz.parquet", (int)getpid());
    blob none; none.b = h_alloc(0); none.n = 0;
    int D = lit + ml + tail; if (D % 4 || lit < 16 || D > 64) return none;
    uint8_t P[64]; for (int i = 0; i < D; i++) P[i] = (uint8_t)h_next(h);
    for (int i = 0; i < ml; i++) P[lit + i] = P[lit - 16 + i];
    carquet_error_t err; memset(&err, 0, sizeof err);
    carquet_schema_t* sc = carquet_schema_create(&err);
    (void)!carquet_schema_add_column(sc, "v", CARQUET_PHYSICAL_INT32, NULL, CARQUET_REPETITION_REQUIRED, 0);
    carquet_writer_options_t wo; carquet_writer_options_init(&wo); wo.compression = CARQUET_COMPRESSION_UNCOMPRESSED;
    carquet_writer_t* w = carquet_writer_create(path, sc, &wo, &err);
    if (!w) { carquet_schema_free(sc); return none; }
    (void)!carquet_writer_write_batch(w, 0, P, D / 4, NULL, NULL);
    int ok = carquet_writer_close(w) == CARQUET_OK; carquet_schema_free(sc);
    if (!ok) return none;
    FILE* f = fopen(path, "rb"); fseek(f, 0, SEEK_END); long n = ftell(f); fseek(f, 0, SEEK_SET);
    uint8_t* fb = h_alloc((size_t)n); if (fread(fb, 1, (size_t)n, f) != (size_t)n) n = 0; fclose(f); unlink(path);
    if (n < 12) { free(fb); return none; }
    uint32_t flen = (uint32_t)fb[n - 8] | ((uint32_t)fb[n - 7] << 8) | ((uint32_t)fb[n - 6] << 16) | ((uint32_t)fb[n - 5] << 24);
    size_t fstart = (size_t)n - 8 - flen;
    carquet_arena_t arena; carquet_arena_init(&arena);
    parquet_file_metadata_t md; parquet_page_header_t ph; size_t hs = 0;
    if (parquet_parse_file_metadata(fb + fstart, flen, &arena, &md, &err) != CARQUET_OK || md.num_row_groups != 1 ||
        parquet_parse_page_header(fb + 4, fstart - 4, &ph, &hs, &err) != CARQUET_OK) { carquet_arena_destroy(&arena); free(fb); return none; }
    uint8_t body[96]; size_t bl = 0;
    body[bl++] = (uint8_t)(((lit >= 15 ? 15 : lit) << 4) | (ml - 4)); if (lit >= 15) body[bl++] = (uint8_t)(lit - 15);
    memcpy(body + bl, P, (size_t)lit); bl += (size_t)lit; body[bl++] = 16; body[bl++] = 0;
    body[bl++] = (uint8_t)(tail << 4); memcpy(body + bl, P + lit + ml, (size_t)tail); bl += (size_t)tail;
    ph.uncompressed_page_size = D; ph.compressed_page_size = (int32_t)bl; ph.has_crc = false;
    carquet_buffer_t hb, fbuf; carquet_buffer_init(&hb); carquet_buffer_init(&fbuf);
    blob r = none;
    if (parquet_write_page_header(&ph, &hb, NULL) == CARQUET_OK) {
        parquet_row_group_t* rg = &md.row_groups[0]; parquet_column_metadata_t* cm = &rg->columns[0].metadata;
        cm->codec = CARQUET_COMPRESSION_LZ4_RAW;
        cm->total_compressed_size = (int64_t)(hb.size + bl); cm->total_uncompressed_size = (int64_t)(hb.size + (size_t)D); cm->data_page_offset = 4;
        rg->columns[0].file_offset = 4; rg->total_byte_size = cm->total_uncompressed_size;
        if (parquet_write_file_metadata(&md, &fbuf, NULL) == CARQUET_OK) {
            r.n = 4 + hb.size + bl + fbuf.size + 8; r.b = h_alloc(r.n); uint8_t* p = r.b;
            memcpy(p, "PAR1", 4); p += 4; memcpy(p, hb.data, hb.size); p += hb.size; memcpy(p, body, bl); p += bl;
            memcpy(p, fbuf.data, fbuf.size); p += fbuf.size;
            uint32_t FL = (uint32_t)fbuf.size; *p++ = (uint8_t)FL; *p++ = (uint8_t)(FL >> 8); *p++ = (uint8_t)(FL >> 16); *p++ = (uint8_t)(FL >> 24);
            memcpy(p, "PAR1", 4);
            free(none.b);
        }
    }
    carquet_buffer_destroy(&hb); carquet_buffer_destroy(&fbuf); carquet_arena_destroy(&arena); free(fb);
    return r;
}

/* directed: a BYTE_ARRAY dictionary whose LAST entry announces a length of 2^32 - k (k = 1..4) with no bytes behind it.
 * The scan of the dictionary page must refuse it ("4 + len" must not be computed in 32 bits: it would wrap to 0..3, the entry
 * would pass, and every row using it would come back as a byte array of NEGATIVE length).  One REQUIRED BYTE_ARRAY column,
 * two rows stored as dictionary indices 1, 0. */
static blob dict_huge_len(uint32_t len) {
    char path[128]; snprintf(path, sizeof path, "/tmp/verif_c04_%d_dh.parquet", (int)getpid());
    blob none; none.b = h_alloc(0); none.n = 0;
    carquet_error_t err; memset(&err, 0, sizeof err);
    carquet_schema_t* sc = carquet_schema_create(&err);
    (void)!carquet_schema_add_column(sc, "s", CARQUET_PHYSICAL_BYTE_ARRAY, NULL, CARQUET_REPETITION_REQUIRED, 0);
    carquet_writer_options_t wo; carquet_writer_options_init(&wo); wo.compression = CARQUET_COMPRESSION_UNCOMPRESSED;
    carquet_writer_t* w = carquet_writer_create(path, sc, &wo, &err);
    if (!w) { carquet_schema_free(sc); return none; }
    carquet_byte_array_t two[2]; two[0].data = (uint8_t*)"a"; two[0].length = 1; two[1].data = (uint8_t*)"b"; two[1].length = 1;
    (void)!carquet_writer_write_batch(w, 0, two, 2, NULL, NULL);
    int ok = carquet_writer_close(w) == CARQUET_OK; carquet_schema_free(sc);
    if (!ok) return none;
    FILE* f = fopen(path, "rb"); fseek(f, 0, SEEK_END); long n = ftell(f); fseek(f, 0, SEEK_SET);
    uint8_t* fb = h_alloc((size_t)n); if (fread(fb, 1, (size_t)n, f) != (size_t)n) n = 0; fclose(f); unlink(path);
    if (n < 12) { free(fb); return none; }
    uint32_t flen = (uint32_t)fb[n - 8] | ((uint32_t)fb[n - 7] << 8) | ((uint32_t)fb[n - 6] << 16) | ((uint32_t)fb[n - 5] << 24);
    size_t fstart = (size_t)n - 8 - flen;
    carquet_arena_t arena; carquet_arena_init(&arena);
    parquet_file_metadata_t md; parquet_page_header_t ph; size_t hs = 0;
    if (parquet_parse_file_metadata(fb + fstart, flen, &arena, &md, &err) != CARQUET_OK || md.num_row_groups != 1 ||
        parquet_parse_page_header(fb + 4, fstart - 4, &ph, &hs, &err) != CARQUET_OK) { carquet_arena_destroy(&arena); free(fb); return none; }
    uint8_t dict[9] = { 1, 0, 0, 0, 'a', (uint8_t)len, (uint8_t)(len >> 8), (uint8_t)(len >> 16), (uint8_t)(len >> 24) };
    uint8_t data[3] = { 0x01, 0x03, 0x01 };            /* index width 1; one bit-packed group: 1, 0, 0, ... */
    parquet_page_header_t dh; memset(&dh, 0, sizeof dh);
    dh.type = CARQUET_PAGE_DICTIONARY; dh.uncompressed_page_size = dh.compressed_page_size = 9;
    dh.dictionary_page_header.num_values = 2; dh.dictionary_page_header.encoding = CARQUET_ENCODING_PLAIN;
    ph.uncompressed_page_size = ph.compressed_page_size = 3; ph.has_crc = false;
    ph.data_page_header.num_values = 2; ph.data_page_header.encoding = CARQUET_ENCODING_RLE_DICTIONARY;
    memset(&ph.data_page_header.statistics, 0, sizeof ph.data_page_header.statistics); ph.data_page_header.has_statistics = false;
    carquet_buffer_t h1, h2, fbuf; carquet_buffer_init(&h1); carquet_buffer_init(&h2); carquet_buffer_init(&fbuf);
    blob r = none;
    if (parquet_write_page_header(&dh, &h1, NULL) == CARQUET_OK && parquet_write_page_header(&ph, &h2, NULL) == CARQUET_OK) {
        parquet_row_group_t* rg = &md.row_groups[0]; parquet_column_metadata_t* cm = &rg->columns[0].metadata;
        size_t total = h1.size + 9 + h2.size + 3;
        cm->has_dictionary_page_offset = true; cm->dictionary_page_offset = 4; cm->data_page_offset = (int64_t)(4 + h1.size + 9);
        cm->total_compressed_size = cm->total_uncompressed_size = (int64_t)total; cm->num_values = 2;
        rg->columns[0].file_offset = 4; rg->total_byte_size = (int64_t)total;
        if (parquet_write_file_metadata(&md, &fbuf, NULL) == CARQUET_OK) {
            r.n = 4 + total + fbuf.size + 8; r.b = h_alloc(r.n); uint8_t* p = r.b;
            memcpy(p, "PAR1", 4); p += 4; memcpy(p, h1.data, h1.size); p += h1.size; memcpy(p, dict, 9); p += 9;
            memcpy(p, h2.data, h2.size); p += h2.size; memcpy(p, data, 3); p += 3;
            memcpy(p, fbuf.data, fbuf.size); p += fbuf.size;
            uint32_t FL = (uint32_t)fbuf.size; *p++ = (uint8_t)FL; *p++ = (uint8_t)(FL >> 8); *p++ = (uint8_t)(FL >> 16); *p++ = (uint8_t)(FL >> 24);
            memcpy(p, "PAR1", 4);
            free(none.b);
        }
    }
    carquet_buffer_destroy(&h1); carquet_buffer_destroy(&h2); carquet_buffer_destroy(&fbuf); carquet_arena_destroy(&arena); free(fb);
    return r;
}

static void gen_c04(hctx* h) {
    long bases = h->thorough ? 40 : 6, per = h->thorough ? 400 : 60;
    if (h->shards > 1) bases = (bases + h->shards - 1) / h->shards;
    static const int codecs[] = { 0, 1, 2, 6, 7, -1 };
    long kinds[3] = { 0, 0, 0 };
    for (long b = 0; b < bases; b++) {
        blob base = make_base(h, codecs[b % 6]);
        for (int mode = 0; mode < 3; mode++) exercise(h, base, mode, "none");
        for (int d = 0; d < N_DIRECTED; d++) {
            char desc[160]; desc[0] = 0; blob f = mutate_directed(base, d, desc, sizeof desc);
            for (int mode = 0; mode < 3; mode++) exercise(h, f, mode, desc);
            free(f.b);
        }
        for (long m = 0; m < per; m++) {
            char desc[160]; desc[0] = 0; blob f; int k = (int)h_below(h, 10);
            if (k < 5) { f = mutate_footer(h, base, desc, sizeof desc); kinds[0]++; }
            else if (k < 8) { f = mutate_page(h, base, desc, sizeof desc); kinds[1]++; }
            else { f = mutate_raw(h, base, desc, sizeof desc); kinds[2]++; }
            for (int mode = 0; mode < 3; mode++) exercise(h, f, mode, desc);
            free(f.b);
        }
        free(base.b);
    }
    if (h->shards <= 1 || h->seed % (uint64_t)h->shards == 0) {
        for (int k = -2; k <= 6; k++) {
            char desc[40]; snprintf(desc, sizeof desc, "levels_overhang_%d", k);
            blob f = levels_overhang(k);
            if (f.n) for (int mode = 0; mode < 3; mode++) exercise(h, f, mode, desc);
            free(f.b);
        }
        { static const int lt[][3] = { {18, 9, 5}, {16, 10, 6}, {17, 9, 6}, {26, 17, 5}, {16, 18, 6}, {19, 4, 5}, {16, 4, 12} };
          for (int i = 0; i < 7; i++) {
              char desc[48]; snprintf(desc, sizeof desc, "lz4tail_%d_%d_%d", lt[i][0], lt[i][1], lt[i][2]);
              blob f = lz4_tail(h, lt[i][0], lt[i][1], lt[i][2]);
              if (f.n) for (int mode = 0; mode < 3; mode++) exercise(h, f, mode, desc);
              free(f.b);
          } }
        { static const uint32_t dl[] = { 0xFFFFFFFFu, 0xFFFFFFFEu, 0xFFFFFFFDu, 0xFFFFFFFCu, 0xFFFFFFFBu, 0x7FFFFFFFu, 0x80000000u, 0u };
          for (int i = 0; i < 8; i++) {
              char desc[48]; snprintf(desc, sizeof desc, "dicthugelen_%u", dl[i]);
              blob f = dict_huge_len(dl[i]);
              if (f.n) for (int mode = 0; mode < 3; mode++) exercise(h, f, mode, desc);
              free(f.b);
          } }
        { static const long fn[] = { 1, 8, 30 }; static const uint32_t fc[] = { 0x7FFFFFFFu, 0x7FFFFFFFu, 100000000u };
          for (int i = 0; i < 3; i++) {
              char desc[48]; snprintf(desc, sizeof desc, "fatchain_%ld_%u", fn[i], fc[i]);
              blob f = fat_chain(fn[i], fc[i]);
              for (int mode = 0; mode < 3; mode++) exercise(h, f, mode, desc);
              free(f.b);
          } }
        static const long depths[] = { 40, 2000, 65536, 400000, 1000000 };
        for (int i = 0; i < 5; i++) {
            char desc[40]; snprintf(desc, sizeof desc, "deepchain_%ld", depths[i]);
            blob f = deep_chain(depths[i]);
            for (int mode = 0; mode < 3; mode++) exercise(h, f, mode, desc);
            free(f.b);
        }
    }
    fprintf(h->out, "#stat footer_mutations %ld\n#stat page_mutations %ld\n#stat raw_mutations %ld\n", kinds[0], kinds[1], kinds[2]);
}

static int replay_c04(hctx* h, const h_line* l) {
    if (strcmp(l->op, "c04") != 0) return 0;
    const char* mu = h_in(l, "mut");
    if (!h_in(l, "file") && mu && !strncmp(mu, "deepchain_", 10)) {
        blob f = deep_chain(atol(mu + 10));
        exercise(h, f, (int)h_ll(h_in(l, "mode")), mu); free(f.b); return 1;
    }
    size_t n; uint8_t* b = h_unhex(h_in(l, "file"), &n);
    blob f; f.b = b; f.n = n;
    exercise(h, f, (int)h_ll(h_in(l, "mode")), h_in(l, "mut") ? h_in(l, "mut") : "replay");
    free(b); return 1;
}

const h_component comp_c04 = { "c04", gen_c04, replay_c04 };
