/* C01 / C05 / C03 (file level): write histories through the real writer, read back through the
 * real reader in all three I/O modes.
 *
 *   wr cols=<name.rep.ptype.tlen,...> codec=<n> page=<bytes> ns=<k> s0=<step> ... s<k-1>=<step>
 *      | st=<status of each call incl. close, comma list> file=x<bytes> nrg=<n> rows=<n>
 *        r<rg>_<col>=<ret>;<defs>;<v0:v1:...>   (fread mode, one read_batch of the whole chunk)
 *        p_roundtrip=0/1 (C side: what was read equals what was written)  p_modes=0/1 (mmap and
 *        buffer mode return the same as fread mode)  p_same_twice=0/1 (second write is byte-identical)
 *   step := b.<col>.<defs>.<v0:v1:...>   one write_batch: defs = string of 0/1 per row, or N for a NULL
 *                                        def_levels pointer with <count> rows encoded as N<count>;
 *                                        values are the NON-NULL values, raw little-endian bytes in hex
 *         | rg                           carquet_writer_new_row_group
 * Values are bit patterns throughout (floats never interpreted). */
#include "common.h"
#include <unistd.h>
#include <carquet/carquet.h>

enum { MAXC = 6, MAXSTEP = 64 };
typedef struct { char name[16]; int rep, ptype, tlen; } fcol;
typedef struct {
    int kind;            /* 0 batch, 1 new row group */
    int col; int nrows; int has_defs; uint8_t* defs;   /* defs[i] in {0,1} */
    int nvals; uint8_t** vals; int* vlen;
} fstep;
typedef struct { fcol cols[MAXC]; int ncols; int codec; long page; fstep steps[MAXSTEP]; int nsteps; } fcase;

static int vsize(const fcol* c) {
    switch (c->ptype) { case 0: return 1; case 1: case 4: return 4; case 2: case 5: return 8; case 7: return c->tlen; default: return -1; }
}

static void free_case(fcase* fc) {
    for (int i = 0; i < fc->nsteps; i++) {
        fstep* s = &fc->steps[i];
        free(s->defs);
        for (int j = 0; j < s->nvals; j++) free(s->vals[j]);
        free(s->vals); free(s->vlen);
    }
}

static void print_case(hctx* h, const fcase* fc) {
    fprintf(h->out, "wr cols=");
    for (int i = 0; i < fc->ncols; i++)
        fprintf(h->out, "%s%s.%d.%d.%d", i ? "," : "", fc->cols[i].name, fc->cols[i].rep, fc->cols[i].ptype, fc->cols[i].tlen);
    fprintf(h->out, " codec=%d page=%ld ns=%d", fc->codec, fc->page, fc->nsteps);
    for (int i = 0; i < fc->nsteps; i++) {
        const fstep* s = &fc->steps[i];
        if (s->kind == 1) { fprintf(h->out, " s%d=rg", i); continue; }
        fprintf(h->out, " s%d=b.%d.", i, s->col);
        if (!s->has_defs) fprintf(h->out, "N%d", s->nrows);
        else if (s->nrows == 0) fputc('E', h->out);
        else for (int r = 0; r < s->nrows; r++) fputc('0' + s->defs[r], h->out);
        fputc('.', h->out);
        if (s->nvals == 0) fputc('-', h->out);
        for (int j = 0; j < s->nvals; j++) { if (j) fputc(':', h->out); h_hex(h->out, s->vals[j], (size_t)s->vlen[j]); }
    }
}

/* build the C value array for a batch (dense non-null values) */
static void* batch_values(const fcol* c, const fstep* s) {
    int n = s->nvals;
    if (c->ptype == 6) {
        carquet_byte_array_t* a = (carquet_byte_array_t*)h_alloc((size_t)(n ? n : 1) * sizeof *a);
        for (int j = 0; j < n; j++) { a[j].data = s->vals[j]; a[j].length = s->vlen[j]; }
        return a;
    }
    int vs = vsize(c);
    uint8_t* p = h_alloc((size_t)n * (size_t)vs);
    for (int j = 0; j < n; j++) memcpy(p + (size_t)j * (size_t)vs, s->vals[j], (size_t)vs);
    return p;
}

static int write_file(const fcase* fc, const char* path, int* st, int* nst) {
    carquet_error_t err; memset(&err, 0, sizeof err);
    *nst = 0;
    carquet_schema_t* sc = carquet_schema_create(&err);
    if (!sc) return -1;
    for (int i = 0; i < fc->ncols; i++)
        if (carquet_schema_add_column(sc, fc->cols[i].name, (carquet_physical_type_t)fc->cols[i].ptype, NULL,
                                      (carquet_field_repetition_t)fc->cols[i].rep, fc->cols[i].tlen) != CARQUET_OK) { carquet_schema_free(sc); return -1; }
    carquet_writer_options_t wo; carquet_writer_options_init(&wo);
    wo.compression = (carquet_compression_t)fc->codec; wo.page_size = fc->page;
    carquet_writer_t* w = carquet_writer_create(path, sc, &wo, &err);
    if (!w) { carquet_schema_free(sc); return -1; }
    for (int i = 0; i < fc->nsteps; i++) {
        const fstep* s = &fc->steps[i];
        if (s->kind == 1) { st[(*nst)++] = (int)carquet_writer_new_row_group(w); continue; }
        void* v = batch_values(&fc->cols[s->col], s);
        int16_t* d = NULL;
        if (s->has_defs) { d = (int16_t*)h_alloc((size_t)(s->nrows ? s->nrows : 1) * 2); for (int r = 0; r < s->nrows; r++) d[r] = s->defs[r]; }
        st[(*nst)++] = (int)carquet_writer_write_batch(w, s->col, v, s->nrows, d, NULL);
        free(v); free(d);
    }
    st[(*nst)++] = (int)carquet_writer_close(w);
    carquet_schema_free(sc);
    return 0;
}

/* expected table per row group / column, derived from the history */
typedef struct { int nrows; uint8_t* defs; int nvals; uint8_t** vals; int* vlen; int cap; int vcap; } echunk;

static void ech_add(echunk* e, const fstep* s) {
    if (e->nrows + s->nrows > e->cap) { e->cap = (e->nrows + s->nrows) * 2 + 8; e->defs = (uint8_t*)realloc(e->defs, (size_t)e->cap); }
    for (int r = 0; r < s->nrows; r++) e->defs[e->nrows + r] = s->has_defs ? s->defs[r] : 1;
    e->nrows += s->nrows;
    if (e->nvals + s->nvals > e->vcap) { e->vcap = (e->nvals + s->nvals) * 2 + 8; e->vals = (uint8_t**)realloc(e->vals, (size_t)e->vcap * sizeof(uint8_t*)); e->vlen = (int*)realloc(e->vlen, (size_t)e->vcap * sizeof(int)); }
    for (int j = 0; j < s->nvals; j++) { e->vals[e->nvals + j] = s->vals[j]; e->vlen[e->nvals + j] = s->vlen[j]; }
    e->nvals += s->nvals;
}

/* read one chunk fully with one read_batch; renders "ret;defs;vals" into a malloc'ed string */
static char* read_chunk(carquet_reader_t* rd, const fcol* c, int rg, int col) {
    carquet_error_t err; memset(&err, 0, sizeof err);
    size_t cap = 256, len = 0; char* out = (char*)malloc(cap);
#define APP(...) do { for (;;) { int k_ = snprintf(out + len, cap - len, __VA_ARGS__); if ((size_t)k_ < cap - len) { len += (size_t)k_; break; } cap = cap * 2 + (size_t)k_; out = (char*)realloc(out, cap); } } while (0)
    carquet_column_reader_t* cr = carquet_reader_get_column(rd, rg, col, &err);
    if (!cr) { APP("E%d;-;-", (int)err.code); return out; }
    int64_t n = carquet_column_remaining(cr);
    if (n < 0 || n > 1000000) { APP("R%lld;-;-", (long long)n); carquet_column_reader_free(cr); return out; }
    int vs = c->ptype == 6 ? (int)sizeof(carquet_byte_array_t) : vsize(c);
    uint8_t* vals = h_alloc((size_t)(n ? n : 1) * (size_t)vs);
    memset(vals, 0xEE, (size_t)(n ? n : 1) * (size_t)vs);
    int16_t* defs = (int16_t*)h_alloc((size_t)(n ? n : 1) * 2);
    for (int64_t i = 0; i < n; i++) defs[i] = -7;
    int64_t got = carquet_column_read_batch(cr, vals, n, c->rep == 1 ? defs : NULL, NULL);
    APP("%lld;", (long long)got);
    int64_t nn = 0;
    if (got > 0 && c->rep == 1) { for (int64_t i = 0; i < got; i++) { APP("%c", defs[i] == 1 ? '1' : (defs[i] == 0 ? '0' : '?')); if (defs[i] == 1) nn++; } }
    else if (got > 0) { APP("-"); nn = got; }
    else APP("-");
    APP(";");
    if (nn == 0) APP("-");
    for (int64_t j = 0; j < nn; j++) {
        if (j) APP(":");
        const uint8_t* p; int l;
        if (c->ptype == 6) { carquet_byte_array_t* a = (carquet_byte_array_t*)vals; p = a[j].data; l = a[j].length; if (l < 0 || l > 1000000) { APP("BADLEN"); continue; } }
        else { p = vals + (size_t)j * (size_t)vs; l = vs; }
        APP("x");
        for (int b = 0; b < l; b++) APP("%02x", p[b]);   /* instrumented byte reads: ASan sees stale pointers */
    }
    carquet_column_reader_free(cr);
    free(vals); free(defs);
    return out;
#undef APP
}

static char* expected_chunk(const echunk* e, const fcol* c) {
    size_t cap = 64 + (size_t)e->nrows + 4; for (int j = 0; j < e->nvals; j++) cap += 2 * (size_t)e->vlen[j] + 2;
    char* out = (char*)malloc(cap); size_t len = 0;
    len += (size_t)sprintf(out + len, "%d;", e->nrows);
    if (e->nrows == 0) out[len++] = '-';
    else if (c->rep == 1) for (int r = 0; r < e->nrows; r++) out[len++] = (char)('0' + e->defs[r]);
    else out[len++] = '-';
    out[len++] = ';';
    if (e->nvals == 0) out[len++] = '-';
    for (int j = 0; j < e->nvals; j++) {
        if (j) out[len++] = ':';
        out[len++] = 'x';
        for (int b = 0; b < e->vlen[j]; b++) len += (size_t)sprintf(out + len, "%02x", e->vals[j][b]);
    }
    out[len] = 0;
    return out;
}

static uint8_t* slurp(const char* path, size_t* n) {
    FILE* f = fopen(path, "rb"); *n = 0;
    if (!f) return h_alloc(0);
    fseek(f, 0, SEEK_END); long sz = ftell(f); fseek(f, 0, SEEK_SET);
    uint8_t* p = h_alloc((size_t)(sz > 0 ? sz : 0));
    if (sz > 0 && fread(p, 1, (size_t)sz, f) != (size_t)sz) sz = 0;
    fclose(f); *n = (size_t)(sz > 0 ? sz : 0);
    return p;
}

static void run_case(hctx* h, fcase* fc) {
    char path[128], path2[128];
    snprintf(path, sizeof path, "/tmp/verif_h_%d_a.parquet", (int)getpid());
    snprintf(path2, sizeof path2, "/tmp/verif_h_%d_b.parquet", (int)getpid());
    print_case(h, fc); h_call(h);
    int st[MAXSTEP + 2], nst = 0, st2[MAXSTEP + 2], nst2 = 0;
    if (write_file(fc, path, st, &nst) != 0) { fprintf(h->out, " | err=create\n"); h->n_lines++; return; }
    write_file(fc, path2, st2, &nst2);
    size_t fn, fn2; uint8_t* fb = slurp(path, &fn); uint8_t* fb2 = slurp(path2, &fn2);
    int same_twice = (fn == fn2 && memcmp(fb, fb2, fn) == 0);
    fprintf(h->out, " | st=");
    int all_ok = 1;
    for (int i = 0; i < nst; i++) { fprintf(h->out, "%s%d", i ? "," : "", st[i]); if (st[i] != 0) all_ok = 0; }
    fprintf(h->out, " file="); h_hex(h->out, fb, fn);
    /* expected table: row groups = maximal runs of batches between rg steps, only those that exist in the file */
    int nrg_exp = 0; echunk exp[16][MAXC]; memset(exp, 0, sizeof exp);
    { int open = 0;
      for (int i = 0; i < fc->nsteps; i++) {
          fstep* s = &fc->steps[i];
          if (s->kind == 1) { if (open) { nrg_exp++; open = 0; } continue; }
          open = 1; if (nrg_exp < 16) ech_add(&exp[nrg_exp][s->col], s);
      }
      if (open) nrg_exp++; }
    int roundtrip = 1, modes = 1;
    if (all_ok) {
        carquet_error_t err; memset(&err, 0, sizeof err);
        carquet_reader_options_t ro; carquet_reader_options_init(&ro);
        carquet_reader_t* rd = carquet_reader_open(path, &ro, &err);
        carquet_reader_options_t rm; carquet_reader_options_init(&rm); rm.use_mmap = true;
        carquet_reader_t* rdm = carquet_reader_open(path, &rm, &err);
        carquet_reader_t* rdb = carquet_reader_open_buffer(fb, fn, &ro, &err);
        if (!rd) { fprintf(h->out, " open=E%d", (int)err.code); roundtrip = 0; }
        else {
            int nrg = carquet_reader_num_row_groups(rd);
            fprintf(h->out, " nrg=%d rows=%lld ncol=%d", nrg, (long long)carquet_reader_num_rows(rd), carquet_reader_num_columns(rd));
            /* expected: non-empty row groups only are compared by content; the file may hold empty ones */
            int e = 0;
            for (int g = 0; g < nrg && g < 16; g++) {
                for (int c = 0; c < fc->ncols; c++) {
                    char* got = read_chunk(rd, &fc->cols[c], g, c);
                    fprintf(h->out, " r%d_%d=%s", g, c, got);
                    if (e < nrg_exp) { char* want = expected_chunk(&exp[e][c], &fc->cols[c]); if (strcmp(got, want) != 0) roundtrip = 0; free(want); } else roundtrip = 0;
                    if (rdm) { char* g2 = read_chunk(rdm, &fc->cols[c], g, c); if (strcmp(got, g2) != 0) modes = 0; free(g2); } else modes = 0;
                    if (rdb) { char* g3 = read_chunk(rdb, &fc->cols[c], g, c); if (strcmp(got, g3) != 0) modes = 0; free(g3); } else modes = 0;
                    free(got);
                }
                e++;
            }
            if (e != nrg_exp) roundtrip = 0;
            if (rdm && (carquet_reader_num_row_groups(rdm) != nrg || carquet_reader_num_rows(rdm) != carquet_reader_num_rows(rd))) modes = 0;
            if (rdb && (carquet_reader_num_row_groups(rdb) != nrg || carquet_reader_num_rows(rdb) != carquet_reader_num_rows(rd))) modes = 0;
        }
        if (rd) carquet_reader_close(rd);
        if (rdm) carquet_reader_close(rdm);
        if (rdb) carquet_reader_close(rdb);
        fprintf(h->out, " p_roundtrip=%d p_modes=%d p_same_twice=%d", roundtrip, modes, same_twice);
    }
    fputc('\n', h->out);
    h->n_lines++;
    for (int g = 0; g < 16; g++) for (int c = 0; c < MAXC; c++) { free(exp[g][c].defs); free(exp[g][c].vals); free(exp[g][c].vlen); }
    free(fb); free(fb2);
    unlink(path); unlink(path2);
}

/* ---- generation ---- */
static void gen_value(hctx* h, const fcol* c, uint8_t** out, int* len) {
    static const uint64_t special64[] = { 0, 1, 0xFFFFFFFFFFFFFFFFull, 0x7FFFFFFFFFFFFFFFull, 0x8000000000000000ull,
        0x7FF8000000000000ull /* NaN */, 0xFFF8000000000001ull, 0x8000000000000000ull /* -0.0 */, 0x7FF0000000000000ull, 0x0000000000000001ull };
    static const uint32_t special32[] = { 0, 1, 0xFFFFFFFFu, 0x7FFFFFFFu, 0x80000000u, 0x7FC00000u /* NaN */, 0xFFC00001u, 0x80000000u /* -0.0f */, 0x7F800000u, 1u };
    int n;
    switch (c->ptype) {
    case 0: n = 1; break; case 1: case 4: n = 4; break; case 2: case 5: n = 8; break;
    case 7: n = c->tlen; break;
    default: n = h_chance(h, 1, 5) ? 0 : (int)h_below(h, h_chance(h, 1, 20) ? 300 : 12); break;
    }
    uint8_t* p = h_alloc((size_t)n);
    if (c->ptype == 0) p[0] = (uint8_t)h_below(h, 2);
    else if ((c->ptype == 1 || c->ptype == 4) && h_chance(h, 1, 3)) { uint32_t v = special32[h_below(h, 10)]; memcpy(p, &v, 4); }
    else if ((c->ptype == 2 || c->ptype == 5) && h_chance(h, 1, 3)) { uint64_t v = special64[h_below(h, 10)]; memcpy(p, &v, 8); }
    else if (h_chance(h, 1, 3)) { uint64_t v = h_below(h, 5); for (int i = 0; i < n; i++) p[i] = i < 8 ? (uint8_t)(v >> (8 * i)) : 0; }
    else for (int i = 0; i < n; i++) p[i] = (uint8_t)h_next(h);
    *out = p; *len = n;
}

static void gen_case(hctx* h, fcase* fc, int small) {
    static const int codecs[] = { 0, 1, 2, 5, 6, 7 };
    static const int types[] = { 0, 1, 2, 4, 5, 6, 7 };
    memset(fc, 0, sizeof *fc);
    fc->ncols = 1 + (int)h_below(h, small ? 2 : 4);
    for (int i = 0; i < fc->ncols; i++) {
        snprintf(fc->cols[i].name, sizeof fc->cols[i].name, "c%d", i);
        fc->cols[i].rep = (int)h_below(h, 2);
        fc->cols[i].ptype = types[h_below(h, 7)];
        if (getenv("VERIF_FILE_NO_BYTE_ARRAY") && fc->cols[i].ptype == 6) fc->cols[i].ptype = 2;  /* development aid only */
        fc->cols[i].tlen = fc->cols[i].ptype == 7 ? 1 + (int)h_below(h, 9) : 0;
    }
    fc->codec = codecs[h_below(h, 6)];
    switch (h_below(h, 5)) { case 0: fc->page = 1; break; case 1: fc->page = 64 + (long)h_below(h, 64); break; case 2: fc->page = 100 + (long)h_below(h, 400); break; case 3: fc->page = 4096; break; default: fc->page = 1024 * 1024; break; }
    int nrg = 1 + (int)h_below(h, 3);
    if (h_chance(h, 1, 25)) nrg = 0;
    int ns = 0;
    for (int g = 0; g < nrg; g++) {
        int rows = small ? (int)h_below(h, 14) : (int)h_below(h, h_chance(h, 1, 4) ? 200 : 40);
        if (h_chance(h, 1, 15)) rows = 0;
        /* per column: a null pattern over `rows`, split into batches; batches of different columns interleaved column by column */
        for (int c = 0; c < fc->ncols; c++) {
            int pat = (int)h_below(h, 6);
            int left = rows;
            int nb = 1 + (int)h_below(h, 4);
            for (int b = 0; b < nb && ns < MAXSTEP - 4; b++) {
                int take = (b == nb - 1) ? left : (int)h_below(h, (uint64_t)left + 1);
                if (take == 0 && !(rows == 0 && b == nb - 1) && !h_chance(h, 1, 6)) continue;
                fstep* s = &fc->steps[ns++];
                s->kind = 0; s->col = c; s->nrows = take;
                s->has_defs = fc->cols[c].rep == 1 ? !h_chance(h, 1, 8) : h_chance(h, 1, 10);
                s->defs = h_alloc((size_t)take);
                int nn = 0;
                for (int r = 0; r < take; r++) {
                    int d = 1;
                    if (fc->cols[c].rep == 1 && s->has_defs) {
                        switch (pat) { case 0: d = 1; break; case 1: d = 0; break; case 2: d = (int)h_below(h, 2); break;
                                       case 3: d = ((rows - left + r) / 9) % 2; break; case 4: d = h_chance(h, 1, 10) ? 0 : 1; break; default: d = ((rows - left + r) % 3) != 0; break; }
                    }
                    s->defs[r] = (uint8_t)d; nn += d;
                }
                s->nvals = nn;
                s->vals = (uint8_t**)h_alloc((size_t)(nn ? nn : 1) * sizeof(uint8_t*));
                s->vlen = (int*)h_alloc((size_t)(nn ? nn : 1) * sizeof(int));
                for (int j = 0; j < nn; j++) gen_value(h, &fc->cols[c], &s->vals[j], &s->vlen[j]);
                left -= take;
            }
        }
        if (g + 1 < nrg || h_chance(h, 1, 5)) { if (ns < MAXSTEP - 1) { fc->steps[ns].kind = 1; ns++; } }
    }
    fc->nsteps = ns;
}

static void gen_file(hctx* h) {
    long n = h->thorough ? 6000 : 350;
    for (long i = 0; i < n; i++) {
        fcase fc; gen_case(h, &fc, i % 3 == 0);
        run_case(h, &fc);
        free_case(&fc);
    }
}

/* ---- replay ---- */
static int parse_case(const h_line* l, fcase* fc) {
    memset(fc, 0, sizeof *fc);
    const char* cs = h_in(l, "cols"); if (!cs) return 1;
    const char* c = cs;
    while (*c && fc->ncols < MAXC) {
        fcol* k = &fc->cols[fc->ncols++];
        int n = 0; while (*c && *c != '.' && n < 15) k->name[n++] = *c++;
        k->name[n] = 0; if (*c == '.') c++;
        k->rep = (int)strtol(c, (char**)&c, 10); if (*c == '.') c++;
        k->ptype = (int)strtol(c, (char**)&c, 10); if (*c == '.') c++;
        k->tlen = (int)strtol(c, (char**)&c, 10);
        if (*c == ',') c++;
    }
    fc->codec = (int)h_ll(h_in(l, "codec")); fc->page = (long)h_ll(h_in(l, "page"));
    int ns = (int)h_ll(h_in(l, "ns")); if (ns > MAXSTEP) return 1;
    for (int i = 0; i < ns; i++) {
        char key[16]; snprintf(key, sizeof key, "s%d", i);
        const char* v = h_in(l, key); if (!v) return 1;
        fstep* s = &fc->steps[fc->nsteps++];
        if (!strcmp(v, "rg")) { s->kind = 1; continue; }
        if (v[0] != 'b' || v[1] != '.') return 1;
        const char* p = v + 2;
        s->col = (int)strtol(p, (char**)&p, 10); if (*p == '.') p++;
        if (*p == 'N') { p++; s->has_defs = 0; s->nrows = (int)strtol(p, (char**)&p, 10); s->defs = h_alloc((size_t)s->nrows); memset(s->defs, 1, (size_t)s->nrows); }
        else if (*p == 'E') { p++; s->has_defs = 1; s->nrows = 0; s->defs = h_alloc(0); }
        else { const char* q = p; while (*q == '0' || *q == '1') q++; s->has_defs = 1; s->nrows = (int)(q - p); s->defs = h_alloc((size_t)s->nrows); for (int r = 0; r < s->nrows; r++) s->defs[r] = (uint8_t)(p[r] - '0'); p = q; }
        if (*p == '.') p++;
        int nv = 0; if (strcmp(p, "-") != 0) { nv = 1; for (const char* q = p; *q; q++) if (*q == ':') nv++; }
        s->nvals = nv; s->vals = (uint8_t**)h_alloc((size_t)(nv ? nv : 1) * sizeof(uint8_t*)); s->vlen = (int*)h_alloc((size_t)(nv ? nv : 1) * sizeof(int));
        for (int j = 0; j < nv; j++) {
            const char* q = p; while (*q && *q != ':') q++;
            char* tmp = strndup(p, (size_t)(q - p)); size_t n; s->vals[j] = h_unhex(tmp, &n); s->vlen[j] = (int)n; free(tmp);
            p = *q ? q + 1 : q;
        }
    }
    return 0;
}
static int replay_file(hctx* h, const h_line* l) {
    if (strcmp(l->op, "wr") != 0) return 0;
    fcase fc; if (parse_case(l, &fc)) { fprintf(stderr, "bad wr line\n"); return 1; }
    run_case(h, &fc); free_case(&fc); return 1;
}

const h_component comp_file = { "file", gen_file, replay_file };
