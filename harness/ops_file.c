/* C01 / C05 / C03 (file level): write histories through the real writer, read back through the
 * real reader in all three I/O modes.
 *
 *   wr cols=<name.rep.ptype.tlen[.id:p1:p2],...> codec=<n> page=<bytes> ns=<k> s0=<step> ... s<k-1>=<step>
 *      | st=<status of each call incl. close, comma list> file=x<bytes> nrg=<n> rows=<n>
 *        r<rg>_<col>=<ret>;<defs>;<v0:v1:...>[;<reps>]   (fread mode, one read_batch of the whole chunk; a REPEATED
 *                                                column is read with a rep_levels array and has the fourth field)
 *        lt<mode>=<N | id:p1:p2 per schema element>   carquet_schema_node_logical_type of every element after re-opening
 *        p_roundtrip=0/1 (C side: what was read equals what was written)  p_modes=0/1 (mmap and
 *        buffer mode return the same as fread mode)  p_same_twice=0/1 (second write is byte-identical)
 *   step := b.<col>.<defs>.<v0:v1:...>   one write_batch: defs = string of 0/1 per row, or N for a NULL
 *                                        def_levels pointer with <count> rows encoded as N<count>;
 *                                        values are the NON-NULL values, raw little-endian bytes in hex
 *           b.<col>.<defs>.<vals>.R<reps>      the same with a rep_levels array (string of 0/1 per entry, E if empty);
 *                                        without the field rep_levels is NULL.  For a REPEATED column <defs> / <reps>
 *                                        have one character per ENTRY (0 = empty list / 1 = element; 0 = first entry
 *                                        of a row / 1 = further element of the same list)
 *         | rg                           carquet_writer_new_row_group
 * Values are bit patterns throughout (floats never interpreted). */
#include "filecase.h"
#include "ropts.h"
#include <sys/stat.h>

/* expected table per row group / column, derived from the history */
typedef struct { int nrows; uint8_t* defs; uint8_t* reps; int nvals; uint8_t** vals; int* vlen; int cap; int vcap; } echunk;

static void ech_add(echunk* e, const fstep* s) {
    if (e->nrows + s->nrows > e->cap) { e->cap = (e->nrows + s->nrows) * 2 + 8; e->defs = (uint8_t*)realloc(e->defs, (size_t)e->cap); e->reps = (uint8_t*)realloc(e->reps, (size_t)e->cap); }
    for (int r = 0; r < s->nrows; r++) e->defs[e->nrows + r] = s->has_defs ? s->defs[r] : 1;
    for (int r = 0; r < s->nrows; r++) e->reps[e->nrows + r] = s->has_reps ? s->reps[r] : 0;    /* NULL rep_levels: every entry starts a row */
    e->nrows += s->nrows;
    if (e->nvals + s->nvals > e->vcap) { e->vcap = (e->nvals + s->nvals) * 2 + 8; e->vals = (uint8_t**)realloc(e->vals, (size_t)e->vcap * sizeof(uint8_t*)); e->vlen = (int*)realloc(e->vlen, (size_t)e->vcap * sizeof(int)); }
    for (int j = 0; j < s->nvals; j++) { e->vals[e->nvals + j] = s->vals[j]; e->vlen[e->nvals + j] = s->vlen[j]; }
    e->nvals += s->nvals;
}

/* read one chunk fully with one read_batch; renders "ret;defs;vals" into a malloc'ed string */
static char* read_chunk(carquet_reader_t* rd, const fcol* c, int rg, int col) {
    carquet_error_t err; memset(&err, 0, sizeof err);
    size_t cap = 256, len = 0; char* out = (char*)malloc(cap);
#define APP(...) do { for (;;) { int k_ = snprintf(out + len, cap - len, __VA_ARGS__); if ((size_t)k_ < cap - len) { len += (size_t)k_; break; } cap = cap * 2 + (size_t)k_; out = (char*)realloc(out, cap); } } while (0)
    carquet_column_reader_t* cr = carquet_reader_get_column(rd, rg, col, &err);
    if (!cr) { APP("E%d;-;-", (int)err.code); return out; }
    int64_t n = carquet_column_remaining(cr);
    if (n < 0 || n > 2000000) { APP("R%lld;-;-", (long long)n); carquet_column_reader_free(cr); return out; }
    int vs = c->ptype == 6 ? (int)sizeof(carquet_byte_array_t) : vsize(c);
    uint8_t* vals = h_alloc((size_t)(n ? n : 1) * (size_t)vs);
    memset(vals, 0xEE, (size_t)(n ? n : 1) * (size_t)vs);
    int16_t* defs = (int16_t*)h_alloc((size_t)(n ? n : 1) * 2);
    int16_t* reps = (int16_t*)h_alloc((size_t)(n ? n : 1) * 2);
    for (int64_t i = 0; i < n; i++) { defs[i] = -7; reps[i] = -7; }
    int64_t got = carquet_column_read_batch(cr, vals, n, c->rep != 0 ? defs : NULL, c->rep == 2 ? reps : NULL);
    APP("%lld;", (long long)got);
    int64_t nn = 0;
    if (got > 0 && c->rep != 0) { for (int64_t i = 0; i < got; i++) { APP("%c", defs[i] == 1 ? '1' : (defs[i] == 0 ? '0' : '?')); if (defs[i] == 1) nn++; } }
    else if (got > 0) { APP("-"); nn = got; }
    else APP("-");
    APP(";");
    if (nn == 0) APP("-");
    for (int64_t j = 0; j < nn; j++) {
        if (j) APP(":");
        const uint8_t* p; int l;
        if (c->ptype == 6) { carquet_byte_array_t* a = (carquet_byte_array_t*)vals; p = a[j].data; l = a[j].length; if (l < 0 || l > 1000000) { APP("BADLEN"); continue; } }
        else { p = vals + (size_t)j * (size_t)vs; l = vs; }
        APP("x");
        for (int b = 0; b < l; b++) APP("%02x", p[b]);   /* instrumented byte reads: ASan sees stale pointers */
    }
    if (c->rep == 2) {                                   /* REPEATED column: fourth field, the repetition levels */
        APP(";");
        if (got > 0) for (int64_t i = 0; i < got; i++) APP("%c", reps[i] == 1 ? '1' : (reps[i] == 0 ? '0' : '?'));
        else APP("-");
    }
    carquet_column_reader_free(cr);
    free(vals); free(defs); free(reps);
    return out;
#undef APP
}

static char* expected_chunk(const echunk* e, const fcol* c) {
    size_t cap = 64 + 2 * (size_t)e->nrows + 8; for (int j = 0; j < e->nvals; j++) cap += 2 * (size_t)e->vlen[j] + 2;
    char* out = (char*)malloc(cap); size_t len = 0;
    len += (size_t)sprintf(out + len, "%d;", e->nrows);
    if (e->nrows == 0) out[len++] = '-';
    else if (c->rep != 0) for (int r = 0; r < e->nrows; r++) out[len++] = (char)('0' + e->defs[r]);
    else out[len++] = '-';
    out[len++] = ';';
    if (e->nvals == 0) out[len++] = '-';
    for (int j = 0; j < e->nvals; j++) {
        if (j) out[len++] = ':';
        out[len++] = 'x';
        for (int b = 0; b < e->vlen[j]; b++) len += (size_t)sprintf(out + len, "%02x", e->vals[j][b]);
    }
    if (c->rep == 2) {
        out[len++] = ';';
        if (e->nrows == 0) out[len++] = '-';
        else for (int r = 0; r < e->nrows; r++) out[len++] = (char)('0' + e->reps[r]);
    }
    out[len] = 0;
    return out;
}

static uint8_t* slurp(const char* path, size_t* n) {
    FILE* f = fopen(path, "rb"); *n = 0;
    if (!f) return h_alloc(0);
    fseek(f, 0, SEEK_END); long sz = ftell(f); fseek(f, 0, SEEK_SET);
    uint8_t* p = h_alloc((size_t)(sz > 0 ? sz : 0));
    if (sz > 0 && fread(p, 1, (size_t)sz, f) != (size_t)sz) sz = 0;
    fclose(f); *n = (size_t)(sz > 0 ? sz : 0);
    return p;
}

/* GZIP / ZSTD pages: woracle=<u1:c1,u2:c2,...> — every gzip member / zstd frame found in the file (scanned by magic, no
 * carquet code) is decompressed by zlib / libzstd called DIRECTLY, and the contents u are compressed again, directly, with
 * the parameters page_writer.c hard-wires (gzip: level 6, windowBits 15+16, memLevel 8; zstd: level 3).  The driver hands
 * the pairs to the writer model as its compression oracle and compares whole files byte for byte: the wrappers' parameters
 * and the page bodies are thereby tied for codecs 2 and 6 as well. */
#include <zlib.h>
#include <zstd.h>
static size_t wo_gunzip(const uint8_t* p, size_t n, uint8_t** out, size_t* outn) {
    z_stream s; memset(&s, 0, sizeof s);
    if (inflateInit2(&s, 31) != Z_OK) return 0;
    size_t cap = 256 + n * 4; uint8_t* o = (uint8_t*)malloc(cap);
    s.next_in = (Bytef*)p; s.avail_in = (uInt)n; s.next_out = o; s.avail_out = (uInt)cap;
    for (;;) {
        int r = inflate(&s, Z_NO_FLUSH);
        if (r == Z_STREAM_END) break;
        if (r != Z_OK) { inflateEnd(&s); free(o); return 0; }
        if (s.avail_out == 0) { size_t used = cap; cap *= 2; o = (uint8_t*)realloc(o, cap); s.next_out = o + used; s.avail_out = (uInt)(cap - used); }
        else if (s.avail_in == 0) { inflateEnd(&s); free(o); return 0; }
    }
    size_t used_in = (size_t)s.total_in; *outn = (size_t)s.total_out; *out = o; inflateEnd(&s); return used_in;
}
static size_t wo_unzstd(const uint8_t* p, size_t n, uint8_t** out, size_t* outn) {
    size_t fs = ZSTD_findFrameCompressedSize(p, n);
    if (ZSTD_isError(fs)) return 0;
    unsigned long long cs = ZSTD_getFrameContentSize(p, fs);
    size_t cap = (cs == ZSTD_CONTENTSIZE_UNKNOWN || cs == ZSTD_CONTENTSIZE_ERROR) ? fs * 64 + 1024 : (size_t)cs;
    if (cap > (1u << 28)) return 0;
    uint8_t* o = (uint8_t*)malloc(cap ? cap : 1);
    size_t r = ZSTD_decompress(o, cap, p, fs);
    if (ZSTD_isError(r)) { free(o); return 0; }
    *out = o; *outn = r; return fs;
}
static void wo_print(FILE* f, const uint8_t* fb, size_t fn, int codec) {
    int first = 1;
    fprintf(f, " woracle=");
    for (size_t i = 0; i + 4 <= fn && (codec == 2 || codec == 6); i++) {
        uint8_t* u = NULL; size_t un = 0, used = 0;
        if (codec == 2 && fb[i] == 0x1f && fb[i + 1] == 0x8b && fb[i + 2] == 8) used = wo_gunzip(fb + i, fn - i, &u, &un);
        else if (codec == 6 && fb[i] == 0x28 && fb[i + 1] == 0xb5 && fb[i + 2] == 0x2f && fb[i + 3] == 0xfd) used = wo_unzstd(fb + i, fn - i, &u, &un);
        if (!used) continue;
        size_t cap = codec == 2 ? compressBound((uLong)un) + 64 : ZSTD_compressBound(un);
        uint8_t* c = (uint8_t*)malloc(cap ? cap : 1); size_t cn = 0;
        if (codec == 2) {
            z_stream s; memset(&s, 0, sizeof s);
            if (deflateInit2(&s, 6, Z_DEFLATED, 15 + 16, 8, Z_DEFAULT_STRATEGY) == Z_OK) {
                s.next_in = u; s.avail_in = (uInt)un; s.next_out = c; s.avail_out = (uInt)cap;
                if (deflate(&s, Z_FINISH) == Z_STREAM_END) cn = (size_t)s.total_out;
                deflateEnd(&s);
            }
        } else {
            size_t r = ZSTD_compress(c, cap, u, un, 3);
            if (!ZSTD_isError(r)) cn = r;
        }
        if (!first) fputc(',', f);
        first = 0;
        h_hex(f, u, un); fputc(':', f); h_hex(f, c, cn);
        free(u); free(c);
        i += used - 1;
    }
    if (first) fputc('-', f);
}

static void run_case(hctx* h, fcase* fc) {
    char path[128], path2[128];
    snprintf(path, sizeof path, "/tmp/verif_h_%d_a.parquet", (int)getpid());
    snprintf(path2, sizeof path2, "/tmp/verif_h_%d_b.parquet", (int)getpid());
    print_case(h, fc); h_call(h);
    int st[MAXSTEP + 2], nst = 0, st2[MAXSTEP + 2], nst2 = 0;
    if (write_file(fc, path, st, &nst) != 0) { fprintf(h->out, " | err=create\n"); h->n_lines++; return; }
    /* the second write: every other case through the FILE*-based carquet_writer_create_file (same bytes expected) */
    g_write_via_stream = (fc->nsteps + fc->ncols) % 2; write_file(fc, path2, st2, &nst2); g_write_via_stream = 0;
    size_t fn, fn2; uint8_t* fb = slurp(path, &fn); uint8_t* fb2 = slurp(path2, &fn2);
    int same_twice = (fn == fn2 && memcmp(fb, fb2, fn) == 0);
    fprintf(h->out, " | st=");
    int all_ok = 1;
    for (int i = 0; i < nst; i++) { fprintf(h->out, "%s%d", i ? "," : "", st[i]); if (st[i] != 0) all_ok = 0; }
    fprintf(h->out, " file="); h_hex(h->out, fb, fn);
    if (fc->codec == 2 || fc->codec == 6) wo_print(h->out, fb, fn, fc->codec);
    /* expected table: row groups = maximal runs of batches between rg steps, only those that exist in the file */
    int nrg_exp = 0; static echunk exp[20][MAXC]; memset(exp, 0, sizeof exp);
    { int open = 0;
      for (int i = 0; i < fc->nsteps; i++) {
          fstep* s = &fc->steps[i];
          if (s->kind == 1) { if (open) { nrg_exp++; open = 0; } continue; }
          open = 1; if (nrg_exp < 20) ech_add(&exp[nrg_exp][s->col], s);
      }
      if (open) nrg_exp++; }
    int roundtrip = 1, modes = 1;
    if (all_ok) {
        carquet_error_t err; memset(&err, 0, sizeof err);
        carquet_reader_options_t ro; carquet_reader_options_init(&ro);
        h_vary_reader_options(&ro, fb, fn);
        carquet_reader_t* rd = carquet_reader_open(path, &ro, &err);
        carquet_reader_options_t rm; carquet_reader_options_init(&rm); rm.use_mmap = true;
        h_vary_reader_options(&rm, fb, fn); rm.use_mmap = true;
        carquet_reader_t* rdm = carquet_reader_open(path, &rm, &err);
        carquet_reader_t* rdb = carquet_reader_open_buffer(fb, fn, &ro, &err);
        if (!rd) { fprintf(h->out, " open=E%d", (int)err.code); roundtrip = 0; }
        else {
            int nrg = carquet_reader_num_row_groups(rd);
            fprintf(h->out, " nrg=%d rows=%lld ncol=%d", nrg, (long long)carquet_reader_num_rows(rd), carquet_reader_num_columns(rd));
            /* expected: non-empty row groups only are compared by content; the file may hold empty ones */
            int e = 0;
            for (int g = 0; g < nrg && g < 20; g++) {
                for (int c = 0; c < fc->ncols; c++) {
                    char* got = read_chunk(rd, &fc->cols[c], g, c);
                    fprintf(h->out, " r%d_%d=%s", g, c, got);
                    if (e < nrg_exp) { char* want = expected_chunk(&exp[e][c], &fc->cols[c]); if (strcmp(got, want) != 0) roundtrip = 0; free(want); } else roundtrip = 0;
                    if (rdm) { char* g2 = read_chunk(rdm, &fc->cols[c], g, c); if (strcmp(got, g2) != 0) modes = 0; free(g2); } else modes = 0;
                    if (rdb) { char* g3 = read_chunk(rdb, &fc->cols[c], g, c); if (strcmp(got, g3) != 0) modes = 0; free(g3); } else modes = 0;
                    free(got);
                }
                e++;
            }
            if (e != nrg_exp) roundtrip = 0;
            /* num_rows of the file: the rows of the first column of every row group (a REPEATED column starts a row at
             * each repetition level 0) */
            { long long want_rows = 0;
              for (int g = 0; g < nrg_exp && g < 20; g++) {
                  const echunk* e0 = &exp[g][0];
                  if (fc->cols[0].rep == 2) { for (int r = 0; r < e0->nrows; r++) if (e0->reps[r] == 0) want_rows++; }
                  else want_rows += e0->nrows;
              }
              if ((long long)carquet_reader_num_rows(rd) != want_rows) roundtrip = 0; }
            if (rdm && (carquet_reader_num_row_groups(rdm) != nrg || carquet_reader_num_rows(rdm) != carquet_reader_num_rows(rd))) modes = 0;
            if (rdb && (carquet_reader_num_row_groups(rdb) != nrg || carquet_reader_num_rows(rdb) != carquet_reader_num_rows(rd))) modes = 0;
        }
        /* lt<mode>=<one entry per schema element, root first>: what carquet_schema_node_logical_type returns for every element
         * of the re-opened file's schema (N = NULL, else id:p1:p2), in fread (0), mmap (1) and buffer (2) mode */
        { carquet_reader_t* rs[3] = { rd, rdm, rdb };
          for (int m = 0; m < 3; m++) {
              if (!rs[m]) continue;
              const carquet_schema_t* sch = carquet_reader_schema(rs[m]);
              int ne = sch ? carquet_schema_num_elements(sch) : 0;
              fprintf(h->out, " lt%d=", m);
              if (ne == 0) fputc('-', h->out);
              for (int e = 0; e < ne; e++) {
                  if (e) fputc(',', h->out);
                  const carquet_schema_node_t* nd = carquet_schema_get_element(sch, e);
                  if (!nd) { fputc('?', h->out); continue; }
                  print_logical(h->out, carquet_schema_node_logical_type(nd));
              }
          } }
        if (rd) carquet_reader_close(rd);
        if (rdm) carquet_reader_close(rdm);
        if (rdb) carquet_reader_close(rdb);
        /* one reader handle per column, one after the other (a projection done by hand): handle k is opened only after handle
         * k-1 has read its column to the end and was closed; what a handle returns must not depend on what handles before it
         * did to THEIR streams (stdio mode, where a stream position exists) */
        int percol = 1;
        if (roundtrip && fc->ncols >= 2) {
            for (int c = 0; c < fc->ncols; c++) {
                carquet_reader_options_t r1; carquet_reader_options_init(&r1);
                carquet_reader_t* one = carquet_reader_open(path, &r1, &err);
                if (!one) { percol = 0; break; }
                int nrg = carquet_reader_num_row_groups(one), e = 0;
                for (int g = 0; g < nrg && g < 20 && e < nrg_exp; g++, e++) {
                    char* got = read_chunk(one, &fc->cols[c], g, c);
                    char* want = expected_chunk(&exp[e][c], &fc->cols[c]);
                    if (strcmp(got, want) != 0) percol = 0;
                    free(got); free(want);
                }
                carquet_reader_close(one);
            }
        }
        fprintf(h->out, " p_roundtrip=%d p_modes=%d p_same_twice=%d p_handle_per_column=%d", roundtrip, modes, same_twice, percol);
    }
    fputc('\n', h->out);
    h->n_lines++;
    for (int g = 0; g < 20; g++) for (int c = 0; c < MAXC; c++) { free(exp[g][c].defs); free(exp[g][c].reps); free(exp[g][c].vals); free(exp[g][c].vlen); }
    free(fb); free(fb2);
    unlink(path); unlink(path2);
}

/* directed determinism cases (C05 "writing the same table with the same options twice produces byte-identical files"):
 * pages far larger than any internal window / hash-table span of the codecs, written after a DIFFERENT table in the same
 * process and thread, so that whatever state a codec might keep between calls differs between the two writes.
 *   wrtwice codec= pat=<0 ramp|1 low-entropy|2 random> n=<INT64 values> page= | len1= len2= p_same_twice= */
static size_t write_i64_table(const char* path, int codec, int pat, long n, long page, uint64_t salt) {
    carquet_error_t err; memset(&err, 0, sizeof err);
    carquet_schema_t* sc = carquet_schema_create(&err);
    (void)!carquet_schema_add_column(sc, "v", CARQUET_PHYSICAL_INT64, NULL, CARQUET_REPETITION_REQUIRED, 0);
    carquet_writer_options_t wo; carquet_writer_options_init(&wo);
    wo.compression = (carquet_compression_t)codec; wo.page_size = page;
    carquet_writer_t* w = carquet_writer_create(path, sc, &wo, &err);
    if (!w) { carquet_schema_free(sc); return 0; }
    int64_t* v = (int64_t*)h_alloc((size_t)(n ? n : 1) * 8);
    uint64_t x = 0x9E3779B97F4A7C15ull ^ salt;
    for (long i = 0; i < n; i++) {
        x = x * 6364136223846793005ull + 1442695040888963407ull;
        v[i] = pat == 0 ? (int64_t)i + (int64_t)salt : pat == 1 ? (int64_t)((x >> 33) % 1000) : (int64_t)x;
    }
    int ok = carquet_writer_write_batch(w, 0, v, n, NULL, NULL) == CARQUET_OK;
    ok = (carquet_writer_close(w) == CARQUET_OK) && ok;
    free(v); carquet_schema_free(sc);
    if (!ok) return 0;
    struct stat sb; return stat(path, &sb) == 0 ? (size_t)sb.st_size : 0;
}
static void run_twice(hctx* h, int codec, int pat, long n, long page, int warm) {
    char p0[128], p1[128], p2[128];
    snprintf(p0, sizeof p0, "/tmp/verif_tw_%d_0.parquet", (int)getpid());
    snprintf(p1, sizeof p1, "/tmp/verif_tw_%d_1.parquet", (int)getpid());
    snprintf(p2, sizeof p2, "/tmp/verif_tw_%d_2.parquet", (int)getpid());
    fprintf(h->out, "wrtwice codec=%d pat=%d n=%ld page=%ld warm=%d", codec, pat, n, page, warm);
    h_call(h);
    if (warm) (void)write_i64_table(p0, codec, 2, n / 2 + 7, page, 12345);          /* something else first */
    size_t l1 = write_i64_table(p1, codec, pat, n, page, 0);
    size_t l2 = write_i64_table(p2, codec, pat, n, page, 0);
    int same = l1 != 0 && l1 == l2;
    if (same) {
        FILE* a = fopen(p1, "rb"); FILE* b = fopen(p2, "rb");
        uint8_t* ba = h_alloc(l1); uint8_t* bb = h_alloc(l1);
        same = a && b && fread(ba, 1, l1, a) == l1 && fread(bb, 1, l1, b) == l1 && memcmp(ba, bb, l1) == 0;
        if (a) fclose(a); if (b) fclose(b); free(ba); free(bb);
    }
    fprintf(h->out, " | len1=%zu len2=%zu p_same_twice=%d\n", l1, l2, same);
    h->n_lines++;
    unlink(p0); unlink(p1); unlink(p2);
}

/* component `twice`: a fresh process, so the first case of every codec meets that codec in its virgin state (warm=0: the
 * same table twice, nothing before); then the same after a different table (warm=1) */
static void gen_twice(hctx* h) {
    static const int tw_codecs[] = { 1, 2, 5, 6, 7, 0 };
    for (int ci = 0; ci < 6; ci++) run_twice(h, tw_codecs[ci], 0, 16000, 0, 0);
    for (int ci = 0; ci < 6; ci++)
        for (int pat = 0; pat < 3; pat++) {
            run_twice(h, tw_codecs[ci], pat, 16000 + (long)h_below(h, 3000), 0, 1);
            if (h->thorough || pat == 1) run_twice(h, tw_codecs[ci], pat, 40000 + (long)h_below(h, 20000), 65536 + (long)h_below(h, 100000), (int)h_below(h, 2));
        }
}
static int replay_twice(hctx* h, const h_line* l) {
    if (strcmp(l->op, "wrtwice")) return 0;
    run_twice(h, (int)h_ll(h_in(l, "codec")), (int)h_ll(h_in(l, "pat")), (long)h_ll(h_in(l, "n")), (long)h_ll(h_in(l, "page")), (int)h_ll(h_in(l, "warm"))); return 1;
}
const h_component comp_twice = { "twice", gen_twice, replay_twice };

/* directed: page bodies that meet the boundary conditions of the built-in codecs INSIDE a file.  One REQUIRED BYTE_ARRAY column,
 * one row, one page: the value is a blob of random bytes in which short blocks (4..11 bytes, sometimes longer) are repeated at
 * chosen distances (the copy-element offset limits 2047/2048/2049, the 16-bit limits, the LZ4 64 KiB window); the page body is the
 * 4-byte length followed by the blob, so distances survive.  kind 1: long incompressible stretches between repeats (literal
 * length encodings at 60 / 256 / 65536). */
static void gen_blob_case(hctx* h, fcase* fc, int codec, int kind, size_t n) {
    memset(fc, 0, sizeof *fc);
    fc->ncols = 1; snprintf(fc->cols[0].name, sizeof fc->cols[0].name, "b"); fc->cols[0].rep = 0; fc->cols[0].ptype = 6; fc->cols[0].tlen = 0;
    fc->codec = codec; fc->page = 1024 * 1024; fc->nsteps = 1;
    fstep* t = &fc->steps[0]; t->kind = 0; t->col = 0; t->has_defs = 0; t->has_reps = 0;
    t->nrows = 1; t->nvals = 1; t->defs = (uint8_t*)h_alloc(1); t->defs[0] = 1; t->reps = (uint8_t*)h_alloc(1); t->reps[0] = 0;
    t->vals = (uint8_t**)h_alloc(sizeof(uint8_t*)); t->vlen = (int*)h_alloc(sizeof(int));
    uint8_t* p = h_alloc(n); t->vals[0] = p; t->vlen[0] = (int)n;
    for (size_t i = 0; i < n; i++) p[i] = (uint8_t)h_next(h);
    static const size_t near[] = { 2047, 2048, 2049, 2048, 2048, 1, 8, 255, 256 };
    static const size_t far[] = { 32767, 32768, 32769, 65535, 65536, 65537, 2048, 2048 };
    size_t reps = kind == 1 ? 1 + n / 1500 : 1 + n / 40;
    for (size_t r = 0; r < reps && n > 16; r++) {
        size_t d = (n > 70000 && h_chance(h, 1, 2)) ? far[h_below(h, sizeof far / sizeof far[0])] : near[h_below(h, sizeof near / sizeof near[0])];
        if (d >= n) d = 1 + (size_t)h_below(h, n - 1);
        size_t len = 4 + (size_t)h_below(h, 8);
        if (h_chance(h, 1, 6)) len = 12 + (size_t)h_below(h, 70);
        size_t at = d + (size_t)h_below(h, n - d);
        for (size_t i = 0; i < len && at + i < n; i++) p[at + i] = p[at + i - d];
    }
}

/* directed: one page that does not compress at all, of exactly `body` bytes (one REQUIRED BYTE_ARRAY value of body - 4 random
 * bytes): the whole page is ONE literal run, whose length encoding has its boundaries at 15 + 255 k (LZ4: a length that ends
 * in a byte 255 needs a closing 0) and at 60 / 61 / 256 / 257 / 65536 / 65537 (SNAPPY: length classes) */
static void gen_literal_case(hctx* h, fcase* fc, int codec, size_t body) {
    memset(fc, 0, sizeof *fc);
    fc->ncols = 1; snprintf(fc->cols[0].name, sizeof fc->cols[0].name, "l"); fc->cols[0].rep = 0; fc->cols[0].ptype = 6; fc->cols[0].tlen = 0;
    fc->codec = codec; fc->page = 1024 * 1024; fc->nsteps = 1;
    fstep* t = &fc->steps[0]; t->kind = 0; t->col = 0; t->has_defs = 0; t->has_reps = 0;
    t->nrows = 1; t->nvals = 1; t->defs = (uint8_t*)h_alloc(1); t->defs[0] = 1; t->reps = (uint8_t*)h_alloc(1); t->reps[0] = 0;
    t->vals = (uint8_t**)h_alloc(sizeof(uint8_t*)); t->vlen = (int*)h_alloc(sizeof(int));
    size_t n = body - 4; uint8_t* p = h_alloc(n ? n : 1); t->vals[0] = p; t->vlen[0] = (int)n;
    for (size_t i = 0; i < n; i++) p[i] = (uint8_t)h_next(h);
}

/* directed: level runs whose RLE run header sits at a varint length boundary (count << 1 = 2^7, 2^14, 2^21: runs of exactly
 * 64, 8192, 1048576 equal levels and their neighbours), as the only run of a page and behind a short bit-packed prefix.
 * One OPTIONAL (rep = 1) or REPEATED (rep = 2) INT32 column, one batch, one page. */
static void gen_run_case(hctx* h, fcase* fc, int rep, long run, int prefix) {
    memset(fc, 0, sizeof *fc);
    fc->ncols = 1; snprintf(fc->cols[0].name, sizeof fc->cols[0].name, "r"); fc->cols[0].rep = rep; fc->cols[0].ptype = 1; fc->cols[0].tlen = 0;
    fc->codec = 0; fc->page = 64 * 1024 * 1024; fc->nsteps = 1;
    fstep* t = &fc->steps[0]; t->kind = 0; t->col = 0; t->has_defs = 1; t->has_reps = rep == 2;
    long n = run + (prefix ? 3 : 0);
    t->nrows = (int)n; t->defs = (uint8_t*)h_alloc((size_t)n); t->reps = (uint8_t*)h_alloc((size_t)n);
    long k = 0;
    /* runs of a million levels and more are runs of NULLs (no values: the file and the line stay small) */
    uint8_t lvl = run >= 1000000 ? 0 : 1;
    if (prefix) { t->defs[k++] = (uint8_t)!lvl; t->defs[k++] = lvl; t->defs[k++] = (uint8_t)!lvl; }
    for (long i = 0; i < run; i++) t->defs[k++] = lvl;
    for (long i = 0; i < n; i++) t->reps[i] = 0;
    int nn = 0; for (long i = 0; i < n; i++) nn += t->defs[i];
    t->nvals = nn; t->vals = (uint8_t**)h_alloc((size_t)(nn ? nn : 1) * sizeof(uint8_t*)); t->vlen = (int*)h_alloc((size_t)(nn ? nn : 1) * sizeof(int));
    for (int j = 0; j < nn; j++) { t->vals[j] = h_alloc(4); uint32_t v = (uint32_t)h_next(h); memcpy(t->vals[j], &v, 4); t->vlen[j] = 4; }
}

/* directed: more row groups than a 16-bit ordinal can number (RowGroup.ordinal is an i16; the reader's limit is 100000):
 * `nrg` row groups of one INT32 row each.  Judged on the C side: every call OK, and the file re-opened in the three modes has
 * nrg row groups, nrg rows, and row g holds the value g.
 *   wrmany nrg=<n> | st=<first non-OK status or 0> p_roundtrip=0/1 */
static void run_many_rg(hctx* h, long nrg) {
    char path[128]; snprintf(path, sizeof path, "/tmp/verif_h_%d_m.parquet", (int)getpid());
    fprintf(h->out, "wrmany nrg=%ld", nrg); h_call(h);
    carquet_error_t err; memset(&err, 0, sizeof err);
    carquet_schema_t* sc = carquet_schema_create(&err);
    (void)!carquet_schema_add_column(sc, "v", CARQUET_PHYSICAL_INT32, NULL, CARQUET_REPETITION_REQUIRED, 0);
    carquet_writer_options_t wo; carquet_writer_options_init(&wo); wo.compression = CARQUET_COMPRESSION_UNCOMPRESSED;
    carquet_writer_t* w = carquet_writer_create(path, sc, &wo, &err);
    int st = w ? 0 : -1;
    for (long g = 0; w && g < nrg && st == 0; g++) {
        int32_t v = (int32_t)g;
        st = (int)carquet_writer_write_batch(w, 0, &v, 1, NULL, NULL);
        if (st == 0 && g + 1 < nrg) st = (int)carquet_writer_new_row_group(w);
    }
    if (w) { int c = (int)carquet_writer_close(w); if (st == 0) st = c; }
    carquet_schema_free(sc);
    int ok = st == 0;
    size_t fn; uint8_t* fb = slurp(path, &fn);
    for (int mode = 0; ok && mode < 3; mode++) {
        carquet_reader_options_t ro; carquet_reader_options_init(&ro); ro.use_mmap = mode == 1;
        carquet_reader_t* rd = mode == 2 ? carquet_reader_open_buffer(fb, fn, &ro, &err) : carquet_reader_open(path, &ro, &err);
        if (!rd) { ok = 0; break; }
        if (carquet_reader_num_row_groups(rd) != nrg || carquet_reader_num_rows(rd) != nrg) ok = 0;
        static const long probes[] = { 0, 1, 32766, 32767, 32768, 32769, 65535, 65536 };
        for (int q = 0; ok && q < 8; q++) {
            long g = probes[q]; if (g >= nrg) continue;
            carquet_column_reader_t* cr = carquet_reader_get_column(rd, (int32_t)g, 0, &err);
            int32_t v = -1; if (!cr || carquet_column_read_batch(cr, &v, 1, NULL, NULL) != 1 || v != (int32_t)g) ok = 0;
            if (cr) carquet_column_reader_free(cr);
        }
        carquet_reader_close(rd);
    }
    fprintf(h->out, " | st=%d flen=%zu p_roundtrip=%d\n", st, fn, ok);
    h->n_lines++; free(fb); unlink(path);
}

static void gen_file(hctx* h) {
    run_many_rg(h, 33000);
    if (h->thorough) run_many_rg(h, 70000);
    { static const long runs[] = { 63, 64, 65, 8191, 8192, 8193, 8197, 16384 };
      for (int i = 0; i < 8; i++) {
          fcase fc; gen_run_case(h, &fc, 1 + (i % 2), runs[i], i % 3 == 0); run_case(h, &fc); free_case(&fc);
          if (runs[i] == 8192 || runs[i] == 8197) { gen_run_case(h, &fc, 1, runs[i], 1); run_case(h, &fc); free_case(&fc); }
      }
      if (h->thorough) { fcase fc; gen_run_case(h, &fc, 1, 1048576, 0); run_case(h, &fc); free_case(&fc); gen_run_case(h, &fc, 1, 1048577, 1); run_case(h, &fc); free_case(&fc); } }
    { static const int lc[] = { 5, 7, 1 };
      static const size_t bodies[] = { 270, 525, 780, 15 + 255 * 7, 269, 271, 60, 61, 64, 65, 256, 257, 258, 65536, 65537, 65539 };
      for (int ci = 0; ci < 3; ci++) for (unsigned bi = 0; bi < sizeof bodies / sizeof bodies[0]; bi++) {
          if (!h->thorough && bi >= 4 && (bi + (unsigned)ci) % 3 != 0) continue;
          fcase fc; gen_literal_case(h, &fc, lc[ci], bodies[bi]); run_case(h, &fc); free_case(&fc);
      } }
    { static const int bc[] = { 1, 5, 7, 6, 2, 0 };
      for (int ci = 0; ci < (h->thorough ? 6 : 3); ci++) {
          fcase fc;
          gen_blob_case(h, &fc, bc[ci], 0, 9000 + (size_t)h_below(h, 3000)); run_case(h, &fc); free_case(&fc);
          gen_blob_case(h, &fc, bc[ci], 1, 70000 + (size_t)h_below(h, 9000)); run_case(h, &fc); free_case(&fc);
          if (h->thorough) { gen_blob_case(h, &fc, bc[ci], 0, 140000 + (size_t)h_below(h, 9000)); run_case(h, &fc); free_case(&fc); }
      } }
    long n = h->thorough ? 6000 : 350;
    for (long i = 0; i < n; i++) {
        fcase fc; gen_case(h, &fc, i % 3 == 0);
        run_case(h, &fc);
        free_case(&fc);
    }
}

static int replay_file(hctx* h, const h_line* l) {
    if (!strcmp(l->op, "wrmany")) { run_many_rg(h, (long)h_ll(h_in(l, "nrg"))); return 1; }
    if (strcmp(l->op, "wr") != 0) return 0;
    fcase fc; if (parse_case(l, &fc)) { fprintf(stderr, "bad wr line\n"); return 1; }
    run_case(h, &fc); free_case(&fc); return 1;
}

const h_component comp_file = { "file", gen_file, replay_file };

/* ---- C02: batches consumed late.  A row batch is documented to stay valid until
 * carquet_row_batch_free(): collect every batch of a file first, look at the data afterwards.
 *   batlate <case as in wr> bs=<batch size> mode=<0|1|2> | nb=<batches> dg_late=<digest of data read after the
 *           last next()> dg_now=<digest when each batch is read immediately> p_late_eq_now=0/1 */
static uint64_t bl_fnv(uint64_t h, const uint8_t* p, size_t n) { for (size_t i = 0; i < n; i++) { h ^= p[i]; h *= 0x100000001B3ull; } return h; }
static uint64_t batch_digest(const fcase* fc, carquet_row_batch_t* b, uint64_t h0) {
    int nc = carquet_row_batch_num_columns(b);
    for (int c = 0; c < nc && c < fc->ncols; c++) {
        const void* data = NULL; const uint8_t* bm = NULL; int64_t nv = 0;
        if (carquet_row_batch_column(b, c, &data, &bm, &nv) != CARQUET_OK) { h0 ^= 0xBAD; continue; }
        int64_t nulls = 0;
        if (bm) for (int64_t i = 0; i < nv; i++) if (bm[i / 8] & (1u << (i % 8))) nulls++;
        h0 = bl_fnv(h0, (const uint8_t*)&nv, 8); h0 = bl_fnv(h0, (const uint8_t*)&nulls, 8);
        if (!data) continue;
        int64_t nn = nv - nulls;
        if (fc->cols[c].ptype == 6) {
            const carquet_byte_array_t* a = (const carquet_byte_array_t*)data;
            for (int64_t i = 0; i < nn; i++) { h0 = bl_fnv(h0, (const uint8_t*)&a[i].length, 4); for (int32_t k = 0; k < a[i].length; k++) h0 = (h0 ^ a[i].data[k]) * 0x100000001B3ull; }
        } else h0 = bl_fnv(h0, (const uint8_t*)data, (size_t)nn * (size_t)vsize(&fc->cols[c]));
    }
    return h0;
}
static void run_batlate(hctx* h, fcase* fc, long bs, int mode) {
    char path[128]; snprintf(path, sizeof path, "/tmp/verif_h_%d_l.parquet", (int)getpid());
    fprintf(h->out, "batlate");
    { FILE* save = h->out; char* mem = NULL; size_t msz = 0; FILE* ms = open_memstream(&mem, &msz);
      h->out = ms; print_case(h, fc); fclose(ms); h->out = save; fputs(mem + 2, h->out); free(mem); }
    fprintf(h->out, " bs=%ld mode=%d", bs, mode); h_call(h);
    int st[MAXSTEP + 2], nst = 0;
    if (write_file(fc, path, st, &nst) != 0) { fprintf(h->out, " | err=create\n"); h->n_lines++; return; }
    size_t fn; uint8_t* fb = slurp(path, &fn);
    uint8_t* fb0 = h_alloc(fn); memcpy(fb0, fb, fn);        /* the caller's buffer as handed to the reader */
    uint64_t dg[2] = { 0xCBF29CE484222325ull, 0xCBF29CE484222325ull }; long nb = 0;
    long long rows_b[2] = { 0, 0 }, rows_meta = -1;
    for (int late = 0; late < 2; late++) {
        carquet_error_t err; memset(&err, 0, sizeof err);
        carquet_reader_options_t ro; carquet_reader_options_init(&ro); ro.use_mmap = mode == 1;
        carquet_reader_t* rd = mode == 2 ? carquet_reader_open_buffer(fb, fn, &ro, &err) : carquet_reader_open(path, &ro, &err);
        if (!rd) { dg[late] = 1; continue; }
        rows_meta = (long long)carquet_reader_num_rows(rd);
        carquet_batch_reader_config_t cfg; carquet_batch_reader_config_init(&cfg); cfg.batch_size = bs; cfg.num_threads = 1; cfg.use_mmap = mode == 1;
        carquet_batch_reader_t* br = carquet_batch_reader_create(rd, &cfg, &err);
        carquet_row_batch_t* kept[512]; long nk = 0;
        while (br && nk < 512) {
            carquet_row_batch_t* b = NULL;
            if (carquet_batch_reader_next(br, &b) != CARQUET_OK || !b) break;
            rows_b[late] += (long long)carquet_row_batch_num_rows(b);
            if (late) kept[nk++] = b; else { dg[0] = batch_digest(fc, b, dg[0]); carquet_row_batch_free(b); nk++; }
        }
        if (late) { for (long i = 0; i < nk; i++) dg[1] = batch_digest(fc, kept[i], dg[1]); for (long i = 0; i < nk; i++) carquet_row_batch_free(kept[i]); }
        nb = nk;
        if (br) carquet_batch_reader_free(br);
        carquet_reader_close(rd);
    }
    /* the batches of a file hold all its rows (the loop above is the documented one: it ends at the first status that is not
     * OK; a row group WITHOUT rows in the middle of a file is not the end of the file); not judged when 512 batches were kept */
    int no_repeated = 1; for (int c = 0; c < fc->ncols; c++) if (fc->cols[c].rep == 2) no_repeated = 0;   /* a batch of a REPEATED column counts entries */
    /* a history that gives the columns of a row group different numbers of rows denotes no table (the caller's obligation) */
    { long rws[MAXC]; int open_ = 0; memset(rws, 0, sizeof rws);
      for (int q = 0; q <= fc->nsteps; q++) {
          if (q == fc->nsteps || fc->steps[q].kind == 1) { if (open_) for (int c = 1; c < fc->ncols; c++) if (rws[c] != rws[0]) no_repeated = 0; memset(rws, 0, sizeof rws); open_ = 0; continue; }
          open_ = 1; rws[fc->steps[q].col] += fc->steps[q].nrows; } }
    int all_rows = !no_repeated || nb >= 512 || rows_meta < 0 || (rows_b[0] == rows_meta && rows_b[1] == rows_meta);
    fprintf(h->out, " | nb=%ld rows=%lld dg_late=%llu dg_now=%llu p_late_eq_now=%d p_buffer_intact=%d p_all_rows_delivered=%d\n", nb, rows_b[0],
            (unsigned long long)dg[1], (unsigned long long)dg[0], dg[0] == dg[1], memcmp(fb, fb0, fn) == 0, all_rows);
    h->n_lines++; free(fb); free(fb0); unlink(path);
}
/* directed: row groups whose column chunks span several memory pages (REQUIRED INT64 + OPTIONAL DOUBLE, uncompressed, `rows`
 * rows per row group): whatever a reader does to the memory of a row group it has left behind (drop, unmap, overwrite),
 * batches handed out earlier and the caller's own buffer must stay what they were */
static void gen_big_rg_case(hctx* h, fcase* fc, int nrg, int rows) {
    memset(fc, 0, sizeof *fc);
    fc->ncols = 2;
    snprintf(fc->cols[0].name, sizeof fc->cols[0].name, "k"); fc->cols[0].rep = 0; fc->cols[0].ptype = 2;
    snprintf(fc->cols[1].name, sizeof fc->cols[1].name, "x"); fc->cols[1].rep = 1; fc->cols[1].ptype = 5;
    fc->codec = 0; fc->page = 1024 * 1024;
    int ns = 0;
    for (int g = 0; g < nrg; g++) {
        for (int c = 0; c < 2; c++) {
            fstep* t = &fc->steps[ns++]; t->kind = 0; t->col = c; t->nrows = rows; t->has_defs = c == 1; t->has_reps = 0;
            t->defs = (uint8_t*)h_alloc((size_t)rows); t->reps = (uint8_t*)h_alloc((size_t)rows);
            int nn = 0;
            for (int r = 0; r < rows; r++) { t->defs[r] = c == 0 ? 1 : (uint8_t)((r % 11) != 3); t->reps[r] = 0; nn += t->defs[r]; }
            t->nvals = nn; t->vals = (uint8_t**)h_alloc((size_t)nn * sizeof(uint8_t*)); t->vlen = (int*)h_alloc((size_t)nn * sizeof(int));
            for (int j = 0; j < nn; j++) { t->vals[j] = h_alloc(8); uint64_t v = h_next(h) | 1; memcpy(t->vals[j], &v, 8); t->vlen[j] = 8; }
        }
        if (g + 1 < nrg) { fc->steps[ns].kind = 1; ns++; }
    }
    fc->nsteps = ns;
}

/* ---- a file of more than 2 GiB / 4 GiB: the footer of a small file moved `gap` bytes towards the end through a hole in a
 * sparse file (every offset in the footer is absolute, so the file stays a valid Parquet file whose pages lie `gap` bytes and
 * more before its end).  Read through stdio, mmap and as a buffer (our own mapping of the file): same batches as the small file.
 *   bigfile <case> gap=<bytes> bs=<batch size> | dg0= dg1= dg2= dg_small= p_big_modes_agree=0/1 */
#include <sys/mman.h>
#include <fcntl.h>
static uint64_t digest_file(const fcase* fc, const char* path, const uint8_t* buf, size_t n, int mode, long bs) {
    carquet_error_t err; memset(&err, 0, sizeof err);
    carquet_reader_options_t ro; carquet_reader_options_init(&ro); ro.use_mmap = mode == 1;
    carquet_reader_t* rd = mode == 2 ? carquet_reader_open_buffer(buf, n, &ro, &err) : carquet_reader_open(path, &ro, &err);
    if (!rd) return 1;
    uint64_t dg = 0xCBF29CE484222325ull;
    carquet_batch_reader_config_t cfg; carquet_batch_reader_config_init(&cfg); cfg.batch_size = bs; cfg.num_threads = 1; cfg.use_mmap = mode == 1;
    carquet_batch_reader_t* br = carquet_batch_reader_create(rd, &cfg, &err);
    int last = -99;
    for (int guard = 0; br && guard < 100000; guard++) {
        carquet_row_batch_t* b = NULL;
        last = (int)carquet_batch_reader_next(br, &b);
        if (last != 0 || !b) break;
        dg = batch_digest(fc, b, dg); carquet_row_batch_free(b);
    }
    dg = bl_fnv(dg, (const uint8_t*)&last, sizeof last);
    if (br) carquet_batch_reader_free(br);
    carquet_reader_close(rd);
    return dg;
}
static void run_bigfile(hctx* h, fcase* fc, unsigned long long gap, long bs) {
    char path[128], big[128]; snprintf(path, sizeof path, "/tmp/verif_h_%d_s.parquet", (int)getpid()); snprintf(big, sizeof big, "/tmp/verif_h_%d_big.parquet", (int)getpid());
    fprintf(h->out, "bigfile");
    { FILE* save = h->out; char* mem = NULL; size_t msz = 0; FILE* ms = open_memstream(&mem, &msz);
      h->out = ms; print_case(h, fc); fclose(ms); h->out = save; fputs(mem + 2, h->out); free(mem); }
    fprintf(h->out, " gap=%llu bs=%ld", gap, bs); h_call(h);
    int st[MAXSTEP + 2], nst = 0;
    if (write_file(fc, path, st, &nst) != 0) { fprintf(h->out, " | err=create\n"); h->n_lines++; return; }
    size_t fn; uint8_t* fb = slurp(path, &fn);
    if (fn < 12) { fprintf(h->out, " | err=small\n"); h->n_lines++; free(fb); unlink(path); return; }
    uint32_t flen = (uint32_t)fb[fn - 8] | ((uint32_t)fb[fn - 7] << 8) | ((uint32_t)fb[fn - 6] << 16) | ((uint32_t)fb[fn - 5] << 24);
    size_t fstart = fn - 8 - flen;
    /* gap = 1: the length of the file lands inside [2^32 + 12, 2^32 + 12 + footer length) - a footer bound computed in 32 bits
     * sees a file that is too short for its footer */
    if (gap == 1) gap = (1ull << 32) + 12 + flen / 2 - fn;
    uint64_t small = digest_file(fc, path, fb, fn, 0, bs);
    int fd = open(big, O_RDWR | O_CREAT | O_TRUNC, 0600);
    int okw = fd >= 0 && pwrite(fd, fb, fstart, 0) == (ssize_t)fstart && pwrite(fd, fb + fstart, flen + 8, (off_t)(fstart + gap)) == (ssize_t)(flen + 8);
    if (!okw) { fprintf(h->out, " | skipped=1 triv=1\n"); h->n_lines++; if (fd >= 0) close(fd); free(fb); unlink(path); unlink(big); return; }
    size_t bn = (size_t)(fn + gap);
    void* m = mmap(NULL, bn, PROT_READ, MAP_PRIVATE | MAP_NORESERVE, fd, 0);
    uint64_t dg[3] = { 0, 0, 0 };
    dg[0] = digest_file(fc, big, NULL, 0, 0, bs);
    dg[1] = digest_file(fc, big, NULL, 0, 1, bs);
    dg[2] = m != MAP_FAILED ? digest_file(fc, big, (const uint8_t*)m, bn, 2, bs) : small;
    if (m != MAP_FAILED) munmap(m, bn);
    close(fd);
    fprintf(h->out, " | dg0=%llu dg1=%llu dg2=%llu dg_small=%llu p_big_modes_agree=%d\n", (unsigned long long)dg[0], (unsigned long long)dg[1],
            (unsigned long long)dg[2], (unsigned long long)small, dg[0] == small && dg[1] == small && dg[2] == small);
    h->n_lines++; free(fb); unlink(path); unlink(big);
}

/* ---- page headers as other writers fill them in: a column WITHOUT levels (REQUIRED, not repeated) has no level streams, and
 * what its v1 data page headers state as definition / repetition level encoding means nothing - parquet-mr states BIT_PACKED
 * there.  The level-encoding fields of every data page header of a carquet-written file are rewritten in place (RLE = 3 ->
 * BIT_PACKED = 4: same header size, the checksum covers the body only); the file must read the same as before in all modes.
 *   hdrtags <case> bs= | pages=<rewritten> dg0= dg1= dg2= dg_orig= p_tags_ignored_without_levels=0/1 */
#include "thrift/parquet_types.h"
#include "core/arena.h"
#include "core/buffer.h"
static void run_hdrtags(hctx* h, fcase* fc, long bs) {
    char path[128], alt[128]; snprintf(path, sizeof path, "/tmp/verif_h_%d_t.parquet", (int)getpid()); snprintf(alt, sizeof alt, "/tmp/verif_h_%d_t2.parquet", (int)getpid());
    fprintf(h->out, "hdrtags");
    { FILE* save = h->out; char* mem = NULL; size_t msz = 0; FILE* ms = open_memstream(&mem, &msz);
      h->out = ms; print_case(h, fc); fclose(ms); h->out = save; fputs(mem + 2, h->out); free(mem); }
    fprintf(h->out, " bs=%ld", bs); h_call(h);
    int st[MAXSTEP + 2], nst = 0;
    if (write_file(fc, path, st, &nst) != 0) { fprintf(h->out, " | err=create\n"); h->n_lines++; return; }
    size_t fn; uint8_t* fb = slurp(path, &fn);
    if (fn < 12) { fprintf(h->out, " | err=small\n"); h->n_lines++; free(fb); unlink(path); return; }
    uint64_t orig = digest_file(fc, path, fb, fn, 0, bs);
    uint32_t flen = (uint32_t)fb[fn - 8] | ((uint32_t)fb[fn - 7] << 8) | ((uint32_t)fb[fn - 6] << 16) | ((uint32_t)fb[fn - 5] << 24);
    size_t fstart = fn - 8 - flen; int pages = 0, bad = 0;
    carquet_arena_t arena; carquet_arena_init(&arena);
    parquet_file_metadata_t md; carquet_error_t err; memset(&err, 0, sizeof err);
    if (parquet_parse_file_metadata(fb + fstart, flen, &arena, &md, &err) == CARQUET_OK) {
        for (int g = 0; g < md.num_row_groups; g++) for (int c = 0; c < md.row_groups[g].num_columns; c++) {
            parquet_column_metadata_t* cm = &md.row_groups[g].columns[c].metadata;
            size_t off = (size_t)cm->data_page_offset, end = off + (size_t)cm->total_compressed_size;
            while (off + 8 <= fstart && off < end) {
                parquet_page_header_t ph; size_t hs; size_t avail = fstart - off; if (avail > 4096) avail = 4096;
                if (parquet_parse_page_header(fb + off, avail, &ph, &hs, &err) != CARQUET_OK) { bad = 1; break; }
                if (ph.type == CARQUET_PAGE_DATA) {
                    ph.data_page_header.definition_level_encoding = CARQUET_ENCODING_BIT_PACKED;
                    ph.data_page_header.repetition_level_encoding = CARQUET_ENCODING_BIT_PACKED;
                    carquet_buffer_t out; carquet_buffer_init(&out);
                    if (parquet_write_page_header(&ph, &out, NULL) == CARQUET_OK && out.size == hs) { memcpy(fb + off, out.data, hs); pages++; } else bad = 1;
                    carquet_buffer_destroy(&out);
                }
                off += hs + (size_t)ph.compressed_page_size;
            }
        }
    } else bad = 1;
    carquet_arena_destroy(&arena);
    if (bad || pages == 0) { fprintf(h->out, " | skipped=1 triv=1\n"); h->n_lines++; free(fb); unlink(path); return; }
    FILE* f = fopen(alt, "wb"); if (f) { fwrite(fb, 1, fn, f); fclose(f); }
    uint64_t dg[3];
    for (int mode = 0; mode < 3; mode++) dg[mode] = digest_file(fc, alt, fb, fn, mode, bs);
    fprintf(h->out, " | pages=%d dg0=%llu dg1=%llu dg2=%llu dg_orig=%llu p_tags_ignored_without_levels=%d\n", pages, (unsigned long long)dg[0],
            (unsigned long long)dg[1], (unsigned long long)dg[2], (unsigned long long)orig, dg[0] == orig && dg[1] == orig && dg[2] == orig);
    h->n_lines++; free(fb); unlink(path); unlink(alt);
}

static void gen_batlate(hctx* h) {
    for (int t = 0; t < (h->thorough ? 40 : 6); t++) {
        fcase fc; gen_case(h, &fc, 1);
        for (int c = 0; c < fc.ncols; c++) fc.cols[c].rep = 0;                   /* REQUIRED: no level streams */
        for (int q = 0; q < fc.nsteps; q++) if (fc.steps[q].kind == 0) { fstep* st = &fc.steps[q]; st->has_defs = 0; st->has_reps = 0;
            /* every row present: the values array must hold one value per row */
            if (st->nvals < st->nrows) { fcol* cl = &fc.cols[st->col]; st->vals = (uint8_t**)realloc(st->vals, (size_t)st->nrows * sizeof(uint8_t*)); st->vlen = (int*)realloc(st->vlen, (size_t)st->nrows * sizeof(int));
                for (int j = st->nvals; j < st->nrows; j++) gen_value(h, cl, &st->vals[j], &st->vlen[j]); st->nvals = st->nrows; }
            for (int r = 0; r < st->nrows; r++) st->defs[r] = 1; }
        if (t % 2 == 0) fc.codec = 0;
        if (h_chance(h, 2, 3)) fc.page = 16 + (long)h_below(h, 100);
        run_hdrtags(h, &fc, 1 + (long)h_below(h, 9)); free_case(&fc);
    }
    /* pages 2.5 GiB (and, thorough, 4 GiB + / 6.5 GiB) before the end of the file */
    { static const unsigned long long gaps[] = { 2684354560ull, 1ull, 4294967296ull + 4096, 6979321856ull };
      for (int t = 0; t < (h->thorough ? 4 : 2); t++) {
          fcase fc; gen_case(h, &fc, 1);
          for (int c = 0; c < fc.ncols; c++) if (fc.cols[c].rep == 2) fc.cols[c].rep = 1;
          fc.page = 64 + (long)h_below(h, 100);
          run_bigfile(h, &fc, gaps[t], 1 + (long)h_below(h, 9)); free_case(&fc);
      } }
    { fcase fc; gen_big_rg_case(h, &fc, 3, 2200);
      for (int mode = 0; mode < 3; mode++) run_batlate(h, &fc, 700 + (long)h_below(h, 900), mode);
      free_case(&fc); }
    /* row groups WITHOUT rows between row groups that have some (a 0-row batch per column, then new_row_group) */
    for (int t = 0; t < (h->thorough ? 12 : 3); t++) {
        fcase fc;
        for (;;) { gen_case(h, &fc, 1); for (int c = 0; c < fc.ncols; c++) if (fc.cols[c].rep == 2) fc.cols[c].rep = 1; int nrgs = 0; for (int q = 0; q < fc.nsteps; q++) if (fc.steps[q].kind == 1) nrgs++; if (nrgs >= 2) break; free_case(&fc); }
        /* empty every batch of the second row group */
        { int g = 0; for (int q = 0; q < fc.nsteps; q++) { if (fc.steps[q].kind == 1) { g++; continue; }
              if (g == 1) { fstep* st = &fc.steps[q]; for (int j = 0; j < st->nvals; j++) free(st->vals[j]); st->nvals = 0; st->nrows = 0; } } }
        for (int mode = 0; mode < 3; mode++) run_batlate(h, &fc, 1 + (long)h_below(h, 9), mode);
        free_case(&fc);
    }
    long n = h->thorough ? 1500 : 120;
    for (long i = 0; i < n; i++) {
        fcase fc; gen_case(h, &fc, i % 2 == 0);
        if (i % 3 != 2) { fc.cols[0].ptype = 6; fc.cols[0].tlen = 0;           /* make sure BYTE_ARRAY columns over several pages occur */
            for (int s = 0; s < fc.nsteps; s++) if (fc.steps[s].kind == 0 && fc.steps[s].col == 0) { fstep* t = &fc.steps[s];
                for (int j = 0; j < t->nvals; j++) { free(t->vals[j]); gen_value(h, &fc.cols[0], &t->vals[j], &t->vlen[j]); } }
            if (h_chance(h, 2, 3)) fc.page = 1 + (long)h_below(h, 80); }
        run_batlate(h, &fc, 1 + (long)h_below(h, 9), (int)h_below(h, 3));
        free_case(&fc);
    }
}
static int replay_batlate(hctx* h, const h_line* l) {
    if (!strcmp(l->op, "hdrtags")) { fcase fc; if (parse_case(l, &fc)) return 1; run_hdrtags(h, &fc, (long)h_ll(h_in(l, "bs"))); free_case(&fc); return 1; }
    if (!strcmp(l->op, "bigfile")) { fcase fc; if (parse_case(l, &fc)) return 1; run_bigfile(h, &fc, strtoull(h_in(l, "gap"), NULL, 10), (long)h_ll(h_in(l, "bs"))); free_case(&fc); return 1; }
    if (strcmp(l->op, "batlate") != 0) return 0;
    fcase fc; if (parse_case(l, &fc)) return 1;
    run_batlate(h, &fc, (long)h_ll(h_in(l, "bs")), (int)h_ll(h_in(l, "mode"))); free_case(&fc); return 1;
}
const h_component comp_batlate = { "batlate", gen_batlate, replay_batlate };
