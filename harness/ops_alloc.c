/* C19: behaviour under allocation failure.
 *
 * (1) component-level ops: carquet_buffer_*, carquet_arena_*, the schema builder, the Thrift
 *     encoder's error latch and the page builder are driven with a set of failing allocation
 *     requests; the observable state is printed for comparison with the Lean Impl model run under
 *     the same oracle.
 *       alloc_buf    wrap= ops=<code,arg,...> fail=<idx,...> | st= size= cap= owns= hasdata= dh= nreq=
 *       alloc_arena  bs= ops=<code,a,b,...> fail= | init= rb= ro= bsz= bused= bbase= cur= talloc= tcap= nreq= p_zero= p_copy=
 *       alloc_schema names=<len,...> reps=<r,...> fail= | create= st= nelem= nleaf= cap= nullnames= talloc= nreq= p_names=
 *       alloc_thrift ops=<code,arg,...> fail= | status= size= nreq=
 *       alloc_pw     n= nullable= first= codec= crc= comp= fail= | create= add= fin= page= unc= cmp= nreq= f_add= f_fin= p_same=
 *       alloc_leakcheck kind= | leak= p_noleak=      LeakSanitizer's verdict over all component-level ops of one kind
 * (2) scenario-level fault enumeration: every scenario is run once fault-free (count K) and then
 *     once per k in 1..K with the k-th request failing; each case runs in a forked child so that a
 *     crash of one case does not stop the enumeration and LeakSanitizer attributes leaks per case.
 *       alloc_scn scn= codec= mode= rows= rg= shape= tseed= cleanup= k= |
 *           K= fired= calls=<status classes> err= same= crash= leak= fn= via= csite= p_nocrash= p_noleak= p_same_effect=
 */
#define _GNU_SOURCE
#include "common.h"
#include <carquet/carquet.h>
#include "core/buffer.h"
#include "core/arena.h"
#include "reader/reader_internal.h"
#include "thrift/thrift_encode.h"
#include "thrift/thrift_decode.h"
#include "thrift/parquet_types.h"
#include <sanitizer/lsan_interface.h>
#include <sanitizer/common_interface_defs.h>
#include <unistd.h>
#include <fcntl.h>
#include <errno.h>
#include <sys/wait.h>
#include <sys/stat.h>
#include <zlib.h>

void* __real_malloc(size_t);

/* ------------------------------------------------------------------------------------------ */
/* helpers                                                                                    */
/* ------------------------------------------------------------------------------------------ */

static uint64_t fnv_init(void) { return 0xcbf29ce484222325ull; }
static uint64_t fnv_add(uint64_t h, const void* p, size_t n) {
    const uint8_t* b = (const uint8_t*)p;
    for (size_t i = 0; i < n; i++) { h ^= b[i]; h *= 0x100000001b3ull; }
    return h;
}
static uint64_t fnv_u64(uint64_t h, uint64_t v) { return fnv_add(h, &v, 8); }

static void print_list(FILE* f, const long* v, int n) {
    if (n == 0) { fputc('-', f); return; }
    for (int i = 0; i < n; i++) fprintf(f, "%s%ld", i ? "," : "", v[i]);
}
static int in_set(const long* v, int n, long x) { for (int i = 0; i < n; i++) if (v[i] == x) return 1; return 0; }

/* a random strictly increasing set of at most m failing indices in 1..range */
static int gen_fail_set(hctx* h, long* out, int m, long range) {
    int n = 0;
    int want = (int)h_below(h, (uint64_t)m + 1);
    for (int i = 0; i < want && range > 0; i++) {
        long x = 1 + (long)h_below(h, (uint64_t)range);
        if (!in_set(out, n, x)) out[n++] = x;
    }
    for (int i = 0; i < n; i++) for (int j = i + 1; j < n; j++) if (out[j] < out[i]) { long t = out[i]; out[i] = out[j]; out[j] = t; }
    return n;
}
static long* to_longs(const int64_t* a, size_t n) {
    long* r = (long*)h_alloc((n ? n : 1) * sizeof(long));
    for (size_t i = 0; i < n; i++) r[i] = (long)a[i];
    return r;
}

/* ------------------------------------------------------------------------------------------ */
/* (1a) carquet_buffer                                                                         */
/* ------------------------------------------------------------------------------------------ */
#define MAXOPS 64

static void run_buf(hctx* h, long wrap, const long* ops, int nops, const long* fail, int nfail) {
    fprintf(h->out, "alloc_buf wrap=%ld ops=", wrap); print_list(h->out, ops, 2 * nops);
    fprintf(h->out, " fail="); print_list(h->out, fail, nfail); h_call(h);
    long st[MAXOPS];
    /* everything the harness needs is allocated before arming */
    size_t maxn = 1;
    for (int i = 0; i < nops; i++) if ((size_t)ops[2 * i + 1] > maxn) maxn = (size_t)ops[2 * i + 1];
    uint8_t* src = h_alloc(maxn);
    uint8_t* blk = NULL;
    carquet_buffer_t b;
    if (wrap >= 0) {
        blk = h_alloc((size_t)wrap);
        for (long i = 0; i < wrap; i++) blk[i] = (uint8_t)(i * 7 + 3);
        carquet_buffer_init_wrap(&b, blk, (size_t)wrap);
    } else if (wrap == -2) {
        carquet_buffer_init_wrap(&b, NULL, 0);
    } else {
        carquet_buffer_init(&b);
    }
    h_alloc_arm_set(fail, nfail);
    for (int i = 0; i < nops; i++) {
        long c = ops[2 * i], a = ops[2 * i + 1];
        carquet_status_t s = CARQUET_OK;
        switch (c) {
        case 0: s = carquet_buffer_reserve(&b, (size_t)a); break;
        case 1:
            for (long j = 0; j < a; j++) src[j] = (uint8_t)(i * 37 + j * 11 + 5);
            s = carquet_buffer_append(&b, src, (size_t)a); break;
        case 2: {
            uint8_t* p = carquet_buffer_advance(&b, (size_t)a);
            if (p) for (long j = 0; j < a; j++) p[j] = (uint8_t)(i * 37 + j * 11 + 9);
            s = p ? CARQUET_OK : CARQUET_ERROR_OUT_OF_MEMORY; break; }
        case 3: s = carquet_buffer_resize(&b, (size_t)a); break;
        case 4: carquet_buffer_clear(&b); break;
        case 5:
            if (!b.owns_data) { st[i] = 2; continue; }
            s = carquet_buffer_shrink_to_fit(&b); break;
        case 6: s = carquet_buffer_append_fill(&b, (uint8_t)i, (size_t)a); break;
        case 7: s = carquet_buffer_append_byte(&b, (uint8_t)a); break;
        case 8: s = carquet_buffer_append_u32_le(&b, (uint32_t)a); break;
        default: break;
        }
        st[i] = (s == CARQUET_OK) ? 0 : 1;
    }
    long nreq = h_alloc_disarm();
    uint64_t dh = fnv_add(fnv_init(), b.data, b.size);   /* reads exactly size bytes of the (ASan-tracked) block */
    fprintf(h->out, " | st="); print_list(h->out, st, nops);
    fprintf(h->out, " size=%zu cap=%zu owns=%d hasdata=%d dh=%llu nreq=%ld p_inv=%d\n", b.size, b.capacity,
            (int)b.owns_data, b.data != NULL, (unsigned long long)dh, nreq, b.size <= b.capacity);
    h->n_lines++;
    carquet_buffer_destroy(&b);
    free(blk); free(src);
}

static void gen_buf(hctx* h) {
    long ops[2 * MAXOPS], fail[8];
    long n = h->thorough ? 6000 : 900;
    static const long sizes[] = {0, 1, 2, 3, 4, 7, 8, 100, 2047, 2048, 4095, 4096, 4097, 5000, 8191, 8192, 8193, 12000, 16384, 16385, 40000};
    for (long it = 0; it < n; it++) {
        int nops = 1 + (int)h_below(h, it < 200 ? 4 : 12);
        long wrap = -1;
        int w = (int)h_below(h, 10);
        if (w == 0) wrap = (long)h_below(h, 40); else if (w == 1) wrap = -2; else if (w == 2) wrap = 0;
        long total = 0;
        for (int i = 0; i < nops; i++) {
            long c = (long)h_below(h, 9);
            if (h_chance(h, 1, 2)) c = 1;                          /* mostly appends */
            long a;
            if (h_chance(h, 1, 2)) a = sizes[h_below(h, sizeof sizes / sizeof sizes[0])];
            else a = (long)h_below(h, 300);
            if (h_chance(h, 1, 6)) {                               /* boundary-directed: land exactly on / just past the capacity */
                long cap = 4096; while (cap < total) cap *= 2;
                a = cap - total + (long)h_below(h, 3) - 1; if (a < 0) a = 0;
            }
            if (c == 7) a &= 255;
            if (c == 4 || c == 5) a = 0;
            if (c == 1 || c == 2 || c == 6) total += a; else if (c == 7) total += 1; else if (c == 8) total += 4;
            else if (c == 3) total = a; else if (c == 4) total = 0;
            ops[2 * i] = c; ops[2 * i + 1] = a;
        }
        int nf = gen_fail_set(h, fail, it % 3 == 0 ? 0 : 3, nops + 1);
        run_buf(h, wrap, ops, nops, fail, nf);
    }
    /* exhaustive small scope: three appends around the first capacity, every subset of failing requests 1..3 */
    static const long tri[] = {4095, 1, 1};
    for (int m = 0; m < 8; m++) {
        int nf = 0; for (int b = 0; b < 3; b++) if (m >> b & 1) fail[nf++] = b + 1;
        for (int i = 0; i < 3; i++) { ops[2 * i] = 1; ops[2 * i + 1] = tri[i]; }
        run_buf(h, -1, ops, 3, fail, nf);
    }
}

/* ------------------------------------------------------------------------------------------ */
/* (1b) carquet_arena                                                                          */
/* ------------------------------------------------------------------------------------------ */

static int arena_locate(const carquet_arena_t* a, const void* p, long* off) {
    int idx = 0;
    for (carquet_arena_block_t* b = a->head; b; b = b->next, idx++) {
        const uint8_t* base = CARQUET_ARENA_BLOCK_DATA(b);
        if ((const uint8_t*)p >= base && (const uint8_t*)p < base + b->size) { *off = (long)((const uint8_t*)p - base); return idx; }
    }
    *off = -1;
    return -3;
}

static void run_arena(hctx* h, long bs, const long* ops, int nops, const long* fail, int nfail) {
    fprintf(h->out, "alloc_arena bs=%ld ops=", bs); print_list(h->out, ops, 3 * nops);
    fprintf(h->out, " fail="); print_list(h->out, fail, nfail); h_call(h);
    long rb[MAXOPS], ro[MAXOPS];
    size_t maxn = 1;
    for (int i = 0; i < nops; i++) if ((size_t)ops[3 * i + 1] > maxn) maxn = (size_t)ops[3 * i + 1];
    char* src = (char*)h_alloc(maxn + 1);
    for (size_t i = 0; i < maxn; i++) src[i] = (char)('a' + i % 26);
    src[maxn] = 0;
    carquet_arena_t ar;
    carquet_arena_mark_t marks[4];
    int have_mark[4] = {0, 0, 0, 0};
    int p_zero = 1, p_copy = 1;
    h_alloc_arm_set(fail, nfail);
    carquet_status_t ist = carquet_arena_init_size(&ar, (size_t)bs);
    if (ist == CARQUET_OK) {
        for (int i = 0; i < nops; i++) {
            long c = ops[3 * i], a = ops[3 * i + 1], b = ops[3 * i + 2];
            void* p = NULL; int is_alloc = 1;
            switch (c) {
            case 0: p = carquet_arena_alloc(&ar, (size_t)a); if (p) memset(p, 0xA5, (size_t)a); break;
            case 1: p = carquet_arena_alloc_aligned(&ar, (size_t)a, (size_t)b);
                    if (p) { memset(p, 0x5A, (size_t)a); if (b > 0 && ((uintptr_t)p % (uintptr_t)b) != 0) p_copy = 0; } break;
            case 2: p = carquet_arena_calloc(&ar, (size_t)a, (size_t)b);
                    if (p) { for (long j = 0; j < a * b; j++) if (((uint8_t*)p)[j]) p_zero = 0; memset(p, 0xC3, (size_t)(a * b)); } break;
            case 3: { char sv = src[a]; src[a] = 0; p = carquet_arena_strdup(&ar, src);
                      if (p && (strlen((char*)p) != (size_t)a || memcmp(p, src, (size_t)a))) p_copy = 0; src[a] = sv; break; }
            case 7: { p = carquet_arena_strndup(&ar, src, (size_t)b);
                      size_t want = (size_t)b < maxn ? (size_t)b : maxn;
                      if (p && (strlen((char*)p) != want || memcmp(p, src, want))) p_copy = 0; break; }
            case 8: p = carquet_arena_memdup(&ar, src, (size_t)a); if (p && memcmp(p, src, (size_t)a)) p_copy = 0; break;
            case 4: marks[a & 3] = carquet_arena_save(&ar); have_mark[a & 3] = 1; is_alloc = 0; break;
            case 5: if (have_mark[a & 3]) carquet_arena_restore(&ar, marks[a & 3]);
                    /* marks taken later than the restored one are no longer meaningful */
                    is_alloc = 0; break;
            case 6: carquet_arena_reset(&ar); for (int m = 0; m < 4; m++) have_mark[m] = 0; is_alloc = 0; break;
            default: is_alloc = 0; break;
            }
            if (!is_alloc) { rb[i] = -2; ro[i] = 0; }
            else if (!p) { rb[i] = -1; ro[i] = 0; }
            else rb[i] = arena_locate(&ar, p, &ro[i]);
        }
    }
    long nreq = h_alloc_disarm();
    fprintf(h->out, " | init=%d", ist == CARQUET_OK ? 0 : 1);
    if (ist == CARQUET_OK) {
        long bsz[64], bused[64], bbase[64]; int nb = 0, cur = -1;
        for (carquet_arena_block_t* b = ar.head; b && nb < 64; b = b->next, nb++) {
            bsz[nb] = (long)b->size; bused[nb] = (long)b->used;
            bbase[nb] = (long)((uintptr_t)CARQUET_ARENA_BLOCK_DATA(b) % 4096);
            if (b == ar.current) cur = nb;
        }
        fprintf(h->out, " rb="); print_list(h->out, rb, nops);
        fprintf(h->out, " ro="); print_list(h->out, ro, nops);
        fprintf(h->out, " bsz="); print_list(h->out, bsz, nb);
        fprintf(h->out, " bused="); print_list(h->out, bused, nb);
        fprintf(h->out, " bbase="); print_list(h->out, bbase, nb);
        fprintf(h->out, " cur=%d talloc=%zu tcap=%zu", cur, ar.total_allocated, ar.total_capacity);
        carquet_arena_destroy(&ar);
    }
    fprintf(h->out, " nreq=%ld p_zero=%d p_copy=%d\n", nreq, p_zero, p_copy);
    h->n_lines++;
    free(src);
}

static void gen_arena(hctx* h) {
    long ops[3 * MAXOPS], fail[8];
    long n = h->thorough ? 5000 : 800;
    static const long sizes[] = {0, 1, 2, 7, 8, 15, 16, 17, 24, 100, 1000, 4096, 30000, 32760, 32768, 65519, 65520, 65521, 65528, 65536, 65537, 100000, 131072, 140000};
    static const long aligns[] = {0, 1, 2, 4, 8, 16, 16, 16, 32, 64};
    for (long it = 0; it < n; it++) {
        int nops = 1 + (int)h_below(h, it < 150 ? 3 : 14);
        long bs = h_chance(h, 1, 2) ? 65536 : (h_chance(h, 1, 2) ? 4096 : (long)h_below(h, 300000));
        long used = 0;
        for (int i = 0; i < nops; i++) {
            long c = (long)h_below(h, 9);
            if (h_chance(h, 1, 3)) c = 0;
            long a = h_chance(h, 1, 2) ? sizes[h_below(h, sizeof sizes / sizeof sizes[0])] : (long)h_below(h, 3000);
            long b = 0;
            if (h_chance(h, 1, 5)) { a = 65536 - used % 65536 - 16 + (long)h_below(h, 33); if (a < 0) a = 1; }   /* around the end of a block */
            if (c == 1) b = aligns[h_below(h, 10)];
            if (c == 2) { b = 1 + (long)h_below(h, 24); a = a / b; }
            if (c == 3 || c == 7 || c == 8) { if (a > 70000) a = 70000; }
            if (c == 7) b = h_chance(h, 1, 2) ? a : (long)h_below(h, (uint64_t)a + 5);
            if (c == 4 || c == 5) a = (long)h_below(h, 4);
            if (c == 6) a = 0;
            if (c <= 3 || c >= 7) used += (c == 2 ? a * b : a) + 8;
            ops[3 * i] = c; ops[3 * i + 1] = a; ops[3 * i + 2] = b;
        }
        int nf = gen_fail_set(h, fail, it % 3 == 0 ? 0 : 3, 6);
        run_arena(h, bs, ops, nops, fail, nf);
    }
}

/* ------------------------------------------------------------------------------------------ */
/* (1c) schema builder                                                                         */
/* ------------------------------------------------------------------------------------------ */
#define MAXCOLS 600

static void make_name(char* dst, int idx, long len) {
    /* distinct names of exactly len characters (len >= 1): c<idx> padded with 'x' / truncated */
    char tmp[32];
    int n = snprintf(tmp, sizeof tmp, "c%d", idx);
    for (long i = 0; i < len; i++) dst[i] = i < n ? tmp[i] : 'x';
    dst[len] = 0;
}

static void run_schema(hctx* h, const long* names, const long* reps, int ncols, const long* fail, int nfail) {
    fprintf(h->out, "alloc_schema names="); print_list(h->out, names, ncols);
    fprintf(h->out, " reps="); print_list(h->out, reps, ncols);
    fprintf(h->out, " fail="); print_list(h->out, fail, nfail); h_call(h);
    long maxlen = 1;
    for (int i = 0; i < ncols; i++) if (names[i] > maxlen) maxlen = names[i];
    char* name = (char*)h_alloc((size_t)maxlen + 1);
    long* st = (long*)h_alloc(sizeof(long) * (size_t)(ncols ? ncols : 1));
    carquet_error_t err = CARQUET_ERROR_INIT;
    h_alloc_arm_set(fail, nfail);
    carquet_schema_t* s = carquet_schema_create(&err);
    int nst = 0;
    if (s) {
        for (int i = 0; i < ncols; i++) {
            make_name(name, i, names[i]);
            carquet_status_t r = carquet_schema_add_column(s, name, CARQUET_PHYSICAL_INT32, NULL,
                                                           (carquet_field_repetition_t)reps[i], 0);
            st[nst++] = r == CARQUET_OK ? 0 : 1;
        }
    }
    long nreq = h_alloc_disarm();
    fprintf(h->out, " | create=%d", s ? 0 : 1);
    if (s) {
        /* the elements that exist must carry the names and levels of the successful adds, in order */
        int nulln = 0, p_names = 1, e = 1;
        for (int i = 0; i < s->num_elements; i++) if (!s->elements[i].name) nulln++;
        if (!s->elements[0].name || strcmp(s->elements[0].name, "schema")) p_names = 0;
        for (int i = 0; i < ncols; i++) {
            if (st[i] != 0) continue;
            if (e >= s->num_elements) { p_names = 0; break; }
            make_name(name, i, names[i]);
            if (!s->elements[e].name || strcmp(s->elements[e].name, name)) p_names = 0;   /* OK was reported: the name must be there */
            if (s->leaf_indices[e - 1] != e) p_names = 0;
            if (s->max_def_levels[e - 1] != (reps[i] == 1 || reps[i] == 2)) p_names = 0;
            if (s->max_rep_levels[e - 1] != (reps[i] == 2)) p_names = 0;
            e++;
        }
        if (e != s->num_elements) p_names = 0;
        fprintf(h->out, " st="); print_list(h->out, st, nst);
        fprintf(h->out, " nelem=%d nleaf=%d cap=%d nullnames=%d talloc=%zu nreq=%ld p_names=%d\n",
                s->num_elements, s->num_leaves, s->capacity, nulln, s->arena.total_allocated, nreq, p_names);
        carquet_schema_free(s);
    } else {
        fprintf(h->out, " nreq=%ld\n", nreq);
    }
    h->n_lines++;
    free(name); free(st);
}

static void gen_schema(hctx* h) {
    long* names = (long*)h_alloc(sizeof(long) * MAXCOLS);
    long* reps = (long*)h_alloc(sizeof(long) * MAXCOLS);
    long fail[8];
    long n = h->thorough ? 600 : 120;
    for (long it = 0; it < n; it++) {
        int shape = (int)h_below(h, 6);
        int ncols = shape == 0 ? (int)h_below(h, 8) : shape == 1 ? 60 + (int)h_below(h, 10) :
                    shape == 2 ? 120 + (int)h_below(h, 20) : shape == 3 ? 250 + (int)h_below(h, 300) : 1 + (int)h_below(h, 80);
        long big = shape >= 4 ? 800 + (long)h_below(h, 3000) : 0;   /* long names: the schema arena needs a second block */
        for (int i = 0; i < ncols; i++) {
            names[i] = big ? big + (long)h_below(h, 50) : 1 + (long)h_below(h, 12);
            reps[i] = (long)h_below(h, 3);
        }
        /* requests: 6 in create, then 4 per growth step (and one per new arena block) */
        int nf = gen_fail_set(h, fail, it % 4 == 0 ? 0 : 3, 6 + 4 * 4 + (big ? 6 : 0));
        run_schema(h, names, reps, ncols, fail, nf);
    }
    /* every single failing request of one build with two growth steps */
    for (int i = 0; i < 130; i++) { names[i] = 3; reps[i] = i % 3; }
    for (long k = 0; k <= 15; k++) { fail[0] = k; run_schema(h, names, reps, 130, fail, k ? 1 : 0); }
    free(names); free(reps);
}

/* ------------------------------------------------------------------------------------------ */
/* (1d) Thrift encoder latch                                                                   */
/* ------------------------------------------------------------------------------------------ */

static void run_thrift(hctx* h, const long* ops, int nops, const long* fail, int nfail) {
    fprintf(h->out, "alloc_thrift ops="); print_list(h->out, ops, 2 * nops);
    fprintf(h->out, " fail="); print_list(h->out, fail, nfail); h_call(h);
    size_t maxn = 1;
    for (int i = 0; i < nops; i++) if (ops[2 * i] == 2 && (size_t)ops[2 * i + 1] > maxn) maxn = (size_t)ops[2 * i + 1];
    uint8_t* src = h_alloc(maxn);
    memset(src, 0x42, maxn);
    carquet_buffer_t b; carquet_buffer_init(&b);
    thrift_encoder_t enc; thrift_encoder_init(&enc, &b);
    h_alloc_arm_set(fail, nfail);
    for (int i = 0; i < nops; i++) {
        long c = ops[2 * i], a = ops[2 * i + 1];
        switch (c) {
        case 0: thrift_write_byte(&enc, (int8_t)a); break;
        case 1: thrift_write_varint(&enc, (uint64_t)a); break;
        case 2: thrift_write_binary(&enc, src, (int32_t)a); break;
        case 3: thrift_write_double(&enc, (double)a); break;
        case 4: thrift_write_i32(&enc, (int32_t)a); break;
        case 5: thrift_write_field_header(&enc, THRIFT_TYPE_I32, (int16_t)a); break;
        case 6: thrift_write_field_stop(&enc); break;
        default: break;
        }
    }
    long nreq = h_alloc_disarm();
    fprintf(h->out, " | status=%d size=%zu cap=%zu nreq=%ld\n", enc.status == CARQUET_OK ? 0 : 1, b.size, b.capacity, nreq);
    h->n_lines++;
    carquet_buffer_destroy(&b); free(src);
}

static void gen_thrift(hctx* h) {
    long ops[2 * MAXOPS], fail[8];
    long n = h->thorough ? 3000 : 500;
    for (long it = 0; it < n; it++) {
        int nops = 1 + (int)h_below(h, 20);
        for (int i = 0; i < nops; i++) {
            long c = (long)h_below(h, 7), a = 0;
            switch (c) {
            case 0: a = (long)h_below(h, 256) - 128; break;
            case 1: a = h_chance(h, 1, 2) ? (long)h_below(h, 300) : (long)(h_next(h) >> (1 + h_below(h, 62))); break;
            case 2: a = h_chance(h, 1, 4) ? 4000 + (long)h_below(h, 200) : (long)h_below(h, 40); break;
            case 3: a = (long)h_below(h, 1000); break;
            case 4: a = (long)(int32_t)h_next(h) >> h_below(h, 31); break;
            case 5: a = 1 + (long)h_below(h, 40); break;
            default: break;
            }
            ops[2 * i] = c; ops[2 * i + 1] = a;
        }
        int nf = gen_fail_set(h, fail, it % 4 == 0 ? 0 : 3, 5);
        run_thrift(h, ops, nops, fail, nf);
    }
}

/* ------------------------------------------------------------------------------------------ */
/* (1e) page builder                                                                           */
/* ------------------------------------------------------------------------------------------ */
typedef struct carquet_page_writer carquet_page_writer_t;
carquet_page_writer_t* carquet_page_writer_create(carquet_physical_type_t type, carquet_encoding_t encoding,
    carquet_compression_t compression, int16_t max_def_level, int16_t max_rep_level, int32_t type_length);
void carquet_page_writer_destroy(carquet_page_writer_t* writer);
carquet_status_t carquet_page_writer_add_values(carquet_page_writer_t* writer, const void* values, int64_t num_values,
    const int16_t* def_levels, const int16_t* rep_levels);
carquet_status_t carquet_page_writer_finalize(carquet_page_writer_t* writer, const uint8_t** page_data, size_t* page_size,
    int32_t* uncompressed_size, int32_t* compressed_size);

typedef struct { int create, add, fin; size_t page; int unc, cmp; long nreq; int f_add, f_fin; uint64_t dh; uint32_t crc; } pw_res;

static void pw_once(long n, int nullable, int first, int codec, const long* fail, int nfail, pw_res* r) {
    int32_t* vals = (int32_t*)h_alloc(sizeof(int32_t) * (size_t)(n ? n : 1));
    int16_t* defs = (int16_t*)h_alloc(sizeof(int16_t) * (size_t)(n ? n : 1));
    long nn = 0;
    for (long i = 0; i < n; i++) { defs[i] = nullable ? (int16_t)((i + first) & 1) : 1; if (defs[i]) nn++; }
    for (long i = 0; i < nn; i++) vals[i] = (int32_t)(i * 2654435761u + 17);
    memset(r, 0, sizeof *r);
    r->add = r->fin = 2;
    h_alloc_arm_set(fail, nfail);
    carquet_page_writer_t* pw = carquet_page_writer_create(CARQUET_PHYSICAL_INT32, CARQUET_ENCODING_PLAIN,
        (carquet_compression_t)codec, nullable ? 1 : 0, 0, 0);
    r->create = pw ? 0 : 1;
    if (pw) {
        long f0 = h_alloc_fired;
        carquet_status_t s = carquet_page_writer_add_values(pw, vals, n, nullable ? defs : NULL, NULL);
        r->add = s == CARQUET_OK ? 0 : 1;
        r->f_add = h_alloc_fired > f0;
        if (s == CARQUET_OK) {
            const uint8_t* pd = NULL; size_t ps = 0; int32_t u = 0, c = 0;
            f0 = h_alloc_fired;
            s = carquet_page_writer_finalize(pw, &pd, &ps, &u, &c);
            r->fin = s == CARQUET_OK ? 0 : 1;
            r->f_fin = h_alloc_fired > f0;
            if (s == CARQUET_OK) {
                r->page = ps; r->unc = u; r->cmp = c;
                r->dh = fnv_add(fnv_init(), pd, ps);
                if ((size_t)c <= ps) r->crc = (uint32_t)crc32(0L, pd + (ps - (size_t)c), (uInt)c);
            }
        }
    }
    r->nreq = h_alloc_disarm();
    if (pw) carquet_page_writer_destroy(pw);
    free(vals); free(defs);
}

static void run_pw(hctx* h, long n, int nullable, int first, int codec, const long* fail, int nfail) {
    pw_res base, r;
    pw_once(n, nullable, first, codec, NULL, 0, &base);       /* fault-free: reference page, crc and compressed size */
    fprintf(h->out, "alloc_pw n=%ld nullable=%d first=%d codec=%d crc=%u comp=%d fail=", n, nullable, first, codec, base.crc, base.cmp);
    print_list(h->out, fail, nfail); h_call(h);
    pw_once(n, nullable, first, codec, fail, nfail, &r);
    int same = 2;
    if (r.fin == 0) same = (r.page == base.page && r.dh == base.dh && r.unc == base.unc && r.cmp == base.cmp);
    fprintf(h->out, " | create=%d add=%d fin=%d page=%zu unc=%d cmp=%d nreq=%ld f_add=%d f_fin=%d basereq=%ld",
            r.create, r.add, r.fin, r.page, r.unc, r.cmp, r.nreq, r.f_add, r.f_fin, base.nreq);
    if (same != 2) fprintf(h->out, " p_same=%d", same);
    fprintf(h->out, "\n");
    h->n_lines++;
}

static void gen_pw(hctx* h) {
    long fail[8];
    long n = h->thorough ? 2500 : 400;
    static const long counts[] = {1, 2, 7, 8, 100, 1000, 1023, 1024, 1025, 2047, 2048, 2049, 3000, 5000};
    for (long it = 0; it < n; it++) {
        int nullable = (int)h_below(h, 2);
        long cnt = nullable ? 1 + (long)h_below(h, 8) : counts[h_below(h, sizeof counts / sizeof counts[0])];
        int codec = h_chance(h, 1, 3) ? 1 : 0;
        int nf = gen_fail_set(h, fail, it % 5 == 0 ? 0 : 3, 14);
        run_pw(h, cnt, nullable, (int)h_below(h, 2), codec, fail, nf);
    }
    /* every single failing request for one nullable and one required page, both codecs */
    for (int codec = 0; codec < 2; codec++)
        for (int nullable = 0; nullable < 2; nullable++)
            for (long k = 1; k <= 14; k++) { fail[0] = k; run_pw(h, nullable ? 7 : 1500, nullable, 1, codec, fail, 1); }
}

/* ------------------------------------------------------------------------------------------ */
/* (2) scenario-level fault enumeration                                                        */
/* ------------------------------------------------------------------------------------------ */

enum { SCN_SCHEMA = 0, SCN_WRITE = 1, SCN_READ = 2, SCN_BATCH = 3, SCN_PARSE = 4,
       SCN_DICT = 5, SCN_DSKIP = 6, SCN_DBATCH = 7, SCN_DSTATS = 8, SCN_BLOOM = 9, SCN_STATSB = 10, SCN_PGIDX = 11,
       SCN_SCHEMAG = 12, SCN_WREP = 13, SCN_COUNT = 14 };
static const char* const scn_names[] = {"schema", "write", "read", "batch", "parse",
    "dict", "dskip", "dbatch", "dstats", "bloom", "statsb", "pgidx", "schemag", "wrep"};
/* scenarios whose "same effect" is (also) equality of the digest with the one of the fault-free run */
static int scn_uses_base(int scn) { return scn == SCN_DSTATS || scn == SCN_BLOOM || scn == SCN_STATSB || scn == SCN_PGIDX || scn == SCN_WREP; }
/* scenarios reading the hand-built file */
static int scn_is_dict(int scn) { return scn >= SCN_DICT && scn <= SCN_DSTATS; }
enum { MODE_FREAD = 0, MODE_MMAP = 1, MODE_BUFFER = 2 };

typedef struct {
    int scn, codec, mode, rows, rg, shape, cleanup;
    int nb;            /* write_batch calls per column per row group (each becomes one page when > 1) */
    int lvl;           /* 0: the k-th malloc/calloc/realloc/strdup request fails; 1: the k-th arena request fails */
    uint64_t tseed;
    long k;
} scn_params;
static void scn_arm(const scn_params* p) { if (p->lvl) h_alloc_arm_arena(p->k); else h_alloc_arm(p->k); }

#define NCOLS 7
typedef struct {
    int rows;
    int32_t* c0;                         /* INT32 REQUIRED */
    int64_t* c1; int16_t* d1; int n1;    /* INT64 OPTIONAL (dense values + def levels) */
    double* c2; int16_t* d2; int n2;     /* DOUBLE OPTIONAL */
    carquet_byte_array_t* c3; int16_t* d3; int n3; uint8_t* strs;   /* BYTE_ARRAY OPTIONAL */
    uint8_t* c4;                         /* BOOLEAN REQUIRED */
    float* c5;                           /* FLOAT REQUIRED */
    uint8_t* c6;                         /* FIXED_LEN_BYTE_ARRAY(5) REQUIRED */
} table_t;

static uint64_t sm_next(uint64_t* s) {
    uint64_t z = (*s += 0x9E3779B97F4A7C15ull);
    z = (z ^ (z >> 30)) * 0xBF58476D1CE4E5B9ull;
    z = (z ^ (z >> 27)) * 0x94D049BB133111EBull;
    return z ^ (z >> 31);
}

/* Row group g of the table determined by (tseed, rows).  Null patterns strictly alternate (the
 * writer's RLE level encoder has an unrelated known defect for runs >= 8 after a partial group). */
static void table_make(table_t* t, uint64_t tseed, int rows, int g) {
    uint64_t s = tseed * 1000003ull + (uint64_t)g * 7919ull + 1;
    memset(t, 0, sizeof *t);
    t->rows = rows;
    size_t r = (size_t)rows;
    t->c0 = (int32_t*)h_alloc(4 * r); t->c1 = (int64_t*)h_alloc(8 * r); t->d1 = (int16_t*)h_alloc(2 * r);
    t->c2 = (double*)h_alloc(8 * r); t->d2 = (int16_t*)h_alloc(2 * r);
    t->c3 = (carquet_byte_array_t*)h_alloc(sizeof(carquet_byte_array_t) * r); t->d3 = (int16_t*)h_alloc(2 * r);
    t->strs = h_alloc(16 * r);
    t->c4 = h_alloc(r); t->c5 = (float*)h_alloc(4 * r); t->c6 = h_alloc(5 * r);
    int p1 = (int)(sm_next(&s) & 1), p2 = (int)(sm_next(&s) & 1), p3 = (int)(sm_next(&s) & 1);
    for (int i = 0; i < rows; i++) {
        t->c0[i] = (int32_t)sm_next(&s);
        t->d1[i] = (int16_t)((i + p1) & 1); if (t->d1[i]) t->c1[t->n1++] = (int64_t)sm_next(&s);
        t->d2[i] = (int16_t)((i + p2) & 1); if (t->d2[i]) t->c2[t->n2++] = (double)(int32_t)sm_next(&s) / 8.0;
        t->d3[i] = (int16_t)((i + p3) & 1);
        if (t->d3[i]) {
            int len = (int)(sm_next(&s) % 13);
            uint8_t* p = t->strs + 16 * (size_t)t->n3;
            for (int j = 0; j < len; j++) p[j] = (uint8_t)('a' + sm_next(&s) % 26);
            t->c3[t->n3].data = p; t->c3[t->n3].length = len; t->n3++;
        }
        t->c4[i] = (uint8_t)(sm_next(&s) & 1);
        t->c5[i] = (float)(int16_t)sm_next(&s) / 4.0f;
        for (int j = 0; j < 5; j++) t->c6[5 * i + j] = (uint8_t)sm_next(&s);
    }
}
static void table_free(table_t* t) {
    free(t->c0); free(t->c1); free(t->d1); free(t->c2); free(t->d2); free(t->c3); free(t->d3); free(t->strs);
    free(t->c4); free(t->c5); free(t->c6);
}

static const char* const col_names[NCOLS] = {"id", "v64", "dbl", "str", "flag", "flt", "fix"};
static const carquet_physical_type_t col_types[NCOLS] = {CARQUET_PHYSICAL_INT32, CARQUET_PHYSICAL_INT64, CARQUET_PHYSICAL_DOUBLE,
    CARQUET_PHYSICAL_BYTE_ARRAY, CARQUET_PHYSICAL_BOOLEAN, CARQUET_PHYSICAL_FLOAT, CARQUET_PHYSICAL_FIXED_LEN_BYTE_ARRAY};
static const int col_opt[NCOLS] = {0, 1, 1, 1, 0, 0, 0};
static const int col_tlen[NCOLS] = {0, 0, 0, 0, 0, 0, 5};

/* name of column c in the given shape: shape > 0 lengthens the names (arena pressure in the
 * writer's and reader's metadata arenas: the block boundary moves across the allocation sites) */
static void scn_col_name(char* dst, size_t cap, int c, int shape) {
    int n = snprintf(dst, cap, "%s", col_names[c]);
    long extra = shape > 0 ? (long)shape : 0;
    for (long i = 0; i < extra && (size_t)n + 1 < cap; i++) dst[n++] = (char)('a' + (i + c) % 26);
    dst[n] = 0;
}
#define NAMECAP 4200

/* number of non-null values of column c in row group g of the intended table */
static int table_nonnull(uint64_t tseed, int rows, int g, int c) {
    table_t t; table_make(&t, tseed, rows, g);
    int n = c == 1 ? t.n1 : c == 2 ? t.n2 : c == 3 ? t.n3 : rows;
    table_free(&t);
    return n;
}

/* digest of one column of one row group: levels and dense values are digested separately (a reader may
 * deliver them over several calls) and then combined */
static uint64_t col_combine(uint64_t d, uint64_t dl, uint64_t dv) { return fnv_u64(fnv_u64(d, dl), dv); }
static uint64_t ba_digest(uint64_t dv, const carquet_byte_array_t* ba, int n) {
    for (int i = 0; i < n; i++) { dv = fnv_u64(dv, (uint64_t)ba[i].length); dv = fnv_add(dv, ba[i].data, (size_t)ba[i].length); }
    return dv;
}

static uint64_t table_digest(uint64_t tseed, int rows, int rg) {
    uint64_t d = fnv_init();
    for (int g = 0; g < rg; g++) {
        table_t t; table_make(&t, tseed, rows, g);
        size_t r = (size_t)rows;
        d = fnv_u64(d, (uint64_t)rows);
        d = col_combine(d, fnv_init(), fnv_add(fnv_init(), t.c0, 4 * r));
        d = col_combine(d, fnv_add(fnv_init(), t.d1, 2 * r), fnv_add(fnv_init(), t.c1, 8 * (size_t)t.n1));
        d = col_combine(d, fnv_add(fnv_init(), t.d2, 2 * r), fnv_add(fnv_init(), t.c2, 8 * (size_t)t.n2));
        d = col_combine(d, fnv_add(fnv_init(), t.d3, 2 * r), ba_digest(fnv_init(), t.c3, t.n3));
        d = col_combine(d, fnv_init(), fnv_add(fnv_init(), t.c4, r));
        d = col_combine(d, fnv_init(), fnv_add(fnv_init(), t.c5, 4 * r));
        d = col_combine(d, fnv_init(), fnv_add(fnv_init(), t.c6, 5 * r));
        table_free(&t);
    }
    return d;
}

/* ---- result record passed from the child to the parent ---- */
#define MAXCALLS 200
typedef struct {
    int done;
    long nreq, fired_at;
    int ncalls; unsigned char st[MAXCALLS];
    unsigned short rq[MAXCALLS];   /* allocation requests made during each recorded call */
    long rq_seen;                  /* requests seen when the previous call was recorded */
    unsigned char kind[MAXCALLS];  /* which API call (CK_*), 0 = implied by the scenario */
    int arg[MAXCALLS], res[MAXCALLS];   /* its argument and its result, where they matter to the model */
    int naux; long aux[4];         /* scenario facts the request-count model needs (sizes computed fault-free before arming) */
    int err;           /* index of the first call that reported an error, -1 if none */
    int same;          /* 1 same effect as intended / as the fault-free run, 0 different, 2 not applicable (error reported) */
    int leak;
    uint64_t digest;
    int npcs; void* pcs[H_ALLOC_MAX_PCS];
} case_res;

static case_res* R;    /* in the child: the record being filled */
enum { CK_NONE = 0, CK_OPEN = 1, CK_GET_COLUMN = 2, CK_READ = 3, CK_SKIP = 4 };
static void call_recx(int failed, int kind, long arg, long res) {
    long seen = h_alloc_seen();
    if (R->ncalls < MAXCALLS) {
        R->kind[R->ncalls] = (unsigned char)kind; R->arg[R->ncalls] = (int)arg; R->res[R->ncalls] = (int)res;
        R->st[R->ncalls] = (unsigned char)(failed ? 1 : 0);
        R->rq[R->ncalls] = (unsigned short)(seen - R->rq_seen > 65535 ? 65535 : seen - R->rq_seen);
    }
    R->rq_seen = seen;
    if (failed && R->err < 0) R->err = R->ncalls;
    R->ncalls++;
}
static void call_rec(int failed) { call_recx(failed, CK_NONE, 0, 0); }

/* ---- schema handle used by write scenarios ---- */
static carquet_schema_t* scn_build_schema(const scn_params* p, int record) {
    carquet_error_t err = CARQUET_ERROR_INIT;
    static char name[NAMECAP];
    carquet_schema_t* s = carquet_schema_create(&err);
    if (record) call_rec(s == NULL);
    if (!s) return NULL;
    for (int c = 0; c < NCOLS; c++) {
        scn_col_name(name, sizeof name, c, p->shape);
        carquet_status_t st = carquet_schema_add_column(s, name, col_types[c], NULL,
            col_opt[c] ? CARQUET_REPETITION_OPTIONAL : CARQUET_REPETITION_REQUIRED, col_tlen[c]);
        if (record) call_rec(st != CARQUET_OK);
        if (st != CARQUET_OK) { carquet_schema_free(s); return NULL; }
    }
    return s;
}

/* read the whole file back (no faults) and digest schema names + every column of every row group */
static int file_digest(const char* path, int mode, const uint8_t* buf, size_t buflen, const scn_params* p,
                       uint64_t* out, int record);

/* ---- scenario: schema build ------------------------------------------------------------- */
static void scn_schema(const scn_params* p) {
    /* many columns (growth of the four arrays) with names long enough for a second arena block */
    int ncols = 70 + p->rows;
    long namelen = 4 + (p->shape > 0 ? p->shape : 0);
    static char name[NAMECAP];
    carquet_error_t err = CARQUET_ERROR_INIT;
    scn_arm(p);
    carquet_schema_t* s = carquet_schema_create(&err);
    call_rec(s == NULL);
    int added = 0;
    if (s) {
        for (int c = 0; c < ncols; c++) {
            make_name(name, c, namelen);
            carquet_status_t st = carquet_schema_add_column(s, name, col_types[c % NCOLS], NULL,
                (carquet_field_repetition_t)(c % 3), col_types[c % NCOLS] == CARQUET_PHYSICAL_FIXED_LEN_BYTE_ARRAY ? 5 : 0);
            call_rec(st != CARQUET_OK);
            if (st != CARQUET_OK) break;
            added++;
        }
    }
    R->nreq = h_alloc_disarm();
    if (s && R->err < 0) {
        int ok = carquet_schema_num_columns(s) == ncols && carquet_schema_num_elements(s) == ncols + 1;
        for (int c = 0; ok && c < ncols; c++) {
            make_name(name, c, namelen);
            const carquet_schema_node_t* nd = carquet_schema_get_element(s, c + 1);
            const char* nm = nd ? carquet_schema_node_name(nd) : NULL;
            if (!nm || strcmp(nm, name)) ok = 0;
            else if (carquet_schema_node_physical_type(nd) != col_types[c % NCOLS]) ok = 0;
            else if ((int)carquet_schema_node_repetition(nd) != c % 3) ok = 0;
            else if (carquet_schema_find_column(s, name) != c) ok = 0;
        }
        R->same = ok;
    }
    if (s) carquet_schema_free(s);
}

/* ---- scenario: write ---------------------------------------------------------------------- */
static char g_tmp_path[256];

static void scn_write(const scn_params* p) {
    table_t tabs[4];
    for (int g = 0; g < p->rg; g++) table_make(&tabs[g], p->tseed, p->rows, g);
    carquet_writer_options_t opt; carquet_writer_options_init(&opt);
    opt.compression = (carquet_compression_t)p->codec;
    if (p->nb > 1) opt.page_size = 64;     /* every write_batch closes its page: several pages per chunk */
    carquet_error_t err = CARQUET_ERROR_INIT;
    carquet_writer_t* w = NULL;
    carquet_status_t st = CARQUET_OK;
    int closed = 0;
    scn_arm(p);
    carquet_schema_t* s = scn_build_schema(p, 1);
    if (!s) goto out;
    w = carquet_writer_create(g_tmp_path, s, &opt, &err);
    call_rec(w == NULL);
    if (!w) goto out;
    for (int g = 0; g < p->rg; g++) {
        table_t* t = &tabs[g];
        const void* vals[NCOLS] = {t->c0, t->c1, t->c2, t->c3, t->c4, t->c5, t->c6};
        const int16_t* defs[NCOLS] = {NULL, t->d1, t->d2, t->d3, NULL, NULL, NULL};
        static const size_t esz[NCOLS] = {4, 8, 8, sizeof(carquet_byte_array_t), 1, 4, 5};
        int nbat = p->nb > 1 ? p->nb : 1;
        for (int c = 0; c < NCOLS; c++) {
            int before = 0;                         /* dense values consumed by the earlier slices */
            for (int bi = 0; bi < nbat; bi++) {
                int r0 = t->rows * bi / nbat, r1 = t->rows * (bi + 1) / nbat;
                if (r1 == r0) continue;
                int nn = r1 - r0;
                if (defs[c]) { nn = 0; for (int i = r0; i < r1; i++) nn += defs[c][i] == 1; }
                st = carquet_writer_write_batch(w, c, (const uint8_t*)vals[c] + esz[c] * (size_t)(defs[c] ? before : r0),
                                                r1 - r0, defs[c] ? defs[c] + r0 : NULL, NULL);
                call_rec(st != CARQUET_OK);
                if (st != CARQUET_OK) goto out;
                before += nn;
            }
        }
        if (g + 1 < p->rg) {
            st = carquet_writer_new_row_group(w);
            call_rec(st != CARQUET_OK);
            if (st != CARQUET_OK) goto out;
        }
    }
    st = carquet_writer_close(w);       /* frees the writer on every path */
    call_rec(st != CARQUET_OK);
    closed = 1;
out:
    /* after an error: the handles are released the way a client would (abort, or close when cleanup=1) */
    if (w && !closed) {
        if (p->cleanup) (void)carquet_writer_close(w); else carquet_writer_abort(w);
    }
    if (s) carquet_schema_free(s);
    R->nreq = h_alloc_disarm();
    if (R->err < 0) {
        uint64_t d = 0;
        scn_params q = *p; q.k = 0;
        int ok = file_digest(g_tmp_path, MODE_FREAD, NULL, 0, &q, &d, 0);
        R->digest = d;
        R->same = ok && d == table_digest(p->tseed, p->rows, p->rg);
    }
    for (int g = 0; g < p->rg; g++) table_free(&tabs[g]);
}

/* ---- reading back: used fault-free by the write scenario and under faults by the read one ---- */
static carquet_reader_t* scn_open(const char* path, int mode, const uint8_t* buf, size_t buflen, carquet_error_t* err) {
    carquet_reader_options_t ro; carquet_reader_options_init(&ro);
    ro.use_mmap = mode == MODE_MMAP;
    if (mode == MODE_BUFFER) return carquet_reader_open_buffer(buf, buflen, &ro, err);
    return carquet_reader_open(path, &ro, err);
}

static int file_digest(const char* path, int mode, const uint8_t* buf, size_t buflen, const scn_params* p,
                       uint64_t* out, int record) {
    /* value buffers are taken from the real allocator so that the armed phase only counts carquet's requests */
    int cap = p->rows + 8;
    void* vals = __real_malloc((size_t)cap * 16);
    int16_t* defs = (int16_t*)__real_malloc((size_t)cap * 2);
    static char name[NAMECAP];
    carquet_error_t err = CARQUET_ERROR_INIT;
    uint64_t d = fnv_init();
    int ok = 1;
    int expect_nn[4][NCOLS];
    for (int g = 0; g < p->rg; g++) for (int c = 0; c < NCOLS; c++) expect_nn[g][c] = table_nonnull(p->tseed, p->rows, g, c);
    if (record) scn_arm(p);      /* the harness's own preparations above are not counted */
    carquet_reader_t* r = scn_open(path, mode, buf, buflen, &err);
    if (record) call_recx(r == NULL, CK_OPEN, mode, r ? (r->mmap_info != NULL) : 0);
    if (!r) { ok = 0; goto done; }
    if (carquet_reader_num_columns(r) != NCOLS || carquet_reader_num_row_groups(r) != p->rg) ok = 0;
    const carquet_schema_t* sc = carquet_reader_schema(r);
    for (int c = 0; ok && c < NCOLS; c++) {
        scn_col_name(name, sizeof name, c, p->shape);
        if (carquet_schema_find_column(sc, name) != c) ok = 0;    /* names survived */
        /* the chunk metadata the writer stores per column: path_in_schema = [name], encodings = [PLAIN, RLE] */
        for (int g = 0; ok && g < p->rg && g < r->metadata.num_row_groups; g++) {
            if (c >= r->metadata.row_groups[g].num_columns) { ok = 0; break; }
            const parquet_column_metadata_t* cm = &r->metadata.row_groups[g].columns[c].metadata;
            if (cm->path_len != 1 || !cm->path_in_schema || !cm->path_in_schema[0] || strcmp(cm->path_in_schema[0], name)) ok = 0;
            else if (cm->num_encodings != 2 || !cm->encodings || cm->encodings[0] != CARQUET_ENCODING_PLAIN || cm->encodings[1] != CARQUET_ENCODING_RLE) ok = 0;
        }
    }
    if (ok && (!r->metadata.created_by || strcmp(r->metadata.created_by, "Carquet"))) ok = 0;
    if (ok && (!r->metadata.schema[0].name || strcmp(r->metadata.schema[0].name, "schema"))) ok = 0;
    for (int g = 0; ok && g < p->rg; g++) {
        d = fnv_u64(d, (uint64_t)p->rows);
        for (int c = 0; ok && c < NCOLS; c++) {
            carquet_column_reader_t* cr = carquet_reader_get_column(r, g, c, &err);
            if (record) call_recx(cr == NULL, CK_GET_COLUMN, g * NCOLS + c, 0);
            if (!cr) { ok = 0; break; }
            /* read the chunk the way a client does: call read_batch until the column is exhausted.  A call may
             * deliver fewer values than asked for (e.g. a page load failed after partial progress); the next call
             * then either continues or reports the error.  BYTE_ARRAY values are dereferenced before the next call
             * (that is how long the library keeps them alive). */
            static const size_t esz[NCOLS] = {4, 8, 8, sizeof(carquet_byte_array_t), 1, 4, 5};
            int64_t n = 0; int dense = 0, calls = 0;
            uint64_t dl = fnv_init(), dv = fnv_init();
            while (n < p->rows && carquet_column_has_next(cr) && calls++ < 64) {
                int64_t got = carquet_column_read_batch(cr, vals, cap - n, col_opt[c] ? defs : NULL, NULL);
                if (record) call_recx(got < 0, CK_READ, cap - n, got);
                if (got <= 0) { if (got < 0) n = -1; break; }
                int nn = (int)got;
                if (col_opt[c]) { dl = fnv_add(dl, defs, 2 * (size_t)got); nn = 0; for (int64_t i = 0; i < got; i++) nn += defs[i] == 1; }
                if (dense + nn > expect_nn[g][c]) { n = -2; break; }      /* more non-null values than the table has */
                if (col_types[c] == CARQUET_PHYSICAL_BYTE_ARRAY) dv = ba_digest(dv, (const carquet_byte_array_t*)vals, nn);
                else dv = fnv_add(dv, vals, esz[c] * (size_t)nn);
                dense += nn;
                n += got;
            }
            if (n != p->rows || dense != expect_nn[g][c]) ok = 0;
            else d = col_combine(d, dl, dv);
            carquet_column_reader_free(cr);
        }
    }
done:
    if (r) carquet_reader_close(r);
    free(vals); free(defs);
    *out = d;
    return ok;
}

/* ---- scenario: open + column reads ------------------------------------------------------- */
static char g_in_path[256];
static uint8_t* g_in_buf; static size_t g_in_len;
static uint64_t g_base_digest;

static void scn_read(const scn_params* p) {
    uint64_t d = 0;
    int ok = file_digest(g_in_path, p->mode, g_in_buf, g_in_len, p, &d, 1);   /* arms with p->k itself */
    R->nreq = h_alloc_disarm();
    R->digest = d;
    if (R->err < 0) R->same = ok && d == table_digest(p->tseed, p->rows, p->rg);
}

/* ---- scenario: batch reader --------------------------------------------------------------- */
static void scn_batch(const scn_params* p) {
    carquet_error_t err = CARQUET_ERROR_INIT;
    uint64_t d = fnv_init();
    int ok = 1;
    carquet_batch_reader_t* br = NULL;
    int expect_nn[4][NCOLS];
    for (int g = 0; g < p->rg; g++) for (int c = 0; c < NCOLS; c++) expect_nn[g][c] = table_nonnull(p->tseed, p->rows, g, c);
    scn_arm(p);
    carquet_reader_t* r = scn_open(g_in_path, p->mode, g_in_buf, g_in_len, &err);
    call_rec(r == NULL);
    if (!r) goto out;
    carquet_batch_reader_config_t cfg; carquet_batch_reader_config_init(&cfg);
    cfg.batch_size = p->rows + 8;       /* one batch per row group (smaller batches hit unrelated reader defects) */
    cfg.num_threads = 1;                /* the request order must be deterministic */
    br = carquet_batch_reader_create(r, &cfg, &err);
    call_rec(br == NULL);
    if (!br) goto out;
    for (int g = 0; g <= p->rg; g++) {
        carquet_row_batch_t* b = NULL;
        carquet_status_t st = carquet_batch_reader_next(br, &b);
        if (g == p->rg) { call_rec(st != CARQUET_ERROR_END_OF_DATA); if (b) carquet_row_batch_free(b); break; }
        call_rec(st != CARQUET_OK);
        if (st != CARQUET_OK) break;
        int64_t nrows = carquet_row_batch_num_rows(b);
        d = fnv_u64(d, (uint64_t)nrows);
        if (nrows != p->rows || carquet_row_batch_num_columns(b) != NCOLS) ok = 0;
        for (int c = 0; ok && c < NCOLS; c++) {
            const void* data = NULL; const uint8_t* bm = NULL; int64_t nv = 0;
            if (carquet_row_batch_column(b, c, &data, &bm, &nv) != CARQUET_OK || nv != nrows || !data || !bm) { ok = 0; break; }
            int nn = 0;
            for (int i = 0; i < nv; i++) { int isnull = (bm[i / 8] >> (i % 8)) & 1; int16_t dl = (int16_t)!isnull; d = fnv_add(d, &dl, 2); nn += !isnull; }
            /* a wrong null count is already a wrong result; the surplus entries must not be dereferenced */
            if (nn != expect_nn[g][c]) { ok = 0; break; }
            switch (col_types[c]) {
            case CARQUET_PHYSICAL_BYTE_ARRAY: {
                const carquet_byte_array_t* ba = (const carquet_byte_array_t*)data;
                for (int i = 0; i < nn; i++) { d = fnv_u64(d, (uint64_t)ba[i].length); d = fnv_add(d, ba[i].data, (size_t)ba[i].length); }
                break; }
            case CARQUET_PHYSICAL_INT32: case CARQUET_PHYSICAL_FLOAT: d = fnv_add(d, data, 4 * (size_t)nn); break;
            case CARQUET_PHYSICAL_INT64: case CARQUET_PHYSICAL_DOUBLE: d = fnv_add(d, data, 8 * (size_t)nn); break;
            case CARQUET_PHYSICAL_BOOLEAN: d = fnv_add(d, data, (size_t)nn); break;
            default: d = fnv_add(d, data, 5 * (size_t)nn); break;
            }
        }
        carquet_row_batch_free(b);
    }
out:
    if (br) carquet_batch_reader_free(br);
    if (r) carquet_reader_close(r);
    R->nreq = h_alloc_disarm();
    R->digest = d;
    if (R->err < 0) R->same = ok && d == g_base_digest;
}

/* the digest a batch read of the intended table must produce (levels of required columns are all 1) */
static uint64_t batch_table_digest(uint64_t tseed, int rows, int rg) {
    uint64_t d = fnv_init();
    int16_t one = 1;
    for (int g = 0; g < rg; g++) {
        table_t t; table_make(&t, tseed, rows, g);
        d = fnv_u64(d, (uint64_t)rows);
        for (int i = 0; i < rows; i++) d = fnv_add(d, &one, 2);
        d = fnv_add(d, t.c0, 4 * (size_t)rows);
        d = fnv_add(d, t.d1, 2 * (size_t)rows); d = fnv_add(d, t.c1, 8 * (size_t)t.n1);
        d = fnv_add(d, t.d2, 2 * (size_t)rows); d = fnv_add(d, t.c2, 8 * (size_t)t.n2);
        d = fnv_add(d, t.d3, 2 * (size_t)rows);
        for (int i = 0; i < t.n3; i++) { d = fnv_u64(d, (uint64_t)t.c3[i].length); d = fnv_add(d, t.c3[i].data, (size_t)t.c3[i].length); }
        for (int i = 0; i < rows; i++) d = fnv_add(d, &one, 2);
        d = fnv_add(d, t.c4, (size_t)rows);
        for (int i = 0; i < rows; i++) d = fnv_add(d, &one, 2);
        d = fnv_add(d, t.c5, 4 * (size_t)rows);
        for (int i = 0; i < rows; i++) d = fnv_add(d, &one, 2);
        d = fnv_add(d, t.c6, 5 * (size_t)rows);
        table_free(&t);
    }
    return d;
}

/* ---- scenario: metadata parse with a nearly full arena ------------------------------------ */
/* The footer of the input file is parsed with an arena whose first block has `shape` bytes left,
 * so that the request for a second block (the k-th request, k = 1) happens at a chosen parse site. */
static uint64_t meta_digest(const parquet_file_metadata_t* m) {
    uint64_t d = fnv_init();
    d = fnv_u64(d, (uint64_t)m->version); d = fnv_u64(d, (uint64_t)m->num_rows);
    d = fnv_u64(d, (uint64_t)m->num_schema_elements);
    for (int i = 0; i < m->num_schema_elements; i++) {
        const parquet_schema_element_t* e = &m->schema[i];
        d = fnv_u64(d, e->name ? strlen(e->name) + 1 : 0); if (e->name) d = fnv_add(d, e->name, strlen(e->name));
        d = fnv_u64(d, (uint64_t)e->type); d = fnv_u64(d, (uint64_t)e->repetition_type); d = fnv_u64(d, (uint64_t)e->num_children);
    }
    d = fnv_u64(d, (uint64_t)m->num_row_groups);
    for (int g = 0; g < m->num_row_groups; g++) {
        const parquet_row_group_t* rg = &m->row_groups[g];
        d = fnv_u64(d, (uint64_t)rg->num_rows); d = fnv_u64(d, (uint64_t)rg->num_columns);
        for (int c = 0; c < rg->num_columns; c++) {
            const parquet_column_metadata_t* cm = &rg->columns[c].metadata;
            d = fnv_u64(d, (uint64_t)cm->num_values); d = fnv_u64(d, (uint64_t)cm->data_page_offset);
            d = fnv_u64(d, (uint64_t)cm->num_encodings);
            for (int i = 0; i < cm->num_encodings; i++) d = fnv_u64(d, (uint64_t)cm->encodings[i]);
            d = fnv_u64(d, (uint64_t)cm->path_len);
            for (int i = 0; i < cm->path_len; i++) {
                const char* s = cm->path_in_schema[i];
                d = fnv_u64(d, s ? strlen(s) + 1 : 0); if (s) d = fnv_add(d, s, strlen(s));
            }
        }
    }
    d = fnv_u64(d, m->created_by ? strlen(m->created_by) + 1 : 0);
    return d;
}

static void scn_parse(const scn_params* p) {
    /* footer bytes: [.. footer][len:4]["PAR1"] */
    size_t flen = (size_t)g_in_buf[g_in_len - 8] | (size_t)g_in_buf[g_in_len - 7] << 8 |
                  (size_t)g_in_buf[g_in_len - 6] << 16 | (size_t)g_in_buf[g_in_len - 5] << 24;
    uint8_t* footer = h_alloc(flen);
    memcpy(footer, g_in_buf + g_in_len - 8 - flen, flen);
    carquet_arena_t ar;
    parquet_file_metadata_t md;
    carquet_error_t err = CARQUET_ERROR_INIT;
    if (carquet_arena_init(&ar) != CARQUET_OK) { free(footer); return; }
    size_t left = (size_t)p->shape;
    size_t fill = CARQUET_ARENA_DEFAULT_BLOCK_SIZE > left + 16 ? CARQUET_ARENA_DEFAULT_BLOCK_SIZE - left - 16 : 0;
    if (fill) (void)carquet_arena_alloc_aligned(&ar, fill, 1);
    scn_arm(p);
    carquet_status_t st = parquet_parse_file_metadata(footer, flen, &ar, &md, &err);
    call_rec(st != CARQUET_OK);
    R->nreq = h_alloc_disarm();
    if (st == CARQUET_OK) { R->digest = meta_digest(&md); R->same = R->digest == g_base_digest; }
    carquet_arena_destroy(&ar);
    free(footer);
}

#include "ops_alloc_ext.h"

/* ---- running one case in a child ---------------------------------------------------------- */
static char g_err_path[256];
static int g_leak_check = 1;     /* child: consult LeakSanitizer at the end of this case? */

static void child_body(const scn_params* p, case_res* r) {
    R = r;
    memset(r, 0, sizeof *r);
    r->err = -1; r->same = 2;
    switch (p->scn) {
    case SCN_SCHEMA: scn_schema(p); break;
    case SCN_WRITE: scn_write(p); break;
    case SCN_READ: scn_read(p); break;
    case SCN_BATCH: scn_batch(p); break;
    case SCN_PARSE: scn_parse(p); break;
    case SCN_DICT: scn_dict_cols(p, 0); break;
    case SCN_DSKIP: scn_dict_cols(p, 1); break;
    case SCN_DBATCH: scn_dict_batch(p); break;
    case SCN_DSTATS: scn_dict_stats(p); break;
    case SCN_BLOOM: scn_bloom(p); break;
    case SCN_STATSB: scn_statsb(p); break;
    case SCN_PGIDX: scn_pgidx(p); break;
    case SCN_SCHEMAG: scn_schemag(p); break;
    case SCN_WREP: scn_wrep(p); break;
    default: break;
    }
    r->fired_at = h_alloc_first_fired_at;
    r->npcs = h_alloc_fail_npcs;
    memcpy(r->pcs, h_alloc_fail_pcs, sizeof r->pcs);
    r->leak = g_leak_check ? __lsan_do_recoverable_leak_check() : -1;
    r->done = 1;
}

typedef struct { long at; long npcs; void* pcs[H_ALLOC_MAX_PCS]; } fault_rec;
static fault_rec g_fault;   /* in the parent: the injected failure of the current case (survives a crash of the child) */

static int read_full(int fd, void* buf, size_t n) {
    size_t got = 0;
    while (got < n) {
        ssize_t r = read(fd, (char*)buf + got, n - got);
        if (r <= 0) { if (r < 0 && errno == EINTR) continue; return 0; }
        got += (size_t)r;
    }
    return 1;
}

/* Run list[0..n) in forked children.  One child runs consecutive cases until one of them crashes
 * (the parent then starts a new child at the next case) or a leak is seen (the child reports it and
 * exits, so that LeakSanitizer's verdicts stay attributable).  LeakSanitizer is consulted after every
 * `group` cases; when a group leaks or is cut short by a crash, its cases are run again one by one
 * (group = 1), so every reported leak verdict belongs to exactly one case.
 * Messages child -> parent on one pipe: {1, index, npcs, pcs[]} written by the allocation wrapper the
 * moment a failure is injected, {2, case_res} when a case has finished (leak = -1: not checked yet).
 * cb(h, p, i, crashed, rec) is called for every case, in order. */
typedef void (*case_cb)(hctx* h, const scn_params* p, int idx, int crashed, const case_res* r);
#define MAXGROUP 32

static void run_list(hctx* h, const scn_params* list, int n, case_cb cb, int group) {
    int i = 0;
    if (group < 1) group = 1;
    if (group > MAXGROUP) group = MAXGROUP;
    while (i < n) {
        int fds[2];
        fflush(h->out); fflush(stdout); fflush(stderr);
        if (pipe(fds) != 0) { perror("pipe"); exit(3); }
        pid_t pid = fork();
        if (pid < 0) { perror("fork"); exit(3); }
        if (pid == 0) {
            close(fds[0]);
            int efd = open(g_err_path, O_WRONLY | O_CREAT | (getenv("VERIF_ALLOC_KEEP") ? O_APPEND : O_TRUNC), 0600);
            if (efd >= 0) { dup2(efd, 2); close(efd); }
            h_alloc_report_fd = fds[1];
            for (int j = i; j < n; j++) {
                struct { long tag; case_res r; } msg;
                memset(&msg, 0, sizeof msg);
                msg.tag = 2;
                g_leak_check = ((j - i + 1) % group == 0) || j == n - 1;
                child_body(&list[j], &msg.r);
                ssize_t w = write(fds[1], &msg, sizeof msg);
                (void)w;
                if (msg.r.leak > 0) break;
            }
            _exit(0);
        }
        close(fds[1]);
        memset(&g_fault, 0, sizeof g_fault);
        static case_res pend[MAXGROUP]; static fault_rec pendf[MAXGROUP];
        int npend = 0;            /* cases i+done .. : finished, leak verdict outstanding */
        int j = i;                /* next case whose verdict has not been delivered to cb */
        int redo = 0;
        for (;;) {
            long tag = 0;
            if (!read_full(fds[0], &tag, sizeof tag)) break;
            if (tag == 1) {
                long hd[2];
                if (!read_full(fds[0], hd, sizeof hd)) break;
                if (hd[1] < 0 || hd[1] > H_ALLOC_MAX_PCS) break;
                g_fault.at = hd[0]; g_fault.npcs = hd[1];
                if (!read_full(fds[0], g_fault.pcs, sizeof(void*) * (size_t)hd[1])) break;
            } else if (tag == 2) {
                case_res r;
                /* the struct {long tag; case_res r;} has no padding between its members on this ABI */
                if (!read_full(fds[0], &r, sizeof r)) break;
                if (npend < MAXGROUP) { pend[npend] = r; pendf[npend] = g_fault; npend++; }
                memset(&g_fault, 0, sizeof g_fault);
                if (r.leak == 0) {            /* the whole group is leak-free */
                    for (int q = 0; q < npend; q++) {
                        pend[q].leak = 0; g_fault = pendf[q];
                        if (j < n) cb(h, &list[j], j, 0, &pend[q]);
                        j++;
                    }
                    npend = 0; memset(&g_fault, 0, sizeof g_fault);
                } else if (r.leak > 0) {      /* a leak somewhere in the group */
                    if (npend == 1) { g_fault = pendf[0]; if (j < n) cb(h, &list[j], j, 0, &pend[0]); j++; npend = 0; memset(&g_fault, 0, sizeof g_fault); }
                    else redo = npend;
                    break;
                }
            } else break;
        }
        fault_rec crash_fault = g_fault;
        close(fds[0]);
        int status = 0;
        while (waitpid(pid, &status, 0) < 0 && errno == EINTR) {}
        int clean = WIFEXITED(status) && WEXITSTATUS(status) == 0;
        if (!redo && npend > 0) redo = npend;          /* the child died before the group's leak check */
        if (redo) {
            run_list(h, list + j, redo, cb, 1);        /* NB: cb sees indices relative to the sub-list */
            j += redo;
            /* the case after the pending ones is the one that crashed (if the child did not exit cleanly) */
            if (j < n && !clean) {
                scn_params one = list[j];
                run_list(h, &one, 1, cb, 1);
                j++;
            }
        } else if (j < n && !clean) { g_fault = crash_fault; cb(h, &list[j], j, 1, NULL); j++; }
        else if (j == i && j < n) { g_fault = crash_fault; cb(h, &list[j], j, 1, NULL); j++; }   /* no progress: never loop forever */
        i = j;
    }
}

static case_res g_one; static int g_one_crashed;
static void cb_one(hctx* h, const scn_params* p, int idx, int crashed, const case_res* r) {
    (void)h; (void)p; (void)idx;
    g_one_crashed = crashed;
    if (r) g_one = *r; else memset(&g_one, 0, sizeof g_one);
}
/* one silent case; returns 0 when the child delivered a complete record */
static int run_case(hctx* h, const scn_params* p, case_res* r) {
    run_list(h, p, 1, cb_one, 1);
    *r = g_one;
    return g_one_crashed;
}

/* first carquet frame of the sanitizer report in the child's stderr: func@file:line */
static void crash_site(char* out, size_t cap) {
    snprintf(out, cap, "unknown");
    FILE* f = fopen(g_err_path, "r");
    if (!f) return;
    char line[1024]; char kind[64] = "";
    while (fgets(line, sizeof line, f)) {
        char* e = strstr(line, "ERROR: AddressSanitizer: ");
        if (e && !kind[0]) {
            e += strlen("ERROR: AddressSanitizer: ");
            size_t i = 0; while (e[i] && e[i] != ' ' && e[i] != '\n' && i + 1 < sizeof kind) { kind[i] = e[i]; i++; }
            kind[i] = 0;
        }
        char* in = strstr(line, " in ");
        if (kind[0] && line[0] == ' ' && strstr(line, "#") && in && strstr(line, "/src/")) {
            char fn[128] = "", file[256] = "";
            if (sscanf(in + 4, "%127s %255s", fn, file) == 2) {
                const char* b = strrchr(file, '/');
                snprintf(out, cap, "%s:%s@%s", kind, fn, b ? b + 1 : file);
                break;
            }
        }
    }
    fclose(f);
}

/* name the allocation site of the injected failure: innermost frame outside the allocator helpers */
static void fault_site(char* fn_out, size_t cap, const char** via) {
    snprintf(fn_out, cap, "-"); *via = "-";
    if (!g_fault.at) return;
    *via = "direct";
    for (int i = 0; i < (int)g_fault.npcs; i++) {
        char buf[512] = "";
        __sanitizer_symbolize_pc((char*)g_fault.pcs[i] - 1, "%f %s %l", buf, sizeof buf);
        char fn[160] = "", file[300] = ""; int line = 0;
        if (sscanf(buf, "%159s %299s %d", fn, file, &line) < 1) continue;
        const char* b = strrchr(file, '/'); b = b ? b + 1 : file;
        if (!strcmp(b, "alloc_wrap.c")) continue;
        if (!strcmp(b, "arena.c")) { *via = "arena"; continue; }
        if (!strcmp(b, "buffer.c")) { if (strcmp(*via, "thrift")) *via = "buffer"; continue; }
        if (!strcmp(b, "thrift_encode.c")) { *via = "thrift"; continue; }
        if (!strstr(file, "/src/")) {
            if (!strcmp(b, "ops_alloc.c") || !strcmp(fn, "main")) { snprintf(fn_out, cap, "harness"); return; }
            *via = "extlib"; continue;          /* zstd/zlib internals: keep walking to the carquet caller */
        }
        if (!strcmp(b, "plain.c") || !strcmp(b, "rle.c")) { continue; }   /* encoders appending to a buffer: name their caller */
        snprintf(fn_out, cap, "%s@%s:%d", fn, b, line);
        return;
    }
}

/* the column chunks a read scenario works on, as the page-by-page reader model needs them:
 * per chunk  flags, pages, then per page  rows, non-null values, dictionary-encoded?
 * flags: 1 BYTE_ARRAY, 2 fixed width without levels (PLAIN pages can be views), 4 has a dictionary page (dictionary_page_offset
 * set), 8 has definition levels, 16 dictionary page at data_page_offset (no dictionary_page_offset) */
static void print_chunks(FILE* f, const scn_params* p) {
    if (p->scn == SCN_READ || p->scn == SCN_BATCH) {
        fprintf(f, " ch=");
        int first = 1;
        for (int g = 0; g < p->rg; g++) for (int c = 0; c < NCOLS; c++) {
            int flags = (col_types[c] == CARQUET_PHYSICAL_BYTE_ARRAY ? 1 : 0) |
                        (!col_opt[c] && col_types[c] != CARQUET_PHYSICAL_BYTE_ARRAY && col_types[c] != CARQUET_PHYSICAL_BOOLEAN ? 2 : 0) |
                        (col_opt[c] ? 8 : 0);
            int nbat = p->nb > 1 ? p->nb : 1, np = 0;
            for (int bi = 0; bi < nbat; bi++) if (p->rows * (bi + 1) / nbat > p->rows * bi / nbat) np++;
            fprintf(f, "%s%d,%d", first ? "" : ",", flags, np); first = 0;
            for (int bi = 0; bi < nbat; bi++) {
                int r0 = p->rows * bi / nbat, r1 = p->rows * (bi + 1) / nbat;
                if (r1 > r0) fprintf(f, ",%d,0,0", r1 - r0);
            }
        }
    } else if (p->scn == SCN_WRITE && p->rg <= 4) {
        /* non-null values per write_batch call, in call order (g, column, slice) */
        fprintf(f, " wt=");
        int first = 1;
        for (int g = 0; g < p->rg; g++) {
            table_t t; table_make(&t, p->tseed, p->rows, g);
            const int16_t* defs[NCOLS] = {NULL, t.d1, t.d2, t.d3, NULL, NULL, NULL};
            int nbat = p->nb > 1 ? p->nb : 1;
            for (int c = 0; c < NCOLS; c++) for (int bi = 0; bi < nbat; bi++) {
                int r0 = p->rows * bi / nbat, r1 = p->rows * (bi + 1) / nbat;
                if (r1 == r0) continue;
                int nn = r1 - r0;
                if (defs[c]) { nn = 0; for (int i = r0; i < r1; i++) nn += defs[c][i] == 1; }
                fprintf(f, "%s%d,%d", first ? "" : ",", r1 - r0, nn); first = 0;
            }
            table_free(&t);
        }
    } else if (p->scn == SCN_WREP) {
        int n1 = 0, n2 = 0;
        wrep_counts(p->tseed, p->rows, &n1, &n2);
        fprintf(f, " wt=%d,%d", n1, n2);
    } else if (p->scn == SCN_DICT || p->scn == SCN_DSKIP || p->scn == SCN_DBATCH) {
        fprintf(f, " ch=");
        int first = 1;
        for (int g = 0; g < p->rg; g++) for (int c = 0; c < DCOLS; c++) {
            dchunk k; dchunk_make(&k, p->tseed, p->rows, g, c);
            int flags = (dcols[c].type == CARQUET_PHYSICAL_BYTE_ARRAY ? 1 : 0) |
                        (dcols[c].max_def == 0 && dcols[c].type != CARQUET_PHYSICAL_BYTE_ARRAY ? 2 : 0) | (dcols[c].dict && c != 3 ? 4 : 0) |
                        (dcols[c].max_def > 0 ? 8 : 0) | (dcols[c].dict && c == 3 ? 16 : 0);
            int np = 0;
            for (int pi = 0; pi < p->nb; pi++) { int r0, r1; dpage_rows(p->rows, p->nb, pi, &r0, &r1); if (r1 > r0) np++; }
            fprintf(f, "%s%d,%d", first ? "" : ",", flags, np); first = 0;
            for (int pi = 0; pi < p->nb; pi++) {
                int r0, r1; dpage_rows(p->rows, p->nb, pi, &r0, &r1);
                if (r1 == r0) continue;
                int nn = 0; for (int i = r0; i < r1; i++) nn += k.defs[i] == dcols[c].max_def;
                fprintf(f, ",%d,%d,%d", r1 - r0, nn, dcols[c].dict);
            }
            dchunk_free(&k);
        }
    }
}

static long g_K;
static long st_cases, st_fired, st_err, st_oksame, st_crash, st_badsame, st_leak;

static void cb_print(hctx* h, const scn_params* p, int idx, int crashed, const case_res* rp) {
    (void)idx;
    fprintf(h->out, "alloc_scn scn=%s codec=%d mode=%d rows=%d rg=%d shape=%d nb=%d tseed=%llu cleanup=%d lvl=%d k=%ld",
            scn_names[p->scn], p->codec, p->mode, p->rows, p->rg, p->shape, p->nb, (unsigned long long)p->tseed, p->cleanup, p->lvl, p->k);
    print_chunks(h->out, p);
    char csite[256] = "-", fn[256] = "-"; const char* via = "-";
    fault_site(fn, sizeof fn, &via);
    st_cases++;
    if (crashed) {
        crash_site(csite, sizeof csite);
        fprintf(h->out, " | K=%ld fired=%d calls=- err=-1 same=2 crash=1 leak=0 nreq=0 fn=%s via=%s csite=%s p_nocrash=0\n",
                g_K, g_fault.at != 0, fn, via, csite);
        h->n_lines++; st_crash++; st_fired += g_fault.at != 0;
        return;
    }
    case_res r = *rp;
    long st[MAXCALLS], rq[MAXCALLS]; int nc = r.ncalls < MAXCALLS ? r.ncalls : MAXCALLS;
    for (int i = 0; i < nc; i++) { st[i] = r.st[i]; rq[i] = r.rq[i]; }
    int fired = r.fired_at != 0;
    /* effect = digest of the fault-free run, for the scenarios that are judged that way */
    if (scn_uses_base(p->scn) && r.err < 0 && r.same == 1 && r.digest != g_base_digest) r.same = 0;
    /* an error was reported (and nothing delivered before it was wrong), or the effect is the fault-free one */
    int p_same = r.same == 1 || (r.err >= 0 && r.same == 2);
    fprintf(h->out, " | K=%ld fired=%d calls=", g_K, fired); print_list(h->out, st, nc);
    fprintf(h->out, " rq="); print_list(h->out, rq, nc);
    {
        int any = 0; long ck[MAXCALLS], ca[MAXCALLS], cr[MAXCALLS];
        for (int i = 0; i < nc; i++) { ck[i] = r.kind[i]; ca[i] = r.arg[i]; cr[i] = r.res[i]; any |= r.kind[i] != 0; }
        if (r.naux > 0) { fprintf(h->out, " aux="); print_list(h->out, r.aux, r.naux > 4 ? 4 : r.naux); }
        if (any) { fprintf(h->out, " ck="); print_list(h->out, ck, nc); fprintf(h->out, " ca="); print_list(h->out, ca, nc);
                   fprintf(h->out, " cr="); print_list(h->out, cr, nc); }
    }
    fprintf(h->out, " err=%d same=%d crash=0 leak=%d nreq=%ld fn=%s via=%s csite=- p_nocrash=1 p_noleak=%d p_same_effect=%d\n",
            r.err, r.same, r.leak, r.nreq, fn, via, !r.leak, p_same);
    h->n_lines++;
    st_fired += fired; st_err += r.err >= 0; st_oksame += (r.err < 0 && r.same == 1); st_badsame += !p_same; st_leak += r.leak != 0;
}

/* prepare the input file of the read scenarios (fault-free, in a child: the parent never runs carquet's
 * OpenMP regions) and load it */
static int prepare_input(hctx* h, const scn_params* p) {
    scn_params q = *p; q.scn = SCN_WRITE; q.k = 0; q.cleanup = 0;
    snprintf(g_tmp_path, sizeof g_tmp_path, "%s", g_in_path);
    case_res r;
    int crashed = run_case(h, &q, &r);
    if (crashed || r.err >= 0 || r.same != 1) return 0;
    FILE* f = fopen(g_in_path, "rb");
    if (!f) return 0;
    fseek(f, 0, SEEK_END); long n = ftell(f); fseek(f, 0, SEEK_SET);
    free(g_in_buf);
    g_in_buf = h_alloc((size_t)n); g_in_len = (size_t)n;
    size_t got = fread(g_in_buf, 1, (size_t)n, f);
    fclose(f);
    return got == (size_t)n;
}

/* build the hand-built dictionary file (rows, rg, nb = data pages per chunk, codec), store it as the input of the
 * read scenarios and check that it reads back fault-free to the intended table */
static int prepare_dict_input(hctx* h, const scn_params* p) {
    size_t n = 0;
    uint8_t* file = dfile_build(p->tseed, p->rows, p->rg, p->nb, p->codec, &n);
    if (!file) return 0;
    FILE* f = fopen(g_in_path, "wb");
    if (!f) { free(file); return 0; }
    size_t w = fwrite(file, 1, n, f);
    fclose(f);
    free(g_in_buf);
    g_in_buf = file; g_in_len = n;
    if (w != n) return 0;
    scn_params q = *p; q.scn = SCN_DICT; q.k = 0; q.lvl = 0; q.mode = MODE_BUFFER;
    case_res r;
    int crashed = run_case(h, &q, &r);
    return !crashed && r.err < 0 && r.same == 1;
}

static void flush_stats(hctx* h, const char* tag) {
    fprintf(h->out, "#stat cases_%s %ld\n#stat fired_%s %ld\n#stat err_%s %ld\n#stat oksame_%s %ld\n#stat crash_%s %ld\n#stat badsame_%s %ld\n#stat leak_%s %ld\n",
            tag, st_cases, tag, st_fired, tag, st_err, tag, st_oksame, tag, st_crash, tag, st_badsame, tag, st_leak);
    st_cases = st_fired = st_err = st_oksame = st_crash = st_badsame = st_leak = 0;
}

static void enumerate(hctx* h, scn_params p, long kmax_cap) {
    /* fault-free run: K (and for some scenarios the digest the faulted runs are compared with) */
    case_res base;
    p.k = 0;
    char tag[96];
    snprintf(tag, sizeof tag, "%s_c%d_m%d_l%d%s%s%s", scn_names[p.scn], p.codec, p.mode, p.lvl,
             p.nb > 1 && !scn_is_dict(p.scn) ? "_multipage" : "", p.shape > 0 && p.scn == SCN_WRITE ? "_longnames" : "", p.rows > 500 ? "_bigpage" : "");
    if (p.scn == SCN_BATCH) g_base_digest = batch_table_digest(p.tseed, p.rows, p.rg);
    int crashed = run_case(h, &p, &base);
    g_K = crashed ? 0 : base.nreq;
    if (scn_uses_base(p.scn)) g_base_digest = crashed ? 0 : base.digest;
    long kmax = g_K;
    if (kmax_cap && kmax > kmax_cap) kmax = kmax_cap;
    scn_params* list = (scn_params*)h_alloc(sizeof(scn_params) * (size_t)(kmax + 1));
    for (long k = 0; k <= kmax; k++) { list[k] = p; list[k].k = k; list[k].cleanup = (int)(k & 1); }
    fprintf(h->out, "#stat K_%s %ld\n", tag, g_K);
    run_list(h, list, (int)(kmax + 1), cb_print, h->thorough ? 1 : 16);
    free(list);
    flush_stats(h, tag);
}

/* the same, every k in a process of its own: whatever the library sets up lazily on first use (a per-thread decompression
 * context, tables, dispatch) is set up under the fault - in a child that runs several cases the fault-free case k = 0 has
 * done all of that before the first fault is delivered */
static void enumerate_cold(hctx* h, scn_params p, long kmax_cap) {
    case_res base;
    p.k = 0;
    char tag[96];
    snprintf(tag, sizeof tag, "%s_c%d_m%d_l%d_cold", scn_names[p.scn], p.codec, p.mode, p.lvl);
    if (p.scn == SCN_BATCH) g_base_digest = batch_table_digest(p.tseed, p.rows, p.rg);
    int crashed = run_case(h, &p, &base);
    g_K = crashed ? 0 : base.nreq;
    if (scn_uses_base(p.scn)) g_base_digest = crashed ? 0 : base.digest;
    long kmax = g_K;
    if (kmax_cap && kmax > kmax_cap) kmax = kmax_cap;
    fprintf(h->out, "#stat K_%s %ld\n", tag, g_K);
    for (long k = 1; k <= kmax; k++) { scn_params q = p; q.k = k; q.cleanup = (int)(k & 1); run_list(h, &q, 1, cb_print, 1); }
    flush_stats(h, tag);
}

static void gen_scn(hctx* h) {
    snprintf(g_err_path, sizeof g_err_path, "/tmp/verif_alloc_%d.err", (int)getpid());
    snprintf(g_in_path, sizeof g_in_path, "/tmp/verif_alloc_%d_in.parquet", (int)getpid());
    char outp[256];
    snprintf(outp, sizeof outp, "/tmp/verif_alloc_%d_out.parquet", (int)getpid());
    scn_params p; memset(&p, 0, sizeof p);
    p.tseed = h_next(h) % 1000000;
    p.rows = 9 + (int)h_below(h, 6);
    p.rg = 2;

    /* schema build: > 64 columns (growth of the four arrays), names long enough for a second arena block */
    p.scn = SCN_SCHEMA; p.shape = 900 + (int)h_below(h, 200);
    for (p.lvl = 0; p.lvl < 2; p.lvl++) enumerate(h, p, p.lvl ? 12 : 0);
    p.shape = 0; p.lvl = 0;

    /* write, per codec (quick tier: uncompressed, snappy and one more chosen by the seed) */
    static const int codecs[] = {0, 1, 2, 5, 6};
    int extra = 2 + (int)h_below(h, 3);
    for (int ci = 0; ci < 5; ci++) {
        if (!h->thorough && ci >= 2 && ci != extra) continue;
        p.scn = SCN_WRITE; p.codec = codecs[ci]; p.mode = 0;
        for (p.lvl = 0; p.lvl < 2; p.lvl++) {
            if (p.lvl && ci >= 1 && !h->thorough) continue;     /* arena requests do not depend on the codec */
            snprintf(g_tmp_path, sizeof g_tmp_path, "%s", outp);
            enumerate(h, p, 0);
        }
    }
    p.lvl = 0;
    /* a page larger than the first buffer capacity: the growth reallocs of every buffer are exercised */
    {
        scn_params q = p; q.scn = SCN_WRITE; q.codec = h_chance(h, 1, 2) ? 1 : 0; q.rg = 1; q.rows = 1100 + (int)h_below(h, 300);
        snprintf(g_tmp_path, sizeof g_tmp_path, "%s", outp);
        enumerate(h, q, 0);
    }
    /* several write_batch calls per column per row group with a tiny page size: several pages per chunk, so the
     * page-advance paths of the writer (flush inside write_batch) and of the readers are exercised as well */
    {
        scn_params q = p; q.scn = SCN_WRITE; q.codec = h_chance(h, 1, 2) ? 1 : 0; q.rg = 1; q.nb = 3; q.rows = 12 + (int)h_below(h, 6);
        snprintf(g_tmp_path, sizeof g_tmp_path, "%s", outp);
        enumerate(h, q, 0);
        if (prepare_input(h, &q)) {
            q.mode = (int)h_below(h, 3);
            q.scn = SCN_READ; enumerate(h, q, 0);
            q.scn = SCN_BATCH; enumerate(h, q, 0);
        } else fprintf(h->out, "#stat prepare_failed_multipage 1\n");
    }
    /* many pages per chunk consumed by ONE read_batch: the reader's retired-page list (BYTE_ARRAY pages stay alive
     * until the next call) grows from 4 to 8 entries on the sixth page, a realloc with live entries behind it */
    {
        scn_params q = p; q.codec = h_chance(h, 1, 2) ? 1 : 0; q.rg = 1; q.nb = 8 + (int)h_below(h, 3); q.rows = 4 * q.nb + (int)h_below(h, 9);
        if (prepare_input(h, &q)) {
            q.mode = (int)h_below(h, 3);
            q.scn = SCN_READ; enumerate(h, q, 0);
            if (h->thorough) { q.mode = (q.mode + 1) % 3; enumerate(h, q, 0); q.scn = SCN_BATCH; enumerate(h, q, 0); }
        } else fprintf(h->out, "#stat prepare_failed_manypages 1\n");
    }
    /* long column names and more row groups: the writer's metadata arena really needs further blocks,
     * at a site that depends on the name length */
    {
        scn_params q = p; q.scn = SCN_WRITE; q.codec = 0; q.rg = 4;
        int nshapes = h->thorough ? 10 : 1;
        for (int i = 0; i < nshapes; i++) {
            q.shape = 2100 + (int)h_below(h, 1500);
            snprintf(g_tmp_path, sizeof g_tmp_path, "%s", outp);
            enumerate(h, q, 0);
        }
    }
    /* read side: column reads and batch reads in each I/O mode */
    for (int ci = 0; ci < 5; ci++) {
        if (!h->thorough && ci >= 2) continue;
        p.codec = codecs[ci]; p.shape = 0; p.rg = 2; p.lvl = 0;
        if (!prepare_input(h, &p)) { fprintf(h->out, "#stat prepare_failed 1\n"); continue; }
        for (int mode = 0; mode < 3; mode++) {
            p.mode = mode;
            for (p.lvl = 0; p.lvl < 2; p.lvl++) {
                if (p.lvl && ci >= 1) continue;
                p.scn = SCN_READ; enumerate(h, p, 0);
                p.scn = SCN_BATCH; enumerate(h, p, 0);
            }
        }
    }
    /* first use of a codec in a process under the fault (every codec, one mode each, one process per k) */
    for (int ci = 1; ci < 5; ci++) {
        p.codec = codecs[ci]; p.shape = 0; p.rg = 2; p.lvl = 0; p.mode = (ci + (int)(p.tseed % 3)) % 3;
        if (!prepare_input(h, &p)) { fprintf(h->out, "#stat prepare_failed_cold 1\n"); continue; }
        p.scn = SCN_READ; enumerate_cold(h, p, h->thorough ? 0 : 48);
        if (h->thorough) { p.scn = SCN_BATCH; enumerate_cold(h, p, 0); }
    }
    p.lvl = 0; p.mode = 0;
    /* metadata parse under real arena pressure: sweep the free space of the first block across the
     * footer's allocation sites; only the first request (the new block) is made to fail */
    {
        scn_params q = p; q.codec = 0; q.rg = 2; q.mode = 0; q.shape = 0;
        if (prepare_input(h, &q)) {
            q.scn = SCN_PARSE;
            case_res b; scn_params q0 = q; q0.shape = 60000; q0.k = 0; g_base_digest = 0;   /* plenty of room: no new block */
            if (run_case(h, &q0, &b) == 0 && b.err < 0) {
                g_base_digest = b.digest;
                int step = h->thorough ? 8 : 100, nl = 0;
                scn_params* list = (scn_params*)h_alloc(sizeof(scn_params) * (size_t)(2 * (7000 / step + 2)));
                for (int left = 0; left <= 7000; left += step) {
                    q.shape = left + (int)h_below(h, (uint64_t)step);
                    q.k = 0; list[nl++] = q;
                    q.k = 1; list[nl++] = q;
                }
                g_K = 1;
                fprintf(h->out, "#stat K_parse_c0_m0_l0 1\n");
                run_list(h, list, nl, cb_print, h->thorough ? 1 : 16);
                free(list);
                flush_stats(h, "parse_c0_m0_l0");
            } else fprintf(h->out, "#stat base_failed_parse 1\n");
        }
    }
    /* ---- second wave: sites that carquet's own writer/reader pair does not reach ---- */
    /* hand-built file: dictionary pages, nested group, several pages per chunk, CRCs, the footer fields carquet never writes */
    {
        scn_params q; memset(&q, 0, sizeof q);
        q.tseed = p.tseed; q.rg = 2;
        int flip = (int)h_below(h, 2);
        for (int ci = 0; ci < 2; ci++) {
            q.codec = ci; q.nb = 2 + (int)h_below(h, 2); q.rows = 10 + (int)h_below(h, 9); q.lvl = 0;
            if (!prepare_dict_input(h, &q)) { fprintf(h->out, "#stat prepare_failed_dict_c%d 1\n", ci); continue; }
            for (int mode = 0; mode < 3; mode++) {
                q.mode = mode; q.lvl = 0;
                if (!h->thorough && ((mode + flip) & 1) != ci && mode != 2 - 2 * ci) continue;   /* quick: two modes per codec */
                q.scn = SCN_DICT; enumerate(h, q, 0);
                q.scn = SCN_DSKIP; enumerate(h, q, 0);
                q.scn = SCN_DBATCH; enumerate(h, q, 0);
                if (h->thorough || mode == 2 - 2 * ci) {
                    q.scn = SCN_DSTATS; enumerate(h, q, 0);
                    q.lvl = 1; enumerate(h, q, 0);                /* every arena request of the footer parse */
                    if (h->thorough) { q.scn = SCN_DICT; enumerate(h, q, 0); q.scn = SCN_DBATCH; enumerate(h, q, 0); }
                    q.lvl = 0;
                }
            }
        }
    }
    /* metadata builders that have no file behind them */
    {
        scn_params q; memset(&q, 0, sizeof q);
        q.tseed = p.tseed; q.rg = 1;
        q.scn = SCN_BLOOM; q.rows = 20 + (int)h_below(h, 30);
        for (q.mode = 0; q.mode < 2; q.mode++) { q.shape = (int)h_below(h, 40); enumerate(h, q, 0); }
        q.mode = 0;
        q.scn = SCN_STATSB; q.rows = 5 + (int)h_below(h, 20);
        static const int lefts[] = {0, 3, 8, 12, 17, 24, 40, 5000};
        for (int i = 0; i < 8; i++) { q.shape = lefts[i]; q.lvl = 0; enumerate(h, q, 0); if (i == 7) { q.lvl = 1; enumerate(h, q, 0); } }
        q.lvl = 0; q.shape = 0;
        q.scn = SCN_PGIDX; q.rows = 34 + (int)h_below(h, 12);
        for (q.mode = 0; q.mode < 2; q.mode++) enumerate(h, q, 0);
        q.mode = 0;
        q.scn = SCN_SCHEMAG; q.rows = (int)h_below(h, 10); q.shape = 900 + (int)h_below(h, 200);
        for (q.lvl = 0; q.lvl < 2; q.lvl++) enumerate(h, q, q.lvl ? 12 : 0);
        q.lvl = 0; q.shape = 0;
    }
    /* write side: REPEATED column (repetition-level appends), groups in the schema */
    {
        scn_params q; memset(&q, 0, sizeof q);
        q.tseed = p.tseed; q.scn = SCN_WREP; q.rg = 2; q.rows = 9 + (int)h_below(h, 8);
        for (int ci = 0; ci < 2; ci++) {
            q.codec = ci; q.nb = ci ? 3 : 1; q.lvl = 0;
            snprintf(g_tmp_path, sizeof g_tmp_path, "%s", outp);
            enumerate(h, q, 0);
            if (ci == 0) { q.lvl = 1; enumerate(h, q, 0); }
        }
    }
    unlink(g_err_path); unlink(g_in_path); unlink(outp);
    free(g_in_buf); g_in_buf = NULL;
}

/* ------------------------------------------------------------------------------------------ */
/* component: generate / replay                                                                */
/* ------------------------------------------------------------------------------------------ */

/* One kind of component-level ops runs in a forked child: a crash leaves the unfinished line and ends
 * that kind only, LeakSanitizer's verdict at the end of the child covers exactly that kind, and the
 * parent's heap (which the scenario children inherit) never holds blocks leaked by the library. */
static void run_kind(hctx* h, const char* kind, void (*fn)(hctx*)) {
    (void)h_next(h);                       /* the kinds draw from different streams */
    fflush(h->out); fflush(stdout); fflush(stderr);
    pid_t pid = fork();
    if (pid < 0) { perror("fork"); exit(3); }
    if (pid == 0) {
        fn(h);
        int leak = __lsan_do_recoverable_leak_check();
        fprintf(h->out, "alloc_leakcheck kind=%s | leak=%d p_noleak=%d\n", kind, leak, !leak);
        fflush(h->out);
        _exit(0);
    }
    int status = 0;
    while (waitpid(pid, &status, 0) < 0 && errno == EINTR) {}
    if (!(WIFEXITED(status) && WEXITSTATUS(status) == 0)) {
        /* the child died inside the library: its last line has no result part; terminate it */
        fseek(h->out, 0, SEEK_END);
        fprintf(h->out, "\n#stat component_crash_%s 1\n", kind);
    } else fseek(h->out, 0, SEEK_END);
}

static void gen_alloc(hctx* h) {
    run_kind(h, "buf", gen_buf);
    run_kind(h, "arena", gen_arena);
    run_kind(h, "schema", gen_schema);
    run_kind(h, "thrift", gen_thrift);
    run_kind(h, "pw", gen_pw);
    gen_scn(h);
}

static int scn_of(const char* s) { for (int i = 0; i < SCN_COUNT; i++) if (!strcmp(s, scn_names[i])) return i; return -1; }

static int replay_alloc(hctx* h, const h_line* l) {
    size_t n, nf;
    if (!strcmp(l->op, "alloc_buf")) {
        int64_t* o = h_list(h_in(l, "ops"), &n); int64_t* f = h_list(h_in(l, "fail"), &nf);
        long* ol = to_longs(o, n); long* fl = to_longs(f, nf);
        run_buf(h, (long)h_ll(h_in(l, "wrap")), ol, (int)(n / 2), fl, (int)nf);
        free(o); free(f); free(ol); free(fl); return 1;
    }
    if (!strcmp(l->op, "alloc_arena")) {
        int64_t* o = h_list(h_in(l, "ops"), &n); int64_t* f = h_list(h_in(l, "fail"), &nf);
        long* ol = to_longs(o, n); long* fl = to_longs(f, nf);
        run_arena(h, (long)h_ll(h_in(l, "bs")), ol, (int)(n / 3), fl, (int)nf);
        free(o); free(f); free(ol); free(fl); return 1;
    }
    if (!strcmp(l->op, "alloc_schema")) {
        size_t nr;
        int64_t* a = h_list(h_in(l, "names"), &n); int64_t* r = h_list(h_in(l, "reps"), &nr); int64_t* f = h_list(h_in(l, "fail"), &nf);
        long* al = to_longs(a, n); long* rl = to_longs(r, nr); long* fl = to_longs(f, nf);
        run_schema(h, al, rl, (int)(n < nr ? n : nr), fl, (int)nf);
        free(a); free(r); free(f); free(al); free(rl); free(fl); return 1;
    }
    if (!strcmp(l->op, "alloc_thrift")) {
        int64_t* o = h_list(h_in(l, "ops"), &n); int64_t* f = h_list(h_in(l, "fail"), &nf);
        long* ol = to_longs(o, n); long* fl = to_longs(f, nf);
        run_thrift(h, ol, (int)(n / 2), fl, (int)nf);
        free(o); free(f); free(ol); free(fl); return 1;
    }
    if (!strcmp(l->op, "alloc_pw")) {
        int64_t* f = h_list(h_in(l, "fail"), &nf); long* fl = to_longs(f, nf);
        run_pw(h, (long)h_ll(h_in(l, "n")), (int)h_ll(h_in(l, "nullable")), (int)h_ll(h_in(l, "first")),
               (int)h_ll(h_in(l, "codec")), fl, (int)nf);
        free(f); free(fl); return 1;
    }
    if (!strcmp(l->op, "alloc_leakcheck")) {
        /* the verdict covers a whole kind of generated ops: re-run that kind (same seed) to reproduce it */
        fprintf(h->out, "#stat leakcheck_not_replayable_alone 1\n");
        return 1;
    }
    if (!strcmp(l->op, "alloc_scn")) {
        scn_params p; memset(&p, 0, sizeof p);
        p.scn = scn_of(h_in(l, "scn") ? h_in(l, "scn") : "");
        if (p.scn < 0) return 0;
        p.codec = (int)h_ll(h_in(l, "codec")); p.mode = (int)h_ll(h_in(l, "mode")); p.rows = (int)h_ll(h_in(l, "rows"));
        p.rg = (int)h_ll(h_in(l, "rg")); p.shape = (int)h_ll(h_in(l, "shape")); p.cleanup = (int)h_ll(h_in(l, "cleanup"));
        p.tseed = (uint64_t)h_ll(h_in(l, "tseed")); p.k = (long)h_ll(h_in(l, "k")); p.lvl = (int)h_ll(h_in(l, "lvl")); p.nb = (int)h_ll(h_in(l, "nb"));
        if (p.rg < 1 || p.rg > 4 || p.rows < 1 || p.rows > 4000) return 0;
        snprintf(g_err_path, sizeof g_err_path, "/tmp/verif_alloc_%d.err", (int)getpid());
        snprintf(g_in_path, sizeof g_in_path, "/tmp/verif_alloc_%d_in.parquet", (int)getpid());
        char outp[256]; snprintf(outp, sizeof outp, "/tmp/verif_alloc_%d_out.parquet", (int)getpid());
        snprintf(g_tmp_path, sizeof g_tmp_path, "%s", outp);
        long K = 0;
        if (scn_is_dict(p.scn)) {
            if (p.nb < 1 || p.nb > 8 || p.codec < 0 || p.codec > 1) return 0;
            if (!prepare_dict_input(h, &p)) { fprintf(stderr, "replay: cannot prepare the hand-built input file\n"); return 0; }
        }
        if (p.scn == SCN_READ || p.scn == SCN_BATCH || p.scn == SCN_PARSE) {
            scn_params q = p; if (p.scn == SCN_PARSE) q.shape = 0;
            if (!prepare_input(h, &q)) { fprintf(stderr, "replay: cannot prepare the input file\n"); return 0; }
            snprintf(g_tmp_path, sizeof g_tmp_path, "%s", outp);
        }
        if (p.scn == SCN_BATCH) g_base_digest = batch_table_digest(p.tseed, p.rows, p.rg);
        if (p.scn == SCN_PARSE) {
            case_res b; scn_params q = p; q.shape = 60000; q.k = 0; g_base_digest = 0;
            if (run_case(h, &q, &b) == 0) g_base_digest = b.digest;
        }
        { case_res b; scn_params q = p; q.k = 0; if (run_case(h, &q, &b) == 0) { K = b.nreq; if (scn_uses_base(p.scn)) g_base_digest = b.digest; } }
        g_K = K;
        run_list(h, &p, 1, cb_print, 1);
        if (!getenv("VERIF_ALLOC_KEEP")) unlink(g_err_path);
        unlink(g_in_path); unlink(outp);
        free(g_in_buf); g_in_buf = NULL;
        return 1;
    }
    return 0;
}

const h_component comp_alloc = { "alloc", gen_alloc, replay_alloc };

/* The arena and buffer streams alone: every property whose code keeps parsed metadata or page bytes in an arena / growable
 * buffer (C04, C08, C13, C17) depends on allocations staying inside their block and apart from one another; this light
 * component gives their checks the exact arena / buffer tie without the fault scenarios of C19. */
static void gen_arena_only(hctx* h) { run_kind(h, "arena", gen_arena); run_kind(h, "buf", gen_buf); }
const h_component comp_arena = { "arena", gen_arena_only, replay_alloc };
