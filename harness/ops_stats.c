/* C16: statistics builder, page-writer running statistics, statistics helpers, column-index page
 * filter and the reader's row-group pruning API, all called on the real code with exact-size
 * buffers.  C-side ground truth (p_* predicates) uses the host's native comparisons only.
 *
 * Line formats (values are x<hex>; `~` = absent; rows are '.'-separated values, `_` = null,
 * `-` = empty list):
 *  fcmp w=32|64 a=<bits> b=<bits>                 | lt gt eq na nb          native < > == isnan
 *  sb   t tl ops=<tok,tok..>                      | st=<list> hmin min emin hmax max emax hnc nc p_bounds
 *         tok: N<count> | V<n>:<flat hex> | B<v>.<v>..   (B- = zero values)
 *  pw   t maxdef batches=<n>:<dense hex>:<defs>;..| st=<list> has min max sz nc p_bounds      defs: n | digits
 *  scmp t smin smax v data                        | st r p_sound
 *  sovl t smin smax qmin qmax data                | st ov p_sound
 *  pmm  t pages=<nc>:<min>:<max>:<isnull>;.. idx qmin qmax data | st mm p_sound
 *  rgm  t tl groups=<rows>@<stats>;.. op probe maxidx col
 *                                                 | cst hm mn mx hn nc nv st mm ost omm fr fi p_sound p_filter
 *         stats: N | S<min>:<max>:<min_deprecated>:<max_deprecated>:<null_count>
 * Risky calls (those that crash the unrepaired code) run in a forked child; a crash is reported
 * as `| crashed=1 p_nocrash=0` and the generator goes on.
 */
#include "common.h"
#include <carquet/carquet.h>
#include <carquet/error.h>
#include "thrift/parquet_types.h"
#include "core/arena.h"
#include "core/buffer.h"
#include <math.h>
#include <unistd.h>
#include <sys/wait.h>

/* ---- internal entry points (not declared in any header) ---- */
typedef struct carquet_statistics_builder carquet_statistics_builder_t;
carquet_statistics_builder_t* carquet_statistics_builder_create(carquet_physical_type_t type, int32_t type_length);
void carquet_statistics_builder_destroy(carquet_statistics_builder_t* b);
void carquet_statistics_add_nulls(carquet_statistics_builder_t* b, int64_t count);
carquet_status_t carquet_statistics_add_values(carquet_statistics_builder_t* b, const void* values, int64_t n);
carquet_status_t carquet_statistics_add_byte_arrays(carquet_statistics_builder_t* b, const carquet_byte_array_t* v, int64_t n);
carquet_status_t carquet_statistics_build(const carquet_statistics_builder_t* b, carquet_arena_t* arena, parquet_statistics_t* stats);
carquet_status_t carquet_statistics_compare(const parquet_statistics_t* stats, carquet_physical_type_t type,
                                            const void* value, size_t value_len, int* result);
carquet_status_t carquet_statistics_range_overlaps(const parquet_statistics_t* stats, carquet_physical_type_t type,
                                                   const void* min_value, const void* max_value, size_t value_len, bool* overlaps);
typedef struct carquet_page_writer carquet_page_writer_t;
carquet_page_writer_t* carquet_page_writer_create(carquet_physical_type_t type, carquet_encoding_t encoding,
                                                  carquet_compression_t compression, int16_t max_def, int16_t max_rep, int32_t type_length);
void carquet_page_writer_destroy(carquet_page_writer_t* w);
carquet_status_t carquet_page_writer_add_values(carquet_page_writer_t* w, const void* values, int64_t n,
                                                const int16_t* def_levels, const int16_t* rep_levels);
void carquet_page_writer_set_statistics(carquet_page_writer_t* w, bool enabled);
bool carquet_page_writer_get_statistics(const carquet_page_writer_t* w, const uint8_t** mn, const uint8_t** mx,
                                        size_t* size, int64_t* null_count);
typedef struct carquet_column_index_builder carquet_column_index_builder_t;
carquet_column_index_builder_t* carquet_column_index_builder_create(carquet_physical_type_t type, int32_t type_length);
void carquet_column_index_builder_destroy(carquet_column_index_builder_t* b);
carquet_status_t carquet_column_index_add_page(carquet_column_index_builder_t* b, int64_t null_count, const void* mn,
                                               int32_t mn_len, const void* mx, int32_t mx_len, bool is_null_page);
carquet_status_t carquet_column_index_page_might_match(const carquet_column_index_builder_t* b, int32_t page_idx,
                                                       const void* mn, const void* mx, int32_t value_len, bool* might_match);

/* distribution counters, printed as #stat lines */
static long n_sb_refused, n_sb_ok, n_sb_nomin, n_pw_has, n_pw_none, n_scmp[3], n_ovl[2], n_pmm[2], n_pmm_err,
            n_rg_mm[2], n_rg_err, n_rg_absent, n_filter_capped, n_filter_neg, n_crashed;

enum { T_BOOL = 0, T_I32 = 1, T_I64 = 2, T_I96 = 3, T_F32 = 4, T_F64 = 5, T_BA = 6, T_FLBA = 7 };

/* ---- values ---- */
typedef struct { uint8_t* p; int len; int null; } val_t;     /* p: exact-size heap buffer */

static val_t v_make(const void* src, int len) {
    val_t v; v.len = len; v.null = 0; v.p = h_alloc((size_t)len); if (len) memcpy(v.p, src, (size_t)len); return v;
}
static val_t v_null(void) { val_t v; v.p = NULL; v.len = 0; v.null = 1; return v; }
static val_t v_dup(val_t a) { return a.null ? v_null() : v_make(a.p, a.len); }
static void v_free(val_t* v) { free(v->p); v->p = NULL; }
static void v_print(FILE* f, val_t v) { if (v.null) fputc('_', f); else h_hex(f, v.p, (size_t)v.len); }
static void vs_print(FILE* f, const val_t* v, int n) {
    if (n == 0) { fputc('-', f); return; }
    for (int i = 0; i < n; i++) { if (i) fputc('.', f); v_print(f, v[i]); }
}
static void opt_print(FILE* f, const val_t* v) { if (!v || v->null) fputc('~', f); else h_hex(f, v->p, (size_t)v->len); }

static int type_width(int t, int tl) {
    switch (t) { case T_BOOL: return 1; case T_I32: return 4; case T_I64: return 8; case T_I96: return 12;
                 case T_F32: return 4; case T_F64: return 8; case T_FLBA: return tl; default: return -1; }
}

/* ---- ground truth comparison with the host's own operators ---- */
static int is_nan_v(int t, val_t a) {
    if (t == T_F32 && a.len >= 4) { float x; memcpy(&x, a.p, 4); return isnan(x); }
    if (t == T_F64 && a.len >= 8) { double x; memcpy(&x, a.p, 8); return isnan(x); }
    return 0;
}
/* three-way comparison of two non-NaN values */
static int key_cmp(int t, val_t a, val_t b) {
    switch (t) {
    case T_BOOL: { uint8_t x = a.p[0], y = b.p[0]; return (x > y) - (x < y); }
    case T_I32: { int32_t x, y; memcpy(&x, a.p, 4); memcpy(&y, b.p, 4); return (x > y) - (x < y); }
    case T_I64: { int64_t x, y; memcpy(&x, a.p, 8); memcpy(&y, b.p, 8); return (x > y) - (x < y); }
    case T_I96: { unsigned __int128 x = 0, y = 0;
                  for (int i = 11; i >= 0; i--) { x = (x << 8) | a.p[i]; y = (y << 8) | b.p[i]; }
                  return (x > y) - (x < y); }
    case T_F32: { float x, y; memcpy(&x, a.p, 4); memcpy(&y, b.p, 4); return (x > y) - (x < y); }
    case T_F64: { double x, y; memcpy(&x, a.p, 8); memcpy(&y, b.p, 8); return (x > y) - (x < y); }
    default: {
        int n = a.len < b.len ? a.len : b.len;
        for (int i = 0; i < n; i++) if (a.p[i] != b.p[i]) return a.p[i] < b.p[i] ? -1 : 1;
        return (a.len > b.len) - (a.len < b.len); }
    }
}
/* statistics order: NaN above everything, all NaNs equal */
static int tot_cmp(int t, val_t a, val_t b) {
    int na = is_nan_v(t, a), nb = is_nan_v(t, b);
    if (na) return nb ? 0 : 1;
    if (nb) return -1;
    return key_cmp(t, a, b);
}
/* value op probe, op in carquet_compare_op_t numbering */
static int sat_v(int t, int op, val_t v, val_t probe) {
    if (v.null) return 0;
    if (is_nan_v(t, v) || is_nan_v(t, probe)) return op == 1;
    int c = key_cmp(t, v, probe);
    switch (op) { case 0: return c == 0; case 1: return c != 0; case 2: return c < 0; case 3: return c <= 0;
                  case 4: return c > 0; default: return c >= 0; }
}
static int in_range(int t, const val_t* lo, const val_t* hi, val_t v) {
    if (v.null) return 0;
    if (lo && !lo->null && !sat_v(t, 5, v, *lo)) return 0;
    if (hi && !hi->null && !sat_v(t, 3, v, *hi)) return 0;
    return 1;
}
/* are the present bounds true of the rows (statistics order) */
static int true_bounds(int t, const val_t* lo, const val_t* hi, const val_t* rows, int n) {
    for (int i = 0; i < n; i++) {
        if (rows[i].null) continue;
        if (lo && !lo->null && tot_cmp(t, *lo, rows[i]) > 0) return 0;
        if (hi && !hi->null && tot_cmp(t, rows[i], *hi) > 0) return 0;
    }
    return 1;
}

/* ---- value pools: small, so that equal values and boundary cases are frequent ---- */
static const uint32_t F32_POOL[] = { 0x00000000u, 0x80000000u, 0x00000001u, 0x80000001u, 0x007fffffu, 0x00800000u,
    0x3f800000u, 0xbf800000u, 0x40a00000u, 0xc0400000u, 0x40000000u, 0x7f7fffffu, 0xff7fffffu, 0x7f800000u,
    0xff800000u, 0x7fc00000u, 0xffc00000u, 0x7f800001u, 0x7fffffffu, 0x43800000u };
static const uint64_t F64_POOL[] = { 0x0ull, 0x8000000000000000ull, 0x1ull, 0x8000000000000001ull,
    0x000fffffffffffffull, 0x0010000000000000ull, 0x3ff0000000000000ull, 0xbff0000000000000ull,
    0x4014000000000000ull, 0xc008000000000000ull, 0x4000000000000000ull, 0x7fefffffffffffffull,
    0xffefffffffffffffull, 0x7ff0000000000000ull, 0xfff0000000000000ull, 0x7ff8000000000000ull,
    0xfff8000000000000ull, 0x7ff0000000000001ull, 0x7fffffffffffffffull, 0x4070000000000000ull };
static const int32_t I32_POOL[] = { INT32_MIN, INT32_MIN + 1, -65536, -1000, -256, -255, -2, -1, 0, 1, 2, 255, 256, 257,
    1000, 65536, INT32_MAX - 1, INT32_MAX };
static const int64_t I64_POOL[] = { INT64_MIN, INT64_MIN + 1, -4294967296ll, -4294967295ll, -1000, -256, -1, 0, 1, 255,
    256, 1000, 4294967295ll, 4294967296ll, INT64_MAX - 1, INT64_MAX };
static const uint32_t W_POOL[] = { 0u, 1u, 2u, 0x7fffffffu, 0x80000000u, 0xffffffffu, 0x00000100u };
static const uint8_t B_ALPHA[] = { 0x00, 0x61, 0x61, 0x61, 0x62, 0x7f, 0x80, 0xff };
#define NEL(a) ((int)(sizeof(a) / sizeof((a)[0])))

static val_t gen_bytes(hctx* h, int len) {
    uint8_t* b = h_alloc((size_t)len);
    int style = (int)h_below(h, 4);
    uint8_t base = B_ALPHA[h_below(h, NEL(B_ALPHA))];
    for (int i = 0; i < len; i++)
        b[i] = style == 0 ? B_ALPHA[h_below(h, NEL(B_ALPHA))] : style == 1 ? base : style == 2 ? 0x61 : (uint8_t)h_next(h);
    if (style == 2 && len > 0 && h_chance(h, 1, 2)) b[h_below(h, (uint64_t)len)] = B_ALPHA[h_below(h, NEL(B_ALPHA))];
    val_t v; v.p = b; v.len = len; v.null = 0; return v;
}
static val_t gen_val(hctx* h, int t, int tl, int file_safe) {
    int rnd = h_chance(h, 1, 8);
    switch (t) {
    case T_BOOL: { uint8_t b = (uint8_t)h_below(h, 2); if (!file_safe && h_chance(h, 1, 6)) b = (uint8_t)h_next(h); return v_make(&b, 1); }
    case T_I32: { int32_t x = rnd ? (int32_t)h_next(h) : I32_POOL[h_below(h, NEL(I32_POOL))]; return v_make(&x, 4); }
    case T_I64: { int64_t x = rnd ? (int64_t)h_next(h) : I64_POOL[h_below(h, NEL(I64_POOL))]; return v_make(&x, 8); }
    case T_I96: { uint32_t w[3]; for (int i = 0; i < 3; i++) w[i] = rnd ? (uint32_t)h_next(h) : W_POOL[h_below(h, NEL(W_POOL))];
                  return v_make(w, 12); }
    case T_F32: { uint32_t x = rnd ? (uint32_t)h_next(h) : F32_POOL[h_below(h, NEL(F32_POOL))]; return v_make(&x, 4); }
    case T_F64: { uint64_t x = rnd ? h_next(h) : F64_POOL[h_below(h, NEL(F64_POOL))]; return v_make(&x, 8); }
    case T_FLBA: return gen_bytes(h, tl);
    default: {
        static const int LENS[] = { 0, 0, 1, 1, 2, 3, 3, 5, 8, 255, 256, 257, 300 };
        int len = LENS[h_below(h, file_safe ? 9 : NEL(LENS))];
        return gen_bytes(h, len); }
    }
}
/* a value not above / not below v in the statistics order, drawn from the pool */
static val_t gen_looser(hctx* h, int t, int tl, val_t v, int want_low) {
    for (int k = 0; k < 12; k++) {
        val_t c = gen_val(h, t, tl, 1);
        int cmp = tot_cmp(t, c, v);
        if ((want_low && cmp <= 0) || (!want_low && cmp >= 0)) return c;
        v_free(&c);
    }
    return v_dup(v);
}
static void stats_minmax(int t, const val_t* rows, int n, int* imin, int* imax) {
    *imin = *imax = -1;
    for (int i = 0; i < n; i++) {
        if (rows[i].null) continue;
        if (*imin < 0 || tot_cmp(t, rows[i], rows[*imin]) < 0) *imin = i;
        if (*imax < 0 || tot_cmp(t, rows[i], rows[*imax]) > 0) *imax = i;
    }
}

/* ---- run a call in a child; returns 1 if the child finished normally ---- */
typedef void (*risky_fn)(hctx* h, void* arg);
static int run_forked(hctx* h, risky_fn fn, void* arg) {
    fflush(h->out); fflush(stdout); fflush(stderr);
    pid_t pid = fork();
    if (pid < 0) { fn(h, arg); return 1; }
    if (pid == 0) { fn(h, arg); fflush(h->out); _exit(0); }
    int status = 0; waitpid(pid, &status, 0);
    if (WIFEXITED(status) && WEXITSTATUS(status) == 0) { fseek(h->out, 0, SEEK_END); return 1; }
    fseek(h->out, 0, SEEK_END);
    fprintf(h->out, " | crashed=1 p_nocrash=0\n"); n_crashed++;
    return 0;
}

/* ======================= fcmp ======================= */
static void do_fcmp(hctx* h, int w, uint64_t a, uint64_t b) {
    fprintf(h->out, "fcmp w=%d a=%llu b=%llu", w, (unsigned long long)a, (unsigned long long)b); h_call(h);
    int lt, gt, eq, na, nb;
    if (w == 32) { uint32_t ua = (uint32_t)a, ub = (uint32_t)b; float x, y; memcpy(&x, &ua, 4); memcpy(&y, &ub, 4);
                   lt = x < y; gt = x > y; eq = x == y; na = isnan(x) != 0; nb = isnan(y) != 0; }
    else { double x, y; memcpy(&x, &a, 8); memcpy(&y, &b, 8);
           lt = x < y; gt = x > y; eq = x == y; na = isnan(x) != 0; nb = isnan(y) != 0; }
    fprintf(h->out, " | lt=%d gt=%d eq=%d na=%d nb=%d\n", lt, gt, eq, na, nb);
    h->n_lines++;
}

/* ======================= statistics builder ======================= */
typedef struct { int kind; long long n; val_t* vals; int nvals; uint8_t* flat; int flat_len; } sb_op;   /* kind 'N','V','B' */
typedef struct { int t, tl; sb_op* ops; int nops; } sb_case;

static void sb_print_in(hctx* h, const sb_case* c) {
    fprintf(h->out, "sb t=%d tl=%d ops=", c->t, c->tl);
    if (c->nops == 0) fputc('-', h->out);
    for (int i = 0; i < c->nops; i++) {
        const sb_op* o = &c->ops[i];
        if (i) fputc(',', h->out);
        if (o->kind == 'N') fprintf(h->out, "N%lld", o->n);
        else if (o->kind == 'V') { fprintf(h->out, "V%lld:", o->n); h_hex(h->out, o->flat, (size_t)o->flat_len); }
        else { fputc('B', h->out); vs_print(h->out, o->vals, o->nvals); }
    }
}
static void sb_exec(hctx* h, void* arg) {
    const sb_case* c = (const sb_case*)arg;
    carquet_statistics_builder_t* b = carquet_statistics_builder_create((carquet_physical_type_t)c->t, c->tl);
    int vs = type_width(c->t, c->tl);
    /* rows contributed by the calls that returned OK */
    int cap = 1; for (int i = 0; i < c->nops; i++) cap += c->ops[i].nvals + (c->ops[i].n > 0 ? (int)c->ops[i].n : 0);
    val_t* rows = (val_t*)h_alloc(sizeof(val_t) * (size_t)cap); int nrows = 0; long long nulls = 0;
    int* sts = (int*)h_alloc(sizeof(int) * (size_t)(c->nops + 1));
    for (int i = 0; i < c->nops; i++) {
        const sb_op* o = &c->ops[i];
        if (o->kind == 'N') { carquet_statistics_add_nulls(b, o->n); sts[i] = 0; nulls += o->n; }
        else if (o->kind == 'V') {
            sts[i] = (int)carquet_statistics_add_values(b, o->flat, o->n);
            if (sts[i] == 0) for (long long k = 0; k < o->n; k++) { val_t r; r.p = o->flat + k * vs; r.len = vs; r.null = 0; rows[nrows++] = r; }
        } else {
            carquet_byte_array_t* arr = (carquet_byte_array_t*)h_alloc(sizeof(carquet_byte_array_t) * (size_t)(o->nvals ? o->nvals : 1));
            /* an empty value is a legal non-null value whatever its data pointer: every other one is handed over as { NULL, 0 } */
            for (int k = 0; k < o->nvals; k++) { arr[k].data = (o->vals[k].len == 0 && ((k + o->nvals) & 1)) ? NULL : o->vals[k].p; arr[k].length = o->vals[k].len; }
            sts[i] = (int)carquet_statistics_add_byte_arrays(b, arr, o->nvals);
            if (sts[i] == 0) for (int k = 0; k < o->nvals; k++) rows[nrows++] = o->vals[k];
            free(arr);
        }
    }
    parquet_statistics_t st;
    carquet_status_t bs = carquet_statistics_build(b, NULL, &st);
    val_t mn = v_null(), mx = v_null();
    if (st.min_value) { mn.p = st.min_value; mn.len = st.min_value_len; mn.null = 0; }
    if (st.max_value) { mx.p = st.max_value; mx.len = st.max_value_len; mx.null = 0; }
    /* touch every byte the library handed back */
    volatile unsigned acc = 0;
    for (int i = 0; i < mn.len; i++) acc += mn.p[i];
    for (int i = 0; i < mx.len; i++) acc += mx.p[i];
    int ok = (bs == CARQUET_OK) && true_bounds(c->t, &mn, &mx, rows, nrows) &&
             (!st.has_null_count || st.null_count == nulls);
    fprintf(h->out, " | st=");
    if (c->nops == 0) fputc('-', h->out);
    for (int i = 0; i < c->nops; i++) { fprintf(h->out, "%s%d", i ? "," : "", sts[i]); if (sts[i]) n_sb_refused++; else n_sb_ok++; }
    if (mn.null) n_sb_nomin++;
    fprintf(h->out, " hmin=%d min=", !mn.null); h_hex(h->out, mn.p, (size_t)mn.len);
    fprintf(h->out, " emin=%d hmax=%d max=", st.has_is_min_value_exact && st.is_min_value_exact, !mx.null);
    h_hex(h->out, mx.p, (size_t)mx.len);
    fprintf(h->out, " emax=%d hnc=%d nc=%lld p_bounds=%d\n", st.has_is_max_value_exact && st.is_max_value_exact,
            st.has_null_count, (long long)st.null_count, ok);
    free(st.min_value); free(st.max_value); free(rows); free(sts);
    carquet_statistics_builder_destroy(b);
}
static void sb_free(sb_case* c) {
    for (int i = 0; i < c->nops; i++) {
        for (int k = 0; k < c->ops[i].nvals; k++) v_free(&c->ops[i].vals[k]);
        free(c->ops[i].vals); free(c->ops[i].flat);
    }
    free(c->ops);
}
static void do_sb(hctx* h, sb_case* c, int risky) {
    sb_print_in(h, c); h_call(h);
    if (risky) run_forked(h, sb_exec, c); else sb_exec(h, c);
    h->n_lines++;
}
/* V op from a list of values (flat exact-size buffer) */
static sb_op sb_mk_values(int vs, val_t* vals, int n, long long n_arg) {
    sb_op o; memset(&o, 0, sizeof o); o.kind = 'V'; o.n = n_arg;
    o.flat_len = vs * n; o.flat = h_alloc((size_t)o.flat_len);
    for (int i = 0; i < n; i++) { memcpy(o.flat + (size_t)i * vs, vals[i].p, (size_t)vs); v_free(&vals[i]); }
    return o;
}
static void gen_sb_random(hctx* h, int t, int tl, int risky) {
    sb_case c; c.t = t; c.tl = tl; c.nops = 1 + (int)h_below(h, 4);
    c.ops = (sb_op*)h_alloc(sizeof(sb_op) * (size_t)c.nops);
    int vs = type_width(t, tl);
    for (int i = 0; i < c.nops; i++) {
        sb_op* o = &c.ops[i]; memset(o, 0, sizeof *o);
        int k = (int)h_below(h, 10);
        if (k == 0) { o->kind = 'N'; o->n = (long long)h_below(h, 4); }
        else if (t == T_BA ? k <= 7 : k == 9) {      /* byte array API (on the wrong type it must be refused) */
            o->kind = 'B'; o->nvals = (int)h_below(h, 6);
            o->vals = (val_t*)h_alloc(sizeof(val_t) * (size_t)(o->nvals ? o->nvals : 1));
            for (int j = 0; j < o->nvals; j++) o->vals[j] = gen_val(h, T_BA, 0, 0);
        } else {
            int n = 1 + (int)h_below(h, 5); int w = vs > 0 ? vs : 4;
            val_t tmp[8];
            for (int j = 0; j < n; j++) tmp[j] = vs > 0 ? gen_val(h, t, tl, 0) : gen_bytes(h, 4);
            long long narg = h_chance(h, 1, 12) ? -(long long)h_below(h, 2) : n;
            *o = sb_mk_values(w, tmp, n, narg);
        }
    }
    do_sb(h, &c, risky);
    sb_free(&c);
}
/* directed: one V call with the given bit patterns */
static void gen_sb_bits(hctx* h, int t, const uint64_t* bits, int n) {
    sb_case c; c.t = t; c.tl = 0; c.nops = 1; c.ops = (sb_op*)h_alloc(sizeof(sb_op));
    int vs = type_width(t, 0); val_t tmp[8];
    for (int j = 0; j < n; j++) tmp[j] = v_make(&bits[j], vs);
    c.ops[0] = sb_mk_values(vs, tmp, n, n);
    do_sb(h, &c, 0); sb_free(&c);
}
static void gen_sb_strings(hctx* h, const int* lens, const uint8_t* fill, int n) {
    sb_case c; c.t = T_BA; c.tl = 0; c.nops = 1; c.ops = (sb_op*)h_alloc(sizeof(sb_op));
    sb_op* o = &c.ops[0]; memset(o, 0, sizeof *o); o->kind = 'B'; o->nvals = n;
    o->vals = (val_t*)h_alloc(sizeof(val_t) * (size_t)n);
    for (int j = 0; j < n; j++) { uint8_t* b = h_alloc((size_t)lens[j]); memset(b, fill[j], (size_t)lens[j]);
                                  o->vals[j].p = b; o->vals[j].len = lens[j]; o->vals[j].null = 0; }
    do_sb(h, &c, 0); sb_free(&c);
}

#include "ops_stats_pw.h"
#include "ops_stats_rgm.h"
#include "ops_stats_replay.h"

const h_component comp_stats = { "stats", gen_stats, replay_stats };
